package sctp

import (
	"testing"

	"github.com/stretchr/testify/require"
)

// f1OutstandingBytes sums the user bytes that are in flight and not yet acknowledged.
func f1OutstandingBytes(a *Association) int {
	total := 0
	for i := 0; i < a.inflightQueue.chunks.Len(); i++ {
		c := a.inflightQueue.chunks.At(i)
		if !c.acked {
			total += len(c.userData)
		}
	}

	return total
}

// C10: after a window probe that is larger than the (non-zero) remaining peer
// window, the sender keeps putting NEW data on the wire although the outstanding
// bytes already exceed the peer's most recently advertised receive window.
func TestF1_ProbeDoesNotConsumePeerWindow(t *testing.T) {
	a := createTestAssociation(t, Config{})
	a.lock.Lock()
	a.setState(established)
	a.peerVerificationTag = 1
	a.sourcePort = defaultSCTPSrcDstPort
	a.destinationPort = defaultSCTPSrcDstPort
	a.lock.Unlock()

	// The peer advertises a small but non-zero window; nothing is outstanding.
	const peerWindow = 100
	sack := &chunkSelectiveAck{
		cumulativeTSNAck:               a.cumulativeTSNAckPoint,
		advertisedReceiverWindowCredit: peerWindow,
	}
	raw, err := a.createPacket([]chunk{sack}).marshal(true)
	require.NoError(t, err)
	require.NoError(t, a.handleInbound(raw))
	require.Equal(t, uint32(peerWindow), a.RWND())

	s, err := a.OpenStream(1, PayloadTypeWebRTCBinary)
	require.NoError(t, err)

	// 1) a 1000-byte message: larger than the peer window, nothing outstanding
	//    -> goes out as the single tolerated window probe.
	_, err = s.WriteSCTP(make([]byte, 1000), PayloadTypeWebRTCBinary)
	require.NoError(t, err)
	pkts, _ := a.gatherOutbound() // what writeLoop does on every wake-up
	require.Len(t, pkts, 1, "the probe")
	require.Equal(t, 1000, f1OutstandingBytes(a))

	// 2) the application writes two more small messages. 1000 bytes are already
	//    outstanding against an advertised window of 100, so no NEW data may be sent.
	for range 2 {
		_, err = s.WriteSCTP(make([]byte, 50), PayloadTypeWebRTCBinary)
		require.NoError(t, err)
		_, _ = a.gatherOutbound()
	}

	a.lock.Lock()
	outstanding := f1OutstandingBytes(a)
	nInflight := a.inflightQueue.size()
	a.lock.Unlock()

	require.Equalf(t, 1, nInflight,
		"only the single probe chunk may be outstanding while the peer window (%d) is exceeded, "+
			"but %d chunks / %d bytes are outstanding", peerWindow, nInflight, outstanding)
}
