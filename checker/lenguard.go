package main

import (
	"fmt"
	"go/token"
	"go/types"
	"sort"
	"strings"

	"golang.org/x/tools/go/ssa"
)

// E7 — length-guard analysis for the decode region.
//
// Every slice index, slice expression and binary.*Endian access must be proven
// in bounds from dominating branch outcomes. Quantities are linear expressions
// over atoms (len(slice) terms, SSA integer values); a need  E >= 0  is proven
// when E = F + (non-negative atoms) + c with c >= 0 for some dominating fact
// F >= 0 (or trivially when E itself is non-negative). What cannot be proven
// inside a function but only mentions len(parameter) becomes a precondition
// that every call site must prove in turn.

type linExpr struct {
	coef map[string]int64
	atom map[string]ssa.Value // representative value per atom (for sign info)
	c    int64
	ok   bool
}

func newLin() linExpr {
	return linExpr{coef: map[string]int64{}, atom: map[string]ssa.Value{}, ok: true}
}

func (a linExpr) add(b linExpr, k int64) linExpr {
	r := newLin()
	r.ok = a.ok && b.ok
	for x, v := range a.coef {
		r.coef[x] += v
		r.atom[x] = a.atom[x]
	}
	for x, v := range b.coef {
		r.coef[x] += k * v
		if r.atom[x] == nil {
			r.atom[x] = b.atom[x]
		}
	}
	for x, v := range r.coef {
		if v == 0 {
			delete(r.coef, x)
		}
	}
	r.c = a.c + k*b.c
	return r
}

func (a linExpr) String() string {
	if !a.ok {
		return "?"
	}
	var parts []string
	var keys []string
	for k := range a.coef {
		keys = append(keys, k)
	}
	sort.Strings(keys)
	for _, k := range keys {
		parts = append(parts, fmt.Sprintf("%+d*%s", a.coef[k], k))
	}
	parts = append(parts, fmt.Sprintf("%+d", a.c))
	return strings.Join(parts, " ")
}

type lgEngine struct {
	p *Prog
	// preconditions discovered: fn -> param index -> required minimum length
	pre map[*ssa.Function]map[int]int64
}

// sliceKey canonicalises a slice-typed value: loads of the same field from the
// same base share a key.
func (g *lgEngine) sliceKey(v ssa.Value) string {
	v = unconv(v)
	if f, base := loadedField(v); f != nil {
		return fmt.Sprintf("len(%s.%s)", baseKey(base), f.Name())
	}
	return "len(" + atomKey(v) + ")"
}

func baseKey(v ssa.Value) string {
	switch x := v.(type) {
	case *ssa.Parameter:
		return x.Name()
	case *ssa.FieldAddr:
		if f := fieldOf(x.X.Type(), x.Field); f != nil {
			return baseKey(x.X) + "." + f.Name()
		}
	case *ssa.Alloc:
		return "&" + x.Comment
	case *ssa.UnOp:
		return "*" + baseKey(x.X)
	}
	return atomKey(v)
}

// lenOfSlice gives len(v) as a linear expression.
func (g *lgEngine) lenOfSlice(v ssa.Value, d int) linExpr {
	v = unconv(v)
	if d > 8 {
		r := newLin()
		r.ok = false
		return r
	}
	switch x := v.(type) {
	case *ssa.Slice:
		// arrays: pointer to array
		var hi linExpr
		if x.High != nil {
			hi = g.lin(x.High, d+1)
		} else {
			hi = g.lenOfSlice(x.X, d+1)
		}
		lo := newLin()
		if x.Low != nil {
			lo = g.lin(x.Low, d+1)
		}
		return hi.add(lo, -1)
	case *ssa.MakeSlice:
		return g.lin(x.Len, d+1)
	case *ssa.Alloc:
		if arr, ok := x.Type().(*types.Pointer).Elem().Underlying().(*types.Array); ok {
			r := newLin()
			r.c = arr.Len()
			return r
		}
	case *ssa.Const:
		r := newLin()
		if x.Value == nil {
			return r // nil slice: len 0
		}
	}
	if pt, ok := v.Type().Underlying().(*types.Pointer); ok {
		if arr, ok := pt.Elem().Underlying().(*types.Array); ok {
			r := newLin()
			r.c = arr.Len()
			return r
		}
	}
	r := newLin()
	k := g.sliceKey(v)
	r.coef[k] = 1
	r.atom[k] = nil // len atoms are non-negative by construction
	return r
}

// lin linearises an integer value.
func (g *lgEngine) lin(v ssa.Value, d int) linExpr {
	r := newLin()
	if v == nil {
		return r
	}
	if k, ok := constInt(v); ok {
		r.c = k
		return r
	}
	if d > 10 {
		r.ok = false
		return r
	}
	switch x := v.(type) {
	case *ssa.Convert:
		// integer conversions: value-preserving when widening from unsigned or same size;
		// we treat int<->int conversions as identity (narrowing is not used on lengths here)
		if isIntType(x.X.Type()) && isIntType(x.Type()) {
			inner := g.lin(x.X, d+1)
			// a narrowing/ sign-changing conversion of an expression that may be negative is kept as an opaque atom
			if !isUnsigned(x.X.Type()) && isUnsigned(x.Type()) {
				break
			}
			if sizeOf(x.Type()) < sizeOf(x.X.Type()) {
				break
			}
			if isUnsigned(x.X.Type()) && len(inner.coef) > 0 && hasNegCoef(inner) {
				break // unsigned arithmetic may have wrapped
			}
			return inner
		}
	case *ssa.ChangeType:
		return g.lin(x.X, d+1)
	case *ssa.BinOp:
		switch x.Op {
		case token.ADD:
			// unsigned additions of lengths/offsets are assumed not to overflow (values are
			// bounded by the 16-bit length fields they were read from; stated in the assumptions)
			return g.lin(x.X, d+1).add(g.lin(x.Y, d+1), 1)
		case token.SUB:
			if isUnsigned(x.Type()) {
				// wraps if negative: linear only when a dominating fact shows x >= y
				df := g.lin(x.X, d+1).add(g.lin(x.Y, d+1), -1)
				if in, ok := v.(ssa.Instruction); ok && df.ok && g.proveBasic(df, g.factsAtInstr(in)) {
					return df
				}
				break
			}
			return g.lin(x.X, d+1).add(g.lin(x.Y, d+1), -1)
		case token.MUL:
			// multiplication by a constant (no-overflow assumption as for ADD)
			if k, ok := constInt(x.X); ok && k >= 0 {
				z := newLin()
				return z.add(g.lin(x.Y, d+1), k)
			}
			if k, ok := constInt(x.Y); ok && k >= 0 {
				z := newLin()
				return z.add(g.lin(x.X, d+1), k)
			}
		case token.QUO:
			// exact division: every coefficient and the constant divisible by k
			if k, ok := constInt(x.Y); ok && k > 0 {
				inner := g.lin(x.X, d+1)
				if inner.ok {
					exact := inner.c%k == 0
					for _, cf := range inner.coef {
						if cf%k != 0 {
							exact = false
						}
					}
					if exact && len(inner.coef) > 0 {
						q := newLin()
						for a, cf := range inner.coef {
							q.coef[a] = cf / k
							q.atom[a] = inner.atom[a]
						}
						q.c = inner.c / k
						return q
					}
				}
			}
		}
	case *ssa.Call:
		if b, ok := x.Call.Value.(*ssa.Builtin); ok && b.Name() == "len" {
			return g.lenOfSlice(x.Call.Args[0], d+1)
		}
	}
	k := atomKey(v)
	r.coef[k] = 1
	r.atom[k] = v
	return r
}

// atomKey: a key that identifies the value within one function.
func atomKey(v ssa.Value) string {
	switch x := v.(type) {
	case *ssa.Phi:
		return fmt.Sprintf("φ%s@b%d", x.Comment, x.Block().Index)
	case *ssa.UnOp:
		if f, base := loadedField(x); f != nil {
			return baseKey(base) + "." + f.Name()
		}
	case *ssa.Parameter:
		return x.Name()
	}
	if in, ok := v.(ssa.Instruction); ok && in.Block() != nil {
		return fmt.Sprintf("%s@b%d", v.Name(), in.Block().Index)
	}
	return fmt.Sprintf("%s#%p", v.Name(), v)
}

// phiLowerBound: for a loop counter φ(c0, φ+d, …) with constant start(s) and
// non-negative increments, the smallest start value.
func phiLowerBound(phi *ssa.Phi, seen map[*ssa.Phi]bool) (int64, bool) {
	if seen[phi] {
		return 1 << 40, true // neutral for min
	}
	seen[phi] = true
	var lb int64 = 1 << 40
	for _, e := range phi.Edges {
		if k, ok := constInt(e); ok {
			if k < lb {
				lb = k
			}
			continue
		}
		switch x := unconv(e).(type) {
		case *ssa.Phi:
			k, ok := phiLowerBound(x, seen)
			if !ok {
				return 0, false
			}
			if k < lb {
				lb = k
			}
		case *ssa.BinOp:
			if x.Op != token.ADD {
				return 0, false
			}
			base, isPhi := unconv(x.X).(*ssa.Phi)
			if !isPhi {
				return 0, false
			}
			// increment must be non-negative
			inc := x.Y
			okInc := false
			if k, ok := constInt(inc); ok && k >= 0 {
				okInc = true
			} else if nonNegAtom(atomKey(unconv(inc)), unconv(inc)) {
				okInc = true
			} else if b2, ok := unconv(inc).(*ssa.BinOp); ok && b2.Op == token.ADD {
				// sum of non-negative things
				l, r := unconv(b2.X), unconv(b2.Y)
				ln := nonNegAtom(atomKey(l), l)
				rn := nonNegAtom(atomKey(r), r)
				if kk, isK := constInt(l); isK && kk >= 0 {
					ln = true
				}
				if kk, isK := constInt(r); isK && kk >= 0 {
					rn = true
				}
				okInc = ln && rn
			}
			if !okInc {
				return 0, false
			}
			k, ok := phiLowerBound(base, seen)
			if !ok {
				return 0, false
			}
			if k < lb {
				lb = k
			}
		default:
			return 0, false
		}
	}
	return lb, lb < 1<<39
}

func hasNegCoef(e linExpr) bool {
	for _, v := range e.coef {
		if v < 0 {
			return true
		}
	}
	return false
}

func isIntType(t types.Type) bool {
	b, ok := t.Underlying().(*types.Basic)
	return ok && b.Info()&types.IsInteger != 0
}

func isUnsigned(t types.Type) bool {
	b, ok := t.Underlying().(*types.Basic)
	return ok && b.Info()&types.IsUnsigned != 0
}

func sizeOf(t types.Type) int {
	b, ok := t.Underlying().(*types.Basic)
	if !ok {
		return 8
	}
	switch b.Kind() {
	case types.Int8, types.Uint8:
		return 1
	case types.Int16, types.Uint16:
		return 2
	case types.Int32, types.Uint32:
		return 4
	}
	return 8
}

// nonNegAtom: the atom is known to be >= 0.
func nonNegAtom(name string, v ssa.Value) bool {
	if strings.HasPrefix(name, "len(") {
		return true
	}
	if v == nil {
		return false
	}
	if isUnsigned(v.Type()) {
		return true
	}
	if cv, ok := v.(*ssa.Convert); ok && isUnsigned(cv.X.Type()) && sizeOf(cv.Type()) > sizeOf(cv.X.Type()) {
		return true
	}
	if call, ok := v.(*ssa.Call); ok {
		if b, ok := call.Call.Value.(*ssa.Builtin); ok && (b.Name() == "len" || b.Name() == "cap") {
			return true
		}
	}
	// results of in-package functions whose every return value is non-negative
	if call, ok := v.(*ssa.Call); ok && curProg != nil {
		if callResultNonNeg(curProg, call, 0) {
			return true
		}
	}
	// loads of integer fields that only ever receive non-negative values
	if f, _ := loadedField(v); f != nil && curProg != nil && fieldNonNeg(curProg, f) {
		return true
	}
	// x % k with x >= 0
	if b, ok := v.(*ssa.BinOp); ok && b.Op == token.REM {
		if k, ok := constInt(b.Y); ok && k > 0 {
			l := unconv(b.X)
			if nonNegAtom(atomKey(l), l) {
				return true
			}
		}
	}
	// range index / loop counters starting at 0 or -1+1
	if b, ok := v.(*ssa.BinOp); ok && b.Op == token.ADD {
		if phi, ok := b.X.(*ssa.Phi); ok && IsConstInt(1)(b.Y) {
			for _, e := range phi.Edges {
				if k, ok := constInt(e); ok && k == -1 {
					return true
				}
			}
		}
	}
	return false
}

var curProg *Prog

var nonNegMemo = map[*ssa.Function]int{} // 1 in progress / yes, 2 no

// valueNonNeg: structural non-negativity of an integer expression.
func valueNonNeg(p *Prog, v ssa.Value, d int) bool {
	v0 := v
	v = unconv(v)
	if d > 6 {
		return false
	}
	if k, ok := constInt(v); ok {
		return k >= 0
	}
	if cv, ok := v0.(*ssa.Convert); ok && isUnsigned(cv.X.Type()) && sizeOf(cv.Type()) > sizeOf(cv.X.Type()) {
		return true
	}
	if nonNegAtom(atomKey(v), v) {
		return true
	}
	switch x := v.(type) {
	case *ssa.BinOp:
		switch x.Op {
		case token.ADD, token.MUL:
			return valueNonNeg(p, x.X, d+1) && valueNonNeg(p, x.Y, d+1)
		case token.QUO, token.REM:
			if k, ok := constInt(x.Y); ok && k > 0 {
				return valueNonNeg(p, x.X, d+1)
			}
		case token.SUB:
			// k - (y % k)
			if k, ok := constInt(x.X); ok {
				if r, ok := unconv(x.Y).(*ssa.BinOp); ok && r.Op == token.REM {
					if k2, ok := constInt(r.Y); ok && k2 <= k && valueNonNeg(p, r.X, d+1) {
						return true
					}
				}
			}
		}
	case *ssa.Phi:
		if lb, ok := phiLowerBound(x, map[*ssa.Phi]bool{}); ok && lb >= 0 {
			return true
		}
	case *ssa.Convert:
		if isUnsigned(x.X.Type()) && sizeOf(x.Type()) > sizeOf(x.X.Type()) {
			return true
		}
	}
	return false
}

func callResultNonNeg(p *Prog, call *ssa.Call, d int) bool {
	var callees []*ssa.Function
	if call.Call.IsInvoke() {
		callees = p.calleesOfInstr(call)
	} else if sc := call.Call.StaticCallee(); sc != nil && p.inPkg(sc) && sc.Blocks != nil {
		callees = []*ssa.Function{sc}
	}
	if len(callees) == 0 {
		return false
	}
	for _, fn := range callees {
		switch nonNegMemo[fn] {
		case 2:
			return false
		case 1:
			continue
		}
		nonNegMemo[fn] = 1
		ok := fn.Signature.Results().Len() >= 1 && isIntType(fn.Signature.Results().At(0).Type())
		if ok {
			for _, r := range allReturns(fn) {
				res := retResults(r)
				rv := res[0]
				// the parameter is assumed non-negative for helpers like getPadding(len(x))
				if !valueNonNegAssumingParams(p, rv, d+1) {
					ok = false
				}
			}
		}
		if !ok {
			nonNegMemo[fn] = 2
			return false
		}
	}
	return true
}

func valueNonNegAssumingParams(p *Prog, v ssa.Value, d int) bool {
	if valueNonNeg(p, v, d) {
		return true
	}
	// (k - (param % k)) % k and similar: treat integer parameters as non-negative
	// lengths (all call sites pass len(...) or a non-negative count; checked by callers' own obligations)
	v = unconv(v)
	if b, ok := v.(*ssa.BinOp); ok {
		switch b.Op {
		case token.REM, token.QUO:
			if k, ok := constInt(b.Y); ok && k > 0 {
				return valueNonNegAssumingParams(p, b.X, d+1)
			}
		case token.SUB:
			if k, ok := constInt(b.X); ok {
				if r, ok := unconv(b.Y).(*ssa.BinOp); ok && r.Op == token.REM {
					if k2, ok := constInt(r.Y); ok && k2 <= k {
						return true
					}
				}
			}
		case token.ADD, token.MUL:
			return valueNonNegAssumingParams(p, b.X, d+1) && valueNonNegAssumingParams(p, b.Y, d+1)
		}
	}
	if _, isParam := v.(*ssa.Parameter); isParam {
		return true
	}
	return false
}

var fieldNonNegMemo = map[*types.Var]int{}

func fieldNonNeg(p *Prog, f *types.Var) bool {
	if !isIntType(f.Type()) {
		return false
	}
	if isUnsigned(f.Type()) {
		return true
	}
	switch fieldNonNegMemo[f] {
	case 1:
		return true
	case 2:
		return false
	}
	fieldNonNegMemo[f] = 1
	ws := p.Writes(f)
	ok := len(ws) > 0
	for _, a := range ws {
		if a.Kind != AccWrite || a.Val == nil || !valueNonNeg(p, a.Val, 0) {
			ok = false
		}
	}
	if !ok {
		fieldNonNegMemo[f] = 2
	}
	return ok
}

// provenNonNeg: E >= 0 with only non-negative atoms at positive coefficients.
func provenNonNeg(e linExpr) bool {
	if !e.ok {
		return false
	}
	c := e.c
	for k, v := range e.coef {
		if v < 0 {
			return false
		}
		if nonNegAtom(k, e.atom[k]) {
			continue
		}
		if phi, ok := e.atom[k].(*ssa.Phi); ok {
			if lb, ok := phiLowerBound(phi, map[*ssa.Phi]bool{}); ok {
				c += v * lb
				continue
			}
		}
		return false
	}
	return c >= 0
}

// factsAtInstr turns dominating comparisons into expressions known >= 0.
// phiEdgeFacts: rotated loops (range-over-int, for-range) test the *next*
// counter value on the latch and the initial value before entry, so no single
// branch dominates the body. If every edge into a φ is taken under
// "incoming(φ) op N" with the same N, then "φ op N" holds where the φ's block
// dominates.
func (g *lgEngine) phiEdgeFacts(b *ssa.BasicBlock) []linExpr {
	var out []linExpr
	for _, in := range b.Instrs {
		phi, ok := in.(*ssa.Phi)
		if !ok {
			break
		}
		if !isIntType(phi.Type()) {
			continue
		}
		var op token.Token
		var bound ssa.Value
		okAll := len(phi.Edges) > 0
		for i, ed := range phi.Edges {
			pred := b.Preds[i]
			ifi, isIf := pred.Instrs[len(pred.Instrs)-1].(*ssa.If)
			if !isIf || pred.Succs[0] == pred.Succs[1] {
				okAll = false
				break
			}
			cv, t := normCond(ifi.Cond, pred.Succs[0] == b)
			bo, isB := cv.(*ssa.BinOp)
			if !isB {
				okAll = false
				break
			}
			eop := bo.Op
			if !t {
				eop = invertOp(eop)
			}
			x, y := bo.X, bo.Y
			// normalise to  incoming op bound
			if sameExpr(y, ed, 0) && !sameExpr(x, ed, 0) {
				x, y = y, x
				eop = swapOp(eop)
			}
			if !sameExpr(x, ed, 0) {
				okAll = false
				break
			}
			if bound == nil {
				bound, op = y, eop
			} else if !sameExpr(bound, y, 0) || op != eop {
				okAll = false
				break
			}
		}
		if !okAll || bound == nil {
			continue
		}
		x, y := g.lin(phi, 0), g.lin(bound, 0)
		if !x.ok || !y.ok {
			continue
		}
		switch op {
		case token.LSS:
			e := y.add(x, -1)
			e.c--
			out = append(out, e)
		case token.LEQ:
			out = append(out, y.add(x, -1))
		case token.GTR:
			e := x.add(y, -1)
			e.c--
			out = append(out, e)
		case token.GEQ:
			out = append(out, x.add(y, -1))
		}
	}
	return out
}

func (g *lgEngine) factsAtInstr(in ssa.Instruction) []linExpr {
	var out []linExpr
	for d := in.Block(); d != nil; d = d.Idom() {
		out = append(out, g.phiEdgeFacts(d)...)
	}
	for _, f := range DomFacts(in.Block()) {
		b, ok := f.Cond.(*ssa.BinOp)
		if !ok || !isIntType(b.X.Type()) {
			continue
		}
		op := b.Op
		if !f.Taken {
			op = invertOp(op)
		}
		x, y := g.lin(b.X, 0), g.lin(b.Y, 0)
		if !x.ok || !y.ok {
			continue
		}
		switch op {
		case token.LSS: // x < y  =>  y - x - 1 >= 0
			e := y.add(x, -1)
			e.c--
			out = append(out, e)
		case token.LEQ:
			out = append(out, y.add(x, -1))
		case token.GTR:
			e := x.add(y, -1)
			e.c--
			out = append(out, e)
		case token.GEQ:
			out = append(out, x.add(y, -1))
		case token.EQL:
			out = append(out, y.add(x, -1), x.add(y, -1))
		case token.NEQ:
			// x != y where one side is provably the smallest value the other can take: x ≥ y  ⇒  x − y − 1 ≥ 0
			if d := x.add(y, -1); provenNonNeg(d) {
				d.c--
				out = append(out, d)
			} else if d := y.add(x, -1); provenNonNeg(d) {
				d.c--
				out = append(out, d)
			}
		}
	}
	return out
}

// fieldMakeFacts: x.f = make([]T, n) dominating the access with no other store
// to f in the function  =>  len(x.f) = n.
func (g *lgEngine) fieldMakeFacts(fn *ssa.Function, at ssa.Instruction) []linExpr {
	var out []linExpr
	stores := map[*types.Var][]*ssa.Store{}
	forEachInstr(fn, func(in ssa.Instruction) {
		if st, ok := in.(*ssa.Store); ok {
			if f := fieldOfAddr(st.Addr); f != nil {
				if _, isSlice := f.Type().Underlying().(*types.Slice); isSlice {
					stores[f] = append(stores[f], st)
				}
			}
		}
	})
	for _, sts := range stores {
		if len(sts) != 1 || !InstrDominates(sts[0], at) {
			continue
		}
		ms, ok := unconv(sts[0].Val).(*ssa.MakeSlice)
		if !ok {
			continue
		}
		fa := sts[0].Addr.(*ssa.FieldAddr)
		f := fieldOf(fa.X.Type(), fa.Field)
		key := fmt.Sprintf("len(%s.%s)", baseKey(fa.X), f.Name())
		l := newLin()
		l.coef[key] = 1
		n := g.lin(ms.Len, 0)
		if n.ok {
			out = append(out, l.add(n, -1), n.add(l, -1))
		}
	}
	return out
}

// loopInvariants: for pairs of loop counters that move by the same amount in
// opposite directions on every back edge (offset += d; remaining -= d), their
// sum is invariant: φa + φb = a0 + b0 (both directions as facts).
func (g *lgEngine) loopInvariants(fn *ssa.Function) []linExpr {
	var out []linExpr
	for _, b := range fn.Blocks {
		var phis []*ssa.Phi
		for _, in := range b.Instrs {
			if p, ok := in.(*ssa.Phi); ok && isIntType(p.Type()) {
				phis = append(phis, p)
			}
		}
		for i, a := range phis {
			for _, bb := range phis[i+1:] {
				okPair := true
				var initSum linExpr
				haveInit := false
				isScaled := false
				var scaledA, scaledB int64
				var initA, initB linExpr
				for ei := range a.Edges {
					ea, eb := unconv(a.Edges[ei]), unconv(bb.Edges[ei])
					pred := b.Preds[ei]
					if b.Dominates(pred) { // back edge
						ba, okA := ea.(*ssa.BinOp)
						bB, okB := eb.(*ssa.BinOp)
						if !okA || !okB {
							okPair = false
							break
						}
						// both move by constants: kb*a - ka*b is invariant
						if ka, okKa := constInt(ba.Y); okKa && unconv(ba.X) == ssa.Value(a) && (ba.Op == token.ADD || ba.Op == token.SUB) {
							if kb, okKb := constInt(bB.Y); okKb && unconv(bB.X) == ssa.Value(bb) && (bB.Op == token.ADD || bB.Op == token.SUB) {
								if ba.Op == token.SUB {
									ka = -ka
								}
								if bB.Op == token.SUB {
									kb = -kb
								}
								scaledA, scaledB = ka, kb
								isScaled = true
								continue
							}
						}
						// a' = a + d ; b' = b - d
						switch {
						case ba.Op == token.ADD && bB.Op == token.SUB && unconv(ba.X) == ssa.Value(a) && unconv(bB.X) == ssa.Value(bb) && sameExpr(ba.Y, bB.Y, 0):
						case ba.Op == token.SUB && bB.Op == token.ADD && unconv(ba.X) == ssa.Value(a) && unconv(bB.X) == ssa.Value(bb) && sameExpr(ba.Y, bB.Y, 0):
						default:
							okPair = false
						}
						if !okPair {
							break
						}
					} else {
						initA, initB = g.lin(ea, 0), g.lin(eb, 0)
						s := initA.add(initB, 1)
						if !s.ok {
							okPair = false
							break
						}
						if haveInit && s.String() != initSum.String() {
							okPair = false
							break
						}
						initSum, haveInit = s, true
					}
				}
				if !okPair || !haveInit {
					continue
				}
				if isScaled {
					if scaledA == 0 && scaledB == 0 {
						continue
					}
					// kb*a - ka*b = kb*a0 - ka*b0
					z := newLin()
					lhs := z.add(g.lin(a, 0), scaledB).add(g.lin(bb, 0), -scaledA)
					rhs := z.add(initA, scaledB).add(initB, -scaledA)
					out = append(out, lhs.add(rhs, -1), rhs.add(lhs, -1))
					continue
				}
				sum := g.lin(a, 0).add(g.lin(bb, 0), 1)
				out = append(out, sum.add(initSum, -1), initSum.add(sum, -1))
			}
		}
	}
	return out
}

// defFacts: facts that hold by definition of values occurring in an expression:
// q = x / k  (k > 0, x >= 0)  =>  x - k*q >= 0 ;  r = x % k => x%k <= k-1 ;
// monotone loop counters are bounded by their start value.
func (g *lgEngine) defFacts(e linExpr, facts []linExpr, depth int) []linExpr {
	var out []linExpr
	if depth > 2 {
		return out
	}
	for _, v := range e.atom {
		if v == nil {
			continue
		}
		switch x := v.(type) {
		case *ssa.BinOp:
			if k, ok := constInt(x.Y); ok && k > 0 {
				switch x.Op {
				case token.QUO:
					dv := g.lin(x.X, 0)
					if dv.ok && (provenNonNeg(dv) || g.proveBasic(dv, facts)) {
						q := g.lin(x, 0)
						z := newLin()
						out = append(out, dv.add(z.add(q, k), -1)) // x - k*q >= 0
						// and x - k*q <= k-1
						up := z.add(q, k).add(dv, -1)
						up.c += k - 1
						out = append(out, up)
					}
				case token.REM:
					r := g.lin(x, 0)
					z := newLin()
					up := z.add(r, -1)
					up.c += k - 1
					out = append(out, up) // k-1 - r >= 0
				}
			}
		case *ssa.Phi:
			// increasing counter: φ - init >= 0 ; decreasing counter: init - φ >= 0
			dir := 0
			var init ssa.Value
			okShape := true
			for i, ed := range x.Edges {
				pred := x.Block().Preds[i]
				if x.Block().Dominates(pred) {
					b, ok := unconv(ed).(*ssa.BinOp)
					if !ok || unconv(b.X) != ssa.Value(x) {
						okShape = false
						break
					}
					inc := valueNonNeg(g.p, b.Y, 0)
					switch {
					case b.Op == token.ADD && inc:
						if dir == -1 {
							okShape = false
						}
						dir = 1
					case b.Op == token.SUB && inc:
						if dir == 1 {
							okShape = false
						}
						dir = -1
					default:
						okShape = false
					}
				} else {
					if init != nil && !sameExpr(init, ed, 0) {
						okShape = false
					}
					init = ed
				}
			}
			if okShape && dir != 0 && init != nil {
				il, pl := g.lin(init, 0), g.lin(x, 0)
				if il.ok {
					if dir == 1 {
						out = append(out, pl.add(il, -1))
					} else {
						out = append(out, il.add(pl, -1))
					}
				}
			}
		}
	}
	return out
}

func (g *lgEngine) proveBasic(need linExpr, facts []linExpr) bool {
	if provenNonNeg(need) {
		return true
	}
	for _, f := range facts {
		if provenNonNeg(need.add(f, -1)) {
			return true
		}
	}
	return false
}

// substituteEqualities rewrites need using facts that come in ± pairs
// (equalities) and have an atom with coefficient ±1 that occurs in need.
func substituteEqualities(need linExpr, facts []linExpr) linExpr {
	isEq := func(f linExpr) bool {
		neg := newLin().add(f, -1)
		for _, h := range facts {
			if h.String() == neg.String() {
				return true
			}
		}
		return false
	}
	for round := 0; round < 4; round++ {
		changed := false
		for _, f := range facts {
			if !f.ok || !isEq(f) {
				continue
			}
			for a, cf := range f.coef {
				nc, inNeed := need.coef[a]
				if !inNeed || (cf != 1 && cf != -1) {
					continue
				}
				// f = cf*a + rest = 0  =>  a = -rest/cf ; need += -(nc/cf) * f
				k := -nc / cf
				cand := need.add(f, k)
				if len(cand.coef) <= len(need.coef) {
					need = cand
					changed = true
				}
				break
			}
		}
		if !changed {
			break
		}
	}
	return need
}

// substituteEqualitiesAny: like substituteEqualities but does not insist that the
// result be smaller, and never rewrites an equality with itself.
func substituteEqualitiesAny(e linExpr, facts []linExpr) linExpr {
	neg := func(f linExpr) string { return newLin().add(f, -1).String() }
	strs := map[string]bool{}
	for _, h := range facts {
		strs[h.String()] = true
	}
	for _, f := range facts {
		if !f.ok || !strs[neg(f)] || f.String() == e.String() || neg(f) == e.String() {
			continue
		}
		for a, cf := range f.coef {
			nc, in := e.coef[a]
			if !in || (cf != 1 && cf != -1) {
				continue
			}
			return e.add(f, -nc/cf)
		}
	}
	return e
}

func (g *lgEngine) prove(need linExpr, facts []linExpr) bool {
	if !need.ok {
		return false
	}
	if provenNonNeg(need) {
		return true
	}
	facts = append(facts, g.defFacts(need, facts, 0)...)
	// definitions for atoms mentioned in the facts too (one level)
	for _, f := range facts[:len(facts):len(facts)] {
		if len(f.atom) > 0 && len(facts) < 200 {
			facts = append(facts, g.defFacts(f, facts, 1)...)
		}
	}
	// facts rewritten through the equalities among them (len(x.f) = n  ⇒  every fact about len(x.f) also holds of n)
	if len(facts) < 120 {
		base := facts[:len(facts):len(facts)]
		seen := map[string]bool{}
		for _, f := range base {
			seen[f.String()] = true
		}
		for _, f := range base {
			if !f.ok {
				continue
			}
			if r := substituteEqualitiesAny(f, base); r.ok && !seen[r.String()] && len(r.coef) > 0 {
				seen[r.String()] = true
				facts = append(facts, r)
			}
		}
	}
	cands := []linExpr{need, substituteEqualities(need, facts)}
	mult := []int64{1, 2, 3, 4, 8, 12, 16, 64}
	for _, nd := range cands {
		if provenNonNeg(nd) {
			return true
		}
		for _, f := range facts {
			for _, k := range mult {
				if provenNonNeg(nd.add(f, -k)) {
					return true
				}
			}
		}
		for i, f1 := range facts {
			for _, f2 := range facts[i:] {
				for _, k1 := range mult[:5] {
					for _, k2 := range mult[:5] {
						if provenNonNeg(nd.add(f1, -k1).add(f2, -k2)) {
							return true
						}
					}
				}
			}
		}
	}
	return false
}

type lgOblig struct {
	Fn    *ssa.Function
	Instr ssa.Instruction
	What  string
	Need  linExpr
	OK    bool
	Why   string
}

// obligations of one function: returns obligations and, for the unproven ones
// that depend only on len(param), the precondition they induce.
func (g *lgEngine) analyseFn(fn *ssa.Function) []lgOblig {
	var out []lgOblig
	invs := g.loopInvariants(fn)
	addNeed := func(in ssa.Instruction, what string, need linExpr) {
		facts := g.factsAtInstr(in)
		facts = append(facts, invs...)
		facts = append(facts, g.fieldMakeFacts(fn, in)...)
		// caller-provided preconditions on parameters
		for idx, k := range g.pre[fn] {
			if idx < len(fn.Params) {
				e := g.lenOfSlice(fn.Params[idx], 0)
				e.c -= k
				facts = append(facts, e)
			}
		}
		ok := g.prove(need, facts)
		why := ""
		if !ok {
			var fs []string
			for _, f := range facts {
				fs = append(fs, f.String())
			}
			for _, f := range g.defFacts(need, facts, 0) {
				fs = append(fs, "def: "+f.String())
			}
			why = strings.Join(fs, " ; ")
		}
		out = append(out, lgOblig{fn, in, what, need, ok, why})
	}
	forEachInstr(fn, func(in ssa.Instruction) {
		switch x := in.(type) {
		case *ssa.IndexAddr:
			if _, isSlice := x.X.Type().Underlying().(*types.Slice); !isSlice {
				if pt, ok := x.X.Type().Underlying().(*types.Pointer); ok {
					if arr, ok := pt.Elem().Underlying().(*types.Array); ok {
						if k, ok := constInt(x.Index); ok && k >= 0 && k < arr.Len() {
							return
						}
					}
				}
			}
			need := g.lenOfSlice(x.X, 0).add(g.lin(x.Index, 0), -1)
			need.c--
			addNeed(in, "index "+shortValue(g.p, x.X)+"["+shortValue(g.p, x.Index)+"]", need)
			// index >= 0
			lo := g.lin(x.Index, 0)
			addNeed(in, "index>=0 "+shortValue(g.p, x.Index), lo)
		case *ssa.Index:
			return
		case *ssa.Slice:
			if _, isStr := x.X.Type().Underlying().(*types.Basic); isStr {
				return
			}
			ln := g.lenOfSlice(x.X, 0)
			lo := newLin()
			if x.Low != nil {
				lo = g.lin(x.Low, 0)
				addNeed(in, "slice low>=0", lo)
			}
			if x.High != nil {
				hi := g.lin(x.High, 0)
				// high <= cap; we require high <= len (sufficient)
				addNeed(in, "slice high<=len "+shortValue(g.p, x.X), ln.add(hi, -1))
				addNeed(in, "slice low<=high", hi.add(lo, -1))
			} else if x.Low != nil {
				addNeed(in, "slice low<=len "+shortValue(g.p, x.X), ln.add(lo, -1))
			}
		case *ssa.Call:
			if name, _, ok := binaryCall(&x.Call); ok {
				w := int64(widthOf(name))
				if w > 0 {
					need := g.lenOfSlice(x.Call.Args[1], 0)
					need.c -= w
					addNeed(in, name+" needs "+fmt.Sprint(w)+" bytes", need)
				}
			}
			// in-package callee with slice params: instantiate its preconditions
			if sc := x.Call.StaticCallee(); sc != nil && g.p.inPkg(sc) {
				for idx, k := range g.pre[sc] {
					if idx < len(x.Call.Args) {
						need := g.lenOfSlice(x.Call.Args[idx], 0)
						need.c -= k
						addNeed(in, fmt.Sprintf("precondition of %s: len(arg%d) >= %d", g.p.FuncName(sc), idx, k), need)
					}
				}
			}
			if x.Call.IsInvoke() {
				for _, sc := range g.p.calleesOfInstr(in) {
					for idx, k := range g.pre[sc] {
						// invoke: Args exclude the receiver
						ai := idx - 1
						if ai >= 0 && ai < len(x.Call.Args) {
							need := g.lenOfSlice(x.Call.Args[ai], 0)
							need.c -= k
							addNeed(in, fmt.Sprintf("precondition of %s: len(arg%d) >= %d", g.p.FuncName(sc), idx, k), need)
						}
					}
				}
			}
		}
	})
	return out
}

// paramOnly: need mentions only len(param_i) (coefficient +1) and a constant:
// returns (param index, required length).
func (g *lgEngine) paramOnly(fn *ssa.Function, need linExpr) (int, int64, bool) {
	if !need.ok || len(need.coef) != 1 {
		return 0, 0, false
	}
	for k, v := range need.coef {
		if v != 1 {
			return 0, 0, false
		}
		for i, p := range fn.Params {
			if g.sliceKey(p) == k {
				return i, -need.c, true
			}
		}
	}
	return 0, 0, false
}

// Run analyses the region to a fixpoint of preconditions.
func (p *Prog) LengthGuards(region map[*ssa.Function]bool, roots map[*ssa.Function]bool) []lgOblig {
	curProg = p
	g := &lgEngine{p: p, pre: map[*ssa.Function]map[int]int64{}}
	var fns []*ssa.Function
	for fn := range region {
		fns = append(fns, fn)
	}
	sort.Slice(fns, func(i, j int) bool { return p.FuncName(fns[i]) < p.FuncName(fns[j]) })
	var last []lgOblig
	for iter := 0; iter < 8; iter++ {
		changed := false
		last = nil
		for _, fn := range fns {
			obs := g.analyseFn(fn)
			for i := range obs {
				o := &obs[i]
				if o.OK || roots[fn] {
					continue
				}
				if idx, k, ok := g.paramOnly(fn, o.Need); ok && k > 0 {
					if g.pre[fn] == nil {
						g.pre[fn] = map[int]int64{}
					}
					if g.pre[fn][idx] < k {
						g.pre[fn][idx] = k
						changed = true
					}
				}
			}
			last = append(last, obs...)
		}
		if !changed {
			break
		}
	}
	// final pass with the settled preconditions
	last = nil
	for _, fn := range fns {
		last = append(last, g.analyseFn(fn)...)
	}
	return last
}

// DebugFacts renders the facts available at an instruction (diagnostics).
func (g *lgEngine) DebugFacts(fn *ssa.Function, in ssa.Instruction) []string {
	var out []string
	for _, f := range g.factsAtInstr(in) {
		out = append(out, f.String())
	}
	for _, f := range g.loopInvariants(fn) {
		out = append(out, "inv: "+f.String())
	}
	return out
}
