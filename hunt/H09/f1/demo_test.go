package sctp

import (
	"context"
	"encoding/binary"
	"testing"
	"time"

	"github.com/pion/transport/v4/test"
	"github.com/stretchr/testify/require"
)

// A reliable ordered stream (classic DATA chunks, 16-bit SSN) whose reader is
// slower than its writer: the sender writes more than 32768 small messages
// before the receiver application starts reading. No packet is lost,
// duplicated or reordered. Every message fits in the receive buffer
// (33000 * 4 bytes << 1 MiB).
func TestHunt1SlowReaderLosesMessagesBeyondHalfSSNSpace(t *testing.T) {
	const nMsgs = 33000
	const si uint16 = 7

	br := test.NewBridge()
	a0, a1, err := createNewAssociationPair(br, ackModeNoDelay, 0)
	require.NoError(t, err)
	defer closeAssociationPair(br, a0, a1)

	s0, s1, err := establishSessionPair(br, a0, a1, si)
	require.NoError(t, err)
	require.False(t, a0.useInterleaving)

	msg := make([]byte, 4)
	for i := 0; i < nMsgs; i++ {
		binary.BigEndian.PutUint32(msg, uint32(i))
		n, werr := s0.WriteSCTP(msg, PayloadTypeWebRTCBinary)
		require.NoError(t, werr)
		require.Equal(t, 4, n)
	}

	// Deliver everything; the receiving application has not read yet.
	for deadline := time.Now().Add(20 * time.Second); time.Now().Before(deadline); {
		if br.Tick() == 0 {
			if a0.BufferedAmount() == 0 {
				break
			}
			time.Sleep(200 * time.Microsecond)
		}
	}
	require.Equal(t, uint64(0), s0.BufferedAmount(), "sender saw every byte acknowledged")

	_ = s1.SetReadDeadline(time.Now().Add(2 * time.Second))
	buf := make([]byte, 64)
	got := 0
	for ; got < nMsgs; got++ {
		n, ppi, rerr := s1.ReadSCTP(buf)
		if rerr != nil {
			t.Fatalf("read #%d failed: %v (all %d messages were accepted by Write and acknowledged by the peer)",
				got, rerr, nMsgs)
		}
		require.Equal(t, 4, n)
		require.Equal(t, PayloadTypeWebRTCBinary, ppi)
		require.Equal(t, uint32(got), binary.BigEndian.Uint32(buf[:4]), "message order")
	}
}

// Same workload, seen through property C08: Shutdown returns nil (every chunk
// was acknowledged), yet the peer can read only the first 32769 messages
// before its stream reports closure.
func TestHunt1bShutdownSucceedsButPeerCannotReadEverything(t *testing.T) {
	const nMsgs = 33000
	const si uint16 = 7

	br := test.NewBridge()
	a0, a1, err := createNewAssociationPair(br, ackModeNoDelay, 0)
	require.NoError(t, err)
	defer closeAssociationPair(br, a0, a1)

	s0, s1, err := establishSessionPair(br, a0, a1, si)
	require.NoError(t, err)

	msg := make([]byte, 4)
	for i := 0; i < nMsgs; i++ {
		binary.BigEndian.PutUint32(msg, uint32(i))
		_, werr := s0.WriteSCTP(msg, PayloadTypeWebRTCBinary)
		require.NoError(t, werr)
	}

	ctx, cancel := context.WithTimeout(context.Background(), 20*time.Second)
	defer cancel()
	done := make(chan error, 1)
	go func() { done <- a0.Shutdown(ctx) }()
	var serr error
loop:
	for {
		select {
		case serr = <-done:
			break loop
		default:
			if br.Tick() == 0 {
				time.Sleep(200 * time.Microsecond)
			}
		}
	}
	require.NoError(t, serr, "Shutdown")
	for i := 0; i < 100; i++ { // let the peer finish (SHUTDOWN COMPLETE)
		br.Tick()
		time.Sleep(time.Millisecond)
	}

	_ = s1.SetReadDeadline(time.Now().Add(2 * time.Second))
	buf := make([]byte, 64)
	got := 0
	var rerr error
	for {
		var n int
		n, _, rerr = s1.ReadSCTP(buf)
		if rerr != nil {
			break
		}
		require.Equal(t, 4, n)
		require.Equal(t, uint32(got), binary.BigEndian.Uint32(buf[:4]))
		got++
	}
	require.Equal(t, nMsgs, got,
		"Shutdown returned nil but the peer could read only %d of %d messages before its stream reported %v", got, nMsgs, rerr)
}
