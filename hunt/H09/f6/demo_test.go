package sctp

import (
	"context"
	"encoding/binary"
	"fmt"
	"sync"
	"sync/atomic"
	"testing"
	"time"

	"github.com/stretchr/testify/require"
)

// Several goroutines write to the SAME reliable ordered stream (Stream is
// documented/used like a net.Conn, concurrent Write calls are allowed and the
// library itself serialises them only in BlockWrite mode) while the
// application calls Shutdown. No packet is lost.
//
// The outcome depends on the goroutine schedule (C01/C08 quantify over all
// schedules), so the scenario is repeated; on the unmodified code the
// violation shows up within the first few rounds.
func hunt6Round(t *testing.T) (violation string) {
	t.Helper()
	c1, c2 := createUDPConnPair()
	a1, a2, err := createAssociationPair(c1, c2)
	require.NoError(t, err)
	defer func() {
		_ = a1.Close()
		_ = a2.Close()
	}()

	s1, err := a1.OpenStream(1, PayloadTypeWebRTCBinary)
	require.NoError(t, err)
	_, err = s1.WriteSCTP([]byte("hello"), PayloadTypeWebRTCDCEP)
	require.NoError(t, err)
	s2, err := a2.AcceptStream()
	require.NoError(t, err)
	hb := make([]byte, 16)
	_, _, err = s2.ReadSCTP(hb)
	require.NoError(t, err)

	var shutdownCalled atomic.Bool
	var mu sync.Mutex
	acceptedBeforeCall := map[uint32]bool{}
	stop := make(chan struct{})
	var wg sync.WaitGroup
	for w := 0; w < 8; w++ {
		wg.Add(1)
		go func(w int) {
			defer wg.Done()
			msg := make([]byte, 4)
			for i := 0; ; i++ {
				select {
				case <-stop:
					return
				default:
				}
				id := uint32(w<<24 | i)
				binary.BigEndian.PutUint32(msg, id)
				_, werr := s1.WriteSCTP(msg, PayloadTypeWebRTCBinary)
				if werr != nil {
					return // rejected: shutdown has begun
				}
				// Count only writes that had already returned successfully
				// when Shutdown had not yet been called.
				if !shutdownCalled.Load() {
					mu.Lock()
					acceptedBeforeCall[id] = true
					mu.Unlock()
				}
			}
		}(w)
	}

	delivered := map[uint32]bool{}
	readerDone := make(chan struct{})
	go func() {
		defer close(readerDone)
		buf := make([]byte, 64)
		for {
			n, _, rerr := s2.ReadSCTP(buf)
			if rerr != nil {
				return // the peer's stream reports closure
			}
			if n == 4 {
				delivered[binary.BigEndian.Uint32(buf)] = true
			}
		}
	}()

	time.Sleep(2 * time.Millisecond)
	ctx, cancel := context.WithTimeout(context.Background(), 5*time.Second)
	defer cancel()
	shutdownCalled.Store(true)
	serr := a1.Shutdown(ctx)
	close(stop)
	wg.Wait()
	if serr != nil {
		return "" // not the case under test
	}

	// Shutdown returned nil. Wait for the peer to finish and its stream to report closure.
	select {
	case <-a2.readLoopCloseCh:
	case <-time.After(2 * time.Second):
		_ = a2.Close()
	}
	select {
	case <-readerDone:
	case <-time.After(2 * time.Second):
		return "peer stream never reported closure"
	}

	mu.Lock()
	defer mu.Unlock()
	missing := 0
	for id := range acceptedBeforeCall {
		if !delivered[id] {
			missing++
		}
	}
	if missing > 0 {
		rq := s2.reassemblyQueue
		waitsFor, held := uint32(rq.nextSSN), len(rq.ordered)
		if a2.useInterleaving {
			waitsFor, held = rq.nextMID, len(rq.orderedMID)
		}
		return fmt.Sprintf("Shutdown returned nil, but %d of the %d messages whose Write had returned nil before the call "+
			"were never readable at the peer (delivered %d; the receiver still waits for SSN/MID %d, which the sender "+
			"never transmitted, and holds %d later complete messages behind it)",
			missing, len(acceptedBeforeCall), len(delivered), waitsFor, held)
	}

	return ""
}

func TestHunt6ConcurrentWritersAndShutdownLeaveSSNHole(t *testing.T) {
	for round := 1; round <= 60; round++ {
		if v := hunt6Round(t); v != "" {
			t.Fatalf("round %d: %s", round, v)
		}
	}
	t.Log("schedule-dependent violation not reproduced in 60 rounds")
}
