package main

import (
	"fmt"
	"os"
	"sort"
	"strings"
)

func init() {
	register(&Rule{ID: "C00.R0", Props: []string{"C00"}, Title: "debug: state matrix dump", MinInst: 0, Run: func(c *RuleCtx) {
		if os.Getenv("VERIF_DEBUG") == "" {
			c.Ok("debug", "", "off")
			return
		}
		e, err := c.P.States()
		if err != nil {
			panic(err)
		}
		hc := c.Fn("Association.handleChunk")
		var handlers []string
		for _, ed := range c.P.Callees(hc) {
			n := c.P.FuncName(ed.To)
			if strings.HasPrefix(n, "Association.handle") && ed.Kind == "static" {
				handlers = append(handlers, n)
			}
		}
		sort.Strings(handlers)
		for _, h := range handlers {
			fn := c.Fn(h)
			for i, sn := range e.names {
				run := e.Run(fn, 1<<uint(i))
				effs := c.P.EffectsOf(run.Reach)
				set := map[string]bool{}
				for _, ef := range effs {
					set[ef.Label] = true
				}
				var ls []string
				for l := range set {
					ls = append(ls, l)
				}
				sort.Strings(ls)
				fmt.Printf("%-40s %-18s %s\n", h, sn, strings.Join(ls, " "))
			}
		}
		c.Ok("debug", "", "dumped")
	}})
}
