package main

import (
	"fmt"
	"go/token"
	"strings"

	"golang.org/x/tools/go/ssa"
)

// Rules added after the fourth round of seeded defects (DESIGN §9).

func init() {
	register(&Rule{ID: "C08.R6", Props: []string{"C08", "C02", "C19"}, Engine: "E3",
		Title:   "T2-shutdown is never left stopped with the shutdown unfinished: every t2Shutdown.stop() is followed, on every path to the function's exit, by raising a flag whose emission restarts T2 (willSendShutdown / willSendShutdownAck), by the SHUTDOWN-COMPLETE step, or by closing the association — T2 is restarted only when a SHUTDOWN or SHUTDOWN-ACK is emitted, so a bare stop ends retransmission for good",
		MinInst: 4,
		Run: func(c *RuleCtx) {
			t2 := c.field("Association", "t2Shutdown")
			stopFn := c.Fn("rtxTimer.stop")
			flags := map[string]bool{"willSendShutdown": true, "willSendShutdownAck": true, "willSendShutdownComplete": true}
			closeFn := c.Fn("Association.close")
			ks := keyer{}
			for _, fn := range c.P.Funcs {
				for _, sc := range callsIn(fn, stopFn) {
					if !IsLoadOf(t2)(callArg(sc, 0)) {
						continue
					}
					isResume := func(x ssa.Instruction) bool {
						if st, ok := x.(*ssa.Store); ok && IsConstBool(true)(st.Val) {
							if f := fieldOfAddr(st.Addr); f != nil && flags[f.Name()] {
								return true
							}
						}
						if ci, ok := x.(ssa.CallInstruction); ok && ci.Common().StaticCallee() == closeFn {
							return true
						}
						return false
					}
					okAfter, bad := MustPass(sc, isResume, nil)
					// or the flag was raised just before the stop (same straight-line region)
					okBefore := false
					forEachInstr(fn, func(x ssa.Instruction) {
						if isResume(x) && InstrDominates(x, sc) {
							// nothing between may clear it: accept when no store of false to the same flag follows
							okBefore = true
						}
					})
					c.Check(okAfter || okBefore, ks.key("t2-stop-resumes@"+c.P.FuncName(fn)), c.Pos(sc), "stopping T2 is paired with a (re)emission request or the end of the association",
						"T2-shutdown is stopped on a path that neither requests a SHUTDOWN/SHUTDOWN-ACK (whose emission restarts T2) nor ends the association: "+c.P.InstrPos(bad))
				}
			}
		}})

	register(&Rule{ID: "C04.R11", Props: []string{"C04", "C09"}, Engine: "E2",
		Title:   "the connect call is answered only by the events that end a handshake: completeHandshake is called from COOKIE-ECHO / COOKIE-ACK processing (established, or establishing failed) and from the exhausted-retry callback, nowhere else — in particular not from a retransmission attempt that found nothing to send, which a late timer callback legitimately does",
		MinInst: 4,
		Run: func(c *RuleCtx) {
			ch := c.Fn("Association.completeHandshake")
			c.CallersWithin("handshake-result", ch, "Association.handleCookieEcho", "Association.handleCookieAck", "Association.onRetransmissionFailure")
		}})

	register(&Rule{ID: "C10.R9", Props: []string{"C10", "C04"}, Engine: "E2-dataflow",
		Title:   "the peer's receive window comes from the peer: in handleInit / handleInitAck the value given to setRWND is the advertisedReceiverWindowCredit of the chunk that was received (the handler's chunk parameter), never of the chunk being built in reply",
		MinInst: 2,
		Run: func(c *RuleCtx) {
			setR := c.Fn("Association.setRWND")
			arw := c.field("chunkInitCommon", "advertisedReceiverWindowCredit")
			for _, name := range []string{"Association.handleInit", "Association.handleInitAck"} {
				fn := c.Fn(name)
				n := 0
				for _, g := range c.P.Region(fn) {
					for _, sc := range callsIn(g, setR) {
						n++
						arg := unconv(callArg(sc, 1))
						_, base := loadedField(arg)
						ok := IsLoadOf(arw)(arg) && base != nil
						if ok {
							// base: &param.chunkInitCommon with param the received chunk (parameter index 2 of the handler)
							root := addrRoot(base)
							ok = false
							for d := 0; d < 4 && root != nil; d++ {
								if root == ssa.Value(fn.Params[2]) {
									ok = true
									break
								}
								p, isP := root.(*ssa.Parameter)
								if !isP || p.Parent() == fn {
									break
								}
								root = through(p) // a helper of the handler that was handed the chunk
								if root != nil {
									root = addrRoot(unconv(root))
								}
							}
						}
						c.Check(ok, "rwnd-from-received-chunk@"+name, c.Pos(sc), "setRWND(<received chunk>.advertisedReceiverWindowCredit)", "the peer's window is not taken from the received chunk's a_rwnd (e.g. from the reply being built: our own buffer size is then used as the peer's window until the first SACK)")
					}
				}
				c.Check(n == 1, "rwnd-set-once@"+name, c.P.Pos(fn.Pos()), "one setRWND in the handler", fmt.Sprintf("%d setRWND calls", n))
			}
		}})
}

var _ = strings.Join

func init() {
	register(&Rule{ID: "C03.R13", Props: []string{"C03", "C06"}, Engine: "E3",
		Title:   "the unordered-fragment scan slices only an opened run: in findCompleteUnorderedChunkSet a run is declared complete (found = true) only on a path where a beginning fragment opened it (startIdx ≥ 0 is established), so the extraction unorderedChunks[startIdx : startIdx+n] can never start at −1 — whatever TSN a crafted tail fragment carries",
		MinInst: 2,
		Run: func(c *RuleCtx) {
			fn := c.Fn("reassemblyQueue.findCompleteUnorderedChunkSet")
			uc := c.field("reassemblyQueue", "unorderedChunks")
			// the start index of the extraction slice
			var starts []ssa.Value
			forEachInstr(fn, func(in ssa.Instruction) {
				if sl, ok := in.(*ssa.Slice); ok && IsLoadOf(uc)(sl.X) && sl.Low != nil && sl.High != nil {
					starts = append(starts, sl.Low)
				}
			})
			c.Check(len(starts) >= 1, "extract-site", c.P.Pos(fn.Pos()), fmt.Sprintf("%d extraction slice(s)", len(starts)), "no extraction slice unorderedChunks[a:b] found")
			for _, st := range starts {
				// every value the start can take is ≥ 0: a non-negative constant / loop index, or −1 guarded away
				okAll := true
				why := ""
				for _, lf := range leavesWithFacts(st) {
					if k, isK := constInt(lf.Val); isK && k >= 0 {
						continue
					}
					if k, isK := constInt(lf.Val); isK && k < 0 {
						// the initial "no run" value may reach the slice only if excluded by a dominating test
						if DominatedByExt(st.(ssa.Instruction), CmpCond(token.GEQ, SameExpr(st), IsConstInt(0))) || DominatedByExt(st.(ssa.Instruction), CmpCond(token.GTR, SameExpr(st), IsConstInt(-1))) {
							continue
						}
						okAll, why = false, "the 'no run' value −1 can reach the extraction"
						continue
					}
					if valueNonNeg(c.P, lf.Val, 0) {
						continue
					}
					okAll, why = false, "start index "+shortValue(c.P, lf.Val)+" is not known to be non-negative"
				}
				if !okAll {
					// fall back to the flag protocol: the slice is reached only with found == true, and found is set only with the run open
					okAll = foundImpliesOpen(c, fn, st)
				}
				c.Check(okAll, "extract-start-nonneg", c.P.Pos(fn.Pos()), "the extraction never starts at a negative index", "the extraction can start at a negative index: "+why+" (a crafted unordered tail fragment panics the read loop)")
			}
		}})
}

// foundImpliesOpen: the extraction is dominated by a boolean flag φ being true
// that is merged in the same block as the start index φ; on every edge on which
// the flag can be true, the start index is non-negative (a loop index, or the
// carried start after a dominating "start < 0 ⇒ skip" test).
func foundImpliesOpen(c *RuleCtx, fn *ssa.Function, start ssa.Value) bool {
	sp, ok := start.(*ssa.Phi)
	if !ok {
		return false
	}
	var useBlk *ssa.BasicBlock
	for _, r := range *start.Referrers() {
		if sl, isSl := r.(*ssa.Slice); isSl && sl.Low == start {
			useBlk = sl.Block()
		}
	}
	if useBlk == nil {
		return false
	}
	for _, f := range DomFacts(useBlk) {
		fl, isPhi := f.Cond.(*ssa.Phi)
		if !isPhi || !f.Taken || fl.Block() != sp.Block() {
			continue
		}
		okAll := true
		n := 0
		for i, fe := range fl.Edges {
			if IsConstBool(false)(fe) {
				continue
			}
			n++
			e := sp.Edges[i]
			if lb, okL := indLower(e, map[*ssa.Phi]bool{}); okL && lb >= 0 {
				continue
			}
			if lb, okL := edgeBound(sp, i, e, false); okL && lb >= 0 {
				continue
			}
			okAll = false
		}
		if okAll && n > 0 {
			return true
		}
	}
	return false
}

// indLower: inductive lower bound of a counter: constants, x + non-negative
// constant, and φ over those (a φ met again on its own cycle is neutral).
func indLower(v ssa.Value, seen map[*ssa.Phi]bool) (int64, bool) {
	v = unconv(v)
	if k, ok := constInt(v); ok {
		return k, true
	}
	switch x := v.(type) {
	case *ssa.BinOp:
		if x.Op == token.ADD {
			if k, ok := constInt(x.Y); ok && k >= 0 {
				if lb, ok := indLower(x.X, seen); ok {
					return lb + k, true
				}
			}
		}
	case *ssa.Phi:
		if seen[x] {
			return 1 << 40, true
		}
		seen[x] = true
		defer delete(seen, x)
		lb := int64(1 << 40)
		for _, e := range x.Edges {
			k, ok := indLower(e, seen)
			if !ok {
				return 0, false
			}
			if k < lb {
				lb = k
			}
		}
		return lb, true
	}
	return 0, false
}
