package sctp

import (
	"errors"
	"io"
	"sync/atomic"
	"testing"
	"time"

	"github.com/pion/transport/v4/test"
	"github.com/stretchr/testify/require"
)

// C14: RFC 6525 sec 4.1: "If no streams are listed, then all streams are to be
// reset". A peer that closes (all of) its outgoing streams that way gets a
// "Success - Performed" response, but no stream is reset: the reader never sees
// end-of-file.
func TestHunt5ResetRequestWithoutStreamListIsAcknowledgedButIgnored(t *testing.T) {
	lim := test.TimeOut(20 * time.Second)
	defer lim.Stop()

	br := test.NewBridge()
	a0, a1, err := createNewAssociationPair(br, ackModeNoDelay, 0)
	require.NoError(t, err)
	defer closeAssociationPair(br, a0, a1)

	_, s1, err := establishSessionPair(br, a0, a1, 1)
	require.NoError(t, err)

	// capture a1's answer
	var performed int32
	br.Filter(1, func(raw []byte) bool {
		p := &packet{}
		if err := p.unmarshal(true, raw); err != nil {
			return true
		}
		for _, c := range p.chunks {
			if rc, ok := c.(*chunkReconfig); ok {
				if resp, ok := rc.paramA.(*paramReconfigResponse); ok && resp.result == reconfigResultSuccessPerformed {
					atomic.StoreInt32(&performed, 1)
				}
			}
		}

		return true
	})

	// The writer side (a0's wire identity) resets all its outgoing streams.
	a0.lock.Lock()
	req := &chunkReconfig{paramA: &paramOutgoingResetRequest{
		reconfigRequestSequenceNumber: a0.generateNextRSN(),
		senderLastTSN:                 a0.myNextTSN - 1,
		streamIdentifiers:             nil, // "all streams"
	}}
	a0.lock.Unlock()
	raw := marshalChunkPacketFromAssociation(t, a0, req)
	_, err = br.GetConn0().Write(raw)
	require.NoError(t, err)

	end := time.Now().Add(1 * time.Second)
	for time.Now().Before(end) {
		br.Tick()
		time.Sleep(2 * time.Millisecond)
	}
	require.EqualValues(t, 1, atomic.LoadInt32(&performed), "a1 answered Success-Performed")

	require.NoError(t, s1.SetReadDeadline(time.Now().Add(500*time.Millisecond)))
	_, rerr := s1.Read(make([]byte, 16))
	require.Truef(t, errors.Is(rerr, io.EOF),
		"the peer reset all its outgoing streams and was told 'performed', but the reader got: %v", rerr)
}
