#!/usr/bin/env python3
"""Analyses every behaviour-preserving variant (scratch copy of /repo + patch; nothing is executed) with all checks.
Any VIOLATION/UNRESOLVED is a false alarm. Writes /verif/variants/preserving/MATRIX.md."""
import os, subprocess, tempfile, shutil, glob, re, concurrent.futures, sys
def run(item):
    name,patch=item
    s=tempfile.mkdtemp(prefix='refmx.',dir='/tmp')
    try:
        subprocess.run(['rsync','-a','--exclude','.git','/repo/',s+'/'],check=True)
        p=subprocess.run(['patch','-p1','-s','-i',patch],cwd=s,capture_output=True,text=True)
        if p.returncode!=0: return name,None,['patch does not apply']
        b=subprocess.run(['go','build','./...'],cwd=s,capture_output=True,text=True,env=dict(os.environ,GOFLAGS='-mod=mod',GOPROXY='off'))
        if b.returncode!=0: return name,None,['does not build']
        out=subprocess.run(['/verif/bin/sctpverif','all','--repo',s,'--no-evidence'],capture_output=True,text=True).stdout
        lines=sorted(set(re.findall(r'^((?:VIOLATION|UNRESOLVED) +C\d+\.R\d+ \S+)',out,flags=re.M)))
        rules=sorted(set(re.findall(r'^(?:VIOLATION|UNRESOLVED) +(C\d+\.R\d+)',out,flags=re.M)))
        return name,rules,lines
    finally:
        shutil.rmtree(s,ignore_errors=True)
items=[(os.path.basename(p)[:-5],p) for p in sorted(glob.glob('/verif/variants/preserving/*.diff'))]
items+=[(os.path.basename(os.path.dirname(p)),p) for p in sorted(glob.glob('/verif/variants/preserving/agents/*/patch.diff'))]
only=sys.argv[1:] 
if only: items=[i for i in items if any(o in i[0] for o in only)]
rows=[]
with concurrent.futures.ThreadPoolExecutor(8) as ex:
    rows=list(ex.map(run,items))
if not only:
    with open('/verif/variants/preserving/MATRIX.md','w') as f:
        f.write('# Behaviour-preserving variants × checks\n\nEach row is a refactoring of pion/sctp that keeps behaviour (v*: written by hand; R*: written by independent sub-agents given only two property texts, full suite passing). The checks must stay silent on all of them.\n\n| variant | alarms (rules) |\n|---|---|\n')
        for name,rules,lines in rows:
            f.write(f"| {name} | {'silent' if rules==[] else ('n/a: '+lines[0] if rules is None else ', '.join(rules))} |\n")
        n=sum(1 for r in rows if r[1]==[]); f.write(f'\n{n} of {len(rows)} variants are silent.\n')
for name,rules,lines in rows:
    print(name, 'silent' if rules==[] else rules if rules is not None else lines)
print(sum(1 for r in rows if r[1]==[]),'of',len(rows),'silent')
