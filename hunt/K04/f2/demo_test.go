// SPDX-FileCopyrightText: 2026 The Pion community <https://pion.ly>
// SPDX-License-Identifier: MIT

package sctp

import (
	"errors"
	"strings"
	"testing"
	"time"

	"github.com/pion/transport/v4/test"
	"github.com/stretchr/testify/require"
)

// C09: "An ABORT sent by one side closes the other side with an error that carries
// the abort cause." Abort() accepts any reason; the ABORT is put into one packet of
// unbounded size while the peer reads into an 8192-byte buffer: the packet is
// truncated, fails its checksum and the peer stays open.
func TestHunt2_AbortWithLongReasonDoesNotCloseThePeer(t *testing.T) {
	for _, n := range []int{100, 8200} {
		br := test.NewBridge()
		a0, a1, err := createNewAssociationPair(br, ackModeNoDelay, 0)
		require.NoError(t, err)
		_, s1, err := establishSessionPair(br, a0, a1, 1)
		require.NoError(t, err)

		readErr := make(chan error, 1)
		go func() {
			_, rerr := s1.Read(make([]byte, 16))
			readErr <- rerr
		}()

		done := make(chan struct{})
		go func() {
			a0.Abort(strings.Repeat("x", n))
			close(done)
		}()
		deadline := time.Now().Add(3 * time.Second)
		var got error
	loop:
		for time.Now().Before(deadline) {
			br.Tick()
			select {
			case got = <-readErr:
				break loop
			default:
				time.Sleep(5 * time.Millisecond)
			}
		}
		<-done
		if got == nil {
			t.Errorf("reason of %d bytes: peer's blocked Read did not return within 3 s after Abort()", n)
			closeAssociationPair(br, a0, a1)

			continue
		}
		if !errors.Is(got, ErrChunk) {
			t.Errorf("reason of %d bytes: peer closed with %v, not with the abort cause", n, got)
		}
	}
}
