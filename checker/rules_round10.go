package main

import (
	"go/token"

	"golang.org/x/tools/go/ssa"
)

// Rules added after seed round 10 (session 6).

func init() {
	register(&Rule{ID: "C20.R14", Props: []string{"C20", "C02", "C09"}, Engine: "E3-path",
		Title: "the blocking-write gate is kept in two places that must agree (the flag writePending and the single token in writeNotify): a writer that has consumed the token in sendPayloadData either takes the gate (stores writePending = true) or leaves on the not-established exit (teardown closes the channel and wakes everybody) — on any other exit the token is gone, the gate is free and the remaining blocked writers sleep for ever (lost wake-up)",
		Run: func(c *RuleCtx) {
			fn := c.Fn("Association.sendPayloadData")
			wn := c.field("Association", "writeNotify")
			wp := c.field("Association", "writePending")
			bw := c.field("Association", "blockWrite")
			est := c.P.Const("established")
			if est == nil {
				panic(unresolved{"const established"})
			}
			want, _ := constantInt64(est)
			isState := func(v ssa.Value) bool {
				call, isCall := unconv(v).(*ssa.Call)
				return isCall && call.Call.StaticCallee() != nil && call.Call.StaticCallee().Name() == "getState"
			}
			// blocks that only run when the association is known not to be established
			notEst := map[*ssa.BasicBlock]bool{}
			for _, b := range fn.Blocks {
				for _, ft := range DomFactsX(b) {
					bo, isB := ft.Cond.(*ssa.BinOp)
					if !isB {
						continue
					}
					if ((isState(bo.X) && IsConstInt(want)(bo.Y)) || (isState(bo.Y) && IsConstInt(want)(bo.X))) && ((bo.Op == token.NEQ && ft.Taken) || (bo.Op == token.EQL && !ft.Taken)) {
						notEst[b] = true
					}
				}
			}
			ks := keyer{}
			forEachInstr(fn, func(in ssa.Instruction) {
				sel, ok := in.(*ssa.Select)
				if !ok {
					return
				}
				idx := -1
				for i, st := range sel.States {
					if st.Dir != 2 { // types.RecvOnly
						continue
					}
					if f, _ := loadedField(st.Chan); f != nil && f == wn {
						idx = i
					}
				}
				if idx < 0 {
					return
				}
				// follow the branch on which the token was received
				facts := map[ssa.Value]bool{}
				for _, ref := range *sel.Referrers() {
					ex, isEx := ref.(*ssa.Extract)
					if !isEx || ex.Index != 0 {
						continue
					}
					for _, r2 := range *ex.Referrers() {
						bo, isB := r2.(*ssa.BinOp)
						if !isB || bo.Op != token.EQL {
							continue
						}
						for k := 0; k < len(sel.States); k++ {
							if IsConstInt(int64(k))(bo.Y) || IsConstInt(int64(k))(bo.X) {
								facts[bo] = k == idx
							}
						}
					}
				}
				// blockWrite is immutable configuration and the gate is only ever
				// awaited in blocking-write mode: every test of it reads true here
				forEachInstr(fn, func(x ssa.Instruction) {
					if v, isV := x.(ssa.Value); isV {
						if f, _ := loadedField(v); f != nil && f == bw {
							facts[v] = true
						}
						if call, isCall := x.(*ssa.Call); isCall && call.Call.StaticCallee() != nil && call.Call.StaticCallee().Name() == "isBlockWrite" {
							facts[v] = true
						}
					}
				})
				ok2, bad := MustPassOpt(sel.Block(), instrIndex(sel)+1, sel, func(x ssa.Instruction) bool {
					st, isSt := x.(*ssa.Store)
					return isSt && fieldOfAddr(st.Addr) == wp && IsConstBool(true)(st.Val)
				}, PathOpts{Facts: facts, Stop: func(x ssa.Instruction) bool { return notEst[x.Block()] }})
				where := ""
				if bad != nil {
					where = c.Pos(bad)
				}
				c.Check(ok2, ks.key("token-consumer-takes-the-gate"), c.Pos(sel), "every exit after the token was received stores writePending = true or is the not-established exit", "a writer that received the write-gate token can return without taking the gate (exit "+where+"): the token is consumed, writePending stays false and the other blocked writers are never woken")
			})
		}})
}
