package main

import (
	"fmt"
	"go/constant"
	"go/token"
	"go/types"
	"sort"
	"strings"

	"golang.org/x/tools/go/ssa"
)

// E5b — decision-table specialiser (partial evaluation over a bound oracle).
//
// PEval explores a function's CFG with chosen inputs bound to constants
// (parameters, loads of given fields, or arbitrary anchored SSA values) and
// folds everything that becomes constant. Branches on unknown values fork.
// In-package callees are inlined (depth-bounded). Stores to struct fields are
// recorded and read back on the same path. Nothing is executed: values are
// go/constant constants or Unknown, loops are cut by a step budget (the result
// is then UNDECIDED, which callers treat as a failure).

type PEConfig struct {
	Params map[int]constant.Value        // parameter index -> value (root function only)
	Fields map[*types.Var]constant.Value // initial value of loads of these fields
	// BindVal is consulted first for every value; return ok to force it.
	BindVal func(v ssa.Value) (constant.Value, bool)
	// StopAt ends a path when it reaches an instruction (label != "").
	StopAt func(in ssa.Instruction) string
	// Observe is called before each instruction with an accessor for the
	// current abstract values (used to read folded intermediate values).
	Observe func(in ssa.Instruction, get func(ssa.Value) constant.Value)
	// StopAfter ends a path right after executing an instruction (label != "").
	StopAfter func(in ssa.Instruction) string
	// Opaque lists in-package callees that are not inlined (their result is unknown).
	Opaque   map[*ssa.Function]bool
	MaxDepth int
	MaxSteps int
	MaxPaths int
	// LoopBound: how many times one path may take the "stay in the loop" side of
	// an undecided loop-exit test before it is forced out (default 2).
	LoopBound int
}

type PECall struct {
	Callee string
	Args   []string // rendered constants or "?"
	Instr  ssa.Instruction
}

type PEOutcome struct {
	Label  string // "return" or StopAt label
	Ret    []constant.Value
	Stores map[*types.Var]constant.Value // last stored value per field (nil = unknown)
	Stored map[*types.Var]bool
	Calls  []PECall
	Trace  []bool // decisions at forks
}

func (o *PEOutcome) Called(name string) []PECall {
	var out []PECall
	for _, c := range o.Calls {
		if c.Callee == name {
			out = append(out, c)
		}
	}
	return out
}

type peState struct {
	tuples map[ssa.Value][]constant.Value
	env    map[ssa.Value]constant.Value
	fields map[*types.Var]constant.Value
	stored map[*types.Var]bool
	known  map[*types.Var]bool
	calls  []PECall
	trace  []bool
	visits map[*ssa.If]int
}

func (s *peState) clone() *peState {
	n := &peState{env: make(map[ssa.Value]constant.Value, len(s.env)), fields: make(map[*types.Var]constant.Value, len(s.fields)),
		stored: make(map[*types.Var]bool, len(s.stored)), known: make(map[*types.Var]bool, len(s.known))}
	for k, v := range s.env {
		n.env[k] = v
	}
	for k, v := range s.fields {
		n.fields[k] = v
	}
	for k, v := range s.stored {
		n.stored[k] = v
	}
	for k, v := range s.known {
		n.known[k] = v
	}
	n.calls = append([]PECall{}, s.calls...)
	n.trace = append([]bool{}, s.trace...)
	n.visits = make(map[*ssa.If]int, len(s.visits))
	for k, v := range s.visits {
		n.visits[k] = v
	}
	n.tuples = make(map[ssa.Value][]constant.Value, len(s.tuples))
	for k, v := range s.tuples {
		n.tuples[k] = v
	}
	return n
}

type pEval struct {
	p        *Prog
	cfg      PEConfig
	steps    int
	paths    int
	Undecide string
}

// PEval runs the specialiser and returns all path outcomes.
func (p *Prog) PEval(fn *ssa.Function, cfg PEConfig) ([]PEOutcome, string) {
	if cfg.MaxDepth == 0 {
		cfg.MaxDepth = 6
	}
	if cfg.MaxSteps == 0 {
		cfg.MaxSteps = 200000
	}
	if cfg.MaxPaths == 0 {
		cfg.MaxPaths = 4096
	}
	pe := &pEval{p: p, cfg: cfg}
	st := &peState{tuples: map[ssa.Value][]constant.Value{}, env: map[ssa.Value]constant.Value{}, fields: map[*types.Var]constant.Value{}, stored: map[*types.Var]bool{}, known: map[*types.Var]bool{}}
	for f, v := range cfg.Fields {
		st.fields[f] = v
		st.known[f] = true
	}
	for i, v := range cfg.Params {
		if i < len(fn.Params) {
			st.env[fn.Params[i]] = v
		}
	}
	var outs []PEOutcome
	pe.run(fn, st, 0, func(s *peState, label string, ret []constant.Value) {
		o := PEOutcome{Label: label, Ret: ret, Stores: map[*types.Var]constant.Value{}, Stored: map[*types.Var]bool{}, Calls: s.calls, Trace: s.trace}
		for f := range s.stored {
			o.Stored[f] = true
			o.Stores[f] = s.fields[f]
		}
		outs = append(outs, o)
	})
	return outs, pe.Undecide
}

func (pe *pEval) get(s *peState, v ssa.Value) constant.Value {
	if pe.cfg.BindVal != nil {
		if c, ok := pe.cfg.BindVal(v); ok {
			return c
		}
	}
	if c, ok := v.(*ssa.Const); ok {
		if c.Value == nil {
			if isNillable(c.Type()) {
				return peNil
			}
			return nil
		}
		return c.Value
	}
	if r, ok := s.env[v]; ok {
		return r
	}
	switch x := v.(type) {
	case *ssa.MakeInterface:
		return peNonNil
	case *ssa.Alloc, *ssa.MakeSlice, *ssa.MakeMap, *ssa.MakeChan, *ssa.MakeClosure, *ssa.Function:
		return peNonNil
	case *ssa.UnOp:
		if g, ok := x.X.(*ssa.Global); ok && x.Op == token.MUL && (strings.HasPrefix(g.Name(), "Err") || strings.HasPrefix(g.Name(), "err")) {
			return peNonNil
		}
	case *ssa.Call:
		if sc := x.Call.StaticCallee(); sc != nil && sc.Pkg != nil {
			if (sc.Pkg.Pkg.Path() == "fmt" && sc.Name() == "Errorf") || (sc.Pkg.Pkg.Path() == "errors" && sc.Name() == "New") {
				return peNonNil
			}
		}
	}
	return nil
}

func render(c constant.Value) string {
	switch c {
	case nil:
		return "?"
	case peNil:
		return "nil"
	case peNonNil:
		return "nonnil"
	}
	return c.String()
}

// run interprets fn from its entry; on each path end calls done. Returns
// nothing; callee returns are delivered through cont.
func (pe *pEval) run(fn *ssa.Function, st *peState, depth int, done func(s *peState, label string, ret []constant.Value)) {
	type frame struct {
		b, prev *ssa.BasicBlock
		i       int
		s       *peState
	}
	stack := []frame{{fn.Blocks[0], nil, 0, st}}
	for len(stack) > 0 {
		f := stack[len(stack)-1]
		stack = stack[:len(stack)-1]
		b, prev, s := f.b, f.prev, f.s
		i := f.i
	blocks:
		for {
			for ; i < len(b.Instrs); i++ {
				pe.steps++
				if pe.steps > pe.cfg.MaxSteps {
					pe.Undecide = "step budget exceeded in " + pe.p.FuncName(fn)
					return
				}
				in := b.Instrs[i]
				if pe.cfg.Observe != nil {
					pe.cfg.Observe(in, func(v ssa.Value) constant.Value { return pe.get(s, v) })
				}
				if pe.cfg.StopAt != nil {
					if l := pe.cfg.StopAt(in); l != "" {
						done(s, l, nil)
						break blocks
					}
				}
				if v, isVal := in.(ssa.Value); isVal && !isPhi(in) {
					// a value assumed or folded on an earlier visit (loop) does not survive re-execution of its definition
					delete(s.env, v)
					delete(s.tuples, v)
				}
				switch x := in.(type) {
				case *ssa.Phi:
					// all φ of a block read their inputs simultaneously
					if i == 0 || !isPhi(b.Instrs[i-1]) {
						vals := map[*ssa.Phi]constant.Value{}
						for j := i; j < len(b.Instrs); j++ {
							ph, ok := b.Instrs[j].(*ssa.Phi)
							if !ok {
								break
							}
							for pi, pb := range b.Preds {
								if pb == prev {
									vals[ph] = pe.get(s, ph.Edges[pi])
								}
							}
						}
						for ph, v := range vals {
							if v != nil {
								s.env[ph] = v
							} else {
								delete(s.env, ph)
							}
						}
					}
				case *ssa.BinOp:
					a, bb := pe.get(s, x.X), pe.get(s, x.Y)
					delete(s.env, x) // a value assumed on an earlier visit (loop) does not survive re-evaluation
					if a != nil && bb != nil {
						if r := foldBin(x.Op, a, bb, x.Type()); r != nil {
							s.env[x] = r
						}
					}
				case *ssa.UnOp:
					switch x.Op {
					case token.NOT:
						if a := pe.get(s, x.X); a != nil && a.Kind() == constant.Bool {
							s.env[x] = constant.MakeBool(!constant.BoolVal(a))
						}
					case token.SUB:
						if a := pe.get(s, x.X); a != nil && a.Kind() == constant.Int {
							s.env[x] = constant.UnaryOp(token.SUB, a, 0)
						}
					case token.MUL:
						if f := fieldOfAddr(x.X); f != nil && s.known[f] {
							if v := s.fields[f]; v != nil {
								s.env[x] = v
							} else {
								delete(s.env, x)
							}
						}
					}
				case *ssa.Convert:
					if a := pe.get(s, x.X); a != nil {
						s.env[x] = convertConst(a, x.Type())
					}
				case *ssa.ChangeType:
					if a := pe.get(s, x.X); a != nil {
						s.env[x] = a
					}
				case *ssa.Store:
					if f := fieldOfAddr(x.Addr); f != nil {
						s.fields[f] = pe.get(s, x.Val)
						s.known[f] = true
						s.stored[f] = true
					}
					if pe.cfg.StopAfter != nil {
						if l := pe.cfg.StopAfter(in); l != "" {
							done(s, l, nil)
							break blocks
						}
					}
				case *ssa.Extract:
					if tv, ok := pe.tuple(s, x.Tuple); ok && x.Index < len(tv) && tv[x.Index] != nil {
						s.env[x] = tv[x.Index]
					}
				case *ssa.Call:
					if cont := pe.call(fn, b, i, x, s, depth, done, func(ns *peState, nb *ssa.BasicBlock, ni int, np *ssa.BasicBlock) {
						stack = append(stack, frame{nb, np, ni, ns})
					}, prev); cont {
						continue
					}
					break blocks
				case *ssa.If:
					c := pe.get(s, x.Cond)
					if c != nil && c.Kind() == constant.Bool {
						prev = b
						if constant.BoolVal(c) {
							b = b.Succs[0]
						} else {
							b = b.Succs[1]
						}
						i = 0
						continue blocks
					}
					if lp := loopBlocks(b); len(lp) > 0 && (lp[b.Succs[0]] != lp[b.Succs[1]]) {
						// an undecided loop-exit test: bounded unrolling per path
						if s.visits == nil {
							s.visits = map[*ssa.If]int{}
						}
						bound := pe.cfg.LoopBound
						if bound == 0 {
							bound = 2
						}
						if s.visits[x] >= bound {
							exit := 0
							if lp[b.Succs[0]] {
								exit = 1
							}
							nc, nt := normCond(x.Cond, exit == 0)
							s.env[nc] = constant.MakeBool(nt)
							prev = b
							b = b.Succs[exit]
							i = 0
							continue blocks
						}
						s.visits[x]++
					}
					pe.paths++
					if pe.paths > pe.cfg.MaxPaths {
						pe.Undecide = "path budget exceeded in " + pe.p.FuncName(fn)
						return
					}
					s2 := s.clone()
					s2.trace = append(s2.trace, false)
					nc, nt := normCond(x.Cond, false)
					s2.env[nc] = constant.MakeBool(nt)
					stack = append(stack, frame{b.Succs[1], b, 0, s2})
					s.trace = append(s.trace, true)
					nc, nt = normCond(x.Cond, true)
					s.env[nc] = constant.MakeBool(nt)
					prev = b
					b = b.Succs[0]
					i = 0
					continue blocks
				case *ssa.Jump:
					prev = b
					b = b.Succs[0]
					i = 0
					continue blocks
				case *ssa.Return:
					var ret []constant.Value
					for _, r := range retResults(x) {
						ret = append(ret, pe.get(s, r))
					}
					done(s, "return", ret)
					break blocks
				case *ssa.Panic:
					done(s, "panic", nil)
					break blocks
				}
			}
			break
		}
	}
}

func isPhi(in ssa.Instruction) bool { _, ok := in.(*ssa.Phi); return ok }

func (pe *pEval) tuple(s *peState, v ssa.Value) ([]constant.Value, bool) {
	t, ok := s.tuples[v]
	return t, ok
}

// call handles a Call instruction. It returns true if interpretation of the
// current path should simply continue with the next instruction; false if the
// path was handed over (continuations were pushed via push).
func (pe *pEval) call(fn *ssa.Function, b *ssa.BasicBlock, i int, x *ssa.Call, s *peState, depth int,
	done func(s *peState, label string, ret []constant.Value),
	push func(ns *peState, nb *ssa.BasicBlock, ni int, np *ssa.BasicBlock), prev *ssa.BasicBlock) bool {
	cc := &x.Call
	if bi, ok := cc.Value.(*ssa.Builtin); ok {
		switch bi.Name() {
		case "len":
			if c, ok := cc.Args[0].(*ssa.Const); ok && c.Value != nil && c.Value.Kind() == constant.String {
				s.env[x] = constant.MakeInt64(int64(len(constant.StringVal(c.Value))))
			}
		case "min", "max":
			var acc constant.Value
			for _, a := range cc.Args {
				v := pe.get(s, a)
				if v == nil {
					acc = nil
					break
				}
				if acc == nil {
					acc = v
				} else if (bi.Name() == "min") == constant.Compare(v, token.LSS, acc) {
					acc = v
				}
			}
			if acc != nil {
				s.env[x] = acc
			}
		}
		return true
	}
	sc := cc.StaticCallee()
	name := "?"
	if sc != nil {
		name = pe.p.FuncName(sc)
		if sc.Pkg != nil && sc.Pkg.Pkg != pe.p.Types {
			name = sc.Pkg.Pkg.Name() + "." + name
		}
	} else if cc.IsInvoke() {
		name = "invoke." + cc.Method.Name()
	}
	args := make([]string, len(cc.Args))
	argv := make([]constant.Value, len(cc.Args))
	for k, a := range cc.Args {
		argv[k] = pe.get(s, a)
		args[k] = render(argv[k])
	}
	s.calls = append(s.calls, PECall{name, args, x})
	if pe.cfg.BindVal != nil {
		if c, ok := pe.cfg.BindVal(x); ok {
			s.env[x] = c
			return true
		}
	}
	if sc == nil || !pe.p.inPkg(sc) || sc.Blocks == nil || pe.cfg.Opaque[sc] || depth >= pe.cfg.MaxDepth {
		// unknown result; fields may have been changed by an in-package opaque callee
		if sc != nil && pe.p.inPkg(sc) && sc.Blocks != nil {
			pe.havocFields(sc, s)
		}
		return true
	}
	// inline: every callee outcome continues the caller after the call
	cs := &peState{tuples: map[ssa.Value][]constant.Value{}, env: map[ssa.Value]constant.Value{}, fields: s.fields, stored: s.stored, known: s.known, calls: s.calls, trace: s.trace}
	for k := range argv {
		if k < len(sc.Params) && argv[k] != nil {
			cs.env[sc.Params[k]] = argv[k]
		}
	}
	callerEnv := s.env
	callerTuples := s.tuples
	first := true
	pe.run(sc, cs, depth+1, func(rs *peState, label string, ret []constant.Value) {
		if label != "return" {
			done(rs, label, ret)
			return
		}
		ns := &peState{env: callerEnv, fields: rs.fields, stored: rs.stored, known: rs.known, calls: rs.calls, trace: rs.trace, tuples: callerTuples}
		ns = ns.clone()
		if len(ret) == 1 {
			if ret[0] != nil {
				ns.env[x] = ret[0]
			} else {
				delete(ns.env, x)
			}
		} else if len(ret) > 1 {
			if ns.tuples == nil {
				ns.tuples = map[ssa.Value][]constant.Value{}
			}
			ns.tuples[x] = ret
		}
		_ = first
		push(ns, b, i+1, prev)
	})
	return false
}

// havocFields forgets the known value of every field the callee may write.
func (pe *pEval) havocFields(callee *ssa.Function, s *peState) {
	for fn := range pe.p.TransitiveCallees(callee) {
		forEachInstr(fn, func(in ssa.Instruction) {
			if st, ok := in.(*ssa.Store); ok {
				if f := fieldOfAddr(st.Addr); f != nil && s.known[f] {
					s.fields[f] = nil
				}
			}
		})
	}
}

var (
	peNil    = constant.MakeString("\x00nil")
	peNonNil = constant.MakeString("\x00nonnil")
)

func isNillable(t types.Type) bool {
	switch t.Underlying().(type) {
	case *types.Pointer, *types.Interface, *types.Slice, *types.Map, *types.Chan, *types.Signature:
		return true
	}
	return false
}

func foldBin(op token.Token, a, b constant.Value, t types.Type) constant.Value {
	defer func() { _ = recover() }()
	if a == peNil || b == peNil || a == peNonNil || b == peNonNil {
		if op != token.EQL && op != token.NEQ {
			return nil
		}
		var eq bool
		switch {
		case a == peNil && b == peNil:
			eq = true
		case (a == peNil && b == peNonNil) || (a == peNonNil && b == peNil):
			eq = false
		default:
			return nil
		}
		return constant.MakeBool(eq == (op == token.EQL))
	}
	switch op {
	case token.EQL, token.NEQ, token.LSS, token.LEQ, token.GTR, token.GEQ:
		if a.Kind() != b.Kind() {
			return nil
		}
		if a.Kind() == constant.Bool && op != token.EQL && op != token.NEQ {
			return nil
		}
		return constant.MakeBool(constant.Compare(a, op, b))
	case token.ADD, token.SUB, token.MUL, token.AND, token.OR, token.XOR, token.AND_NOT:
		if a.Kind() != constant.Int || b.Kind() != constant.Int {
			return nil
		}
		return wrapInt(constant.BinaryOp(a, op, b), t)
	case token.QUO, token.REM:
		if a.Kind() != constant.Int || b.Kind() != constant.Int || constant.Sign(b) == 0 {
			return nil
		}
		if op == token.QUO {
			return wrapInt(constant.BinaryOp(a, token.QUO_ASSIGN, b), t)
		}
		return wrapInt(constant.BinaryOp(a, token.REM, b), t)
	case token.SHL, token.SHR:
		if a.Kind() != constant.Int || b.Kind() != constant.Int {
			return nil
		}
		n, ok := constant.Uint64Val(b)
		if !ok || n > 63 {
			return nil
		}
		return wrapInt(constant.Shift(a, op, uint(n)), t)
	}
	return nil
}

func wrapInt(v constant.Value, t types.Type) constant.Value {
	bt, ok := t.Underlying().(*types.Basic)
	if !ok || v == nil || v.Kind() != constant.Int {
		return v
	}
	var bits uint
	signed := false
	switch bt.Kind() {
	case types.Uint8:
		bits = 8
	case types.Uint16:
		bits = 16
	case types.Uint32:
		bits = 32
	case types.Uint64, types.Uint, types.Uintptr:
		bits = 64
	case types.Int8:
		bits, signed = 8, true
	case types.Int16:
		bits, signed = 16, true
	case types.Int32:
		bits, signed = 32, true
	case types.Int64, types.Int:
		bits, signed = 64, true
	default:
		return v
	}
	mod := constant.Shift(constant.MakeInt64(1), token.SHL, bits)
	r := constant.BinaryOp(v, token.REM, mod)
	if constant.Sign(r) < 0 {
		r = constant.BinaryOp(r, token.ADD, mod)
	}
	if signed {
		half := constant.Shift(constant.MakeInt64(1), token.SHL, bits-1)
		if constant.Compare(r, token.GEQ, half) {
			r = constant.BinaryOp(r, token.SUB, mod)
		}
	}
	return r
}

func convertConst(v constant.Value, t types.Type) constant.Value {
	if v.Kind() == constant.Int {
		if bt, ok := t.Underlying().(*types.Basic); ok && bt.Info()&types.IsInteger != 0 {
			return wrapInt(v, t)
		}
		return nil
	}
	return v
}

// describeOutcomes renders outcomes for evidence/debugging.
func describeOutcome(o PEOutcome) string {
	var parts []string
	parts = append(parts, o.Label)
	var fs []string
	for f := range o.Stored {
		fs = append(fs, fmt.Sprintf("%s=%s", f.Name(), render(o.Stores[f])))
	}
	sort.Strings(fs)
	parts = append(parts, fs...)
	for _, r := range o.Ret {
		parts = append(parts, "ret="+render(r))
	}
	return strings.Join(parts, " ")
}
