// mutgen lists single-edit mutants of the non-test Go files of a directory as JSON
// (byte-offset splices). It never runs anything; the sweep driver (tools/mutsweep.py)
// analyses each mutant with the checker and, for the unreported ones, runs the
// repository's own test suite in a scratch copy to see whether the tests notice.
package main

import (
	"encoding/json"
	"fmt"
	"go/ast"
	"go/parser"
	"go/token"
	"os"
	"path/filepath"
	"sort"
	"strings"
)

type Mut struct {
	ID    string `json:"id"`
	File  string `json:"file"`
	Line  int    `json:"line"`
	Func  string `json:"func"`
	Op    string `json:"op"`
	Start int    `json:"start"`
	End   int    `json:"end"`
	New   string `json:"new"`
	Orig  string `json:"orig"`
}

var flip = map[token.Token]string{token.LSS: "<=", token.LEQ: "<", token.GTR: ">=", token.GEQ: ">"}
var snaFlip = map[string]string{"sna32LT": "sna32LTE", "sna32LTE": "sna32LT", "sna32GT": "sna32GTE", "sna32GTE": "sna32GT",
	"sna16LT": "sna16LTE", "sna16LTE": "sna16LT", "sna16GT": "sna16GTE", "sna16GTE": "sna16GT"}

func isLog(s string) bool {
	for _, k := range []string{".log.", "log.", "Tracef(", "Debugf(", "Warnf(", "Infof(", "Errorf("} {
		if strings.Contains(s, k) {
			return true
		}
	}
	return false
}

func endsInExit(b *ast.BlockStmt) bool {
	if len(b.List) == 0 {
		return false
	}
	switch x := b.List[len(b.List)-1].(type) {
	case *ast.ReturnStmt:
		return true
	case *ast.BranchStmt:
		return x.Tok == token.CONTINUE || x.Tok == token.BREAK || x.Tok == token.GOTO
	}
	return false
}

func main() {
	dir := os.Args[1]
	files, _ := filepath.Glob(filepath.Join(dir, "*.go"))
	sort.Strings(files)
	fset := token.NewFileSet()
	var muts []Mut
	for _, f := range files {
		if strings.HasSuffix(f, "_test.go") {
			continue
		}
		src, err := os.ReadFile(f)
		if err != nil {
			panic(err)
		}
		af, err := parser.ParseFile(fset, f, src, parser.ParseComments)
		if err != nil {
			panic(err)
		}
		base := filepath.Base(f)
		off := func(p token.Pos) int { return fset.Position(p).Offset }
		for _, d := range af.Decls {
			fd, ok := d.(*ast.FuncDecl)
			if !ok || fd.Body == nil {
				continue
			}
			name := fd.Name.Name
			if fd.Recv != nil && len(fd.Recv.List) > 0 {
				t := fd.Recv.List[0].Type
				if st, ok := t.(*ast.StarExpr); ok {
					t = st.X
				}
				if id, ok := t.(*ast.Ident); ok {
					name = id.Name + "." + name
				}
			}
			if fd.Name.Name == "String" || fd.Name.Name == "Error" {
				continue
			}
			add := func(op string, n ast.Node, s, e int, repl string) {
				orig := string(src[s:e])
				if len(orig) > 160 {
					orig = orig[:160] + "…"
				}
				muts = append(muts, Mut{File: base, Line: fset.Position(n.Pos()).Line, Func: name, Op: op, Start: s, End: e, New: repl, Orig: strings.Join(strings.Fields(orig), " ")})
			}
			ast.Inspect(fd.Body, func(n ast.Node) bool {
				switch x := n.(type) {
				case *ast.IfStmt:
					if x.Else == nil && x.Init == nil {
						txt := string(src[off(x.Pos()):off(x.End())])
						if endsInExit(x.Body) {
							add("guard-del", x, off(x.Pos()), off(x.End()), "")
						} else if !isLog(txt) || len(x.Body.List) > 1 {
							add("if-del", x, off(x.Pos()), off(x.End()), "")
						}
					}
				case *ast.ExprStmt:
					if c, ok := x.X.(*ast.CallExpr); ok {
						txt := string(src[off(x.Pos()):off(x.End())])
						if _, isSel := c.Fun.(*ast.SelectorExpr); isSel && !isLog(txt) {
							add("call-del", x, off(x.Pos()), off(x.End()), "")
						} else if id, isId := c.Fun.(*ast.Ident); isId && !isLog(txt) && id.Name != "panic" {
							add("call-del", x, off(x.Pos()), off(x.End()), "")
						}
					}
				case *ast.AssignStmt:
					if x.Tok != token.DEFINE {
						okL := true
						for _, l := range x.Lhs {
							switch l.(type) {
							case *ast.SelectorExpr, *ast.IndexExpr:
							default:
								okL = false
							}
						}
						if okL {
							add("assign-del", x, off(x.Pos()), off(x.End()), "")
						}
					}
				case *ast.IncDecStmt:
					if _, ok := x.X.(*ast.SelectorExpr); ok {
						add("assign-del", x, off(x.Pos()), off(x.End()), "")
					}
				case *ast.BinaryExpr:
					if r, ok := flip[x.Op]; ok {
						add("rel-flip", x, off(x.OpPos), off(x.OpPos)+len(x.Op.String()), r)
					}
				case *ast.CallExpr:
					if id, ok := x.Fun.(*ast.Ident); ok {
						if r, ok := snaFlip[id.Name]; ok {
							add("sna-flip", x, off(id.Pos()), off(id.End()), r)
						}
					}
				}
				return true
			})
		}
	}
	for i := range muts {
		muts[i].ID = fmt.Sprintf("m%04d", i)
	}
	enc := json.NewEncoder(os.Stdout)
	for _, m := range muts {
		enc.Encode(m)
	}
}
