package sctp

import (
	"context"
	"testing"
	"time"

	"github.com/pion/transport/v4/test"
	"github.com/stretchr/testify/require"
)

func hunt5Run(t *testing.T, teardown func(br *test.Bridge, a0, a1 *Association)) {
	t.Helper()
	br := test.NewBridge()
	a0, a1, err := createNewAssociationPair(br, ackModeNoDelay, 0)
	require.NoError(t, err)
	defer closeAssociationPair(br, a0, a1)

	s0, s1, err := establishSessionPair(br, a0, a1, 1)
	require.NoError(t, err)

	// From now on every packet a0 -> a1 is lost.
	br.Filter(0, func([]byte) bool { return false })

	n, err := s0.WriteSCTP([]byte("must be delivered before Shutdown reports success"), PayloadTypeWebRTCBinary)
	require.NoError(t, err)
	require.NotZero(t, n)

	ctx, cancel := context.WithTimeout(context.Background(), 5*time.Second)
	defer cancel()
	shutdownErr := make(chan error, 1)
	go func() { shutdownErr <- a0.Shutdown(ctx) }()
	require.Eventually(t, func() bool { return a0.getState() == shutdownPending }, time.Second, time.Millisecond)

	teardown(br, a0, a1)

	var serr error
	deadline := time.After(4 * time.Second)
loop:
	for {
		select {
		case serr = <-shutdownErr:
			break loop
		case <-deadline:
			t.Fatal("Shutdown did not return")
		default:
			br.Tick()
			time.Sleep(time.Millisecond)
		}
	}

	require.Zero(t, s1.getNumBytesInReassemblyQueue(), "sanity: the peer never received the message")
	require.Error(t, serr,
		"Shutdown returned nil although the message accepted before the call was never delivered to the peer")
}

// The peer aborts the association while the local side is in SHUTDOWN-PENDING
// with undelivered data.
func TestHunt5ShutdownReportsSuccessAfterPeerAbort(t *testing.T) {
	hunt5Run(t, func(_ *test.Bridge, _, a1 *Association) {
		go a1.Abort("peer gives up")
	})
}

// The local transport fails (read error) while the local side is in
// SHUTDOWN-PENDING with undelivered data.
func TestHunt5ShutdownReportsSuccessAfterTransportFailure(t *testing.T) {
	hunt5Run(t, func(br *test.Bridge, _, _ *Association) {
		require.NoError(t, br.GetConn0().Close())
	})
}
