package sctp

import (
	"context"
	"testing"
	"time"

	"github.com/pion/transport/v4/test"
	"github.com/stretchr/testify/require"
)

// After Shutdown has begun (and even after it has completed and the
// association is closed) a write with an empty payload is still accepted:
// it returns (0, nil) instead of being rejected like every other write.
func TestHunt7EmptyWriteAcceptedAfterShutdown(t *testing.T) {
	br := test.NewBridge()
	a0, a1, err := createNewAssociationPair(br, ackModeNoDelay, 0)
	require.NoError(t, err)
	defer closeAssociationPair(br, a0, a1)

	s0, _, err := establishSessionPair(br, a0, a1, 1)
	require.NoError(t, err)

	ctx, cancel := context.WithTimeout(context.Background(), 5*time.Second)
	defer cancel()
	done := make(chan error, 1)
	go func() { done <- a0.Shutdown(ctx) }()
	require.Eventually(t, func() bool { return a0.getState() != established }, time.Second, time.Millisecond)

	// shutdown has begun: a normal write is rejected ...
	_, err = s0.WriteSCTP([]byte("x"), PayloadTypeWebRTCBinary)
	require.Error(t, err)
	// ... an empty one must be rejected as well
	_, err = s0.WriteSCTP([]byte{}, PayloadTypeWebRTCBinary)
	require.Error(t, err, "empty write attempted after shutdown began was accepted")

	for i := 0; i < 500; i++ {
		br.Tick()
		select {
		case <-done:
			return
		default:
			time.Sleep(time.Millisecond)
		}
	}
}
