#!/usr/bin/env python3
"""Mutation sweep (evaluation aid, not a registered check).
stage A: analyse every single-edit mutant of /repo (tools/mutgen) with the checker in scratch copies;
stage B: for mutants no rule reports, run the repository's own test suite in the scratch copy.
Survivors of both are candidates for review: edits that the suite does not notice and no rule reports.
usage: mutsweep.py A|B [workers]   results: /verif/mutation/stageA.jsonl, stageB.jsonl
"""
import json, os, subprocess, sys, shutil, multiprocessing as mp, re
ENV = dict(os.environ, GOFLAGS='-mod=mod', GOPROXY='off')
ROOT = '/tmp/mutw'
OUT = '/verif/mutation'

def wdir():
    k = mp.current_process()._identity[0] if mp.current_process()._identity else 0
    d = f'{ROOT}/w{k}'
    if not os.path.isdir(d):
        os.makedirs(d, exist_ok=True)
        subprocess.run(['rsync', '-a', '--exclude', '.git', '/repo/', d + '/'], check=True)
    return d

def apply(d, m):
    p = os.path.join(d, m['file'])
    src = open(os.path.join('/repo', m['file']), 'rb').read()
    open(p, 'wb').write(src[:m['start']] + m['new'].encode() + src[m['end']:])
    return p

def restore(d, m):
    shutil.copyfile(os.path.join('/repo', m['file']), os.path.join(d, m['file']))

def stageA(m):
    d = wdir(); apply(d, m)
    try:
        r = subprocess.run(['go', 'build', './...'], cwd=d, env=ENV, capture_output=True, text=True)
        if r.returncode != 0:
            return dict(m, result='nocompile')
        r = subprocess.run(['/verif/bin/sctpverif', 'all', '--repo', d, '--no-evidence'], env=ENV, capture_output=True, text=True)
        rules = sorted(set(re.findall(r'^(?:VIOLATION|UNRESOLVED) +(C\d\d\.R\d+)', r.stdout, flags=re.M)))
        if rules:
            return dict(m, result='reported', rules=rules)
        if not re.search(r'^C20: ', r.stdout, flags=re.M):
            return dict(m, result='checker-error', detail=(r.stdout + r.stderr)[-300:])
        return dict(m, result='silent')
    finally:
        restore(d, m)

def stageB(m):
    d = wdir(); apply(d, m)
    try:
        try:
            r = subprocess.run(['go', 'test', '-count=1', '-failfast', '-timeout', '150s', '.'], cwd=d, env=ENV, capture_output=True, text=True, timeout=240)
        except subprocess.TimeoutExpired:
            return dict(m, tests='killed(timeout)')
        if r.returncode == 0:
            return dict(m, tests='survived')
        fails = re.findall(r'^--- FAIL: (\S+)', r.stdout, flags=re.M)[:3]
        if 'panic:' in r.stdout or 'panic:' in r.stderr:
            fails.append('panic')
        return dict(m, tests='killed', by=fails)
    finally:
        restore(d, m)

def main():
    stage = sys.argv[1]; workers = int(sys.argv[2]) if len(sys.argv) > 2 else 8
    os.makedirs(OUT, exist_ok=True)
    if stage == 'A':
        subprocess.run(['go', 'build', '-o', '/tmp/mutgen', '.'], cwd='/verif/tools/mutgen', env=ENV, check=True)
        muts = [json.loads(l) for l in subprocess.run(['/tmp/mutgen', '/repo'], capture_output=True, text=True, check=True).stdout.splitlines()]
        fn, out = stageA, f'{OUT}/stageA.jsonl'
    elif stage == 'R':
        # re-analyse the survivors of stage B with the current checker
        muts = [json.loads(l) for l in open(f'{OUT}/stageB.jsonl') if json.loads(l)['tests'] == 'survived']
        for m in muts:
            m.pop('tests', None)
        fn, out = stageA, f'{OUT}/stageR.jsonl'
        open(out, 'w').close()
    else:
        want = 'silent' if stage == 'B' else 'reported'   # stage C: do the tests notice the mutants the checker reports?
        muts = [json.loads(l) for l in open(f'{OUT}/stageA.jsonl') if json.loads(l)['result'] == want]
        done = set()
        if os.path.exists(f'{OUT}/stage{stage}.jsonl'):
            done = {json.loads(l)['id'] for l in open(f'{OUT}/stage{stage}.jsonl')}
        muts = [m for m in muts if m['id'] not in done]
        fn, out = stageB, f'{OUT}/stage{stage}.jsonl'
    with mp.Pool(workers) as pool, open(out, 'a' if stage in ('B','C','R') else 'w') as f:
        for i, r in enumerate(pool.imap_unordered(fn, muts)):
            f.write(json.dumps(r) + '\n'); f.flush()
            if i % 50 == 0:
                print(i, len(muts), flush=True)
    shutil.rmtree(ROOT, ignore_errors=True)

if __name__ == '__main__':
    main()
