package sctp

import (
	"bytes"
	"testing"
	"time"

	"github.com/stretchr/testify/require"
)

// The OnBufferedAmountLow callback is invoked on the association's read loop
// goroutine (with no lock held). With BlockWrite enabled, a callback that writes
// more than one congestion window of data blocks in Write until SACKs arrive,
// but SACKs can only be processed by the goroutine that is executing the
// callback: the association is dead-locked for good (and Close() hangs too).
func TestZZBlockingWriteInsideBufferedAmountLowCallback(t *testing.T) {
	conn1, conn2 := createUDPConnPair()
	a0, a1, err := createAssociationPairWithConfig(conn1, conn2, Config{BlockWrite: true})
	require.NoError(t, err)

	s0, err := a0.OpenStream(1, PayloadTypeWebRTCBinary)
	require.NoError(t, err)

	big := bytes.Repeat([]byte{'x'}, 30000)
	cbStarted := make(chan struct{})
	cbDone := make(chan struct{})
	fired := false
	s0.SetBufferedAmountLowThreshold(0)
	s0.OnBufferedAmountLow(func() {
		if fired {
			return
		}
		fired = true
		close(cbStarted)
		_, _ = s0.Write(big) // accepted at once (nothing pending)
		_, _ = s0.Write(big) // must wait until the first one left the pending queue
		close(cbDone)
	})

	// reader on the peer so that flow control never stalls
	go func() {
		s1, aerr := a1.AcceptStream()
		if aerr != nil {
			return
		}
		buf := make([]byte, 70000)
		for {
			if _, rerr := s1.Read(buf); rerr != nil {
				return
			}
		}
	}()

	_, err = s0.Write([]byte("kick")) // its SACK fires the callback
	require.NoError(t, err)

	select {
	case <-cbStarted:
	case <-time.After(3 * time.Second):
		t.Fatal("setup: callback not invoked")
	}

	select {
	case <-cbDone:
		_ = a0.Close()
		_ = a1.Close()
	case <-time.After(4 * time.Second):
		// Show that the association is wedged: Close() cannot complete either.
		closed := make(chan struct{})
		go func() { _ = a0.Close(); close(closed) }()
		closeHangs := false
		select {
		case <-closed:
		case <-time.After(2 * time.Second):
			closeHangs = true
		}
		a0.lock.RLock()
		pending, inflight := a0.pendingQueue.size(), a0.inflightQueue.size()
		a0.lock.RUnlock()
		// release the stuck writer so goroutines can wind down
		_ = s0.SetWriteDeadline(time.Now())
		_ = a1.Close()
		t.Fatalf("Write inside OnBufferedAmountLow never returned (4s): read loop is blocked in the callback, "+
			"pending=%d inflight=%d chunks cannot progress; Association.Close() hangs too: %v",
			pending, inflight, closeHangs)
	}
}

// Calling Association.Close() from the callback dead-locks: Close waits for the
// read loop to exit, and the read loop is the goroutine running the callback.
func TestZZCloseInsideBufferedAmountLowCallback(t *testing.T) {
	conn1, conn2 := createUDPConnPair()
	a0, a1, err := createAssociationPairWithConfig(conn1, conn2, Config{})
	require.NoError(t, err)
	defer a1.Close() //nolint:errcheck

	s0, err := a0.OpenStream(1, PayloadTypeWebRTCBinary)
	require.NoError(t, err)

	cbDone := make(chan struct{})
	fired := false
	s0.OnBufferedAmountLow(func() {
		if fired {
			return
		}
		fired = true
		_ = a0.Close()
		close(cbDone)
	})
	_, err = s0.Write([]byte("kick"))
	require.NoError(t, err)

	select {
	case <-cbDone:
	case <-time.After(4 * time.Second):
		t.Fatal("Association.Close() called from OnBufferedAmountLow never returned (self dead-lock on readLoopCloseCh)")
	}
}
