package sctp

import (
	"io"
	"sync"
	"testing"
	"time"

	"github.com/pion/transport/v4/test"
	"github.com/stretchr/testify/assert"
	"github.com/stretchr/testify/require"
)

// C06: retransmission stops when the policy is exhausted (rexmit N => at most
// N+1 transmissions). After the peer has reset ITS outgoing side of the stream
// (half-close), the local stream is still open for writing, but its
// reliability policy is silently ignored: the chunk is retransmitted.
func TestHunt2RexmitLimitAfterPeerHalfClose(t *testing.T) {
	// control: without the half-close the limit is honoured.
	require.Equal(t, 1, hunt2Transmissions(t, false), "control: chunk must be sent exactly once")
	cnt := hunt2Transmissions(t, true)
	assert.LessOrEqualf(t, cnt, 1,
		"after the peer half-closed the stream the chunk was put on the wire %d times with max retransmits 0", cnt)
}

func hunt2Transmissions(t *testing.T, peerHalfClose bool) int {
	t.Helper()

	lim := test.TimeOut(time.Second * 20)
	defer lim.Stop()

	const si uint16 = 1
	br := test.NewBridge()

	a0, a1, err := createNewAssociationPair(br, ackModeNoDelay, 0)
	require.NoError(t, err)

	s0, s1, err := establishSessionPair(br, a0, a1, si)
	require.NoError(t, err)

	a0.rtoMgr.setRTO(100.0, true)

	if peerHalfClose {
		// The peer closes its sending direction only.
		require.NoError(t, s1.Close())
		doneCh := make(chan error, 1)
		go func() {
			buf := make([]byte, 32)
			_, _, rerr := s0.ReadSCTP(buf)
			doneCh <- rerr
		}()
	loop:
		for {
			br.Process()
			select {
			case rerr := <-doneCh:
				require.Equal(t, io.EOF, rerr)

				break loop
			default:
			}
		}
		flushBuffers(br, a0, a1)
	}
	require.Equal(t, StreamStateOpen, s0.State(), "local write side is still open")

	s0.SetReliabilityParams(false, ReliabilityTypeRexmit, 0) // N = 0

	var mu sync.Mutex
	wire := map[uint32]int{}
	nFwd := 0
	br.Filter(0, func(raw []byte) bool {
		p := &packet{}
		if err := p.unmarshal(true, raw); err != nil {
			return true
		}
		mu.Lock()
		defer mu.Unlock()
		keep := true
		for _, c := range p.chunks {
			switch d := c.(type) {
			case *chunkPayloadData:
				wire[d.tsn]++
				if wire[d.tsn] <= 3 {
					keep = false // lose the first three transmissions
				}
			case *chunkForwardTSN:
				nFwd++
			}
		}

		return keep
	})

	n, err := s0.WriteSCTP([]byte("unreliable"), PayloadTypeWebRTCBinary)
	require.NoError(t, err)
	require.Equal(t, 10, n)

	for i := 0; i < 150; i++ { // 1.5 s >> RTO (100 ms)
		time.Sleep(10 * time.Millisecond)
		br.Tick()
	}

	mu.Lock()
	require.Len(t, wire, 1)
	total := 0
	for tsn, cnt := range wire {
		t.Logf("peerHalfClose=%v: tsn=%d transmissions=%d FORWARD-TSN sent=%d", peerHalfClose, tsn, cnt, nFwd)
		total = cnt
	}
	mu.Unlock()

	br.Filter(0, nil)
	closeAssociationPair(br, a0, a1)

	return total
}
