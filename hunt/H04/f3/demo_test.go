package sctp

import (
	"errors"
	"os"
	"testing"
	"time"

	"github.com/pion/transport/v4/test"
	"github.com/stretchr/testify/require"
)

// C18: "a read deadline makes a blocked read return at the deadline".
// With two reads blocked on the same stream only one of them returns when the
// deadline expires; the other one stays blocked although the deadline passed.
func TestHunt2ReadDeadlineWakesOnlyOneBlockedReader(t *testing.T) {
	lim := test.TimeOut(20 * time.Second)
	defer lim.Stop()

	br := test.NewBridge()
	a0, a1, err := createNewAssociationPair(br, ackModeNoDelay, 0)
	require.NoError(t, err)
	defer closeAssociationPair(br, a0, a1)

	_, s1, err := establishSessionPair(br, a0, a1, 1)
	require.NoError(t, err)

	type res struct {
		n   int
		err error
	}
	results := make(chan res, 2)
	for i := 0; i < 2; i++ {
		go func() {
			buf := make([]byte, 64)
			n, rerr := s1.Read(buf)
			results <- res{n, rerr}
		}()
	}
	// let both reads block
	time.Sleep(200 * time.Millisecond)

	require.NoError(t, s1.SetReadDeadline(time.Now().Add(200*time.Millisecond)))

	for i := 0; i < 2; i++ {
		select {
		case r := <-results:
			require.Error(t, r.err)
			require.True(t, errors.Is(r.err, os.ErrDeadlineExceeded), "got %v", r.err)
		case <-time.After(3 * time.Second):
			// Unblock the stuck reader so that the test can clean up.
			s1.lock.Lock()
			s1.readNotifier.Broadcast()
			s1.lock.Unlock()
			require.FailNowf(t, "blocked read did not return at the deadline",
				"only %d of 2 blocked reads returned within 3s of a 200ms read deadline", i)
		}
	}
}
