package sctp

import (
	"testing"

	"github.com/stretchr/testify/require"
)

func f2Established(t *testing.T, cfg Config, peerInitialTSN uint32) *Association {
	t.Helper()

	a := createTestAssociation(t, cfg)
	a.lock.Lock()
	a.setState(established)
	a.peerVerificationTag = 1
	a.sourcePort = defaultSCTPSrcDstPort
	a.destinationPort = defaultSCTPSrcDstPort
	a.useForwardTSN = true
	a.payloadQueue.init(peerInitialTSN - 1)
	a.lock.Unlock()

	return a
}

func f2Inbound(t *testing.T, a *Association, chunks ...chunk) {
	t.Helper()

	raw, err := a.createPacket(chunks).marshal(true)
	require.NoError(t, err)
	require.NoError(t, a.handleInbound(raw))
}

func f2AdvertisedWindow(a *Association) uint32 {
	a.lock.Lock()
	defer a.lock.Unlock()

	return a.createSelectiveAckChunk().advertisedReceiverWindowCredit
}

// C11: an incoming stream reset removes the stream from the window accounting
// although the user bytes it holds for unread delivery are still held (and still
// delivered by Read). The advertised window jumps back to the full buffer.
func TestF2_StreamResetDropsUnreadBytesFromWindow(t *testing.T) {
	const bufSize = 10000
	a := f2Established(t, Config{MaxReceiveBufferSize: bufSize}, 100)

	// three complete ordered 1000-byte messages on stream 1, nobody reads them
	for i := range 3 {
		f2Inbound(t, a, &chunkPayloadData{
			tsn:                  uint32(100 + i), //nolint:gosec
			streamIdentifier:     1,
			streamSequenceNumber: uint16(i), //nolint:gosec
			beginningFragment:    true,
			endingFragment:       true,
			payloadType:          PayloadTypeWebRTCBinary,
			userData:             make([]byte, 1000),
		})
	}
	s1, err := a.AcceptStream()
	require.NoError(t, err)
	require.Equal(t, uint32(bufSize-3000), f2AdvertisedWindow(a))

	// the peer resets its outgoing stream 1 (all its data has been received)
	f2Inbound(t, a, &chunkReconfig{paramA: &paramOutgoingResetRequest{
		reconfigRequestSequenceNumber: 1,
		senderLastTSN:                 102,
		streamIdentifiers:             []uint16{1},
	}})

	// the three messages are still held for unread delivery ...
	held := s1.getNumBytesInReassemblyQueue()
	require.Equal(t, 3000, held)

	// ... so the advertised window must still be buffer - held bytes.
	adv := f2AdvertisedWindow(a)

	// (and they are really still delivered to the application afterwards)
	buf := make([]byte, 2000)
	n, _, err := s1.ReadSCTP(buf)
	require.NoError(t, err)
	require.Equal(t, 1000, n)

	require.Equalf(t, uint32(bufSize-held), adv,
		"advertised window after the reset is %d although %d unread bytes are still held (buffer %d)",
		adv, held, bufSize)
}

// Same defect, memory side: "data + reset" repeated makes the endpoint hold many
// times its receive buffer while the peer never exceeds the advertised window.
func TestF2_StreamResetLetsPeerExceedReceiveBuffer(t *testing.T) {
	const bufSize = 10000
	a := f2Established(t, Config{MaxReceiveBufferSize: bufSize}, 100)

	tsn := uint32(100)
	streams := []*Stream{}
	for round := range 10 {
		for i := range 9 { // 9000 bytes per round: always inside the advertised window
			require.GreaterOrEqual(t, f2AdvertisedWindow(a), uint32(1000), "sender respects the advertised window")
			f2Inbound(t, a, &chunkPayloadData{
				tsn:                  tsn,
				streamIdentifier:     1,
				streamSequenceNumber: uint16(i), //nolint:gosec
				beginningFragment:    true,
				endingFragment:       true,
				payloadType:          PayloadTypeWebRTCBinary,
				userData:             make([]byte, 1000),
			})
			tsn++
		}
		s, err := a.AcceptStream() // the application accepts the stream but has not read yet
		require.NoError(t, err)
		streams = append(streams, s)

		f2Inbound(t, a, &chunkReconfig{paramA: &paramOutgoingResetRequest{
			reconfigRequestSequenceNumber: uint32(round + 1), //nolint:gosec
			senderLastTSN:                 tsn - 1,
			streamIdentifiers:             []uint16{1},
		}})
	}

	held := 0
	for _, s := range streams {
		held += s.getNumBytesInReassemblyQueue()
	}
	require.LessOrEqualf(t, held, bufSize,
		"endpoint holds %d unread user bytes with a receive buffer of %d", held, bufSize)
}
