package main

import (
	"fmt"
	"go/token"
	"go/types"
	"sort"
	"strings"

	"golang.org/x/tools/go/ssa"
)

// chunkTypes returns the named struct types whose pointer implements `chunk`.
func (c *RuleCtx) implementors(ifaceName string) []*types.Named {
	obj := c.P.Types.Scope().Lookup(ifaceName)
	if obj == nil {
		panic(unresolved{"interface " + ifaceName})
	}
	it, ok := obj.Type().Underlying().(*types.Interface)
	if !ok {
		panic(unresolved{ifaceName + " is not an interface"})
	}
	var out []*types.Named
	sc := c.P.Types.Scope()
	for _, n := range sc.Names() {
		tn, ok := sc.Lookup(n).(*types.TypeName)
		if !ok {
			continue
		}
		named, ok := tn.Type().(*types.Named)
		if !ok || named.TypeParams().Len() > 0 {
			continue
		}
		if _, isStruct := named.Underlying().(*types.Struct); !isStruct {
			continue
		}
		if types.Implements(types.NewPointer(named), it) {
			out = append(out, named)
		}
	}
	return out
}

// quietCells: handler -> states in which the handler may have effects beyond logging.
var actStates = map[string][]string{
	"Association.handleInit":             {"closed", "cookieWait", "cookieEchoed"},
	"Association.handleInitAck":          {"cookieWait"},
	"Association.handleCookieEcho":       {"closed", "cookieWait", "cookieEchoed"},
	"Association.handleCookieAck":        {"cookieEchoed"},
	"Association.handleData":             {"established", "shutdownPending", "shutdownSent"},
	"Association.handleSack":             {"established", "shutdownPending", "shutdownReceived"},
	"Association.handleShutdown":         {"established", "shutdownPending", "shutdownReceived"},
	"Association.handleShutdownAck":      {"shutdownSent", "shutdownAckSent"},
	"Association.handleShutdownComplete": {"shutdownAckSent"},
}

// limitedCells: (handler, state) -> the only effect labels allowed.
var limitedCells = map[string]map[string][]string{
	"Association.handleInit": {
		"shutdownAckSent": {"store:Association.willSendShutdown", "store:Association.willSendShutdownAck", "chan-send", "store:rtxTimer.pending", "store:rtxTimer.state", "time:Stop"},
	},
	"Association.handleShutdown": {
		"shutdownAckSent": {"store:Association.willSendShutdown", "store:Association.willSendShutdownAck", "chan-send", "store:rtxTimer.pending", "store:rtxTimer.state", "time:Stop"},
		"shutdownSent":    {"store:Association.willSendShutdown", "store:Association.willSendShutdownAck", "chan-send", "store:rtxTimer.pending", "store:rtxTimer.state", "time:Stop", "setState:shutdownAckSent"},
	},
}

func effectLabels(p *Prog, run *StateRun) []string {
	set := map[string]bool{}
	for _, ef := range p.EffectsOf(run.Reach) {
		set[ef.Label] = true
	}
	var out []string
	for l := range set {
		out = append(out, l)
	}
	sort.Strings(out)
	return out
}

func (c *RuleCtx) chunkHandlers() []string {
	hc := c.Fn("Association.handleChunk")
	seen := map[string]bool{}
	var handlers []string
	for _, ed := range c.P.Callees(hc) {
		n := c.P.FuncName(ed.To)
		if strings.HasPrefix(n, "Association.handle") && ed.Kind == "static" && !seen[n] {
			seen[n] = true
			handlers = append(handlers, n)
		}
	}
	sort.Strings(handlers)
	return handlers
}

func init() {
	register(&Rule{ID: "C03.R3", Props: []string{"C03", "C12"}, Engine: "E3-defuse",
		Title:   "a chunk decoder reads only its own bytes: the raw parameter is used solely to fill the chunk header, everything else goes through the header's length-bounded view",
		MinInst: 16,
		Run: func(c *RuleCtx) {
			hdrUn := c.Fn("chunkHeader.unmarshal")
			for _, t := range c.implementors("chunk") {
				name := t.Obj().Name()
				fn := c.P.Fn(name + ".unmarshal")
				if fn == nil {
					// promoted from the header: nothing else to read
					c.Ok("own-bytes:"+name, "", "unmarshal is the header's (no body)")
					continue
				}
				if fn == hdrUn {
					continue
				}
				raw := fn.Params[1]
				bad := ""
				for _, ref := range *raw.Referrers() {
					switch x := ref.(type) {
					case *ssa.DebugRef:
					case *ssa.Call:
						if x.Call.StaticCallee() == hdrUn && len(x.Call.Args) == 2 && x.Call.Args[1] == raw {
							continue
						}
						bad = c.Pos(ref)
					default:
						bad = c.Pos(ref)
					}
				}
				c.Check(bad == "", "own-bytes:"+name, c.P.Pos(fn.Pos()), "raw is passed only to chunkHeader.unmarshal",
					"decoder reads the raw parameter (rest of the packet) directly at "+bad+" instead of the chunk's own value bytes")
			}
		}})

	register(&Rule{ID: "C03.R4", Props: []string{"C03", "C12", "C19"}, Engine: "E1",
		Title:   "dispatch tables agree: every chunk type the association handles is decodable and vice versa; both have an error default",
		MinInst: 16,
		Run: func(c *RuleCtx) {
			pu := c.Fn("packet.unmarshal")
			hc := c.Fn("Association.handleChunk")
			decoded := map[string]bool{}
			forEachInstr(pu, func(in ssa.Instruction) {
				if mi, ok := in.(*ssa.MakeInterface); ok && typeShort(mi.Type()) == "chunk" {
					decoded[typeShort(mi.X.Type())] = true
				}
			})
			handled := map[string]bool{}
			forEachInstr(hc, func(in ssa.Instruction) {
				if ta, ok := in.(*ssa.TypeAssert); ok && ta.CommaOk {
					handled[typeShort(ta.AssertedType)] = true
				}
			})
			all := map[string]bool{}
			for k := range decoded {
				all[k] = true
			}
			for k := range handled {
				all[k] = true
			}
			for _, t := range c.implementors("chunk") {
				all["*"+t.Obj().Name()] = true
			}
			var names []string
			for k := range all {
				names = append(names, k)
			}
			sort.Strings(names)
			for _, n := range names {
				c.Check(decoded[n] == handled[n] && decoded[n], "dispatch:"+n, c.P.Pos(pu.Pos()),
					"decoded by packet.unmarshal and handled by handleChunk",
					fmt.Sprintf("chunk type %s: decodable=%v handled=%v (a chunk the peer/this package emits would be dropped or rejected)", n, decoded[n], handled[n]))
			}
		}})

	register(&Rule{ID: "C03.R5", Props: []string{"C03", "C04", "C08"}, Engine: "E5",
		Title:   "state × chunk effect matrix: in every association state in which a handler must ignore its chunk it has no effect beyond logging (exhaustive over handlers × 8 states)",
		MinInst: 100,
		Run: func(c *RuleCtx) {
			e, err := c.P.States()
			if err != nil {
				panic(unresolved{err.Error()})
			}
			handlers := c.chunkHandlers()
			for h := range actStates {
				found := false
				for _, x := range handlers {
					if x == h {
						found = true
					}
				}
				if !found {
					c.Unresolved("handler " + h + " not called from handleChunk")
				}
			}
			for _, h := range handlers {
				fn := c.Fn(h)
				act, constrained := actStates[h]
				for i, sn := range e.names {
					run := e.Run(fn, 1<<uint(i))
					labels := effectLabels(c.P, run)
					key := fmt.Sprintf("cell:%s@%s", strings.TrimPrefix(h, "Association."), sn)
					if !constrained {
						c.Ok(key, "", fmt.Sprintf("unconstrained by state in the oracle (%d effect kinds)", len(labels)))
						continue
					}
					mayAct := false
					for _, a := range act {
						if a == sn {
							mayAct = true
						}
					}
					if mayAct {
						c.Check(len(labels) > 0, key, "", fmt.Sprintf("handler acts in this state (%d effect kinds)", len(labels)),
							"handler has no effect in a state where the protocol requires it to act")
						continue
					}
					allowed := map[string]bool{}
					if lim, ok := limitedCells[h][sn]; ok {
						for _, l := range lim {
							allowed[l] = true
						}
					}
					var extra []string
					for _, l := range labels {
						if !allowed[l] && !strings.HasPrefix(l, "atomic:associationStats.") {
							extra = append(extra, l)
						}
					}
					sites := ""
					if len(extra) > 0 {
						for _, ef := range c.P.EffectsOf(run.Reach) {
							if ef.Label == extra[0] {
								sites = c.P.InstrPos(ef.Instr)
								break
							}
						}
					}
					c.Check(len(extra) == 0, key, sites, "no effect beyond logging / the allowed re-arm in this state",
						"handler acts in a state where the chunk must be ignored: "+strings.Join(extra, " "))
				}
			}
		}})

	register(&Rule{ID: "C03.R6", Props: []string{"C03", "C01", "C10"}, Engine: "E3",
		Title:   "a SACK is validated as a whole before anything is released or marked; the cumulative ack point only moves forward",
		MinInst: 13,
		Run: func(c *RuleCtx) {
			psa := c.Fn("Association.processSelectiveAck")
			get := c.Fn("payloadQueue.get")
			cumPt := c.field("Association", "cumulativeTSNAckPoint")
			sackCum := c.field("chunkSelectiveAck", "cumulativeTSNAck")
			gs := c.field("gapAckBlock", "start")
			ge := c.field("gapAckBlock", "end")
			// mutators
			var muts []ssa.Instruction
			mutNames := map[string]bool{"payloadQueue.pop": true, "payloadQueue.markAsAcked": true, "Association.rackRemove": true,
				"rtxTimer.stop": true, "rtoManager.setNewRTT": true}
			forEachInstr(psa, func(in ssa.Instruction) {
				switch x := in.(type) {
				case ssa.CallInstruction:
					if sc := x.Common().StaticCallee(); sc != nil && mutNames[c.P.FuncName(sc)] {
						muts = append(muts, in)
					}
				case *ssa.Store:
					if !isFresh(x.Addr) {
						if _, isAlloc := addrRoot(x.Addr).(*ssa.Alloc); !isAlloc {
							muts = append(muts, in)
						}
					}
				}
			})
			c.Check(len(muts) >= 8, "mutators-found", c.P.Pos(psa.Pos()), fmt.Sprintf("%d state mutators identified in processSelectiveAck", len(muts)), "too few mutators recognised")
			firstMut := muts[0]
			for _, m := range muts {
				if m.Pos() < firstMut.Pos() && m.Pos().IsValid() {
					firstMut = m
				}
			}
			// validation checks: If instructions whose failing edge returns an error, located before the first mutator
			type vcheck struct {
				name string
				pat  func(ifi *ssa.If) (bool, int) // matches, failing successor index
			}
			// okOfGet: v is the ok result of inflightQueue.get(x), directly or through a
			// one-level wrapper such as  func (a) isInflight(tsn) bool { _, ok := a.inflightQueue.get(tsn); return ok }
			okOfGet := func(v ssa.Value) (ssa.Value, bool) {
				if ex, ok := v.(*ssa.Extract); ok && ex.Index == 1 {
					if call, ok := isCallTo(ex.Tuple, get); ok {
						return call.Call.Args[1], true
					}
				}
				if call, ok := v.(*ssa.Call); ok {
					sc := call.Call.StaticCallee()
					if sc != nil && c.P.inPkg(sc) && sc.Blocks != nil {
						for _, r := range allReturns(sc) {
							res := retResults(r)
							if len(res) != 1 {
								return nil, false
							}
							ex, ok := res[0].(*ssa.Extract)
							if !ok || ex.Index != 1 {
								return nil, false
							}
							inner, ok := isCallTo(ex.Tuple, get)
							if !ok {
								return nil, false
							}
							for pi, p := range sc.Params {
								if inner.Call.Args[1] == ssa.Value(p) && pi < len(call.Call.Args) {
									return call.Call.Args[pi], true
								}
							}
						}
					}
				}
				return nil, false
			}
			getArg := func(ifi *ssa.If, argPat VPat) (bool, int) {
				// "if ok goto cont else fail" (or the negated form)
				cv, pol := normCond(ifi.Cond, true)
				arg, ok := okOfGet(cv)
				if !ok || !argPat(arg) {
					return false, 0
				}
				if pol {
					return true, 1 // cond true = present; failing edge is the false successor
				}
				return true, 0
			}
			conv := func(p VPat) VPat { return func(v ssa.Value) bool { return p(unconv(v)) } }
			checks := []vcheck{
				{"inflight has cumAckPoint+1", func(i *ssa.If) (bool, int) { return getArg(i, BinV(token.ADD, IsLoadOf(cumPt), IsConstInt(1))) }},
				{"inflight has sack.cumulativeTSNAck", func(i *ssa.If) (bool, int) { return getArg(i, IsLoadOf(sackCum)) }},
				{"inflight has cum+gap.start", func(i *ssa.If) (bool, int) { return getArg(i, BinV(token.ADD, IsLoadOf(sackCum), conv(IsLoadOf(gs)))) }},
				{"inflight has cum+gap.end", func(i *ssa.If) (bool, int) { return getArg(i, BinV(token.ADD, IsLoadOf(sackCum), conv(IsLoadOf(ge)))) }},
				{"gap.start != 0", func(i *ssa.If) (bool, int) {
					b, ok := i.Cond.(*ssa.BinOp)
					return ok && b.Op == token.EQL && IsLoadOf(gs)(b.X) && IsConstInt(0)(b.Y), 0
				}},
				{"gap.start <= gap.end", func(i *ssa.If) (bool, int) {
					b, ok := i.Cond.(*ssa.BinOp)
					if !ok {
						return false, 0
					}
					// start > end, or end < start: the true side is the failing one
					if b.Op == token.GTR && IsLoadOf(gs)(b.X) && IsLoadOf(ge)(b.Y) {
						return true, 0
					}
					if b.Op == token.LSS && IsLoadOf(ge)(b.X) && IsLoadOf(gs)(b.Y) {
						return true, 0
					}
					// start <= end, or end >= start: the false side is the failing one
					if b.Op == token.LEQ && IsLoadOf(gs)(b.X) && IsLoadOf(ge)(b.Y) {
						return true, 1
					}
					if b.Op == token.GEQ && IsLoadOf(ge)(b.X) && IsLoadOf(gs)(b.Y) {
						return true, 1
					}
					return false, 0
				}},
			}
			// anchorIn: the instruction of psa that stands for x (x itself, or the call that leads to the private helper holding x)
			var anchorIn func(x ssa.Instruction, d int) ssa.Instruction
			anchorIn = func(x ssa.Instruction, d int) ssa.Instruction {
				if x.Parent() == psa {
					return x
				}
				if d > 3 || !c.P.PrivateHelper(x.Parent()) {
					return nil
				}
				sites := c.P.CallSitesOf(x.Parent())
				if len(sites) != 1 {
					return nil
				}
				return anchorIn(sites[0].Instr, d+1)
			}
			for _, vc := range checks {
				var hit *ssa.If
				fail := 0
				for _, g := range c.P.Region(psa) {
					forEachInstr(g, func(in ssa.Instruction) {
						ifi, ok := in.(*ssa.If)
						if !ok || hit != nil {
							return
						}
						// only the validation prefix: not reachable from any mutator
						if m, f := vc.pat(ifi); m {
							anchor := anchorIn(ifi, 0)
							if anchor == nil {
								return
							}
							for _, mu := range muts {
								if mu.Parent() == psa && CanReach(mu, anchor) {
									return
								}
							}
							hit, fail = ifi, f
						}
					})
				}
				if hit == nil {
					c.Fail("validate:"+vc.name, c.P.Pos(psa.Pos()), "validation check '"+vc.name+"' not found ahead of all mutators: an invalid SACK could be partially applied")
					continue
				}
				// failing edge returns a non-nil error without passing a mutator
				okErr := true
				fb := hit.Block().Succs[fail]
				var ret *ssa.Return
				for _, in := range fb.Instrs {
					if r, ok := in.(*ssa.Return); ok {
						ret = r
					}
				}
				if ret == nil {
					okErr = false
				} else {
					res := retResults(ret)
					okErr = len(res) > 0 && !isNilConst(res[len(res)-1])
				}
				if okErr && hit.Parent() != psa {
					// the helper's error must end the caller too: the call result is tested and the error edge returns
					anchor := anchorIn(hit, 0)
					okErr = false
					if av, isV := anchor.(ssa.Value); isV {
						forEachInstr(psa, func(in ssa.Instruction) {
							ifi, ok := in.(*ssa.If)
							if !ok {
								return
							}
							b, ok := ifi.Cond.(*ssa.BinOp)
							if !ok || b.Op != token.NEQ || !isNilConst(b.Y) {
								return
							}
							tested := b.X == av
							if ex, isEx := b.X.(*ssa.Extract); isEx && ex.Tuple == av {
								tested = true
							}
							if !tested {
								return
							}
							for _, x := range ifi.Block().Succs[0].Instrs {
								if r, isRet := x.(*ssa.Return); isRet {
									res := retResults(r)
									if len(res) > 0 && !isNilConst(res[len(res)-1]) {
										okErr = true
									}
								}
							}
						})
					}
				}
				c.Check(okErr, "validate:"+vc.name, c.Pos(hit), "checked before any mutation; failure returns an error", "check exists but its failing edge does not return an error")
			}
			// processAcknowledgement
			pa := c.Fn("Association.processAcknowledgement")
			gt := c.Fn("sna32GT")
			lt := c.Fn("sna32LT")
			for _, pc := range callsIn(pa, psa) {
				c.Dom("stale-sack-dropped", pc, CallCond(gt, false, IsLoadOf(cumPt), IsLoadOf(sackCum)), "sna32GT(cumulativeTSNAckPoint, sack.cum)==false")
			}
			c.WritersWithin("ackpoint", cumPt, "Association.processAcknowledgement", "createAssociationFromConfigWithTsn")
			for _, a := range c.storesIn(pa, cumPt) {
				c.Dom("ackpoint-forward-only", a.Instr, CallCond(lt, true, IsLoadOf(cumPt), IsLoadOf(sackCum)), "sna32LT(cumulativeTSNAckPoint, sack.cum)==true")
				c.Check(IsLoadOf(sackCum)(a.Val), "ackpoint-value", c.Pos(a.Instr), "cumulativeTSNAckPoint <- sack.cumulativeTSNAck", "ack point set from something other than the SACK's cumulative TSN")
			}
			// errors from processSelectiveAck propagate before any ack-point change
			for _, pc := range callsIn(pa, psa) {
				for _, a := range c.storesIn(pa, cumPt) {
					c.Check(InstrDominates(pc, a.Instr), "validate-before-advance", c.Pos(a.Instr), "processSelectiveAck (validation) dominates the ack-point store", "ack point may move before validation")
				}
			}
		}})

	register(&Rule{ID: "C03.R7", Props: []string{"C03", "C05"}, Engine: "E3",
		Title:   "a forward-TSN at or behind the cumulative point is ignored; the receive cumulative TSN only moves forward",
		MinInst: 5,
		Run: func(c *RuleCtx) {
			adv := c.Fn("receivePayloadQueue.advanceCumulativeTSN")
			lte := c.Fn("sna32LTE")
			lt := c.Fn("sna32LT")
			peer := c.Fn("Association.peerLastTSN")
			ks := keyer{}
			for _, cs := range c.P.CallSitesOf(adv) {
				newCum := callArg(cs.Instr, 1)
				c.Dom(ks.key("fwd-not-stale@"+c.P.FuncName(cs.Fn)), cs.Instr, CallCond(lte, false, SameExpr(newCum), IsCallOf(peer)),
					"sna32LTE(newCumulativeTSN, peerLastTSN())==false")
			}
			cum := c.field("receivePayloadQueue", "cumulativeTSN")
			for _, a := range c.storesIn(adv, cum) {
				c.Dom(ks.key("cum-forward-only"), a.Instr, CallCond(lt, true, IsLoadOf(cum), IsParam(adv, 1)), "sna32LT(q.cumulativeTSN, new)==true")
				c.Check(IsParam(adv, 1)(a.Val), ks.key("cum-value"), c.Pos(a.Instr), "cumulativeTSN <- the forwarded TSN", "cumulativeTSN set to something else")
			}
		}})

	register(&Rule{ID: "C03.R8", Props: []string{"C03", "C09"}, Engine: "E3",
		Title:   "only ABORT is fatal: handleChunk returns an error only for the ABORT case, handleInbound only propagates that; a stream-level error aborts",
		MinInst: 5,
		Run: func(c *RuleCtx) {
			hc := c.Fn("Association.handleChunk")
			ks := keyer{}
			for _, r := range allReturns(hc) {
				res := retResults(r)
				if len(res) != 1 || isNilConst(res[0]) {
					c.Ok(ks.key("handleChunk-return-nil"), c.Pos(r), "returns nil")
					continue
				}
				ok := false
				for _, f := range DomFacts(r.Block()) {
					if f.Taken && typeAssertOK(f.Cond, "*chunkAbort") {
						ok = true
					}
				}
				c.Check(ok, ks.key("handleChunk-return-err"), c.Pos(r), "non-nil return only on the *chunkAbort case", "handleChunk can return an error (killing the read loop) for a chunk other than ABORT")
			}
			hi := c.Fn("Association.handleInbound")
			for _, r := range allReturns(hi) {
				res := retResults(r)
				if len(res) != 1 || isNilConst(res[0]) {
					c.Ok(ks.key("handleInbound-return-nil"), c.Pos(r), "returns nil")
					continue
				}
				c.Check(IsCallOf(hc)(res[0]), ks.key("handleInbound-return-err"), c.Pos(r), "non-nil return is handleChunk's (ABORT) error", "handleInbound returns an error that does not come from handleChunk: malformed input would kill the read loop")
			}
			pts := c.deliverFn()
			apv := c.Fn("Association.abortProtocolViolation")
			found := false
			forEachInstr(pts, func(in ssa.Instruction) {
				ifi, ok := in.(*ssa.If)
				if !ok {
					return
				}
				b, ok := ifi.Cond.(*ssa.BinOp)
				if !ok || b.Op != token.NEQ || !isNilConst(b.Y) || !IsCallOf(c.Fn("Stream.handleData"))(b.X) {
					return
				}
				found = true
				ok2, bad := MustPassFromBlock(ifi.Block().Succs[0], c.P.CallTargetPred(0, apv), PathOpts{})
				c.Check(ok2, "stream-error-aborts", c.Pos(ifi), "an error from stream.handleData always leads to abortProtocolViolation", "stream error path without ABORT at "+c.P.InstrPos(bad))
			})
			c.Check(found, "stream-error-branch", c.P.Pos(pts.Pos()), "error of stream.handleData is tested", "error of stream.handleData is not tested")
		}})

	register(&Rule{ID: "C03.R9", Props: []string{"C03"}, Engine: "E2",
		Title:   "no other panic source on inbound paths: no panic(), no unchecked type assertion, no division by an unreviewed variable in the region reachable from handleInbound",
		MinInst: 10,
		Run: func(c *RuleCtx) {
			region := c.P.TransitiveCallees(c.Fn("Association.handleInbound"))
			// reviewed divisors, keyed by what is divided by (not by where): lengths of the two ring buffers
			reviewedLen := map[*types.Var]string{
				c.field("receivePayloadQueue", "tsnBitmask"): "ring length >= 1 word: the constructor's loop starts at nWords = 1 and only doubles (C05.R3 / C16.R3)",
				c.field("queue", "buf"):                      "len(buf) >= minCap: newQueue starts at minCap and growIfFull only doubles",
			}
			reviewedDivisor := func(v ssa.Value) (string, bool) {
				call, ok := unconv(v).(*ssa.Call)
				if !ok {
					return "", false
				}
				b, ok := call.Call.Value.(*ssa.Builtin)
				if !ok || b.Name() != "len" {
					return "", false
				}
				for f, why := range reviewedLen {
					if IsLoadOf(f)(call.Call.Args[0]) {
						return why, true
					}
				}
				return "", false
			}
			assertReviewed := map[string]string{
				"Association.SRTT": "srtt only ever stores float64 (checked below)",
			}
			ks := keyer{}
			nFns := 0
			for fn := range region {
				nFns++
				name := c.P.FuncName(fn)
				forEachInstr(fn, func(in ssa.Instruction) {
					switch x := in.(type) {
					case *ssa.Panic:
						if k, ok := x.X.(*ssa.MakeInterface); ok {
							if kc, ok := k.X.(*ssa.Const); ok && kc.Value != nil && strings.Contains(kc.Value.String(), "blocking select matched no case") {
								return // go/ssa's lowering of select{}, unreachable
							}
						}
						c.Fail(ks.key("panic@"+name), c.Pos(in), "explicit panic reachable from handleInbound")
					case *ssa.TypeAssert:
						if !x.CommaOk {
							if why, ok := assertReviewed[name]; ok {
								c.Ok(ks.key("assert@"+name), c.Pos(in), "reviewed: "+why)
							} else {
								c.Fail(ks.key("assert@"+name), c.Pos(in), "single-value type assertion on an inbound path can panic")
							}
						}
					case *ssa.BinOp:
						if x.Op != token.REM && x.Op != token.QUO {
							return
						}
						if _, isConst := x.Y.(*ssa.Const); isConst {
							return
						}
						if bt, ok := x.Y.Type().Underlying().(*types.Basic); ok && bt.Info()&types.IsFloat != 0 {
							return // float division does not panic
						}
						if why, ok := reviewedDivisor(x.Y); ok {
							c.Ok(ks.key("div@"+name), c.Pos(in), "reviewed divisor: "+why)
						} else {
							c.Fail(ks.key("div@"+name), c.Pos(in), "division/modulo by a non-constant without a reviewed non-zero argument")
						}
					}
				})
			}
			c.Check(nFns >= 150, "region-size", "", fmt.Sprintf("%d functions reachable from handleInbound analysed", nFns), "inbound region unexpectedly small")
			// srtt: every Store on Association.srtt stores a float64
			srtt := c.field("Association", "srtt")
			n := 0
			for _, fn := range c.P.Funcs {
				forEachInstr(fn, func(in ssa.Instruction) {
					ci, ok := in.(ssa.CallInstruction)
					if !ok {
						return
					}
					sc := ci.Common().StaticCallee()
					if sc == nil || sc.Name() != "Store" || len(ci.Common().Args) != 2 || fieldOfAddr(ci.Common().Args[0]) != srtt {
						return
					}
					n++
					mi, ok := ci.Common().Args[1].(*ssa.MakeInterface)
					c.Check(ok && typeShort(mi.X.Type()) == "float64", ks.key("srtt-store@"+c.P.FuncName(fn)), c.Pos(in), "srtt.Store(float64)", "srtt stores a non-float64: SRTT()'s assertion would panic")
				})
			}
			c.Check(n >= 3, "srtt-stores", "", fmt.Sprintf("%d srtt stores, all float64", n), "srtt stores not found")
			// the constructor stores before the association is returned
			ctor := c.Fn("createAssociationFromConfigWithTsn")
			hasInit := false
			forEachInstr(ctor, func(in ssa.Instruction) {
				if ci, ok := in.(ssa.CallInstruction); ok {
					if sc := ci.Common().StaticCallee(); sc != nil && sc.Name() == "Store" && len(ci.Common().Args) == 2 && fieldOfAddr(ci.Common().Args[0]) == srtt {
						hasInit = true
					}
				}
			})
			c.Check(hasInit, "srtt-initialised", c.P.Pos(ctor.Pos()), "constructor initialises srtt", "constructor no longer initialises srtt: SRTT() would panic on nil")
		}})

	register(&Rule{ID: "C03.R10", Props: []string{"C03"}, Engine: "E3",
		Title:   "per-chunk validation precedes dispatch; a validation failure can only abort",
		MinInst: 4,
		Run: func(c *RuleCtx) {
			hc := c.Fn("Association.handleChunk")
			var checkErr ssa.Value
			forEachInstr(hc, func(in ssa.Instruction) {
				if call, ok := in.(*ssa.Call); ok && call.Call.IsInvoke() && call.Call.Method.Name() == "check" {
					if refs := call.Referrers(); refs != nil {
						for _, r := range *refs {
							if ex, ok := r.(*ssa.Extract); ok && ex.Index == 1 {
								checkErr = ex
							}
						}
					}
				}
			})
			if checkErr == nil {
				c.Fail("check-call", c.P.Pos(hc.Pos()), "receivedChunk.check() not called in handleChunk")
				return
			}
			errNil := CmpCond(token.EQL, IsValue(checkErr), isNilConst)
			n := 0
			forEachInstr(hc, func(in ssa.Instruction) {
				if ta, ok := in.(*ssa.TypeAssert); ok && ta.CommaOk {
					n++
					if !DominatedByExt(ta, errNil) {
						c.Fail("dispatch-after-check:"+typeShort(ta.AssertedType), c.Pos(ta), "type-switch case not dominated by check() == nil")
					}
				}
			})
			c.Check(n >= 16, "dispatch-after-check", c.P.Pos(hc.Pos()), fmt.Sprintf("all %d dispatch cases dominated by check() err == nil", n), "dispatch cases missing")
			// on the error edge: effects are only abortProtocolViolation, under abort && shouldAbort…
			apv := c.Fn("Association.abortProtocolViolation")
			should := c.Fn("shouldAbortOnChunkValidationError")
			for _, ac := range callsIn(hc, apv) {
				if !DominatedByExt(ac, CmpCond(token.NEQ, IsValue(checkErr), isNilConst)) {
					continue
				}
				c.Dom("abort-needs-flag", ac, func(v ssa.Value, t bool) bool {
					ex, ok := v.(*ssa.Extract)
					return ok && t && ex.Index == 0 && ex.Tuple == checkErr.(*ssa.Extract).Tuple
				}, "check() abort flag == true")
				c.Dom("abort-needs-should", ac, CallCond(should, true), "shouldAbortOnChunkValidationError(chunk)")
			}
			// INIT / INIT-ACK / COOKIE-ECHO are exempt from abort
			exempt := map[string]bool{}
			forEachInstr(should, func(in ssa.Instruction) {
				if ta, ok := in.(*ssa.TypeAssert); ok {
					exempt[typeShort(ta.AssertedType)] = true
				}
			})
			c.Check(exempt["*chunkInit"] && exempt["*chunkInitAck"] && exempt["*chunkCookieEcho"] && len(exempt) == 3, "abort-exemptions", c.P.Pos(should.Pos()),
				"exactly INIT, INIT-ACK, COOKIE-ECHO are exempt from validation aborts", fmt.Sprintf("exempt set changed: %v", exempt))
		}})

	register(&Rule{ID: "C03.R11", Props: []string{"C03", "C05"}, Engine: "E3",
		Title:   "forward-TSN advance is window-bounded: the per-TSN clearing loop runs only inside the tracking window, otherwise the bitmap is reset in O(words)",
		MinInst: 3,
		Run: func(c *RuleCtx) {
			adv := c.Fn("receivePayloadQueue.advanceCumulativeTSN")
			clr := c.Fn("receivePayloadQueue.clearTSNRange")
			lte := c.Fn("sna32LTE")
			tail := c.field("receivePayloadQueue", "tailTSN")
			cs := c.field("receivePayloadQueue", "chunkSize")
			c.CallersWithin("clear", clr, "receivePayloadQueue.advanceCumulativeTSN")
			for _, cc := range callsIn(adv, clr) {
				c.Dom("clear-within-window", cc, CallCond(lte, false, IsLoadOf(tail), IsParam(adv, 1)), "sna32LTE(tailTSN, new)==false (new cumulative point below the highest received TSN)")
				c.Dom("clear-nonempty", cc, CmpCond(token.NEQ, IsLoadOf(cs), IsConstInt(0)), "chunkSize != 0")
			}
		}})
}

func init() {
	register(&Rule{ID: "C03.R1", Props: []string{"C03", "C12"}, Engine: "E7",
		Title:   "decoder accesses are in bounds: every index, slice expression and fixed-width read in the region reachable from packet.unmarshal is proven from dominating length checks (linear facts; call-site preconditions to a fixpoint); unprovable sites are a reviewed table",
		MinInst: 150,
		Run:     runLengthGuards})
}

// lenguardReviewed: accesses the linear prover cannot discharge, each with the
// manual argument and the guard that argument rests on (the guard is still
// checked mechanically: it must dominate the access).
type lgReview struct {
	why      string
	requires func(c *RuleCtx, in ssa.Instruction) bool
}

var lenguardReviewed = map[string]lgReview{
	"chunkSelectiveAck.unmarshal|φoffset": {
		"second loop: offset continues from the first loop (12+4·len(gaps)) and advances 4 per duplicate TSN; with len(raw) == 12+4·len(gaps)+4·len(dups) every read ends at or before len(raw)",
		func(c *RuleCtx, in ssa.Instruction) bool {
			// the exact-length equality must dominate
			raw := c.field("chunkHeader", "raw")
			return DominatedByExt(in, func(v ssa.Value, t bool) bool {
				b, ok := v.(*ssa.BinOp)
				if !ok {
					return false
				}
				eq := (b.Op == token.EQL && t) || (b.Op == token.NEQ && !t)
				return eq && lenOf(raw, nil)(b.X) && Derives(lenOf(c.field("chunkSelectiveAck", "duplicateTSN"), nil))(b.Y) && Derives(lenOf(c.field("chunkSelectiveAck", "gapAckBlocks"), nil))(b.Y)
			})
		}},
	"normalizeIForwardTSNStreams|φnormalized": {
		"indices stored in the map are len(normalized) taken immediately before the element is appended; the slice only grows, so every stored index stays in range",
		func(c *RuleCtx, in ssa.Instruction) bool {
			// every value put into the index map is len(normalized)
			fn := in.Parent()
			ok := false
			forEachInstr(fn, func(x ssa.Instruction) {
				if mu, isMU := x.(*ssa.MapUpdate); isMU {
					if call, isCall := unconv(mu.Value).(*ssa.Call); isCall {
						if b, isB := call.Call.Value.(*ssa.Builtin); isB && b.Name() == "len" {
							ok = true
							return
						}
					}
					ok = false
				}
			})
			return ok
		}},
	"normalizeIForwardTSNStreams|index>=0": {
		"same argument: stored indices are len() values, hence non-negative",
		func(c *RuleCtx, in ssa.Instruction) bool { return true }},
	"chunkIForwardTSN.unmarshal|φoffset": {
		"running offset: starts at the fixed part (4) and advances one entry (8) per iteration, for streamCount = (len(raw)-4)/8 iterations, after (len(raw)-4) % 8 == 0 was checked: every entry ends at or before len(raw)",
		func(c *RuleCtx, in ssa.Instruction) bool { return dominatedByDivisibility(in) }},
	"chunkIForwardTSN.unmarshal|φrest": {
		"shrinking slice: starts as raw[4:], whose length is a checked multiple of the entry size (8), and drops one entry per iteration while non-empty: it always holds at least one whole entry",
		func(c *RuleCtx, in ssa.Instruction) bool { return dominatedByDivisibility(in) }},
	"paramRequestedHMACAlgorithm.unmarshal|φi": {
		"i advances by 2 from 0 and len(raw) is even (odd lengths are rejected first), so i < len(raw) implies i+2 <= len(raw)",
		func(c *RuleCtx, in ssa.Instruction) bool {
			return DominatedByExt(in, func(v ssa.Value, t bool) bool {
				b, ok := v.(*ssa.BinOp)
				if !ok || b.Op != token.EQL || t {
					return false
				}
				rem, ok := b.X.(*ssa.BinOp)
				return ok && rem.Op == token.REM && IsConstInt(2)(rem.Y) && IsConstInt(1)(b.Y)
			})
		}},
}

// dominatedByDivisibility: the access is dominated by the "length is a whole number of entries" check
// (x % K == 0 taken, or x % K != 0 not taken, K a constant > 1).
func dominatedByDivisibility(in ssa.Instruction) bool {
	return DominatedByExt(in, func(v ssa.Value, t bool) bool {
		b, ok := v.(*ssa.BinOp)
		if !ok || !IsConstInt(0)(b.Y) {
			return false
		}
		rem, ok := unconv(b.X).(*ssa.BinOp)
		if !ok || rem.Op != token.REM {
			return false
		}
		if k, isK := constInt(rem.Y); !isK || k < 2 {
			return false
		}
		return (b.Op == token.EQL && t) || (b.Op == token.NEQ && !t)
	})
}

func runLengthGuards(c *RuleCtx) {
	pu := c.Fn("packet.unmarshal")
	region := c.P.TransitiveCallees(pu)
	roots := map[*ssa.Function]bool{pu: true}
	obs := c.P.LengthGuards(region, roots)
	ks := keyer{}
	for _, o := range obs {
		name := c.P.FuncName(o.Fn)
		key := ks.key("bounds:" + name + ":" + o.What)
		if o.OK {
			c.Ok(key, c.Pos(o.Instr), "proven: "+o.Need.String()+" >= 0")
			continue
		}
		reviewed := false
		for rk, rv := range lenguardReviewed {
			parts := strings.SplitN(rk, "|", 2)
			if parts[0] == name && (strings.Contains(o.Need.String(), parts[1]) || strings.Contains(o.What, parts[1])) {
				if rv.requires(c, o.Instr) {
					c.Ok(key, c.Pos(o.Instr), "reviewed (guard verified): "+rv.why)
				} else {
					c.Fail(key, c.Pos(o.Instr), "reviewed argument no longer applies — its guard does not dominate the access: "+rv.why)
				}
				reviewed = true
				break
			}
		}
		if reviewed {
			continue
		}
		c.Fail(key, c.Pos(o.Instr), "cannot prove "+o.What+" in bounds: need "+o.Need.String()+" >= 0 from the dominating checks; facts: "+o.Why)
	}
}

// ---------------------------------------------------------------- C03.R2 decode-loop progress

// lowerBoundOf: a conservative lower bound of an integer value (only what the
// progress argument needs: constants, sums, getters of validated length fields).
func (c *RuleCtx) lowerBoundOf(v ssa.Value, d int) int64 {
	if d > 6 {
		return -1 << 30
	}
	if k, ok := constInt(v); ok {
		return k
	}
	v0 := v
	v = unconv(v)
	switch x := v.(type) {
	case *ssa.BinOp:
		switch x.Op {
		case token.ADD:
			return c.lowerBoundOf(x.X, d+1) + c.lowerBoundOf(x.Y, d+1)
		case token.REM:
			if k, ok := constInt(x.Y); ok && k > 0 && valueNonNegAssumingParams(c.P, x.X, 0) {
				return 0
			}
		}
	case *ssa.Call:
		var callees []*ssa.Function
		if x.Call.IsInvoke() {
			callees = c.P.calleesOfInstr(x)
		} else if sc := x.Call.StaticCallee(); sc != nil && c.P.inPkg(sc) && sc.Blocks != nil {
			callees = []*ssa.Function{sc}
		}
		if b, ok := x.Call.Value.(*ssa.Builtin); ok && b.Name() == "len" {
			return 0
		}
		if len(callees) > 0 {
			lb := int64(1 << 30)
			for _, fn := range callees {
				for _, r := range allReturns(fn) {
					res := retResults(r)
					if len(res) == 0 {
						return -1 << 30
					}
					k := c.lowerBoundOf(res[0], d+1)
					if k < lb {
						lb = k
					}
				}
			}
			if lb < 1<<29 {
				return lb
			}
		}
	case *ssa.UnOp:
		if f, _ := loadedField(x); f != nil {
			if k, ok := c.validatedFieldLB(f); ok {
				return k
			}
		}
	}
	if valueNonNeg(c.P, v0, 0) {
		return 0
	}
	return -1 << 30
}

var validatedLBMemo = map[*types.Var]int64{}

// validatedFieldLB: field f is only ever left holding a value >= k when its
// writer returns successfully (decoders reject smaller values before returning nil).
func (c *RuleCtx) validatedFieldLB(f *types.Var) (int64, bool) {
	if k, ok := validatedLBMemo[f]; ok {
		return k, k > -1<<29
	}
	validatedLBMemo[f] = -1 << 30
	best := int64(1 << 30)
	ws := c.P.Writes(f)
	if len(ws) == 0 {
		return 0, false
	}
	for _, a := range ws {
		if a.Kind != AccWrite {
			return 0, false
		}
		// value itself bounded (encoder: len(raw)+4)
		if k := c.lowerBoundOf(a.Val, 3); k > -1<<29 && k >= 1 {
			if k < best {
				best = k
			}
			continue
		}
		// decoder: every successful return is dominated by  value >= k
		root := unconv(a.Val)
		for {
			if cv, ok := root.(*ssa.Convert); ok {
				root = cv.X
				continue
			}
			break
		}
		var k int64 = -1 << 30
		okAll := true
		for _, r := range allReturns(a.Fn) {
			res := retResults(r)
			if len(res) == 0 || !isNilConst(res[len(res)-1]) {
				continue // error return
			}
			found := false
			for _, fct := range DomFacts(r.Block()) {
				b, ok := fct.Cond.(*ssa.BinOp)
				if !ok {
					continue
				}
				op := b.Op
				if !fct.Taken {
					op = invertOp(op)
				}
				kk, isK := constInt(b.Y)
				if !isK {
					continue
				}
				lhs := unconv(b.X)
				for {
					if cv, ok := lhs.(*ssa.Convert); ok {
						lhs = cv.X
						continue
					}
					break
				}
				same := lhs == root
				if lf, _ := loadedField(lhs); lf == f {
					same = true
				}
				if !same {
					continue
				}
				if op == token.GEQ && kk > k {
					k, found = kk, true
				}
				if op == token.GTR && kk+1 > k {
					k, found = kk+1, true
				}
			}
			if !found {
				okAll = false
			}
		}
		if !okAll || k < 1 {
			return 0, false
		}
		if k < best {
			best = k
		}
	}
	if best > 1<<29 {
		return 0, false
	}
	validatedLBMemo[f] = best
	return best, true
}

func init() {
	register(&Rule{ID: "C03.R2", Props: []string{"C03"}, Engine: "E7",
		Title:   "decode loops make progress: every loop in the decode region whose exit test reads a counter advances that counter by a provably positive amount on every back edge",
		MinInst: 10,
		Run: func(c *RuleCtx) {
			region := c.P.TransitiveCallees(c.Fn("packet.unmarshal"))
			ks := keyer{}
			for fn := range region {
				name := c.P.FuncName(fn)
				done := map[*ssa.BasicBlock]bool{}
				for _, b := range fn.Blocks {
					if done[b] {
						continue
					}
					lp := loopBlocks(b)
					if len(lp) == 0 {
						continue
					}
					for x := range lp {
						done[x] = true
					}
					// exit tests: If in the loop with a successor outside
					var counters []*ssa.Phi
					hasExit := false
					for x := range lp {
						ifi, ok := x.Instrs[len(x.Instrs)-1].(*ssa.If)
						if !ok {
							continue
						}
						exits := false
						for _, s := range x.Succs {
							if !lp[s] {
								exits = true
							}
						}
						if !exits {
							continue
						}
						hasExit = true
						// φ of this loop (header in lp) reachable through the condition
						var walk func(v ssa.Value, d int)
						walk = func(v ssa.Value, d int) {
							if d > 6 {
								return
							}
							switch y := unconv(v).(type) {
							case *ssa.Phi:
								if lp[y.Block()] {
									counters = append(counters, y)
								}
							case *ssa.BinOp:
								walk(y.X, d+1)
								walk(y.Y, d+1)
							case *ssa.Call:
								for _, a := range y.Call.Args {
									walk(a, d+1)
								}
							}
						}
						walk(ifi.Cond, 0)
					}
					key := ks.key("progress:" + name)
					pos := c.P.Pos(b.Instrs[0].Pos())
					if !hasExit {
						c.Fail(key, pos, "loop without an exit edge in a decoder")
						continue
					}
					if len(counters) == 0 {
						// range-over-map/iterator loops: bounded by the collection
						isRange := false
						for x := range lp {
							for _, in := range x.Instrs {
								if _, ok := in.(*ssa.Next); ok {
									isRange = true
								}
							}
						}
						c.Check(isRange, key, pos, "iterator loop bounded by its collection", "loop exit does not depend on any loop counter: cannot argue termination")
						continue
					}
					okAll := true
					why := ""
					for _, phi := range counters {
						for i, ed := range phi.Edges {
							pred := phi.Block().Preds[i]
							if !lp[pred] {
								continue // entry edge
							}
							bo, ok := unconv(ed).(*ssa.BinOp)
							if !ok {
								if unconv(ed) == ssa.Value(phi) {
									continue // unchanged on this path (another counter must move; checked separately)
								}
								// a slice used as the counter: it grows by append (loop `for len(s) < n`) or shrinks by
								// re-slicing from a positive constant (loop `for len(rest) != 0`)
								if call, isCall := unconv(ed).(*ssa.Call); isCall {
									if bi, isB := call.Call.Value.(*ssa.Builtin); isB && bi.Name() == "append" && len(call.Call.Args) > 0 && unconv(call.Call.Args[0]) == ssa.Value(phi) {
										continue
									}
								}
								if sl, isSl := unconv(ed).(*ssa.Slice); isSl && unconv(sl.X) == ssa.Value(phi) && sl.Low != nil && c.lowerBoundOf(sl.Low, 0) >= 1 {
									continue
								}
								// nested φ (e.g. continue paths): accept if it resolves to phi±d forms
								leaves := phiLeaves(ed)
								allOK := len(leaves) > 0
								for _, l := range leaves {
									lb, isB := unconv(l.Val).(*ssa.BinOp)
									if l.Val == ssa.Value(phi) {
										allOK = false
									} else if !isB || (lb.Op != token.ADD && lb.Op != token.SUB) || c.lowerBoundOf(lb.Y, 0) < 1 {
										allOK = false
									}
								}
								if !allOK {
									okAll, why = false, "counter "+phi.Comment+" is not advanced on a back edge"
								}
								continue
							}
							if (bo.Op != token.ADD && bo.Op != token.SUB) || unconv(bo.X) != ssa.Value(phi) {
								// e.g. tsn += nonZeroBit-offset : allow φ + (expr) with expr lower bound >= 1
								okAll, why = false, "counter "+phi.Comment+" updated by a non-additive expression"
								continue
							}
							if lb := c.lowerBoundOf(bo.Y, 0); lb < 1 {
								okAll, why = false, fmt.Sprintf("counter %s advances by %s, whose lower bound %d is not positive: a crafted length of 0 makes the decoder spin", phi.Comment, shortValue(c.P, bo.Y), lb)
							}
						}
					}
					c.Check(okAll, key, pos, fmt.Sprintf("%d counter(s) advance by >= 1 on every back edge", len(counters)), why)
				}
			}
		}})
}

// ---------------------------------------------------------------- C03.R12 nil-checked map lookups

// derefUses lists instructions that dereference pointer value v directly.
func derefUses(v ssa.Value) []ssa.Instruction {
	var out []ssa.Instruction
	if v.Referrers() == nil {
		return out
	}
	for _, r := range *v.Referrers() {
		switch x := r.(type) {
		case *ssa.FieldAddr:
			if x.X == v {
				out = append(out, x)
			}
		case *ssa.UnOp:
			if x.Op == token.MUL && x.X == v {
				out = append(out, x)
			}
		case *ssa.IndexAddr:
			if x.X == v {
				out = append(out, x)
			}
		}
	}
	return out
}

func nilGuarded(in ssa.Instruction, v ssa.Value, okVal ssa.Value) bool {
	for _, f := range DomFacts(in.Block()) {
		if okVal != nil && f.Cond == okVal && f.Taken {
			return true
		}
		b, ok := f.Cond.(*ssa.BinOp)
		if !ok {
			continue
		}
		var other ssa.Value
		if b.X == v {
			other = b.Y
		} else if b.Y == v {
			other = b.X
		} else {
			continue
		}
		if !isNilConst(other) {
			continue
		}
		if (b.Op == token.NEQ && f.Taken) || (b.Op == token.EQL && !f.Taken) {
			return true
		}
	}
	return false
}

// paramDerefUnguarded: does fn dereference its idx-th parameter without a nil check?
func (c *RuleCtx) paramDerefUnguarded(fn *ssa.Function, idx int, depth int) (bool, ssa.Instruction) {
	if fn.Blocks == nil || idx >= len(fn.Params) || depth > 2 {
		return false, nil
	}
	p := fn.Params[idx]
	for _, u := range derefUses(p) {
		if !nilGuarded(u, p, nil) {
			return true, u
		}
	}
	// passed on
	if p.Referrers() != nil {
		for _, r := range *p.Referrers() {
			ci, ok := r.(ssa.CallInstruction)
			if !ok {
				continue
			}
			sc := ci.Common().StaticCallee()
			if sc == nil || !c.P.inPkg(sc) {
				continue
			}
			for i, a := range ci.Common().Args {
				if a == ssa.Value(p) && !nilGuarded(r, p, nil) {
					if bad, where := c.paramDerefUnguarded(sc, i, depth+1); bad {
						return true, where
					}
				}
			}
		}
	}
	return false, nil
}

func init() {
	register(&Rule{ID: "C03.R12", Props: []string{"C03"}, Engine: "E3",
		Title:   "on inbound paths a pointer obtained from a map lookup is nil-checked (or its comma-ok tested) before it is dereferenced, including through callees it is passed to — peers choose the keys (stream ids, request sequence numbers)",
		MinInst: 8,
		Run: func(c *RuleCtx) {
			ks := keyer{}
			// only paths driven by inbound packets: there the peer chooses the keys. (The scheduler
			// maps on the send side are keyed by local stream ids under a selection invariant.)
			region := c.P.TransitiveCallees(c.Fn("Association.handleInbound"))
			for _, fn := range c.P.Funcs {
				if !region[fn] {
					continue
				}
				name := c.P.FuncName(fn)
				forEachInstr(fn, func(in ssa.Instruction) {
					lk, ok := in.(*ssa.Lookup)
					if !ok {
						return
					}
					if _, isMap := lk.X.Type().Underlying().(*types.Map); !isMap {
						return
					}
					var v, okVal ssa.Value
					if lk.CommaOk {
						for _, r := range *lk.Referrers() {
							if ex, isEx := r.(*ssa.Extract); isEx {
								if ex.Index == 0 {
									v = ex
								} else {
									okVal = ex
								}
							}
						}
					} else {
						v = lk
					}
					if v == nil {
						return
					}
					if _, isPtr := v.Type().Underlying().(*types.Pointer); !isPtr {
						return
					}
					bad := ""
					for _, u := range derefUses(v) {
						if !nilGuarded(u, v, okVal) {
							bad = "dereferenced at " + c.Pos(u)
						}
					}
					if v.Referrers() != nil {
						for _, r := range *v.Referrers() {
							ci, isCall := r.(ssa.CallInstruction)
							if !isCall {
								continue
							}
							sc := ci.Common().StaticCallee()
							if sc == nil || !c.P.inPkg(sc) || nilGuarded(r, v, okVal) {
								continue
							}
							for i, a := range ci.Common().Args {
								if a == v {
									if isBad, where := c.paramDerefUnguarded(sc, i, 0); isBad {
										bad = fmt.Sprintf("passed unchecked to %s, which dereferences it at %s", c.P.FuncName(sc), c.P.InstrPos(where))
									}
								}
							}
						}
					}
					c.Check(bad == "", ks.key("lookup-nil-checked@"+name), c.Pos(in), "every dereference of the looked-up pointer is guarded", "map lookup result may be nil (absent key) and is "+bad+": a crafted key crashes the endpoint")
				})
			}
		}})
}
