package main

import (
	"fmt"
	"go/constant"
	"go/token"
	"go/types"

	"golang.org/x/tools/go/ssa"
)

func init() {
	register(&Rule{ID: "C06.R1", Props: []string{"C06"}, Engine: "E3",
		Title:   "the partial-reliability policy is evaluated at every (re)transmission: each site that sets or increments a chunk's transmission count is followed, before the chunk joins the outgoing list, by checkPartialReliabilityStatus of the same chunk",
		MinInst: 6,
		Run: func(c *RuleCtx) {
			nSent := c.field("chunkPayloadData", "nSent")
			chk := c.Fn("Association.checkPartialReliabilityStatus")
			c.WritersWithin("count", nSent, "Association.movePendingDataChunkToInflightQueue", "Association.getDataPacketsToRetransmit", "Association.gatherOutboundFastRetransmissionPackets")
			ks := keyer{}
			n := 0
			for _, a := range c.P.Writes(nSent) {
				if a.Kind != AccWrite {
					continue
				}
				n++
				base := a.FA.(*ssa.FieldAddr).X
				ok, bad := MustPass(a.Instr, func(in ssa.Instruction) bool {
					ci, isCall := in.(ssa.CallInstruction)
					return isCall && ci.Common().StaticCallee() == chk && sameVal(ci.Common().Args[1], base)
				}, nil)
				c.Check(ok, ks.key("policy-after-send@"+c.P.FuncName(a.Fn)), c.Pos(a.Instr), "nSent update is always followed by checkPartialReliabilityStatus(chunk)", "a transmission is counted without re-evaluating the abandonment policy (exit "+c.P.InstrPos(bad)+")")
				// value: constant 1 (first transmission) or nSent+1
				okV := IsConstInt(1)(a.Val) || BinV(token.ADD, IsLoadOf(nSent), IsConstInt(1))(a.Val)
				c.Check(okV, ks.key("count-step@"+c.P.FuncName(a.Fn)), c.Pos(a.Instr), "nSent <- 1 or nSent+1", "transmission count changed by something other than =1 / +1")
			}
			c.Check(n >= 2, "count-sites", "", "three transmission-count sites (first send, T3, fast retransmit)", fmt.Sprintf("%d sites", n))
		}})

	register(&Rule{ID: "C06.R2", Props: []string{"C06"}, Engine: "E2",
		Title:   "the lifetime of a timed-reliability chunk is measured from its first transmission: the timestamp read by the policy is written only when the chunk first moves in flight",
		MinInst: 2,
		Run: func(c *RuleCtx) {
			chk := c.Fn("Association.checkPartialReliabilityStatus")
			var stampField *types.Var
			forEachInstr(chk, func(in ssa.Instruction) {
				call, ok := in.(*ssa.Call)
				if !ok {
					return
				}
				sc := call.Call.StaticCallee()
				if sc == nil || sc.Pkg == nil || sc.Pkg.Pkg.Path() != "time" || sc.Name() != "Since" {
					return
				}
				if f, _ := loadedField(call.Call.Args[0]); f != nil {
					stampField = f
				}
			})
			if stampField == nil {
				c.Fail("lifetime-stamp", c.P.Pos(chk.Pos()), "time.Since(chunk.<field>) not found in the timed-reliability branch")
				return
			}
			c.Ok("lifetime-stamp", c.P.Pos(chk.Pos()), "lifetime measured from chunk."+stampField.Name())
			ks := keyer{}
			for _, a := range c.P.Writes(stampField) {
				fn := c.P.FuncName(a.Fn)
				c.Check(fn == "Association.movePendingDataChunkToInflightQueue", ks.key("lifetime-stamp-writer@"+fn), c.Pos(a.Instr),
					"stamped at first transmission", "chunk."+stampField.Name()+" is re-stamped here, immediately before the policy is evaluated: elapsed time is always ≈0, so a positive lifetime never expires")
			}
		}})

	register(&Rule{ID: "C06.R3", Props: []string{"C06", "C07"}, Engine: "E3",
		Title:   "abandoned or acknowledged chunks are never re-armed for retransmission",
		MinInst: 5,
		Run: func(c *RuleCtx) {
			rt := c.field("chunkPayloadData", "retransmit")
			acked := c.field("chunkPayloadData", "acked")
			// the abandonment predicate: a method of the chunk that reads the abandoned flag. (For a while — F30 — it also
			// had to be one that does not wait for all fragments to be in flight; that repair stalled the sender behind
			// unacknowledgeable bytes and was reverted, see DESIGN §5a: the sent part of a given-up message is
			// retransmitted until the whole message can be skipped.)
			preds := giveUpPredicates(c)
			abCond := func(v ssa.Value) CondPat {
				return func(cond ssa.Value, taken bool) bool {
					for _, p := range preds {
						if CallCond(p, false, IsValue(v))(cond, taken) {
							return true
						}
					}
					return false
				}
			}
			nSent := c.field("chunkPayloadData", "nSent")
			ks := keyer{}
			check := func(in ssa.Instruction, base ssa.Value, where string) {
				okA := DominatedByExt(in, BoolCond(isFieldLoadOn(acked, base), false))
				okB := DominatedByExt(in, abCond(base))
				if _, isPhi := base.(*ssa.Phi); isPhi && !(okA && okB) {
					// the chunk was selected earlier (e.g. "latest = c" in a scan loop):
					// every value that can flow into the φ must have been guarded where it was selected
					// (a value that is itself a φ — e.g. the loop variable of "for c, ok := get(); ok; c, ok = get()" —
					// is accepted where the guard holds for it on the selecting edge; otherwise its inputs are examined)
					okA, okB = true, true
					nLeaves := 0
					seenPhi := map[*ssa.Phi]bool{}
					var walk func(v ssa.Value, from *ssa.BasicBlock)
					walk = func(v ssa.Value, from *ssa.BasicBlock) {
						if k, isK := v.(*ssa.Const); isK && k.Value == nil {
							return
						}
						phi, isPhi := v.(*ssa.Phi)
						if isPhi && seenPhi[phi] {
							return // a value carried round the loop: judged where it was selected
						}
						if from != nil && factsAt(from, BoolCond(isFieldLoadOn(acked, v), false)) && factsAt(from, abCond(v)) {
							nLeaves++
							return
						}
						if isPhi {
							seenPhi[phi] = true
							for i, e := range phi.Edges {
								walk(e, phi.Block().Preds[i])
							}
							return
						}
						nLeaves++
						if from == nil || !factsAt(from, BoolCond(isFieldLoadOn(acked, v), false)) {
							okA = false
						}
						if from == nil || !factsAt(from, abCond(v)) {
							okB = false
						}
					}
					walk(base, nil)
					if nLeaves == 0 {
						okA, okB = false, false
					}
				}
				c.Check(okA && okB, ks.key("rearm-guard@"+where), c.Pos(in), "dominated by !chunk.acked ∧ !chunk.abandoned() for the same chunk",
					fmt.Sprintf("chunk can be re-armed although acked/abandoned (acked-guard=%v abandoned-guard=%v)", okA, okB))
			}
			for _, a := range c.P.Writes(rt) {
				if a.Kind != AccWrite || !IsConstBool(true)(a.Val) {
					continue
				}
				check(a.Instr, a.FA.(*ssa.FieldAddr).X, c.P.FuncName(a.Fn))
			}
			fr := c.Fn("Association.gatherOutboundFastRetransmissionPackets")
			for _, a := range c.storesIn(fr, nSent) {
				check(a.Instr, a.FA.(*ssa.FieldAddr).X, "fast-retransmit")
			}
			// T3 retransmission selects only chunks flagged retransmit (flag is cleared by markAsAcked)
			get := c.Fn("Association.getDataPacketsToRetransmit")
			for _, a := range c.storesIn(get, nSent) {
				base := a.FA.(*ssa.FieldAddr).X
				c.Dom(ks.key("t3-selects-flagged"), a.Instr, BoolCond(isFieldLoadOn(rt, base), true), "chunk.retransmit == true")
			}
			mk := c.Fn("payloadQueue.markAsAcked")
			cleared := false
			for _, a := range c.storesIn(mk, rt) {
				if IsConstBool(false)(a.Val) {
					cleared = true
				}
			}
			c.Check(cleared, "ack-clears-retransmit", c.P.Pos(mk.Pos()), "markAsAcked clears the retransmit flag", "markAsAcked no longer clears retransmit: a gap-acked chunk would be retransmitted")
		}})

	register(&Rule{ID: "C06.R4", Props: []string{"C06"}, Engine: "E5b+E3",
		Title:   "DCEP messages are forced ordered and reliable (decision table over ppi × stream.unordered; abandonment is dominated by payloadType != DCEP)",
		MinInst: 6,
		Run: func(c *RuleCtx) {
			pk := c.Fn("Stream.packetize")
			su := c.field("Stream", "unordered")
			cu := c.field("chunkPayloadData", "unordered")
			dcep := c.P.Const("PayloadTypeWebRTCDCEP")
			if dcep == nil {
				panic(unresolved{"const PayloadTypeWebRTCDCEP"})
			}
			other := constant.MakeInt64(51)
			for _, tc := range []struct {
				ppi   constant.Value
				su    bool
				want  bool
				label string
			}{{dcep.Val(), true, false, "DCEP,unordered-stream"}, {dcep.Val(), false, false, "DCEP,ordered-stream"},
				{other, true, true, "data,unordered-stream"}, {other, false, false, "data,ordered-stream"}} {
				outs, und := c.P.PEval(pk, PEConfig{Params: map[int]constant.Value{2: tc.ppi}, Fields: map[*types.Var]constant.Value{su: constant.MakeBool(tc.su)},
					StopAfter: func(in ssa.Instruction) string {
						if st, ok := in.(*ssa.Store); ok && fieldOfAddr(st.Addr) == cu {
							return "chunk-built"
						}
						return ""
					}, MaxPaths: 64})
				key := "dcep-table:" + tc.label
				if und != "" {
					c.Fail(key, c.P.Pos(pk.Pos()), "UNDECIDED: "+und)
					continue
				}
				n, ok := 0, true
				for _, o := range outs {
					if o.Label != "chunk-built" {
						continue
					}
					n++
					v := o.Stores[cu]
					if v == nil || v.Kind() != constant.Bool || constant.BoolVal(v) != tc.want {
						ok = false
					}
				}
				c.Check(ok && n > 0, key, c.P.Pos(pk.Pos()), fmt.Sprintf("chunk.unordered=%v on all %d paths", tc.want, n), fmt.Sprintf("chunk.unordered is not %v for this combination", tc.want))
			}
			chk := c.Fn("Association.checkPartialReliabilityStatus")
			pt := c.field("chunkPayloadData", "payloadType")
			var dv int64
			fmt.Sscan(dcep.Val().String(), &dv)
			ks := keyer{}
			for _, sc := range callsIn(chk, c.Fn("chunkPayloadData.setAbandoned")) {
				c.Dom(ks.key("abandon-not-dcep"), sc, CmpCond(token.NEQ, IsLoadOf(pt), IsConstInt(dv)), "payloadType != DCEP")
			}
		}})

	register(&Rule{ID: "C06.R5", Props: []string{"C06", "C07"}, Engine: "E2+E3",
		Title:   "abandonment has one owner and one policy: only checkPartialReliabilityStatus abandons, by comparing the transmission count with the stream's limit (or the elapsed lifetime); a message counts as abandoned only when all its fragments are in flight",
		MinInst: 7,
		Run: func(c *RuleCtx) {
			c.WritersWithin("flag", c.field("chunkPayloadData", "_abandoned"), "chunkPayloadData.setAbandoned")
			c.CallersWithin("policy", c.Fn("chunkPayloadData.setAbandoned"), "Association.checkPartialReliabilityStatus")
			c.WritersWithin("allInflight", c.field("chunkPayloadData", "_allInflight"), "chunkPayloadData.setAllInflight")
			c.CallersWithin("allInflight", c.Fn("chunkPayloadData.setAllInflight"), "Association.movePendingDataChunkToInflightQueue")
			chk := c.Fn("Association.checkPartialReliabilityStatus")
			nSent := c.field("chunkPayloadData", "nSent")
			rv := c.field("Stream", "reliabilityValue")
			rtF := c.field("Stream", "reliabilityType")
			rex := c.P.Const("ReliabilityTypeRexmit")
			tim := c.P.Const("ReliabilityTypeTimed")
			var rexV, timV int64
			fmt.Sscan(rex.Val().String(), &rexV)
			fmt.Sscan(tim.Val().String(), &timV)
			nRex, nTim := 0, 0
			for _, sc := range callsIn(chk, c.Fn("chunkPayloadData.setAbandoned")) {
				c.Check(IsConstBool(true)(callArg(sc, 1)), "abandon-true", c.Pos(sc), "setAbandoned(true)", "setAbandoned called with a non-true value")
				if DominatedByExt(sc, CmpCond(token.EQL, IsLoadOf(rtF), IsConstInt(rexV))) {
					nRex++
					c.Dom("rexmit-limit", sc, CmpCond(token.GEQ, IsLoadOf(nSent), IsLoadOf(rv)), "chunk.nSent >= stream.reliabilityValue")
				} else if DominatedByExt(sc, CmpCond(token.EQL, IsLoadOf(rtF), IsConstInt(timV))) {
					nTim++
					c.Dom("timed-limit", sc, func(v ssa.Value, t bool) bool {
						b, ok := v.(*ssa.BinOp)
						if !ok {
							return false
						}
						eff := b.Op
						if !t {
							eff = invertOp(eff)
						}
						return eff == token.GEQ && Derives(IsLoadOf(rv))(b.Y)
					}, "elapsed >= stream.reliabilityValue")
				} else {
					c.Fail("abandon-branch", c.Pos(sc), "setAbandoned outside the Rexmit/Timed branches")
				}
			}
			c.Check(nRex == 1 && nTim == 1, "abandon-branches", c.P.Pos(chk.Pos()), "one Rexmit and one Timed abandonment site", fmt.Sprintf("rexmit=%d timed=%d", nRex, nTim))
			// abandoned() requires _abandoned && _allInflight
			ab := c.Fn("chunkPayloadData.abandoned")
			fa, fi := c.field("chunkPayloadData", "_abandoned"), c.field("chunkPayloadData", "_allInflight")
			for _, r := range allReturns(ab) {
				v := r.Results[0]
				ok := false
				if phi, isPhi := v.(*ssa.Phi); isPhi {
					hasI := false
					for _, e := range phi.Edges {
						if IsLoadOf(fi)(e) {
							hasI = true
						}
					}
					ok = hasI && BlockDominatedBy(phi.Block().Preds[len(phi.Block().Preds)-1], BoolCond(IsLoadOf(fa), true))
				}
				c.Check(ok, ks6.key("abandoned-needs-allInflight"), c.Pos(r), "abandoned() = _abandoned && _allInflight", "abandoned() no longer requires all fragments to be in flight")
			}
		}})
}

var ks6 = keyer{}

// giveUpPredicates: methods of chunkPayloadData returning bool that read _abandoned.
func giveUpPredicates(c *RuleCtx) []*ssa.Function {
	fa, fi := c.field("chunkPayloadData", "_abandoned"), c.field("chunkPayloadData", "_allInflight")
	var out []*ssa.Function
	for _, fn := range c.P.Funcs {
		if fn.Parent() != nil || fn.Signature.Recv() == nil || typeShort(fn.Signature.Recv().Type()) != "*chunkPayloadData" {
			continue
		}
		if fn.Signature.Results().Len() != 1 || typeShort(fn.Signature.Results().At(0).Type()) != "bool" || fn.Signature.Params().Len() != 0 {
			continue
		}
		readsA, readsI := false, false
		forEachInstrDeep(c.P, fn, 1, func(in ssa.Instruction) {
			if x, ok := in.(*ssa.FieldAddr); ok {
				switch fieldOf(x.X.Type(), x.Field) {
				case fa:
					readsA = true
				case fi:
					readsI = true
				}
			}
		})
		_ = readsI
		if readsA {
			out = append(out, fn)
		}
	}
	return out
}
