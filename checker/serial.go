package main

import (
	"fmt"
	"go/constant"
	"go/token"
	"go/types"
	"strings"

	"golang.org/x/tools/go/ssa"
)

// E6 — serial-number discipline.

type serKind uint8

const (
	serPlain serKind = iota
	serSerial
	serDistance
)

// serialFields: struct.field -> sequence space. Frozen table (DESIGN A.2).
var serialFields = map[string]string{
	"Association.initialTSN": "TSN", "Association.myNextTSN": "TSN", "Association.minTSN2MeasureRTT": "TSN",
	"Association.cumulativeTSNAckPoint": "TSN", "Association.advancedPeerTSNAckPoint": "TSN",
	"Association.fastRecoverExitPoint": "TSN", "Association.rackHighestDeliveredOrigTSN": "TSN", "Association.tlrEndTSN": "TSN",
	"chunkPayloadData.tsn": "TSN", "chunkSelectiveAck.cumulativeTSNAck": "TSN", "chunkShutdown.cumulativeTSNAck": "TSN",
	"chunkForwardTSN.newCumulativeTSN": "TSN", "chunkIForwardTSN.newCumulativeTSN": "TSN", "chunkInitCommon.initialTSN": "TSN",
	"paramOutgoingResetRequest.senderLastTSN": "TSN",
	"receivePayloadQueue.cumulativeTSN":       "TSN", "receivePayloadQueue.tailTSN": "TSN",
	"acknowledgementResult.htna": "TSN", "acknowledgementResult.newestDeliveredOrigTSN": "TSN",
	"Association.myNextRSN": "RSN", "paramOutgoingResetRequest.reconfigRequestSequenceNumber": "RSN",
	"paramOutgoingResetRequest.reconfigResponseSequenceNumber": "RSN", "paramReconfigResponse.reconfigResponseSequenceNumber": "RSN",
	"chunkPayloadData.streamSequenceNumber": "SSN", "Stream.sequenceNumber": "SSN", "reassemblyQueue.nextSSN": "SSN",
	"chunkSet.ssn": "SSN", "chunkForwardTSNStream.sequence": "SSN",
	"chunkPayloadData.messageIdentifier": "MID", "chunkPayloadData.fragmentSequenceNumber": "FSN",
	"Stream.nextOrderedMID": "MID", "Stream.nextUnorderedMID": "MID", "reassemblyQueue.nextMID": "MID",
	"chunkSetMID.mid": "MID", "chunkIForwardTSNStream.messageIdentifier": "MID",
}

type serialEngine struct {
	p      *Prog
	fields map[*types.Var]string
	kind   map[ssa.Value]serKind
	retSer map[*ssa.Function]bool
	Miss   []string
}

func (p *Prog) Serial() *serialEngine {
	if p.serEng != nil {
		return p.serEng
	}
	e := &serialEngine{p: p, fields: map[*types.Var]string{}, kind: map[ssa.Value]serKind{}, retSer: map[*ssa.Function]bool{}}
	for k, sp := range serialFields {
		parts := strings.SplitN(k, ".", 2)
		f := p.Field(parts[0], parts[1])
		if f == nil {
			e.Miss = append(e.Miss, k)
			continue
		}
		e.fields[f] = sp
	}
	p.serEng = e
	e.solve()
	return e
}

func isSnaHelper(name string) bool {
	return strings.HasPrefix(name, "sna32") || strings.HasPrefix(name, "sna16")
}

func (e *serialEngine) solve() {
	changed := true
	set := func(v ssa.Value, k serKind) {
		if k == serPlain {
			return
		}
		if old := e.kind[v]; old != k {
			if old == serSerial && k == serDistance {
				return // keep the stronger fact
			}
			e.kind[v] = k
			changed = true
		}
	}
	for iter := 0; changed && iter < 50; iter++ {
		changed = false
		for _, fn := range e.p.Funcs {
			if isSnaHelper(e.p.FuncName(fn)) {
				continue
			}
			forEachInstr(fn, func(in ssa.Instruction) {
				switch x := in.(type) {
				case *ssa.UnOp:
					if x.Op == token.MUL {
						if f := fieldOfAddr(x.X); f != nil {
							if _, ok := e.fields[f]; ok {
								set(x, serSerial)
							}
						}
					}
				case *ssa.Field:
					if f := originVar(fieldOf(x.X.Type(), x.Field)); f != nil {
						if _, ok := e.fields[f]; ok {
							set(x, serSerial)
						}
					}
				case *ssa.Phi:
					for _, ed := range x.Edges {
						if k := e.kind[ed]; k != serPlain {
							set(x, k)
						}
					}
				case *ssa.Convert:
					// widening/narrowing keeps the kind only between unsigned ints of the same space
					set(x, e.kind[x.X])
				case *ssa.ChangeType:
					set(x, e.kind[x.X])
				case *ssa.BinOp:
					kx, ky := e.kind[x.X], e.kind[x.Y]
					switch x.Op {
					case token.ADD:
						if kx == serSerial || ky == serSerial {
							set(x, serSerial)
						} else if kx == serDistance || ky == serDistance {
							set(x, serDistance)
						}
					case token.SUB:
						if kx == serSerial && ky == serSerial {
							set(x, serDistance)
						} else if kx == serSerial {
							if ky == serDistance {
								set(x, serSerial)
							} else {
								set(x, serSerial)
							}
						} else if kx == serDistance {
							set(x, serDistance)
						}
					}
				case *ssa.Extract:
					if call, ok := x.Tuple.(*ssa.Call); ok {
						if sc := call.Call.StaticCallee(); sc != nil && e.retSerAt(sc, x.Index) {
							set(x, serSerial)
						}
					}
				case *ssa.Call:
					sc := x.Call.StaticCallee()
					if sc != nil && e.p.inPkg(sc) && sc.Blocks != nil {
						if sc.Signature.Results().Len() == 1 && e.retSerAt(sc, 0) {
							set(x, serSerial)
						}
						if !isSnaHelper(e.p.FuncName(sc)) {
							for i, a := range x.Call.Args {
								if i < len(sc.Params) && e.kind[a] == serSerial {
									set(sc.Params[i], serSerial)
								}
							}
						}
					}
					if b, ok := x.Call.Value.(*ssa.Builtin); ok && (b.Name() == "min" || b.Name() == "max") {
						for _, a := range x.Call.Args {
							if e.kind[a] != serPlain {
								set(x, e.kind[a])
							}
						}
					}
				}
			})
		}
	}
}

func (e *serialEngine) retSerAt(fn *ssa.Function, idx int) bool {
	if fn.Blocks == nil {
		return false
	}
	for _, r := range allReturns(fn) {
		res := retResults(r)
		if idx < len(res) && e.kind[res[idx]] == serSerial {
			return true
		}
	}
	return false
}

// ---------------------------------------------------------------- helper semantics (R2)

// Abstract state: forward distance class from i1 to i2 and the numeric order.
type dClass int

const (
	dZero dClass = iota
	dLo          // 0 < d < H
	dHalf        // d == H
	dHi          // H < d < 2^n
)

func (d dClass) String() string { return [...]string{"0", "(0,H)", "H", "(H,2^n)"}[d] }

func negClass(d dClass) dClass {
	switch d {
	case dLo:
		return dHi
	case dHi:
		return dLo
	}
	return d
}

type snaState struct {
	d     dClass
	less  bool // i1 < i2 numerically (meaningless when d==0)
	width uint
}

type aVal struct {
	kind string // bool | dist | sdist | p1 | p2 | H | int | unknown
	b    bool
	d    dClass
	n    int64
}

func evalSna(p *Prog, fn *ssa.Function, st snaState, depth int) (bool, string) {
	if fn.Blocks == nil || len(fn.Params) != 2 || depth > 4 {
		return false, "unsupported helper shape"
	}
	env := map[ssa.Value]aVal{}
	env[fn.Params[0]] = aVal{kind: "p1"}
	env[fn.Params[1]] = aVal{kind: "p2"}
	half := constant.Shift(constant.MakeInt64(1), token.SHL, st.width-1)
	get := func(v ssa.Value) aVal {
		if c, ok := v.(*ssa.Const); ok && c.Value != nil {
			switch c.Value.Kind() {
			case constant.Bool:
				return aVal{kind: "bool", b: constant.BoolVal(c.Value)}
			case constant.Int:
				if constant.Compare(c.Value, token.EQL, half) {
					return aVal{kind: "H"}
				}
				n, _ := constant.Int64Val(c.Value)
				return aVal{kind: "int", n: n}
			}
		}
		if a, ok := env[v]; ok {
			return a
		}
		return aVal{kind: "unknown"}
	}
	cmpOrder := func(op token.Token, swapped bool) (bool, bool) {
		// compare p1 op p2 (or p2 op p1 if swapped)
		eq := st.d == dZero
		less := st.less && !eq
		greater := !st.less && !eq
		if swapped {
			less, greater = greater, less
		}
		switch op {
		case token.LSS:
			return less, true
		case token.GTR:
			return greater, true
		case token.LEQ:
			return less || eq, true
		case token.GEQ:
			return greater || eq, true
		case token.EQL:
			return eq, true
		case token.NEQ:
			return !eq, true
		}
		return false, false
	}
	cmpDistH := func(d dClass, op token.Token) (bool, bool) {
		// d ? H
		var rel int // -1 d<H, 0 d==H, 1 d>H
		switch d {
		case dZero, dLo:
			rel = -1
		case dHalf:
			rel = 0
		case dHi:
			rel = 1
		}
		switch op {
		case token.LSS:
			return rel < 0, true
		case token.LEQ:
			return rel <= 0, true
		case token.GTR:
			return rel > 0, true
		case token.GEQ:
			return rel >= 0, true
		case token.EQL:
			return rel == 0, true
		case token.NEQ:
			return rel != 0, true
		}
		return false, false
	}
	cmpSignedZero := func(d dClass, op token.Token) (bool, bool) {
		// signed(d) ? 0 : lo -> positive, 0 -> zero, H and hi -> negative
		var sign int
		switch d {
		case dZero:
			sign = 0
		case dLo:
			sign = 1
		default:
			sign = -1
		}
		switch op {
		case token.LSS:
			return sign < 0, true
		case token.LEQ:
			return sign <= 0, true
		case token.GTR:
			return sign > 0, true
		case token.GEQ:
			return sign >= 0, true
		case token.EQL:
			return sign == 0, true
		case token.NEQ:
			return sign != 0, true
		}
		return false, false
	}
	b := fn.Blocks[0]
	var prev *ssa.BasicBlock
	for steps := 0; steps < 200; steps++ {
		var next *ssa.BasicBlock
		for _, in := range b.Instrs {
			switch x := in.(type) {
			case *ssa.Phi:
				for i, pb := range b.Preds {
					if pb == prev {
						env[x] = get(x.Edges[i])
					}
				}
			case *ssa.BinOp:
				l, r := get(x.X), get(x.Y)
				switch {
				case (l.kind == "p1" && r.kind == "p2") || (l.kind == "p2" && r.kind == "p1"):
					swapped := l.kind == "p2"
					if x.Op == token.SUB {
						// p2-p1 = d ; p1-p2 = -d
						if swapped {
							env[x] = aVal{kind: "dist", d: st.d}
						} else {
							env[x] = aVal{kind: "dist", d: negClass(st.d)}
						}
					} else if v, ok := cmpOrder(x.Op, swapped); ok {
						env[x] = aVal{kind: "bool", b: v}
					} else {
						return false, "unsupported operator on parameters: " + x.Op.String()
					}
				case l.kind == "dist" && r.kind == "H":
					v, ok := cmpDistH(l.d, x.Op)
					if !ok {
						return false, "unsupported distance comparison"
					}
					env[x] = aVal{kind: "bool", b: v}
				case l.kind == "H" && r.kind == "dist":
					v, ok := cmpDistH(r.d, swapOp(x.Op))
					if !ok {
						return false, "unsupported distance comparison"
					}
					env[x] = aVal{kind: "bool", b: v}
				case l.kind == "dist" && r.kind == "int" && r.n == 0:
					// unsigned distance against 0: only the zero class equals 0
					z := l.d == dZero
					var v bool
					switch x.Op {
					case token.EQL, token.LEQ:
						v = z
					case token.NEQ, token.GTR:
						v = !z
					case token.GEQ:
						v = true
					case token.LSS:
						v = false
					default:
						return false, "unsupported distance comparison with 0"
					}
					env[x] = aVal{kind: "bool", b: v}
				case l.kind == "sdist" && r.kind == "int" && r.n == 0:
					v, ok := cmpSignedZero(l.d, x.Op)
					if !ok {
						return false, "unsupported signed comparison"
					}
					env[x] = aVal{kind: "bool", b: v}
				case l.kind == "int" && r.kind == "int" && x.Op == token.SHL:
					if l.n == 1 && uint(r.n) == st.width-1 {
						env[x] = aVal{kind: "H"}
					} else {
						return false, "unsupported shift constant"
					}
				default:
					return false, fmt.Sprintf("unsupported expression %s %s %s", l.kind, x.Op, r.kind)
				}
			case *ssa.UnOp:
				if x.Op == token.NOT {
					a := get(x.X)
					if a.kind != "bool" {
						return false, "negation of non-bool"
					}
					env[x] = aVal{kind: "bool", b: !a.b}
				} else {
					return false, "unsupported unary op"
				}
			case *ssa.Convert:
				a := get(x.X)
				if a.kind == "dist" {
					if bt, ok := x.Type().Underlying().(*types.Basic); ok && bt.Info()&types.IsUnsigned == 0 && bt.Info()&types.IsInteger != 0 {
						env[x] = aVal{kind: "sdist", d: a.d}
						continue
					}
				}
				env[x] = a
			case *ssa.Call:
				sc := x.Call.StaticCallee()
				if sc == nil || !isSnaHelper(p.FuncName(sc)) || len(x.Call.Args) != 2 {
					return false, "call to a non-helper"
				}
				a0, a1 := get(x.Call.Args[0]), get(x.Call.Args[1])
				var sub snaState
				switch {
				case a0.kind == "p1" && a1.kind == "p2":
					sub = st
				case a0.kind == "p2" && a1.kind == "p1":
					sub = snaState{d: negClass(st.d), less: !st.less, width: st.width}
				default:
					return false, "helper called with non-parameter arguments"
				}
				v, why := evalSna(p, sc, sub, depth+1)
				if why != "" {
					return false, why
				}
				env[x] = aVal{kind: "bool", b: v}
			case *ssa.If:
				c := get(x.Cond)
				if c.kind != "bool" {
					return false, "branch on non-bool"
				}
				if c.b {
					next = b.Succs[0]
				} else {
					next = b.Succs[1]
				}
			case *ssa.Jump:
				next = b.Succs[0]
			case *ssa.Return:
				r := get(x.Results[0])
				if r.kind != "bool" {
					return false, "returns non-bool"
				}
				return r.b, ""
			case *ssa.DebugRef:
			default:
				return false, fmt.Sprintf("unsupported instruction %T", in)
			}
		}
		if next == nil {
			return false, "fell off block"
		}
		prev, b = b, next
	}
	return false, "step limit"
}

var snaFeasible = []snaState{
	{d: dZero}, {d: dLo, less: true}, {d: dLo, less: false}, {d: dHalf, less: true}, {d: dHalf, less: false}, {d: dHi, less: true}, {d: dHi, less: false},
}

// ---------------------------------------------------------------- power-of-two domain (R3)

func isPow2Const(v ssa.Value) bool {
	n, ok := constInt(v)
	return ok && n > 0 && n&(n-1) == 0
}

func isPow2(v ssa.Value, seen map[ssa.Value]bool) bool {
	v = unconv(v)
	if seen[v] {
		return true // cycle through a φ: all other inputs decide
	}
	seen[v] = true
	switch x := v.(type) {
	case *ssa.Const:
		return isPow2Const(x)
	case *ssa.BinOp:
		switch x.Op {
		case token.SHL:
			return isPow2(x.X, seen)
		case token.MUL:
			return isPow2(x.X, seen) && isPow2(x.Y, seen)
		}
	case *ssa.Phi:
		for _, e := range x.Edges {
			if !isPow2(e, seen) {
				return false
			}
		}
		return true
	}
	return false
}
