package sctp

import (
	"testing"
	"time"

	"github.com/pion/transport/v4/test"
	"github.com/stretchr/testify/require"
)

// Finding 2 (C13): with SNAP the local INIT token IS what this endpoint advertised to the
// peer. recvZeroChecksum is nevertheless taken from Config.EnableZeroChecksum of the
// association (not from the local token, unlike localInterleaving which IS taken from the
// token), so an association whose advertised INIT carries no Zero Checksum Acceptable
// parameter accepts packets with a zero (incorrect) checksum.
func TestZZHunt2_SNAPAcceptsZeroChecksumNeverAdvertised(t *testing.T) {
	lim := test.TimeOut(10 * time.Second)
	defer lim.Stop()

	localToken, err := GenerateOutOfBandToken() // EnableZeroChecksum=false: nothing advertised
	require.NoError(t, err)
	remoteToken, err := GenerateOutOfBandToken()
	require.NoError(t, err)

	local := &chunkInit{}
	require.NoError(t, local.unmarshal(localToken))
	remote := &chunkInit{}
	require.NoError(t, remote.unmarshal(remoteToken))
	for _, p := range local.params {
		_, isZCA := p.(*paramZeroChecksumAcceptable)
		require.False(t, isZCA, "the advertised local INIT must not carry Zero Checksum Acceptable")
	}

	br := test.NewBridge()
	a, err := ClientWithOptions(
		WithNetConn(br.GetConn0()),
		WithSNAP(localToken, remoteToken),
		WithEnableZeroChecksum(true),
	)
	require.NoError(t, err)
	defer func() {
		done := make(chan struct{})
		go func() { _ = a.Close(); close(done) }()
		for {
			select {
			case <-done:
				return
			default:
				br.Tick()
				time.Sleep(5 * time.Millisecond)
			}
		}
	}()

	data := &chunkPayloadData{
		tsn:               remote.initialTSN,
		streamIdentifier:  3,
		payloadType:       PayloadTypeWebRTCBinary,
		userData:          []byte("zero"),
		beginningFragment: true,
		endingFragment:    true,
		iData:             a.useInterleaving,
	}
	p := &packet{
		sourcePort: 5000, destinationPort: 5000,
		verificationTag: local.initiateTag,
		chunks:          []chunk{data},
	}
	raw, err := p.marshal(false) // checksum field left 0 => not the correct CRC32c
	require.NoError(t, err)
	require.Equal(t, []byte{0, 0, 0, 0}, raw[8:12])
	require.NotEqual(t, uint32(0), generatePacketChecksum(raw))

	_, err = br.GetConn1().Write(raw)
	require.NoError(t, err)
	for range 100 {
		br.Tick()
		time.Sleep(5 * time.Millisecond)
		if a.stats.getNumDATAs() > 0 {
			break
		}
	}

	require.Zero(t, a.stats.getNumDATAs(),
		"a packet with an incorrect zero checksum was accepted and its DATA chunk processed, "+
			"although the INIT this endpoint advertised (SNAP local token) has no Zero Checksum Acceptable parameter")
}
