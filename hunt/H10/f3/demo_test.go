package sctp

import (
	"errors"
	"sync"
	"testing"
	"time"

	"github.com/stretchr/testify/require"
)

// Two goroutines block in ReadSCTP on the same stream; a read deadline expires.
// Both must return ErrReadDeadlineExceeded.
func TestZZTwoReadersDeadline(t *testing.T) {
	a := createTestAssociation(t, Config{})
	a.lock.Lock()
	s := a.createStream(1, false)
	a.lock.Unlock()

	results := make(chan error, 2)
	var started sync.WaitGroup
	for i := 0; i < 2; i++ {
		started.Add(1)
		go func() {
			started.Done()
			_, _, err := s.ReadSCTP(make([]byte, 16))
			results <- err
		}()
	}
	started.Wait()
	time.Sleep(50 * time.Millisecond) // both readers are parked in Wait()
	require.NoError(t, s.SetReadDeadline(time.Now().Add(100*time.Millisecond)))

	for i := 0; i < 2; i++ {
		select {
		case err := <-results:
			require.True(t, errors.Is(err, ErrReadDeadlineExceeded), "got %v", err)
		case <-time.After(2 * time.Second):
			// unblock the stuck reader so the test can end
			a.lock.Lock()
			a.unregisterStream(s, errors.New("cleanup"))
			a.lock.Unlock()
			t.Fatalf("reader %d still blocked 2s after a 100ms read deadline expired", i+1)
		}
	}
}
