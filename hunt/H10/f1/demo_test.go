package sctp

import (
	"bytes"
	"context"
	"encoding/binary"
	"fmt"
	"sync"
	"sync/atomic"
	"testing"
	"time"

	"github.com/stretchr/testify/require"
)

// Deterministic schedule: Stream.WriteSCTP is two steps with no lock held in
// between -- (1) packetize (assigns the SSN / MID under the stream lock) and
// (2) Association.sendPayloadData (queues the chunks under the association
// lock). Writer A is pre-empted between the two steps while writer B performs
// complete writes on the same stream. The wire order is then B1..Bn, A although
// A owns the lowest sequence number. Once B1..Bn fill the peer's receive buffer
// the peer drops every new TSN, so A (the only message that could unblock
// delivery) is never accepted: the association is wedged for good.
func zzWriterPreemptedBetweenSteps(t *testing.T, interleaving bool) {
	t.Helper()
	cfg := Config{MaxReceiveBufferSize: 20000}
	cfg.enableInterleaving = interleaving
	cfg.enableInterleavingSet = true
	c1, c2 := createUDPConnPair()
	a0, a1, err := createAssociationPairWithConfig(c1, c2, cfg)
	require.NoError(t, err)
	defer a0.Close() //nolint:errcheck
	defer a1.Close() //nolint:errcheck

	s0, err := a0.OpenStream(1, PayloadTypeWebRTCBinary)
	require.NoError(t, err)

	var received atomic.Int32
	go func() {
		s1, aerr := a1.AcceptStream()
		if aerr != nil {
			return
		}
		buf := make([]byte, 70000)
		for {
			if _, rerr := s1.Read(buf); rerr != nil {
				return
			}
			received.Add(1)
		}
	}()

	// writer A: step 1 only (gets SSN/MID 0), then "pre-empted"
	msgA := bytes.Repeat([]byte{'A'}, 1000)
	chunksA, _ := s0.packetize(msgA, PayloadTypeWebRTCBinary)

	// writer B: 40 complete writes (SSN/MID 1..40), 40 kB > 20 kB receive buffer
	const nB = 40
	for i := 0; i < nB; i++ {
		_, err = s0.Write(bytes.Repeat([]byte{'B'}, 1000))
		require.NoError(t, err)
	}

	// writer A resumes: step 2
	require.NoError(t, a0.sendPayloadData(context.Background(), chunksA))

	deadline := time.Now().Add(6 * time.Second)
	for time.Now().Before(deadline) && received.Load() < nB+1 {
		time.Sleep(20 * time.Millisecond)
	}
	if got := received.Load(); got != nB+1 {
		a0.lock.RLock()
		st0 := fmt.Sprintf("sender: pending=%d inflight=%d rwnd=%d", a0.pendingQueue.size(), a0.inflightQueue.size(), a0.RWND())
		a0.lock.RUnlock()
		a1.lock.RLock()
		st1 := fmt.Sprintf("receiver: credit=%d", a1.getMyReceiverWindowCredit())
		for id, s := range a1.streams {
			s.lock.RLock()
			st1 += fmt.Sprintf(" stream %d: queuedBytes=%d nextSSN=%d nextMID=%d readable=%v",
				id, s.reassemblyQueue.getNumBytes(), s.reassemblyQueue.nextSSN, s.reassemblyQueue.nextMID, s.reassemblyQueue.isReadable())
			s.lock.RUnlock()
		}
		a1.lock.RUnlock()
		t.Fatalf("only %d of %d successfully written messages were delivered after 6s; %s; %s", got, nB+1, st0, st1)
	}
}

func TestZZWriterPreemptedBetweenStepsDATA(t *testing.T)  { zzWriterPreemptedBetweenSteps(t, false) }
func TestZZWriterPreemptedBetweenStepsIDATA(t *testing.T) { zzWriterPreemptedBetweenSteps(t, true) }

// The same thing with nothing but the public API: three goroutines write to
// each of four streams. (Schedule dependent, but fails practically always.)
func TestZZConcurrentWritersSameStreamStall(t *testing.T) {
	c1, c2 := createUDPConnPair()
	a0, a1, err := createAssociationPairWithConfig(c1, c2, Config{}) // peer buffer: 100 kB
	require.NoError(t, err)
	defer a0.Close() //nolint:errcheck
	defer a1.Close() //nolint:errcheck

	const nStreams, nWriters, nMsgs = 4, 3, 150
	var received atomic.Int32
	go func() {
		for i := 0; i < nStreams; i++ {
			s, aerr := a1.AcceptStream()
			if aerr != nil {
				return
			}
			go func() {
				buf := make([]byte, 70000)
				for {
					if _, rerr := s.Read(buf); rerr != nil {
						return
					}
					received.Add(1)
				}
			}()
		}
	}()
	var wg sync.WaitGroup
	for i := 0; i < nStreams; i++ {
		s, oerr := a0.OpenStream(uint16(i), PayloadTypeWebRTCBinary)
		require.NoError(t, oerr)
		for w := 0; w < nWriters; w++ {
			wg.Add(1)
			go func(w int) {
				defer wg.Done()
				for q := 0; q < nMsgs; q++ {
					msg := make([]byte, 12+(q*131+w*977)%5000)
					binary.BigEndian.PutUint32(msg, uint32(q))
					if _, werr := s.Write(msg); werr != nil {
						t.Errorf("write: %v", werr)

						return
					}
				}
			}(w)
		}
	}
	wg.Wait()
	total := int32(nStreams * nWriters * nMsgs)
	last, lastChange := int32(-1), time.Now()
	for received.Load() < total && time.Since(lastChange) < 5*time.Second {
		if n := received.Load(); n != last {
			last, lastChange = n, time.Now()
		}
		time.Sleep(20 * time.Millisecond)
	}
	require.Equal(t, total, received.Load(), "delivery stopped making progress for 5s")
}
