package sctp

import (
	"testing"

	"github.com/stretchr/testify/require"
)

// f6Sender builds an established association (no read/write loops) and puts
// n messages of size bytes each in flight through the real send path.
func f6Sender(t *testing.T, n, size int) (*Association, uint32) {
	t.Helper()

	a := createTestAssociation(t, Config{})
	a.lock.Lock()
	a.setState(established)
	a.peerVerificationTag = 1
	a.sourcePort = defaultSCTPSrcDstPort
	a.destinationPort = defaultSCTPSrcDstPort
	a.setRWND(1 << 20)
	a.ssthresh = 1 << 20
	firstTSN := a.myNextTSN
	a.lock.Unlock()

	s, err := a.OpenStream(1, PayloadTypeWebRTCBinary)
	require.NoError(t, err)
	for range n {
		_, err = s.WriteSCTP(make([]byte, size), PayloadTypeWebRTCBinary)
		require.NoError(t, err)
	}
	pkts, _ := a.gatherOutbound()
	require.NotEmpty(t, pkts)
	require.Equal(t, n, a.inflightQueue.size(), "all messages fit in the initial cwnd")

	return a, firstTSN
}

func f6Sack(t *testing.T, a *Association, cumTSN uint32, gaps ...gapAckBlock) {
	t.Helper()

	sack := &chunkSelectiveAck{
		cumulativeTSNAck:               cumTSN,
		advertisedReceiverWindowCredit: 1 << 20,
		gapAckBlocks:                   gaps,
	}
	raw, err := a.createPacket([]chunk{sack}).marshal(true)
	require.NoError(t, err)
	require.NoError(t, a.handleInbound(raw))
}

// C10 "the congestion window is cut on every loss signal": entering fast recovery
// (3 miss indications) sets cwnd = max(cwnd/2, 4*MTU); from the initial window
// (4380 < 4*MTU = 4764) the loss signal makes cwnd LARGER.
func TestF6_FastRetransmitRaisesCwnd(t *testing.T) {
	a, first := f6Sender(t, 8, 500) // 4000 bytes outstanding, initial cwnd 4380

	cwndBefore := a.CWND()
	require.Equal(t, uint32(4380), cwndBefore)

	// three SACKs, each newly acknowledging one more TSN above the missing first one
	f6Sack(t, a, first-1, gapAckBlock{start: 2, end: 2})
	f6Sack(t, a, first-1, gapAckBlock{start: 2, end: 3})
	f6Sack(t, a, first-1, gapAckBlock{start: 2, end: 4})

	a.lock.Lock()
	inFR := a.inFastRecovery
	a.lock.Unlock()
	require.True(t, inFR, "third miss indication: loss signal, fast recovery entered")

	require.Lessf(t, a.CWND(), cwndBefore,
		"cwnd must be cut on a loss signal: before=%d after=%d (MTU %d)", cwndBefore, a.CWND(), a.MTU())
}
