#!/bin/bash
# usage: evalseed.sh <seed-dir containing patch.diff + demo_test.go> [--skip-suite]
# Confirms a seeded defect (compiles, suite passes, demo fails with / passes without) in a scratch copy,
# then ANALYSES the patched copy with every check and prints which rules report it. Scratch is removed.
set -u
SEED=$(readlink -f "$1"); SKIP=${2:-}
export GOFLAGS=-mod=mod GOPROXY=off
S=$(mktemp -d /tmp/seedeval.XXXXXX)
trap 'rm -rf $S' EXIT
rsync -a --exclude .git /repo/ $S/
cd $S
R="seed=$SEED"
if ! patch -p1 -s < $SEED/patch.diff; then echo "$R APPLY=fail"; exit 2; fi
if ! go build ./... 2>$S/build.err; then echo "$R BUILD=fail"; cat $S/build.err | head -5; exit 2; fi
R="$R build=ok"
if [ "$SKIP" != "--skip-suite" ]; then
  if go test -count=1 -timeout 20m . > $S/suite.log 2>&1; then R="$R suite=pass"; else R="$R suite=FAIL"; grep -E "^(--- FAIL|FAIL)" $S/suite.log | head -5; fi
fi
cp $SEED/demo_test.go $S/zz_seed_demo_test.go
if go test -count=1 -timeout 5m -run "$(grep -oE 'func (Test[A-Za-z0-9_]+)' zz_seed_demo_test.go | awk '{print $2}' | paste -sd'|')" . > $S/demo1.log 2>&1; then R="$R demo_with_change=PASS(unexpected)"; else R="$R demo_with_change=fail(expected)"; fi
# analyse the patched tree
/verif/bin/sctpverif all --repo $S --no-evidence > $S/check.log 2>&1
V=$(grep -E "^(VIOLATION|UNRESOLVED) +C" $S/check.log | awk '{print $2}' | sort | uniq -c | awk '{printf "%s(x%s) ", $2, $1}')
R="$R detected_by=[${V}]"
patch -p1 -R -s < $SEED/patch.diff
if go test -count=1 -timeout 5m -run "$(grep -oE 'func (Test[A-Za-z0-9_]+)' zz_seed_demo_test.go | awk '{print $2}' | paste -sd'|')" . > $S/demo2.log 2>&1; then R="$R demo_without_change=pass(expected)"; else R="$R demo_without_change=FAIL(unexpected)"; tail -5 $S/demo2.log; fi
echo "$R"
grep -E "^(VIOLATION|UNRESOLVED) +C" $S/check.log | cut -c1-260 | head -8
