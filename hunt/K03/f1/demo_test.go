package sctp

import (
	"encoding/binary"
	"testing"
	"time"

	"github.com/pion/transport/v4/test"
	"github.com/stretchr/testify/require"
)

// An unsolicited HEARTBEAT-ACK (no HEARTBEAT was ever sent by this endpoint)
// whose Heartbeat Info happens to be 8 bytes long is taken as the echo of an
// on-demand heartbeat: the 8 bytes are read as a send time and the difference
// to "now" is fed into the RTO computation as a round-trip sample.
func TestZZHunt1UnsolicitedHeartbeatAckPoisonsRTO(t *testing.T) {
	br := test.NewBridge()
	a0, a1, err := createNewAssociationPair(br, ackModeNoDelay, 0)
	require.NoError(t, err)
	defer closeAssociationPair(br, a0, a1)

	// Give the association a genuine round-trip sample first.
	s0, _, err := establishSessionPair(br, a0, a1, 1)
	require.NoError(t, err)
	_, err = s0.WriteSCTP([]byte("ping"), PayloadTypeWebRTCBinary)
	require.NoError(t, err)
	flushBuffers(br, a0, a1)

	rtoBefore := a0.rtoMgr.getRTO()
	srttBefore := a0.SRTT()
	require.Equal(t, rtoMin, rtoBefore, "loop-back RTT: RTO sits at RTO.Min")
	require.Less(t, srttBefore, 1000.0)

	// a0 never called ActiveHeartbeat() and has data idle: no HEARTBEAT of
	// its own is outstanding. The peer (or anybody able to inject a packet)
	// sends a HEARTBEAT-ACK carrying 8 arbitrary bytes.
	info := make([]byte, 8)
	binary.BigEndian.PutUint64(info, uint64(time.Now().Add(-time.Hour).UnixNano())) //nolint:gosec
	hbAck := &chunkHeartbeatAck{params: []param{&paramHeartbeatInfo{heartbeatInformation: info}}}

	a0.lock.RLock()
	pkt := &packet{
		sourcePort:      a0.destinationPort,
		destinationPort: a0.sourcePort,
		verificationTag: a0.myVerificationTag,
		chunks:          []chunk{hbAck},
	}
	a0.lock.RUnlock()
	raw, err := pkt.marshal(true)
	require.NoError(t, err)

	require.NoError(t, a0.handleInbound(raw))

	rtoAfter := a0.rtoMgr.getRTO()
	srttAfter := a0.SRTT()
	t.Logf("before: srtt=%.3f ms rto=%.0f ms; after unsolicited HEARTBEAT-ACK: srtt=%.0f ms rto=%.0f ms",
		srttBefore, rtoBefore, srttAfter, rtoAfter)

	require.Equal(t, rtoBefore, rtoAfter,
		"RTO must be recomputed only from genuine round-trip samples; an acknowledgement for a heartbeat never sent must be dropped")
	require.InDelta(t, srttBefore, srttAfter, 1.0, "SRTT changed by an unsolicited HEARTBEAT-ACK")
}
