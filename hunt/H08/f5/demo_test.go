package sctp

import (
	"encoding/binary"
	"testing"

	"github.com/stretchr/testify/require"
)

// Finding 5 (C12): when FORWARD-TSN was not negotiated (peer did not list it in Supported
// Extensions) and a FORWARD-TSN chunk arrives, handleForwardTSN answers with an ERROR chunk
// whose "Unrecognized Chunk Type" cause (code 6) has Cause Length 4 and NO value. RFC 9260
// 3.3.10.6: the cause-specific field of that cause is the unrecognized chunk itself
// (type, flags, length, value) - it is mandatory, so the minimum length of the cause is 8.
// The emitted packet is therefore not well formed (chunk-specific mandatory field missing)
// and the receiver cannot tell which chunk was not understood.
func TestZZHunt5_UnrecognizedChunkCauseWithoutChunk(t *testing.T) {
	a := createTestAssociation(t, Config{})

	// handshake with a peer that does NOT support FORWARD-TSN
	init := &chunkInit{}
	init.initiateTag = 111
	init.initialTSN = 1000
	init.numInboundStreams = 100
	init.numOutboundStreams = 100
	init.advertisedReceiverWindowCredit = 100000
	init.params = []param{&paramSupportedExtensions{ChunkTypes: []chunkType{ctReconfig}}}
	send := func(vtag uint32, c chunk) {
		p := &packet{sourcePort: 5000, destinationPort: 5000, verificationTag: vtag, chunks: []chunk{c}}
		raw, err := p.marshal(true)
		require.NoError(t, err)
		require.NoError(t, a.handleInbound(raw))
	}
	send(0, init)
	out, _ := a.gatherOutbound()
	require.Len(t, out, 1)
	ia := &packet{}
	require.NoError(t, ia.unmarshal(true, out[0]))
	var cookie []byte
	for _, pp := range ia.chunks[0].(*chunkInitAck).params { //nolint:forcetypeassert
		if c, ok := pp.(*paramStateCookie); ok {
			cookie = c.cookie
		}
	}
	go func() { <-a.handshakeCompletedCh }()
	send(a.myVerificationTag, &chunkCookieEcho{cookie: cookie})
	out, _ = a.gatherOutbound()
	require.Len(t, out, 1) // COOKIE ACK
	require.Equal(t, established, a.getState())
	require.False(t, a.useForwardTSN)
	require.False(t, a.useInterleaving)

	// the peer sends a FORWARD-TSN anyway
	fwd := &chunkForwardTSN{newCumulativeTSN: 1005, streams: []chunkForwardTSNStream{{identifier: 1, sequence: 2}}}
	fwdRaw, err := fwd.marshal()
	require.NoError(t, err)
	send(a.myVerificationTag, fwd)

	out, _ = a.gatherOutbound()
	require.Len(t, out, 1)
	t.Logf("emitted: %x", out[0])
	raw := out[0][packetHeaderSize:]
	require.Equal(t, byte(ctError), raw[0], "an ERROR chunk is emitted")
	require.Equal(t, uint16(unrecognizedChunkType), binary.BigEndian.Uint16(raw[4:]), "cause: Unrecognized Chunk Type")
	causeLen := int(binary.BigEndian.Uint16(raw[6:]))

	require.GreaterOrEqual(t, causeLen, errorCauseHeaderLength+chunkHeaderSize,
		"Unrecognized Chunk Type cause emitted without the mandatory unrecognized chunk (cause length %d)", causeLen)
	require.Equal(t, fwdRaw, raw[8:4+4+len(fwdRaw)], "the cause must carry the chunk that was not recognized")
}
