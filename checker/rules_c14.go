package main

import (
	"fmt"
	"go/token"

	"golang.org/x/tools/go/ssa"
)

func init() {
	register(&Rule{ID: "C14.R1", Props: []string{"C14"}, Engine: "E2+E3",
		Title:   "stream close queues an end-of-stream marker (a chunk with nil user data) behind the stream's data in the same pending queue",
		MinInst: 4,
		Run: func(c *RuleCtx) {
			srr := c.Fn("Association.sendResetRequest")
			pq := c.field("Association", "pendingQueue")
			ud := c.field("chunkPayloadData", "userData")
			si := c.field("chunkPayloadData", "streamIdentifier")
			for _, pc := range callsIn(srr, c.Fn("pendingQueue.push")) {
				c.Check(IsLoadOf(pq)(callArg(pc, 0)), "marker-same-queue", c.Pos(pc), "marker pushed into a.pendingQueue (the data queue)", "marker not pushed into the data queue")
				al, ok := unconv(callArg(pc, 1)).(*ssa.Alloc)
				okNil, okSI := false, false
				if ok {
					for _, a := range c.storesIn(srr, ud) {
						if addrRoot(a.FA) == ssa.Value(al) && isNilConst(a.Val) {
							okNil = true
						}
					}
					for _, a := range c.storesIn(srr, si) {
						if addrRoot(a.FA) == ssa.Value(al) && IsParam(srr, 1)(a.Val) {
							okSI = true
						}
					}
				}
				c.Check(okNil, "marker-has-nil-data", c.Pos(pc), "marker chunk has nil userData", "marker chunk is not distinguishable from data")
				c.Check(okSI, "marker-names-stream", c.Pos(pc), "marker carries the stream identifier", "marker does not carry the stream identifier")
			}
			// the writer turns a zero-length chunk into a reset entry, in queue order
			pop := c.Fn("Association.popPendingDataChunksToSend")
			okM := false
			forEachInstr(pop, func(in ssa.Instruction) {
				if ifi, ok := in.(*ssa.If); ok {
					if b, ok := ifi.Cond.(*ssa.BinOp); ok && b.Op == token.EQL && IsConstInt(0)(b.Y) {
						// true edge pops the marker from the pending queue
						okP, _ := MustPassFromBlock(ifi.Block().Succs[0], c.P.CallTargetPred(0, c.Fn("pendingQueue.pop")), PathOpts{})
						if okP {
							okM = true
						}
					}
				}
			})
			c.Check(okM, "marker-consumed-in-order", c.P.Pos(pop.Pos()), "a zero-length head chunk is popped and recorded as a stream to reset when it reaches the head", "end-of-stream markers are not consumed in queue order")
			// Stream.Close reaches sendResetRequest
			cl := c.Fn("Stream.Close")
			c.Check(len(callsIn(cl, srr)) == 1, "close-sends-reset", c.P.Pos(cl.Pos()), "Stream.Close calls sendResetRequest", "Stream.Close no longer requests a reset")
		}})

	register(&Rule{ID: "C14.R2", Props: []string{"C14"}, Engine: "E3-dataflow",
		Title:   "the reset request carries the last TSN assigned, read after the data ahead of the marker was moved in flight, and is stored for retransmission before it is emitted",
		MinInst: 4,
		Run: func(c *RuleCtx) {
			g := c.Fn("Association.gatherOutboundDataAndReconfigPackets")
			nxt := c.field("Association", "myNextTSN")
			slt := c.field("paramOutgoingResetRequest", "senderLastTSN")
			sids := c.field("paramOutgoingResetRequest", "streamIdentifiers")
			rsn := c.field("paramOutgoingResetRequest", "reconfigRequestSequenceNumber")
			pop := c.Fn("Association.popPendingDataChunksToSend")
			st := c.storesInRegion(g, slt)
			c.Check(len(st) == 1, "last-tsn-store", c.P.Pos(g.Pos()), "one senderLastTSN store", fmt.Sprintf("%d senderLastTSN stores", len(st)))
			for _, a := range st {
				c.Check(BinV(token.SUB, IsLoadOf(nxt), IsConstInt(1))(a.Val), "last-tsn-value", c.Pos(a.Instr), "senderLastTSN <- myNextTSN-1", "senderLastTSN is not the last assigned TSN")
				for _, pc := range callsIn(g, pop) {
					// the load feeding the value happens after the pop
					ld := unconv(a.Val).(*ssa.BinOp).X.(ssa.Instruction)
					c.Check(InstrDominates(pc, ld), "last-tsn-after-pop", c.Pos(a.Instr), "myNextTSN is read after popPendingDataChunksToSend (data ahead of the marker already has its TSNs)", "myNextTSN read before the pending data was assigned TSNs")
					// streams come from the same pop
					for _, s := range c.storesInRegion(g, sids) {
						sv := unconv(s.Val)
						if p, isP := sv.(*ssa.Parameter); isP {
							if a := through(p); a != nil {
								sv = a
							}
						}
						ex, ok := sv.(*ssa.Extract)
						c.Check(ok && ex.Tuple == pc.(ssa.Value) && ex.Index == 1, "reset-streams-from-pop", c.Pos(s.Instr), "streamIdentifiers <- the markers popped in this round", "stream list does not come from the popped markers")
					}
				}
			}
			for _, s := range c.storesInRegion(g, rsn) {
				c.Check(IsCallOf(c.Fn("Association.generateNextRSN"))(s.Val), "request-rsn", c.Pos(s.Instr), "request sequence number <- generateNextRSN()", "request sequence number not freshly generated")
			}
			// stored in reconfigs before marshalling
			recon := c.field("Association", "reconfigs")
			var upd ssa.Instruction
			for _, gg := range c.P.Region(g) {
				forEachInstr(gg, func(in ssa.Instruction) {
					if mu, ok := in.(*ssa.MapUpdate); ok && IsLoadOf(recon)(mu.Map) {
						upd = in
					}
				})
			}
			if upd == nil {
				c.Fail("request-stored", c.P.Pos(g.Pos()), "request not stored in a.reconfigs")
			} else {
				c.Ok("request-stored", c.Pos(upd), "request stored in a.reconfigs (retransmission table)")
			}
			// no unlock between pop and the read (same critical section)
			le := c.P.Locks()
			okLock := true
			forEachInstr(g, func(in ssa.Instruction) {
				if ci, ok := in.(ssa.CallInstruction); ok {
					if cl, op, ok := le.mutexOp(ci.Common()); ok && cl == "Association.lock" && op == "Unlock" {
						okLock = false
					}
				}
			})
			c.Check(okLock, "same-critical-section", c.P.Pos(g.Pos()), "no release of Association.lock inside the gather step", "lock released between assigning TSNs and building the request")
		}})

	register(&Rule{ID: "C14.R3", Props: []string{"C14"}, Engine: "E3",
		Title:   "the receiver defers an incoming reset until its cumulative TSN reaches the sender's last TSN, remembers the request, and re-evaluates it on every cumulative advance",
		MinInst: 7,
		Run: func(c *RuleCtx) {
			rs := c.Fn("Association.resetStreamsIfAny")
			lte := c.Fn("sna32LTE")
			slt := c.field("paramOutgoingResetRequest", "senderLastTSN")
			peer := c.Fn("Association.peerLastTSN")
			due := CallCond(lte, true, IsLoadOf(slt), IsCallOf(peer))
			for _, oc := range callsIn(rs, c.Fn("Stream.onInboundStreamReset")) {
				c.Dom("reset-when-due", oc, due, "sna32LTE(senderLastTSN, peerLastTSN())")
			}
			streams := c.field("Association", "streams")
			reqs := c.field("Association", "reconfigRequests")
			forEachInstr(rs, func(in ssa.Instruction) {
				ci, ok := in.(ssa.CallInstruction)
				if !ok {
					return
				}
				if b, ok := ci.Common().Value.(*ssa.Builtin); ok && b.Name() == "delete" {
					if IsLoadOf(streams)(ci.Common().Args[0]) {
						c.Dom("stream-removed-when-due", in, due, "sna32LTE(senderLastTSN, peerLastTSN())")
					}
					if IsLoadOf(reqs)(ci.Common().Args[0]) {
						c.Dom("request-forgotten-when-due", in, due, "sna32LTE(senderLastTSN, peerLastTSN())")
					}
				}
			})
			// every stream that was told about the reset is removed in the same iteration
			for _, oc := range callsIn(rs, c.Fn("Stream.onInboundStreamReset")) {
				lp := loopBlocks(oc.Block())
				var header *ssa.BasicBlock
				for b := range lp {
					if header == nil || b.Index < header.Index {
						header = b
					}
				}
				ok, bad := MustPassOpt(oc.Block(), instrIndex(oc)+1, oc, func(in ssa.Instruction) bool {
					ci, isCall := in.(ssa.CallInstruction)
					if !isCall {
						return false
					}
					b, isB := ci.Common().Value.(*ssa.Builtin)
					return isB && b.Name() == "delete" && IsLoadOf(streams)(ci.Common().Args[0])
				}, PathOpts{Fail: func(in ssa.Instruction) bool {
					return header != nil && in.Block() == header && in != ssa.Instruction(oc)
				}})
				c.Check(ok, "reset-always-removes-stream", c.Pos(oc), "a stream that was reset is always deleted from a.streams before the next one is considered",
					"a reset stream can stay registered (path reaches "+c.P.InstrPos(bad)+" without delete(a.streams, id)): a re-opened identifier is routed to the dead incarnation")
			}
			// result: performed when due, in-progress otherwise
			res := c.field("paramReconfigResponse", "result")
			inprog := c.P.Const("reconfigResultInProgress")
			succ := c.P.Const("reconfigResultSuccessPerformed")
			for _, a := range c.storesIn(rs, res) {
				phi, ok := a.Val.(*ssa.Phi)
				okR := false
				if ok && len(phi.Edges) == 2 {
					vals := map[string]bool{}
					for i, e := range phi.Edges {
						k, isK := constInt(e)
						if !isK {
							continue
						}
						dueEdge := factsAt(phi.Block().Preds[i], due)
						if fmt.Sprint(k) == succ.Val().String() && dueEdge {
							vals["succ"] = true
						}
						if fmt.Sprint(k) == inprog.Val().String() && !dueEdge {
							vals["prog"] = true
						}
					}
					okR = vals["succ"] && vals["prog"]
				}
				c.Check(okR, "response-result", c.Pos(a.Instr), "result = performed on the due edge, in-progress otherwise", "response result does not follow the deferral decision")
			}
			// handleReconfigParam stores the request before evaluating it
			hrp := c.Fn("Association.handleReconfigParam")
			var upd ssa.Instruction
			forEachInstr(hrp, func(in ssa.Instruction) {
				if mu, ok := in.(*ssa.MapUpdate); ok && IsLoadOf(reqs)(mu.Map) {
					upd = in
				}
			})
			okS := false
			if upd != nil {
				for _, rc := range callsIn(hrp, rs) {
					if InstrDominates(upd, rc) {
						okS = true
					}
				}
			}
			c.Check(okS, "request-remembered-first", c.P.Pos(hrp.Pos()), "request stored in reconfigRequests before resetStreamsIfAny", "a deferred request is not remembered")
			// re-evaluation on cumulative advance
			hpl := c.Fn("Association.handlePeerLastTSNAndAcknowledgement")
			okR := false
			for _, rc := range callsIn(hpl, rs) {
				if len(loopBlocks(rc.Block())) > 0 {
					forEachInstr(hpl, func(in ssa.Instruction) {
						if rg, ok := in.(*ssa.Range); ok && IsLoadOf(reqs)(rg.X) {
							okR = true
						}
					})
				}
			}
			c.Check(okR, "re-evaluated-on-advance", c.P.Pos(hpl.Pos()), "every stored request is re-evaluated after each cumulative TSN advance", "deferred requests are not re-evaluated when the cumulative TSN advances")
			// and that loop is entered after each successful pop
			okPop := false
			for _, pc := range callsIn(hpl, c.Fn("receivePayloadQueue.pop")) {
				if len(loopBlocks(pc.Block())) > 0 {
					okPop = true
				}
			}
			c.Check(okPop, "advance-loop", c.P.Pos(hpl.Pos()), "cumulative advance loop present", "cumulative advance loop missing")
		}})

	register(&Rule{ID: "C14.R4", Props: []string{"C14", "C18"}, Engine: "E3",
		Title:   "buffered messages are served before end-of-file: a read returns the stream's error only after the reassembly queue had nothing to deliver in the same iteration",
		MinInst: 2,
		Run: func(c *RuleCtx) {
			rd := c.Fn("Stream.ReadSCTP")
			re := c.field("Stream", "readErr")
			rq := c.Fn("reassemblyQueue.read")
			n := 0
			for _, r := range allReturns(rd) {
				res := retResults(r)
				if len(res) != 3 || !IsLoadOf(re)(res[2]) {
					continue
				}
				n++
				// dominated by: err (from read) != nil
				okErr := false
				for _, f := range DomFacts(r.Block()) {
					b, ok := f.Cond.(*ssa.BinOp)
					if !ok || !isNilConst(b.Y) {
						continue
					}
					ex, ok := b.X.(*ssa.Extract)
					if ok && IsCallOf(rq)(ex.Tuple) && ex.Index == 2 {
						if (b.Op == token.EQL && !f.Taken) || (b.Op == token.NEQ && f.Taken) {
							okErr = true
						}
					}
				}
				c.Check(okErr, "eof-after-empty-queue", c.Pos(r), "readErr is returned only when reassemblyQueue.read failed (nothing deliverable)", "the stream error can be returned while a complete message is still queued")
			}
			c.Check(n >= 1, "eof-return-site", c.P.Pos(rd.Pos()), "one return of s.readErr", fmt.Sprintf("%d returns of s.readErr", n))
			// a successful read returns immediately
			okRet := false
			for _, r := range allReturns(rd) {
				res := retResults(r)
				if len(res) == 3 {
					if ex, ok := res[2].(*ssa.Extract); ok && IsCallOf(rq)(ex.Tuple) {
						okRet = true
					}
				}
			}
			c.Check(okRet, "data-returned", c.P.Pos(rd.Pos()), "data (or short-buffer) results are returned as produced by the queue", "queue results are not returned")
		}})

	register(&Rule{ID: "C14.R5", Props: []string{"C14"}, Engine: "E3",
		Title:   "reset response handling: success resets the outgoing sequence counters before the request is forgotten; in-progress keeps the request and restarts the timer",
		MinInst: 6,
		Run: func(c *RuleCtx) {
			hrp := c.Fn("Association.handleReconfigParam")
			recon := c.field("Association", "reconfigs")
			resF := c.field("paramReconfigResponse", "result")
			inprog := c.P.Const("reconfigResultInProgress")
			succ := c.P.Const("reconfigResultSuccessPerformed")
			var iv, sv int64
			fmt.Sscan(inprog.Val().String(), &iv)
			fmt.Sscan(succ.Val().String(), &sv)
			reset := c.Fn("Association.resetOutgoingStreamSequenceNumbers")
			var del ssa.Instruction
			forEachInstr(hrp, func(in ssa.Instruction) {
				if ci, ok := in.(ssa.CallInstruction); ok {
					if b, ok := ci.Common().Value.(*ssa.Builtin); ok && b.Name() == "delete" && IsLoadOf(recon)(ci.Common().Args[0]) {
						del = in
					}
				}
			})
			if del == nil {
				c.Fail("request-forgotten", c.P.Pos(hrp.Pos()), "delete(a.reconfigs, …) not found")
				return
			}
			c.Dom("kept-while-in-progress", del, CmpCond(token.NEQ, IsLoadOf(resF), IsConstInt(iv)), "result != InProgress")
			for _, rc := range callsIn(hrp, reset) {
				c.Dom("reset-on-success", rc, CmpCond(token.EQL, IsLoadOf(resF), IsConstInt(sv)), "result == SuccessPerformed")
				c.Check(CanReach(rc, del) && !CanReach(del, rc), "reset-before-forget", c.Pos(rc), "counters are reset before the request is deleted (the request names the streams)", "request deleted before the counters are reset")
			}
			c.Check(len(callsIn(hrp, reset)) == 1, "reset-site", c.P.Pos(hrp.Pos()), "one reset site", "reset site missing")
			// success edge must-call reset
			forEachInstr(hrp, func(in ssa.Instruction) {
				ifi, ok := in.(*ssa.If)
				if !ok {
					return
				}
				cv, t := normCond(ifi.Cond, true)
				if CmpCond(token.EQL, IsLoadOf(resF), IsConstInt(sv))(cv, t) {
					ok2, _ := MustPassFromBlock(ifi.Block().Succs[0], c.P.CallTargetPred(0, reset), PathOpts{})
					c.Check(ok2, "success-must-reset", c.Pos(ifi), "success ⇒ resetOutgoingStreamSequenceNumbers", "success path can skip the counter reset")
				}
				if CmpCond(token.EQL, IsLoadOf(resF), IsConstInt(iv))(cv, t) {
					// in progress: restart timer if the request is known
					start := c.Fn("rtxTimer.start")
					found := false
					for _, sc := range callsIn(hrp, start) {
						if edgeDominates(ifi.Block(), ifi.Block().Succs[0], sc.Block()) {
							found = true
						}
					}
					c.Check(found, "in-progress-restarts-timer", c.Pos(ifi), "in progress ⇒ reconfig timer restarted", "in-progress response does not restart the timer")
				}
			})
			// the per-stream reset zeroes all three counters
			sr := c.Fn("Stream.resetOutgoingStreamSequenceNumbers")
			for _, f := range []string{"sequenceNumber", "nextOrderedMID", "nextUnorderedMID"} {
				st := c.storesIn(sr, c.field("Stream", f))
				c.Check(len(st) == 1 && IsConstInt(0)(st[0].Val), "counter-zeroed:"+f, c.P.Pos(sr.Pos()), f+" <- 0", f+" is not reset to 0")
			}
			// association-level reset reaches every stream named in the stored request
			ids := c.field("paramOutgoingResetRequest", "streamIdentifiers")
			okIds := false
			for _, a := range c.P.Reads(ids) {
				if a.Fn == reset {
					okIds = true
				}
			}
			c.Check(okIds && len(callsIn(reset, sr)) == 1, "reset-all-named-streams", c.P.Pos(reset.Pos()), "iterates the request's streamIdentifiers and resets each stream", "not all streams named in the request are reset")
		}})

	register(&Rule{ID: "C14.R6", Props: []string{"C14"}, Engine: "E3",
		Title:   "reset requests are retransmitted until answered: the writer re-emits every stored request when the reconfig timer fired and keeps the timer running while requests are outstanding",
		MinInst: 3,
		Run: func(c *RuleCtx) {
			g := c.Fn("Association.gatherOutboundReconfigPackets")
			recon := c.field("Association", "reconfigs")
			okRange := false
			forEachInstr(g, func(in ssa.Instruction) {
				if rg, ok := in.(*ssa.Range); ok && IsLoadOf(recon)(rg.X) {
					okRange = true
				}
			})
			c.Check(okRange, "re-emit-all", c.P.Pos(g.Pos()), "every stored request is re-emitted", "not every stored request is re-emitted")
			will := c.field("Association", "willRetransmitReconfig")
			okFlag := false
			forEachInstr(g, func(in ssa.Instruction) {
				if ifi, ok := in.(*ssa.If); ok && IsLoadOf(will)(ifi.Cond) {
					okFlag = true
				}
			})
			c.Check(okFlag, "re-emit-on-flag", c.P.Pos(g.Pos()), "re-emission is driven by willRetransmitReconfig", "re-emission no longer driven by the timer flag")
			gd := c.Fn("Association.gatherOutboundDataAndReconfigPackets")
			tr := c.field("Association", "tReconfig")
			okT := false
			for _, sc := range callsIn(gd, c.Fn("rtxTimer.start")) {
				if f, _ := loadedField(callArg(sc, 0)); f == tr {
					okT = true
				}
			}
			c.Check(okT, "timer-kept-running", c.P.Pos(gd.Pos()), "tReconfig.start while requests are outstanding", "reconfig timer not (re)started after emitting requests")
			// the timer is stopped only when nothing is outstanding (or to be restarted at once)
			lenRecon := func(v ssa.Value) bool {
				call, ok := unconv(v).(*ssa.Call)
				if !ok {
					return false
				}
				b, ok := call.Call.Value.(*ssa.Builtin)
				return ok && b.Name() == "len" && IsLoadOf(recon)(call.Call.Args[0])
			}
			stopFn, startFn := c.Fn("rtxTimer.stop"), c.Fn("rtxTimer.start")
			onTR := func(in ssa.Instruction, fn *ssa.Function) bool {
				ci, ok := in.(ssa.CallInstruction)
				return ok && ci.Common().StaticCallee() == fn && len(ci.Common().Args) > 0 && IsLoadOf(tr)(ci.Common().Args[0])
			}
			ks := keyer{}
			for _, fn := range c.P.Funcs {
				for _, sc := range callsIn(fn, stopFn) {
					if !onTR(sc, stopFn) {
						continue
					}
					okEmpty := DominatedByExt(sc, CmpCond(token.EQL, lenRecon, IsConstInt(0))) || DominatedByExt(sc, CmpCond(token.LEQ, lenRecon, IsConstInt(0))) || DominatedByExt(sc, CmpCond(token.LSS, lenRecon, IsConstInt(1)))
					okRestart, _ := MustPass(sc, func(x ssa.Instruction) bool { return onTR(x, startFn) }, nil)
					c.Check(okEmpty || okRestart, ks.key("stop-only-when-none-outstanding@"+c.P.FuncName(fn)), c.Pos(sc), "tReconfig.stop() is dominated by len(reconfigs)==0 or restarts the timer at once",
						"the reconfig timer is stopped while reset requests may still be outstanding: a lost request is never retransmitted ("+c.describeConds(sc)+")")
				}
			}
		}})

	register(&Rule{ID: "C14.R7", Props: []string{"C14", "C18"}, Engine: "E2+E3",
		Title:   "a re-opened identifier is a fresh incarnation: new streams get a new reassembly queue with zero cursors; writes require the Open state; Close only moves Open→Closing/Closed",
		MinInst: 6,
		Run: func(c *RuleCtx) {
			cs := c.Fn("Association.createStream")
			nrq := c.Fn("newReassemblyQueue")
			c.Check(len(callsIn(cs, nrq)) == 1, "fresh-queue", c.P.Pos(cs.Pos()), "createStream allocates a new reassembly queue", "createStream does not allocate a fresh reassembly queue")
			for _, f := range []string{"nextSSN", "nextMID"} {
				st := c.storesIn(nrq, c.field("reassemblyQueue", f))
				c.Check(len(st) == 1 && IsConstInt(0)(st[0].Val), "fresh-cursor:"+f, c.P.Pos(nrq.Pos()), f+" starts at 0", f+" does not start at 0")
			}
			// the stream is removed from the map on inbound reset (C14.R3) and on unregister, so getOrCreateStream creates a new one
			gos := c.Fn("Association.getOrCreateStream")
			c.Check(len(callsIn(gos, cs)) == 1, "recreate-on-demand", c.P.Pos(gos.Pos()), "getOrCreateStream creates a stream when the id is absent", "no creation path for an absent id")
			ws := c.Fn("Stream.WriteSCTP")
			stF := c.Fn("Stream.State")
			open := c.P.Const("StreamStateOpen")
			var ov int64
			fmt.Sscan(open.Val().String(), &ov)
			for _, pc := range callsIn(ws, c.Fn("Stream.packetize")) {
				c.Dom("write-needs-open", pc, CmpCond(token.EQL, IsCallOf(stF), IsConstInt(ov)), "State() == StreamStateOpen")
			}
			// state writers
			stateF := c.field("Stream", "state")
			c.WritersWithin("stream-state", stateF, "Stream.Close", "Stream.onInboundStreamReset")
			closeFn := c.Fn("Stream.Close")
			nClose := 0
			for _, a := range c.P.Writes(stateF) {
				if !c.P.OwnedBy(a.Fn, map[*ssa.Function]bool{closeFn: true}) {
					continue
				}
				nClose++
				c.Dom("close-from-open-only", a.Instr, CmpCond(token.EQL, IsLoadOf(stateF), IsConstInt(ov)), "state == Open")
				// every value the store can write (through φ) is a constant other than Open
				okTarget := true
				leaves := phiLeaves(a.Val)
				if len(leaves) == 0 {
					okTarget = false
				}
				for _, l := range leaves {
					if k, isK := constInt(l.Val); !isK || k == ov {
						okTarget = false
					}
				}
				c.Check(okTarget, "close-target", c.Pos(a.Instr), "Close moves to Closing/Closed", "Close stores Open")
			}
			c.Check(nClose >= 1, "close-changes-state", c.P.Pos(closeFn.Pos()), "Close() changes the stream state", "Close() no longer changes the stream state")
		}})
}
