package main

import (
	"fmt"
	"go/constant"
	"go/token"
	"go/types"
	"strings"

	"golang.org/x/tools/go/ssa"
)

// Rules added after the fourth round of seeded defects (DESIGN §9).

func init() {
	register(&Rule{ID: "C08.R6", Props: []string{"C08", "C02", "C19"}, Engine: "E3",
		Title:   "T2-shutdown is never left stopped with the shutdown unfinished: every t2Shutdown.stop() is followed, on every path to the function's exit, by raising a flag whose emission restarts T2 (willSendShutdown / willSendShutdownAck), by the SHUTDOWN-COMPLETE step, or by closing the association — T2 is restarted only when a SHUTDOWN or SHUTDOWN-ACK is emitted, so a bare stop ends retransmission for good",
		MinInst: 4,
		Run: func(c *RuleCtx) {
			t2 := c.field("Association", "t2Shutdown")
			stopFn := c.Fn("rtxTimer.stop")
			flags := map[string]bool{"willSendShutdown": true, "willSendShutdownAck": true, "willSendShutdownComplete": true}
			closeFn := c.Fn("Association.close")
			ks := keyer{}
			for _, fn := range c.P.Funcs {
				for _, sc := range callsIn(fn, stopFn) {
					if !IsLoadOf(t2)(callArg(sc, 0)) {
						continue
					}
					isResume := func(x ssa.Instruction) bool {
						if st, ok := x.(*ssa.Store); ok && IsConstBool(true)(st.Val) {
							if f := fieldOfAddr(st.Addr); f != nil && flags[f.Name()] {
								return true
							}
						}
						if ci, ok := x.(ssa.CallInstruction); ok && ci.Common().StaticCallee() == closeFn {
							return true
						}
						return false
					}
					okAfter, bad := MustPass(sc, isResume, nil)
					// or the flag was raised just before the stop (same straight-line region)
					okBefore := false
					forEachInstr(fn, func(x ssa.Instruction) {
						if isResume(x) && InstrDominates(x, sc) {
							// nothing between may clear it: accept when no store of false to the same flag follows
							okBefore = true
						}
					})
					c.Check(okAfter || okBefore, ks.key("t2-stop-resumes@"+c.P.FuncName(fn)), c.Pos(sc), "stopping T2 is paired with a (re)emission request or the end of the association",
						"T2-shutdown is stopped on a path that neither requests a SHUTDOWN/SHUTDOWN-ACK (whose emission restarts T2) nor ends the association: "+c.P.InstrPos(bad))
				}
			}
		}})

	register(&Rule{ID: "C04.R11", Props: []string{"C04", "C09"}, Engine: "E2",
		Title:   "the connect call is answered only by the events that end a handshake: completeHandshake is called from COOKIE-ECHO / COOKIE-ACK processing (established, or establishing failed) and from the exhausted-retry callback, nowhere else — in particular not from a retransmission attempt that found nothing to send, which a late timer callback legitimately does",
		MinInst: 4,
		Run: func(c *RuleCtx) {
			ch := c.Fn("Association.completeHandshake")
			c.CallersWithin("handshake-result", ch, "Association.handleCookieEcho", "Association.handleCookieAck", "Association.onRetransmissionFailure")
		}})

	register(&Rule{ID: "C10.R9", Props: []string{"C10", "C04"}, Engine: "E2-dataflow",
		Title:   "the peer's receive window comes from the peer: in handleInit / handleInitAck the value given to setRWND is the advertisedReceiverWindowCredit of the chunk that was received (the handler's chunk parameter), never of the chunk being built in reply",
		MinInst: 2,
		Run: func(c *RuleCtx) {
			setR := c.Fn("Association.setRWND")
			arw := c.field("chunkInitCommon", "advertisedReceiverWindowCredit")
			for _, name := range []string{"Association.handleInit", "Association.handleInitAck"} {
				fn := c.Fn(name)
				n := 0
				for _, g := range c.P.Region(fn) {
					for _, sc := range callsIn(g, setR) {
						n++
						arg := unconv(callArg(sc, 1))
						_, base := loadedField(arg)
						ok := IsLoadOf(arw)(arg) && base != nil
						if ok {
							// base: &param.chunkInitCommon with param the received chunk (parameter index 2 of the handler)
							root := addrRoot(base)
							ok = false
							for d := 0; d < 4 && root != nil; d++ {
								if root == ssa.Value(fn.Params[2]) {
									ok = true
									break
								}
								p, isP := root.(*ssa.Parameter)
								if !isP || p.Parent() == fn {
									break
								}
								root = through(p) // a helper of the handler that was handed the chunk
								if root != nil {
									root = addrRoot(unconv(root))
								}
							}
						}
						c.Check(ok, "rwnd-from-received-chunk@"+name, c.Pos(sc), "setRWND(<received chunk>.advertisedReceiverWindowCredit)", "the peer's window is not taken from the received chunk's a_rwnd (e.g. from the reply being built: our own buffer size is then used as the peer's window until the first SACK)")
					}
				}
				c.Check(n == 1, "rwnd-set-once@"+name, c.P.Pos(fn.Pos()), "one setRWND in the handler", fmt.Sprintf("%d setRWND calls", n))
			}
		}})
}

var _ = strings.Join

func init() {
	register(&Rule{ID: "C03.R13", Props: []string{"C03", "C06"}, Engine: "E3",
		Title:   "the unordered-fragment scan slices only an opened run: in findCompleteUnorderedChunkSet a run is declared complete (found = true) only on a path where a beginning fragment opened it (startIdx ≥ 0 is established), so the extraction unorderedChunks[startIdx : startIdx+n] can never start at −1 — whatever TSN a crafted tail fragment carries",
		MinInst: 2,
		Run: func(c *RuleCtx) {
			fn := c.Fn("reassemblyQueue.findCompleteUnorderedChunkSet")
			uc := c.field("reassemblyQueue", "unorderedChunks")
			// the start index of the extraction slice
			var starts []ssa.Value
			forEachInstr(fn, func(in ssa.Instruction) {
				if sl, ok := in.(*ssa.Slice); ok && IsLoadOf(uc)(sl.X) && sl.Low != nil && sl.High != nil {
					starts = append(starts, sl.Low)
				}
			})
			c.Check(len(starts) >= 1, "extract-site", c.P.Pos(fn.Pos()), fmt.Sprintf("%d extraction slice(s)", len(starts)), "no extraction slice unorderedChunks[a:b] found")
			// (a) path enumeration: the scan's control skeleton has four abstract states
			// ({run open?} × {complete?}); its effect per iteration does not depend on the
			// iteration number, so every reachable combination shows within three
			// iterations. On each enumerated path the loop index is a concrete number and
			// the start of the extraction folds to a constant.
			neg, unknown, seenPaths := "", 0, 0
			outs, und := c.P.PEval(fn, PEConfig{LoopBound: 3, MaxPaths: 20000, MaxSteps: 400000,
				Observe: func(in ssa.Instruction, get func(ssa.Value) constant.Value) {
					sl, ok := in.(*ssa.Slice)
					if !ok || !IsLoadOf(uc)(sl.X) || sl.Low == nil || sl.High == nil {
						return
					}
					seenPaths++
					v := get(sl.Low)
					if v == nil || v.Kind() != constant.Int {
						unknown++
						return
					}
					if constant.Sign(v) < 0 {
						neg = render(v)
					}
				}})
			switch {
			case und == "" && len(outs) > 0 && seenPaths > 0 && unknown == 0:
				c.Check(neg == "", "extract-start-nonneg", c.P.Pos(fn.Pos()), fmt.Sprintf("the extraction starts at a non-negative index on all %d enumerated paths that reach it (≤3 iterations; 4 abstract states)", seenPaths), "a path through the scan reaches the extraction with start index "+neg+": a crafted unordered tail fragment slices unorderedChunks["+neg+":…] and panics the read loop")
				return
			case neg != "":
				c.Fail("extract-start-nonneg", c.P.Pos(fn.Pos()), "a path through the scan reaches the extraction with start index "+neg+" (a crafted unordered tail fragment panics the read loop)")
				return
			}
			// (b) structural fallback when the start does not fold to a constant
			for _, st := range starts {
				// every value the start can take is ≥ 0: a non-negative constant / loop index, or −1 guarded away
				okAll := true
				why := ""
				for _, lf := range leavesWithFacts(st) {
					if k, isK := constInt(lf.Val); isK && k >= 0 {
						continue
					}
					if k, isK := constInt(lf.Val); isK && k < 0 {
						// the initial "no run" value may reach the slice only if excluded by a dominating test
						if DominatedByExt(st.(ssa.Instruction), CmpCond(token.GEQ, SameExpr(st), IsConstInt(0))) || DominatedByExt(st.(ssa.Instruction), CmpCond(token.GTR, SameExpr(st), IsConstInt(-1))) {
							continue
						}
						okAll, why = false, "the 'no run' value −1 can reach the extraction"
						continue
					}
					if valueNonNeg(c.P, lf.Val, 0) {
						continue
					}
					okAll, why = false, "start index "+shortValue(c.P, lf.Val)+" is not known to be non-negative"
				}
				if !okAll {
					// fall back to the flag protocol: the slice is reached only with found == true, and found is set only with the run open
					okAll = foundImpliesOpen(c, fn, st)
				}
				c.Check(okAll, "extract-start-nonneg", c.P.Pos(fn.Pos()), "the extraction never starts at a negative index", "the extraction can start at a negative index: "+why+" (a crafted unordered tail fragment panics the read loop)")
			}
		}})
}

// foundImpliesOpen: the extraction is dominated by a boolean flag φ being true
// that is merged in the same block as the start index φ; on every edge on which
// the flag can be true, the start index is non-negative (a loop index, or the
// carried start after a dominating "start < 0 ⇒ skip" test).
func foundImpliesOpen(c *RuleCtx, fn *ssa.Function, start ssa.Value) bool {
	sp, ok := start.(*ssa.Phi)
	if !ok {
		return false
	}
	var useBlk *ssa.BasicBlock
	for _, r := range *start.Referrers() {
		if sl, isSl := r.(*ssa.Slice); isSl && sl.Low == start {
			useBlk = sl.Block()
		}
	}
	if useBlk == nil {
		return false
	}
	for _, f := range DomFacts(useBlk) {
		fl, isPhi := f.Cond.(*ssa.Phi)
		if !isPhi || !f.Taken || fl.Block() != sp.Block() {
			continue
		}
		okAll := true
		n := 0
		for i, fe := range fl.Edges {
			if IsConstBool(false)(fe) {
				continue
			}
			n++
			e := sp.Edges[i]
			if lb, okL := indLower(e, map[*ssa.Phi]bool{}); okL && lb >= 0 {
				continue
			}
			if lb, okL := edgeBound(sp, i, e, false); okL && lb >= 0 {
				continue
			}
			okAll = false
		}
		if okAll && n > 0 {
			return true
		}
	}
	return false
}

// indLower: inductive lower bound of a counter: constants, x + non-negative
// constant, and φ over those (a φ met again on its own cycle is neutral).
func indLower(v ssa.Value, seen map[*ssa.Phi]bool) (int64, bool) {
	v = unconv(v)
	if k, ok := constInt(v); ok {
		return k, true
	}
	switch x := v.(type) {
	case *ssa.BinOp:
		if x.Op == token.ADD {
			if k, ok := constInt(x.Y); ok && k >= 0 {
				if lb, ok := indLower(x.X, seen); ok {
					return lb + k, true
				}
			}
		}
	case *ssa.Phi:
		if seen[x] {
			return 1 << 40, true
		}
		seen[x] = true
		defer delete(seen, x)
		lb := int64(1 << 40)
		for _, e := range x.Edges {
			k, ok := indLower(e, seen)
			if !ok {
				return 0, false
			}
			if k < lb {
				lb = k
			}
		}
		return lb, true
	}
	return 0, false
}

// readsAssocState: the value's operand tree (descending into in-package callees)
// reads a field of the Association or calls one of its state getters.
func readsAssocState(p *Prog, v ssa.Value, d int, seen map[ssa.Value]bool) (bool, string) {
	if v == nil || d > 10 || seen[v] {
		return false, ""
	}
	seen[v] = true
	isAssoc := func(t types.Type) bool {
		if pt, ok := t.Underlying().(*types.Pointer); ok {
			t = pt.Elem()
		}
		n, ok := t.(*types.Named)
		return ok && n.Obj().Name() == "Association"
	}
	switch x := v.(type) {
	case *ssa.FieldAddr:
		if isAssoc(x.X.Type()) {
			return true, "Association." + fieldOf(x.X.Type(), x.Field).Name()
		}
	case *ssa.Call:
		if sc := x.Call.StaticCallee(); sc != nil && sc.Pkg == p.SPkg {
			if sc.Signature.Recv() != nil && isAssoc(sc.Signature.Recv().Type()) {
				return true, p.FuncName(sc) + "()"
			}
			for _, r := range allReturns(sc) {
				for _, rv := range retResults(r) {
					if hit, w := readsAssocState(p, rv, d+1, seen); hit {
						return true, w
					}
				}
			}
		}
	}
	in, ok := v.(ssa.Instruction)
	if !ok {
		return false, ""
	}
	for _, op := range in.Operands(nil) {
		if *op == nil {
			continue
		}
		if hit, w := readsAssocState(p, *op, d+1, seen); hit {
			return true, w
		}
	}
	return false, ""
}

func init() {
	register(&Rule{ID: "C19.R12", Props: []string{"C19"}, Engine: "E3",
		Title:   "a HEARTBEAT is answered whatever the association state: the site in handleHeartbeat that builds the HEARTBEAT ACK is conditioned only on the request's own contents (parameter present and of the right type) — no dominating test reads an Association field or state getter (RFC 9260 §8.3: answered in every state a HEARTBEAT can be received in, including SHUTDOWN-RECEIVED while outstanding DATA drains)",
		MinInst: 1,
		Run: func(c *RuleCtx) {
			hh := c.Fn("Association.handleHeartbeat")
			hi := c.field("paramHeartbeatInfo", "heartbeatInformation")
			n := 0
			for _, a := range c.storesInRegion(hh, hi) {
				if !IsLoadOf(hi)(a.Val) {
					continue
				}
				n++
				var extra []string
				for _, f := range localFactsUpTo(a.Instr, hh) {
					if hit, w := readsAssocState(c.P, f.Cond, 0, map[ssa.Value]bool{}); hit {
						extra = append(extra, fmt.Sprintf("%s=%v (reads %s)", shortValue(c.P, f.Cond), f.Taken, w))
					}
				}
				c.Check(len(extra) == 0, "heartbeat-answered-in-every-state", c.Pos(a.Instr), "the HEARTBEAT ACK depends only on the request's contents", "the HEARTBEAT ACK is sent only if "+strings.Join(extra, " ∧ ")+": in the other states the peer's probe goes unanswered and yields no round-trip sample")
			}
			c.Check(n >= 1, "heartbeat-reply-site", c.P.Pos(hh.Pos()), fmt.Sprintf("%d reply site(s)", n), "no site echoing the request's Heartbeat Info found")
		}})
}

func init() {
	register(&Rule{ID: "C18.R9", Props: []string{"C18"}, Engine: "E3",
		Title:   "an armed read deadline outlives the reads that return before it: outside SetReadDeadline (which replaces the timer) the deadline goroutine's cancel channel is closed only once the read side has ended with an error (readErr ≠ nil dominates the close) — so a Read that returned data does not disarm the timer, and a later Read that blocks is still woken at the deadline instant",
		MinInst: 1,
		Run: func(c *RuleCtx) {
			srd := c.Fn("Stream.SetReadDeadline")
			rc := c.field("Stream", "readTimeoutCancel")
			re := c.field("Stream", "readErr")
			own := map[*ssa.Function]bool{srd: true}
			for _, g := range goTargetsIn(srd) {
				own[g] = true
			}
			ks := keyer{}
			n := 0
			for _, fn := range c.P.Funcs {
				if c.P.OwnedBy(fn, own) {
					continue
				}
				forEachInstr(fn, func(in ssa.Instruction) {
					ci, isCall := in.(ssa.CallInstruction)
					if !isCall {
						return
					}
					b, isB := ci.Common().Value.(*ssa.Builtin)
					if !isB || b.Name() != "close" || !IsLoadOf(rc)(ci.Common().Args[0]) {
						return
					}
					n++
					ok := DominatedByExt(in, CmpCond(token.NEQ, IsLoadOf(re), isNilConst))
					c.Check(ok, ks.key("deadline-survives-successful-read@"+c.P.FuncName(fn)), c.Pos(in), "cancelled only after the read side ended with an error", "the read-deadline timer is cancelled although no read error is latched: a later blocking Read is not woken at the deadline ("+c.describeConds(in)+")")
				})
			}
			c.Check(true, "cancel-sites", "", fmt.Sprintf("%d cancel site(s) outside SetReadDeadline", n), "")
		}})
}

// analysisRoots: fn itself, or (for a private helper) the functions that call it.
func analysisRoots(p *Prog, fn *ssa.Function, d int) []*ssa.Function {
	if d > 3 || !p.PrivateHelper(fn) {
		return []*ssa.Function{fn}
	}
	var out []*ssa.Function
	for _, s := range p.CallSitesOf(fn) {
		out = append(out, analysisRoots(p, s.Fn, d+1)...)
	}
	if len(out) == 0 {
		return []*ssa.Function{fn}
	}
	return out
}

func init() {
	register(&Rule{ID: "C18.R10", Props: []string{"C18", "C08"}, Engine: "E5",
		Title:   "the blocking-write gate is thrown open only when the association leaves ESTABLISHED: specialising every function that calls unblockPendingWrites over all entry states, the association state at the call can never be established (Shutdown: after →shutdownPending; close: after →closed; handleShutdown: after →shutdownReceived) — while established the gate is lowered solely by the drain notification, so a parked blocking Write cannot be let through with the previous message still pending",
		MinInst: 2,
		Run: func(c *RuleCtx) {
			e, err := c.P.States()
			if err != nil {
				panic(unresolved{err.Error()})
			}
			ub := c.Fn("Association.unblockPendingWrites")
			est := e.Set("established")
			ks := keyer{}
			n := 0
			for _, fn := range c.P.Funcs {
				for _, site := range callsIn(fn, ub) {
					n++
					bad := ""
					for _, root := range analysisRoots(c.P, fn, 0) {
						run := e.Run(root, e.all)
						s, reached := run.Reach[site]
						if !reached {
							if run.BlockReached(site.Block()) {
								bad = "UNDECIDED: state at the call not computed from " + c.P.FuncName(root)
							}
							continue
						}
						if s&est != 0 {
							bad = fmt.Sprintf("entered from %s the association may still be %s here", c.P.FuncName(root), e.String(s))
						}
					}
					c.Check(bad == "", ks.key("gate-opened-only-off-established@"+c.P.FuncName(fn)), c.Pos(site), "state ≠ established at the call", "unblockPendingWrites is called while the association can be established ("+bad+"): every parked blocking Write proceeds although the pending queue has not drained")
				}
			}
			c.Check(n >= 2, "unblock-sites", "", fmt.Sprintf("%d call site(s)", n), fmt.Sprintf("only %d call sites of unblockPendingWrites", n))
		}})
}

func init() {
	register(&Rule{ID: "C17.R9", Props: []string{"C17"}, Engine: "E2",
		Title:   "the configured stream weights survive scheduler re-initialisation: weightedFairQueueingPendingQueuePolicy.weights is written only while the policy is constructed from the configured weights — not by Reset(), which pendingQueue.setInterleaving calls on the freshly installed policy when interleaving is negotiated (otherwise every stream is served with weight 1 and normalised service diverges)",
		MinInst: 1,
		Run: func(c *RuleCtx) {
			w := c.field("weightedFairQueueingPendingQueuePolicy", "weights")
			n := c.WritersWithin("weights", w, "newWeightedFairQueueingPendingQueuePolicy")
			ctor := fnSet(c.fns("newWeightedFairQueueingPendingQueuePolicy"))
			ks := keyer{}
			for _, fn := range c.P.Funcs {
				if c.P.OwnedBy(fn, ctor) {
					continue
				}
				forEachInstr(fn, func(in ssa.Instruction) {
					mut := false
					switch x := in.(type) {
					case *ssa.MapUpdate:
						mut = IsLoadOf(w)(x.Map)
					case ssa.CallInstruction:
						if b, ok := x.Common().Value.(*ssa.Builtin); ok && (b.Name() == "delete" || b.Name() == "clear") && len(x.Common().Args) > 0 {
							mut = IsLoadOf(w)(x.Common().Args[0])
						}
					}
					if mut {
						c.Fail(ks.key("weights:mutate@"+c.P.FuncName(fn)), c.Pos(in), "the weights table is modified in "+c.P.FuncName(fn)+", outside the constructor")
					}
				})
			}
			c.Check(n >= 1, "weights-configured", "", fmt.Sprintf("%d write(s) of the weights table, all in the constructor", n), "the weights table is never filled from the configuration")
		}})
}

func init() {
	register(&Rule{ID: "C16.R7", Props: []string{"C16"}, Engine: "E6",
		Title:   "no sequence number has a special absolute value: a value classified as a TSN/SSN/MID/request-sequence number is never tested for (in)equality against a constant (a 0 that means 'not recorded' is also a position a wrapped counter legitimately takes; the reviewed exceptions compare a wire field that is defined to be zero)",
		MinInst: 1,
		Run: func(c *RuleCtx) {
			e := c.P.Serial()
			ks := keyer{}
			n := 0
			for _, fn := range c.P.Funcs {
				name := c.P.FuncName(fn)
				if isSnaHelper(name) {
					continue
				}
				forEachInstr(fn, func(in ssa.Instruction) {
					b, ok := in.(*ssa.BinOp)
					if !ok || (b.Op != token.EQL && b.Op != token.NEQ) {
						return
					}
					var ser, other ssa.Value
					switch {
					case e.kind[b.X] == serSerial:
						ser, other = b.X, b.Y
					case e.kind[b.Y] == serSerial:
						ser, other = b.Y, b.X
					default:
						return
					}
					n++
					if _, isK := constInt(unconv(other)); !isK {
						return
					}
					if fsn := c.P.Field("chunkPayloadData", "fragmentSequenceNumber"); fsn != nil && IsLoadOf(fsn)(ser) {
						// RFC 8260 §2.1: the FSN is not free-running; the first fragment of every message is FSN 0 by definition
						c.Ok(ks.key("fsn-origin@"+name), c.Pos(in), "FSN compared with its defined origin 0 (RFC 8260: the first fragment of a message carries FSN 0)")
						return
					}
					c.Fail(ks.key("sentinel-compare@"+name), c.Pos(in), fmt.Sprintf("sequence number %s compared with the constant %s: that absolute value is treated specially, so behaviour differs when the counter passes through it", shortValue(c.P, ser), shortValue(c.P, other)))
				})
			}
			c.Check(true, "equality-tests", "", fmt.Sprintf("%d (in)equality tests on sequence numbers examined", n), "")
		}})
}
