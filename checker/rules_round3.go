package main

import (
	"fmt"
	"go/token"
	"go/types"
	"strings"

	"golang.org/x/tools/go/ssa"
)

// Rules added after the third round of seeded defects (DESIGN §9).

// mentionsElemOf: v is computed from an element of the slice field f (a set
// picked while ranging over r.ordered, its fields, calls on it, …).
func mentionsElemOf(v ssa.Value, f *types.Var, d int, seen map[ssa.Value]bool) bool {
	if v == nil || d > 10 || seen[v] {
		return false
	}
	seen[v] = true
	switch x := v.(type) {
	case *ssa.UnOp:
		if ia, ok := x.X.(*ssa.IndexAddr); ok && IsLoadOf(f)(ia.X) {
			return true
		}
		return mentionsElemOf(x.X, f, d+1, seen)
	case *ssa.FieldAddr:
		return mentionsElemOf(x.X, f, d+1, seen)
	case *ssa.IndexAddr:
		return IsLoadOf(f)(x.X) || mentionsElemOf(x.X, f, d+1, seen)
	case *ssa.Field:
		return mentionsElemOf(x.X, f, d+1, seen)
	case *ssa.BinOp:
		return mentionsElemOf(x.X, f, d+1, seen) || mentionsElemOf(x.Y, f, d+1, seen)
	case *ssa.Convert:
		return mentionsElemOf(x.X, f, d+1, seen)
	case *ssa.Phi:
		for _, e := range x.Edges {
			if mentionsElemOf(e, f, d+1, seen) {
				return true
			}
		}
	case *ssa.Extract:
		return mentionsElemOf(x.Tuple, f, d+1, seen)
	case *ssa.Next:
		if rg, ok := x.Iter.(*ssa.Range); ok {
			return IsLoadOf(f)(rg.X)
		}
	case *ssa.Call:
		for _, a := range x.Call.Args {
			if mentionsElemOf(a, f, d+1, seen) {
				return true
			}
		}
		if x.Call.IsInvoke() {
			return mentionsElemOf(x.Call.Value, f, d+1, seen)
		}
	}
	return false
}

func init() {
	register(&Rule{ID: "C01.R9", Props: []string{"C01", "C02"}, Engine: "E3",
		Title:   "one reassembly set per ordered message: an arriving DATA fragment joins the existing set of its stream sequence number whenever that set holds a fragment — the only properties of a queued set that decide the match are its SSN and whether its first chunk is a fragment (so a message whose last fragment arrives first is not split into two sets that can never complete)",
		MinInst: 2,
		Run: func(c *RuleCtx) {
			pw := c.Fn("reassemblyQueue.pushWithError")
			ordered := c.field("reassemblyQueue", "ordered")
			ssn := c.field("chunkSet", "ssn")
			isFrag := c.Fn("chunkPayloadData.isFragmented")
			n := 0
			for _, pwg := range c.P.Region(pw) {
				forEachInstr(pwg, func(in ssa.Instruction) {
					phi, ok := in.(*ssa.Phi)
					if !ok || typeShort(phi.Type()) != "*chunkSet" {
						return
					}
					for i, e := range phi.Edges {
						if _, viaPhi := e.(*ssa.Phi); viaPhi || !mentionsElemOf(e, ordered, 0, map[ssa.Value]bool{}) {
							continue // only the edge on which a queued set is picked
						}
						n++
						pred := phi.Block().Preds[i]
						facts := DomFacts(pred)
						if len(pred.Instrs) > 0 {
							if ifi, ok := pred.Instrs[len(pred.Instrs)-1].(*ssa.If); ok && pred.Succs[0] != pred.Succs[1] {
								cc, tt := normCond(ifi.Cond, pred.Succs[0] == phi.Block())
								facts = append(facts, condFact{cc, tt})
							}
						}
						judgeSetMatch(c, phi, facts, ordered, ssn, isFrag)
					}
				})
			}
			// the lookup extracted into a helper that returns the chosen set
			for _, pwg := range c.P.Region(pw) {
				if pwg == pw || pwg.Signature.Results().Len() == 0 || typeShort(pwg.Signature.Results().At(0).Type()) != "*chunkSet" {
					continue
				}
				for _, r := range allReturns(pwg) {
					rv := retResults(r)[0]
					if _, viaPhi := rv.(*ssa.Phi); viaPhi || !mentionsElemOf(rv, ordered, 0, map[ssa.Value]bool{}) {
						continue
					}
					n++
					judgeSetMatch(c, r, DomFacts(r.Block()), ordered, ssn, isFrag)
				}
			}
			c.Check(n >= 1, "set-match-site", c.P.Pos(pw.Pos()), fmt.Sprintf("%d lookup site(s) of an existing ordered set", n), "no lookup of an existing ordered set found in pushWithError")
		}})

	register(&Rule{ID: "C05.R9", Props: []string{"C05", "C11"}, Engine: "E6-sibling",
		Title:   "canPush and push agree on the tracking window: the set of serial positions of tsn relative to cumulativeTSN and to cumulativeTSN+maxTSNOffset for which canPush answers true equals the set for which push records the TSN (a TSN that push would record but canPush refuses is marked received without its data ever reaching a stream)",
		MinInst: 2,
		Run: func(c *RuleCtx) {
			cp, push := c.Fn("receivePayloadQueue.canPush"), c.Fn("receivePayloadQueue.push")
			cum := c.field("receivePayloadQueue", "cumulativeTSN")
			mo := c.field("receivePayloadQueue", "maxTSNOffset")
			mask := c.field("receivePayloadQueue", "tsnBitmask")
			// situations of (tsn vs ref) established by the sna facts
			situ := func(facts []condFact, tsnPat, refPat VPat) int {
				s := snaAll
				for _, f := range facts {
					call, ok := f.Cond.(*ssa.Call)
					if !ok || len(call.Call.Args) != 2 {
						continue
					}
					_, rel, isSna := snaHelper(call.Call.StaticCallee())
					if !isSna {
						continue
					}
					a, b := call.Call.Args[0], call.Call.Args[1]
					switch {
					case tsnPat(a) && refPat(b):
						s &= snaSet(rel, f.Taken)
					case refPat(a) && tsnPat(b):
						s &= snaMirror(snaSet(rel, f.Taken))
					}
				}
				return s
			}
			hi := BinV(token.ADD, IsLoadOf(cum), IsLoadOf(mo))
			lo := IsLoadOf(cum)
			// canPush: union over "return true" leaves
			cpLo, cpHi := 0, 0
			for _, r := range allReturns(cp) {
				for _, lf := range leavesWithFacts(retResults(r)[0]) {
					facts := append(append([]condFact{}, lf.Facts...), DomFactsX(r.Block())...)
					// a leaf that is a boolean expression (return !hasChunk(tsn)) may be true
					mayBeTrue := !IsConstBool(false)(lf.Val)
					if !mayBeTrue {
						continue
					}
					if _, isK := lf.Val.(*ssa.Const); !isK {
						// the answer is this expression: it is true exactly when …
						cc, tt := normCond(lf.Val, true)
						facts = append(facts, condFact{cc, tt})
					}
					cpLo |= situ(facts, IsParam(cp, 1), lo)
					cpHi |= situ(facts, IsParam(cp, 1), hi)
				}
			}
			// push: the bit-setting store
			puLo, puHi, nSet := 0, 0, 0
			for _, st := range c.elementStores(mask) {
				if st.Parent() != push {
					continue
				}
				if b, ok := st.Val.(*ssa.BinOp); !ok || b.Op != token.OR {
					continue
				}
				nSet++
				facts := DomFactsX(st.Block())
				puLo |= situ(facts, IsParam(push, 1), lo)
				puHi |= situ(facts, IsParam(push, 1), hi)
			}
			name := func(s int) string {
				var p []string
				for _, x := range []struct {
					b int
					n string
				}{{snaBefore, "before"}, {snaEqual, "equal"}, {snaAfter, "after"}, {snaAntipode, "antipode"}} {
					if s&x.b != 0 {
						p = append(p, x.n)
					}
				}
				return "{" + strings.Join(p, ",") + "}"
			}
			c.Check(nSet == 1, "push-bit-set-site", c.P.Pos(push.Pos()), "one bit-setting store in push", fmt.Sprintf("%d bit-setting stores", nSet))
			c.Check(cpLo == puLo && cpLo != snaAll, "window-lower-edge-agrees", c.P.Pos(cp.Pos()), "tsn vs cumulativeTSN: canPush and push both accept "+name(cpLo),
				"canPush accepts tsn "+name(cpLo)+" relative to cumulativeTSN but push records "+name(puLo))
			c.Check(cpHi == puHi && cpHi != snaAll, "window-upper-edge-agrees", c.P.Pos(cp.Pos()), "tsn vs cumulativeTSN+maxTSNOffset: canPush and push both accept "+name(cpHi),
				"canPush accepts tsn "+name(cpHi)+" relative to cumulativeTSN+maxTSNOffset but push records "+name(puHi)+": at the differing position a TSN is marked received although its data was refused (or the reverse)")
		}})

	register(&Rule{ID: "C09.R11", Props: []string{"C09", "C18", "C08"}, Engine: "E3",
		Title:   "teardown releases every blocked writer: unblockPendingWrites closes (and replaces) the notify channel under no other condition than blocking-write mode being on — in particular not depending on writePending, which the drain notification clears while other writers are still parked",
		MinInst: 2,
		Run: func(c *RuleCtx) {
			ub := c.Fn("Association.unblockPendingWrites")
			bw := c.field("Association", "blockWrite")
			wn := c.field("Association", "writeNotify")
			n := 0
			forEachInstr(ub, func(in ssa.Instruction) {
				ci, ok := in.(ssa.CallInstruction)
				if !ok {
					return
				}
				b, ok := ci.Common().Value.(*ssa.Builtin)
				if !ok || b.Name() != "close" || !IsLoadOf(wn)(ci.Common().Args[0]) {
					return
				}
				n++
				var extra []string
				for _, f := range DomFacts(in.Block()) {
					if BoolCond(IsLoadOf(bw), true)(f.Cond, f.Taken) {
						continue
					}
					extra = append(extra, fmt.Sprintf("%s=%v", shortValue(c.P, f.Cond), f.Taken))
				}
				c.Check(len(extra) == 0, "wake-all-unconditional", c.Pos(in), "close(writeNotify) depends only on blockWrite", "blocked writers are released only if "+strings.Join(extra, " ∧ ")+": a writer still parked on the old channel stays blocked for ever after Close/Abort/Shutdown")
			})
			c.Check(n >= 1, "wake-all-site", c.P.Pos(ub.Pos()), "one broadcast (close) of the notify channel", fmt.Sprintf("%d close(writeNotify) sites in unblockPendingWrites", n))
		}})

	register(&Rule{ID: "C10.R8", Props: []string{"C10"}, Engine: "E3",
		Title:   "fast recovery ends when the exit point is acknowledged, however far the cumulative ack jumps: the SACK-side clearing of inFastRecovery is decided per acknowledged chunk (tsn == exit point inside the loop over popped chunks) or by a serial ≥ comparison of the cumulative ack with the exit point — never by equality with the SACK's cumulative TSN alone (a jump past the exit point would leave the sender in fast recovery and the next loss would not cut cwnd)",
		MinInst: 1,
		Run: func(c *RuleCtx) {
			inFR := c.field("Association", "inFastRecovery")
			exitP := c.field("Association", "fastRecoverExitPoint")
			tsn := c.field("chunkPayloadData", "tsn")
			psa := c.Fn("Association.processSelectiveAck")
			n := 0
			for _, g := range c.P.Region(c.Fn("Association.processAcknowledgement")) {
				_ = g
			}
			region := map[*ssa.Function]bool{}
			for _, root := range []*ssa.Function{psa, c.Fn("Association.processAcknowledgement"), c.Fn("Association.handleSack")} {
				for _, g := range c.P.Region(root) {
					region[g] = true
				}
			}
			ks := keyer{}
			for g := range region {
				for _, a := range c.storesIn(g, inFR) {
					if !IsConstBool(false)(a.Val) {
						continue
					}
					n++
					okPerChunk := len(loopBlocks(a.Instr.Block())) > 0 && DominatedByExt(a.Instr, CmpCond(token.EQL, IsLoadOf(tsn), IsLoadOf(exitP)))
					okSerial := false
					for _, f := range DomFactsX(a.Instr.Block()) {
						call, ok := f.Cond.(*ssa.Call)
						if !ok || len(call.Call.Args) != 2 {
							continue
						}
						if _, rel, isSna := snaHelper(call.Call.StaticCallee()); isSna {
							x, y := call.Call.Args[0], call.Call.Args[1]
							var s int
							switch {
							case IsLoadOf(exitP)(y):
								s = snaSet(rel, f.Taken)
							case IsLoadOf(exitP)(x):
								s = snaMirror(snaSet(rel, f.Taken))
							default:
								continue
							}
							// the other operand is at or after the exit point, and "after" is included
							if s&snaBefore == 0 && s&snaAfter != 0 && s&snaEqual != 0 {
								okSerial = true
							}
						}
					}
					c.Check(okPerChunk || okSerial, ks.key("fr-exit@"+c.P.FuncName(g)), c.Pos(a.Instr), "fast recovery is left per acknowledged chunk or by a serial ≥ test against the exit point",
						"fast recovery is left only on an exact match that a jumping cumulative ack can skip ("+c.describeConds(a.Instr)+")")
				}
			}
			c.Check(n >= 1, "fr-exit-site", c.P.Pos(psa.Pos()), fmt.Sprintf("%d SACK-side exit site(s)", n), "no SACK-side exit from fast recovery found")
		}})
}

// sliceBases: the values a slice expression is built on, following append
// chains and φ: nil constants, make(), slice literals, or re-slices of
// something else (returned as the sliced value).
func sliceBases(v ssa.Value, d int, seen map[ssa.Value]bool, out *[]ssa.Value) {
	if v == nil || d > 8 || seen[v] {
		return
	}
	seen[v] = true
	switch x := v.(type) {
	case *ssa.Phi:
		for _, e := range x.Edges {
			sliceBases(e, d+1, seen, out)
		}
	case *ssa.Call:
		if b, ok := x.Call.Value.(*ssa.Builtin); ok && b.Name() == "append" {
			sliceBases(x.Call.Args[0], d+1, seen, out)
			return
		}
		if rs := helperReturns(x, 0); rs != nil {
			for _, r := range rs {
				sliceBases(r, d+1, seen, out)
			}
			return
		}
		*out = append(*out, v)
	case *ssa.Extract:
		if call, ok := x.Tuple.(*ssa.Call); ok {
			if rs := helperReturns(call, x.Index); rs != nil {
				for _, r := range rs {
					sliceBases(r, d+1, seen, out)
				}
				return
			}
		}
		*out = append(*out, v)
	case *ssa.Slice:
		*out = append(*out, v)
	default:
		*out = append(*out, v)
	}
}

func init() {
	register(&Rule{ID: "C12.R12", Props: []string{"C12", "C03"}, Engine: "E1-sibling",
		Title:   "error-cause framing agrees: the ABORT/ERROR encoders concatenate causes without padding, so the decoders must advance by exactly the cause's own length field (errorCauseHeader.length() returns the len field); if one side pads between causes the other must too",
		MinInst: 3,
		Run: func(c *RuleCtx) {
			lenF := c.field("errorCauseHeader", "len")
			acc := c.Fn("errorCauseHeader.length")
			gp := c.Fn("getPadding")
			padDec := len(callsIn(acc, gp)) > 0
			okAcc := true
			for _, r := range allReturns(acc) {
				if !IsLoadOf(lenF)(retResults(r)[0]) {
					okAcc = false
				}
			}
			padEnc := false
			for _, n := range []string{"chunkAbort.marshal", "chunkError.marshal"} {
				if len(callsInDeep(c.Fn(n), gp, 1)) > 0 {
					padEnc = true
				}
			}
			for _, n := range []string{"chunkAbort.unmarshal", "chunkError.unmarshal"} {
				if len(callsIn(c.Fn(n), gp)) > 0 {
					padDec = true
				}
			}
			c.Check(padEnc == padDec, "cause-padding-agrees", c.P.Pos(acc.Pos()), fmt.Sprintf("encoder pads between causes: %v, decoder skips padding: %v", padEnc, padDec),
				fmt.Sprintf("encoders pad between causes: %v but decoders skip padding: %v — a multi-cause chunk the endpoint emits does not decode", padEnc, padDec))
			c.Check(okAcc || padDec, "cause-length-is-wire-length", c.P.Pos(acc.Pos()), "errorCauseHeader.length() is the cause's length field", "errorCauseHeader.length() is not the length field")
			pacc := c.Fn("paramHeader.length")
			pl := c.field("paramHeader", "len")
			okP := true
			for _, r := range allReturns(pacc) {
				if !IsLoadOf(pl)(retResults(r)[0]) {
					okP = false
				}
			}
			c.Check(okP, "param-length-is-wire-length", c.P.Pos(pacc.Pos()), "paramHeader.length() is the parameter's length field (padding is added by the callers)", "paramHeader.length() is not the length field: callers add padding again")
		}})

	register(&Rule{ID: "C14.R8", Props: []string{"C14", "C18"}, Engine: "E3",
		Title:   "an incoming stream reset always ends the read side with EOF: onInboundStreamReset stores io.EOF into readErr unconditionally (a latched, clearable deadline error must not keep EOF from being recorded) and wakes the readers",
		MinInst: 2,
		Run: func(c *RuleCtx) {
			fn := c.Fn("Stream.onInboundStreamReset")
			re := c.field("Stream", "readErr")
			n := 0
			for _, a := range c.storesInRegion(fn, re) {
				if !mayBeGlobal(a.Val, "io", "EOF", 0, map[ssa.Value]bool{}) {
					continue
				}
				n++
				var extra []string
				for _, f := range localFactsUpTo(a.Instr, fn) {
					extra = append(extra, fmt.Sprintf("%s=%v", shortValue(c.P, f.Cond), f.Taken))
				}
				c.Check(len(extra) == 0, "reset-sets-eof-unconditionally", c.Pos(a.Instr), "readErr = io.EOF on every path", "EOF is recorded only if "+strings.Join(extra, " ∧ ")+": a reader whose deadline had expired never sees the end of the stream")
			}
			c.Check(n >= 1, "reset-sets-eof", c.P.Pos(fn.Pos()), "one store of io.EOF", fmt.Sprintf("%d stores of io.EOF into readErr", n))
			okB := entryMustPass(fn, func(in ssa.Instruction) bool {
				ci, ok := in.(ssa.CallInstruction)
				if _, isDefer := in.(*ssa.Defer); isDefer || !ok {
					return false
				}
				sc := ci.Common().StaticCallee()
				return (sc != nil && sc.Name() == "Broadcast") || helperAlwaysPasses(in, func(x ssa.Instruction) bool {
					cj, ok := x.(ssa.CallInstruction)
					if !ok {
						return false
					}
					s2 := cj.Common().StaticCallee()
					return s2 != nil && s2.Name() == "Broadcast"
				}, 0)
			})
			c.Check(okB, "reset-wakes-readers", c.P.Pos(fn.Pos()), "readers are always woken", "a path through onInboundStreamReset does not wake blocked readers")
		}})

	register(&Rule{ID: "C14.R9", Props: []string{"C14", "C02"}, Engine: "E7-alias",
		Title:   "a stored reset request owns its stream list: the slice kept in paramOutgoingResetRequest.streamIdentifiers (retained in a.reconfigs for retransmission) is built on nil, make() or a literal — never on a re-slice of reusable storage such as a scratch field — so a later gather round cannot overwrite the streams an outstanding request names",
		MinInst: 1,
		Run: func(c *RuleCtx) {
			sids := c.field("paramOutgoingResetRequest", "streamIdentifiers")
			ks := keyer{}
			n := 0
			for _, fn := range c.P.Funcs {
				if strings.Contains(c.P.FuncName(fn), "unmarshal") {
					continue // decoded from the wire into a fresh object
				}
				for _, a := range c.storesIn(fn, sids) {
					n++
					var bases []ssa.Value
					sliceBases(a.Val, 0, map[ssa.Value]bool{}, &bases)
					bad := ""
					for _, b := range bases {
						switch x := unconv(b).(type) {
						case *ssa.Const:
							// nil
						case *ssa.MakeSlice:
						case *ssa.Slice:
							if al, ok := x.X.(*ssa.Alloc); ok && al.Heap {
								continue // slice literal
							}
							if f, _ := loadedField(x.X); f != nil {
								bad = "a re-slice of field " + f.Name()
							} else {
								bad = "a re-slice of " + shortValue(c.P, x.X)
							}
						case *ssa.Parameter:
							// handed in by the caller: judged at the call sites through helperReturns/phi; a parameter of an exported API is fresh by contract
						default:
							if f, _ := loadedField(b); f != nil {
								bad = "field " + f.Name() + " itself"
							}
						}
					}
					c.Check(bad == "", ks.key("request-owns-streams@"+c.P.FuncName(fn)), c.Pos(a.Instr), "stream list built on fresh storage", "the stored request's stream list is "+bad+": a later round overwrites it and a retransmitted request names the wrong streams")
				}
			}
			c.Check(n >= 1, "request-stream-stores", "", fmt.Sprintf("%d store(s) of a request's stream list", n), "no store to paramOutgoingResetRequest.streamIdentifiers found")
		}})

	register(&Rule{ID: "C19.R11", Props: []string{"C19", "C02"}, Engine: "E3",
		Title:   "a (re)started retransmission timer begins from the RTO it is given: in rtxTimer.start the stores rto = parameter and nRtos = 0 precede the computation of the first interval and the arming of the Go timer",
		MinInst: 3,
		Run: func(c *RuleCtx) {
			st := c.Fn("rtxTimer.start")
			nR, rto := c.field("rtxTimer", "nRtos"), c.field("rtxTimer", "rto")
			calc := c.Fn("rtxTimer.calculateNextTimeout")
			var uses []ssa.Instruction
			forEachInstr(st, func(in ssa.Instruction) {
				ci, ok := in.(ssa.CallInstruction)
				if !ok {
					return
				}
				sc := ci.Common().StaticCallee()
				if sc == calc || (sc != nil && sc.Name() == "Reset" && sc.Pkg != nil && sc.Pkg.Pkg.Path() == "time") || (sc != nil && sc.Name() == "calculateNextTimeout") {
					uses = append(uses, in)
				}
			})
			c.Check(len(uses) >= 1, "start-arms", c.P.Pos(st.Pos()), fmt.Sprintf("%d interval computation / arming site(s)", len(uses)), "start does not arm the timer")
			for _, f := range []struct {
				fld  *types.Var
				name string
				val  VPat
			}{{nR, "nRtos = 0", IsConstInt(0)}, {rto, "rto = parameter", IsParam(st, 1)}} {
				ok := false
				for _, a := range c.storesIn(st, f.fld) {
					if !f.val(a.Val) {
						continue
					}
					all := true
					for _, u := range uses {
						if !InstrDominates(a.Instr, u) {
							all = false
						}
					}
					if all {
						ok = true
					}
				}
				c.Check(ok, "start-resets-before-arming:"+f.fld.Name(), c.P.Pos(st.Pos()), f.name+" precedes the first interval", f.name+" does not precede the computation of the first interval: a restarted timer starts from the previous run's back-off")
			}
		}})
}

func judgeSetMatch(c *RuleCtx, at ssa.Instruction, facts []condFact, ordered, ssn *types.Var, isFrag *ssa.Function) {
	var extra []string
	okSSN, okFrag := false, false
	for _, f := range facts {
		if isLoopBound(f.Cond) || isRangeOK(f.Cond) {
			continue
		}
		if !mentionsElemOf(f.Cond, ordered, 0, map[ssa.Value]bool{}) {
			continue // says nothing about which queued set is chosen
		}
		switch {
		case CmpCond(token.EQL, IsLoadOf(ssn), AnyV)(f.Cond, f.Taken):
			okSSN = true
		case CallCond(isFrag, true)(f.Cond, f.Taken):
			okFrag = true
		case phiExplainedBy(f.Cond, facts):
		default:
			extra = append(extra, fmt.Sprintf("%s=%v", shortValue(c.P, f.Cond), f.Taken))
		}
	}
	c.Check(okSSN && len(extra) == 0, "set-match", c.Pos(at), fmt.Sprintf("existing set chosen by set.ssn == chunk.ssn (first-chunk-is-fragment test present: %v) and nothing else about the set", okFrag),
		"the existing set of the message is chosen (or passed over) by another property of the queued set: "+strings.Join(extra, ", ")+" — fragments of one message can end up in two sets")
}
