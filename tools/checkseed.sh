#!/bin/bash
# usage: checkseed.sh <seeded-id> [props...]  — analyse /repo + the seeded patch in a scratch copy (no tests run)
set -u
SEED=/verif/seeded/$1; shift
S=$(mktemp -d /tmp/seedchk.XXXXXX); trap 'rm -rf $S' EXIT
rsync -a --exclude .git /repo/ $S/
(cd $S && patch -p1 -s < $SEED/patch.diff) || { echo "APPLY FAIL"; exit 2; }
if [ $# -eq 0 ]; then /verif/bin/sctpverif all --repo $S --no-evidence 2>&1 | grep -E "^(VIOLATION|UNRESOLVED) +C" | sort -u | cut -c1-330 | head -12
else for p in "$@"; do /verif/bin/sctpverif check $p --repo $S --no-evidence 2>&1 | grep -E "^(VIOLATION|UNRESOLVED) +C" | sort -u | cut -c1-330 | head -8; done; fi
