package main

import (
	"fmt"
	"go/token"

	"golang.org/x/tools/go/ssa"
)

// minContinue: for a loop-header branch on (X op K) with K constant, the
// smallest value of X for which the loop body is entered.
func minContinue(ifi *ssa.If, bodySucc int) (x ssa.Value, min int64, ok bool) {
	b, isB := ifi.Cond.(*ssa.BinOp)
	if !isB {
		return nil, 0, false
	}
	op := b.Op
	x = b.X
	k, isK := constInt(b.Y)
	if !isK {
		if k2, isK2 := constInt(b.X); isK2 {
			k, x, op = k2, b.Y, swapOp(op)
		} else {
			return nil, 0, false
		}
	}
	if bodySucc == 1 {
		op = invertOp(op)
	}
	switch op {
	case token.GEQ:
		return x, k, true
	case token.GTR:
		return x, k + 1, true
	}
	return nil, 0, false
}

func init() {
	register(&Rule{ID: "C12.R10", Props: []string{"C12", "C03"}, Engine: "E3-sibling",
		Title:   "error-cause list decoders (ABORT and ERROR agree): the loop over causes continues exactly while at least one cause header (errorCauseHeaderLength bytes) remains, so a trailing cause with an empty value — which the endpoint itself emits — is decoded, not silently dropped",
		MinInst: 2,
		Run: func(c *RuleCtx) {
			hl := c.P.Const("errorCauseHeaderLength")
			if hl == nil {
				c.Unresolved("errorCauseHeaderLength")
				return
			}
			var want int64
			fmt.Sscan(hl.Val().String(), &want)
			bec := c.Fn("buildErrorCause")
			for _, name := range []string{"chunkAbort.unmarshal", "chunkError.unmarshal"} {
				fn := c.Fn(name)
				found := false
				for _, call := range callsIn(fn, bec) {
					lp := loopBlocks(call.Block())
					if len(lp) == 0 {
						continue
					}
					// the loop's exit test
					for blk := range lp {
						ifi, ok := blk.Instrs[len(blk.Instrs)-1].(*ssa.If)
						if !ok {
							continue
						}
						body := -1
						if lp[blk.Succs[0]] && !lp[blk.Succs[1]] {
							body = 0
						} else if lp[blk.Succs[1]] && !lp[blk.Succs[0]] {
							body = 1
						}
						if body < 0 {
							continue
						}
						x, min, ok := minContinue(ifi, body)
						if !ok {
							continue
						}
						if sub, isSub := unconv(x).(*ssa.BinOp); !isSub || sub.Op != token.SUB {
							continue
						}
						found = true
						c.Check(min == want, "cause-loop-bound:"+name, c.Pos(ifi), fmt.Sprintf("loop continues while remaining ≥ %d = errorCauseHeaderLength", min),
							fmt.Sprintf("loop continues only while remaining ≥ %d, but a cause header is %d bytes: a trailing header-only cause is dropped (or a partial header is parsed)", min, want))
					}
				}
				if !found {
					c.Fail("cause-loop-bound:"+name, c.P.Pos(fn.Pos()), "no 'remaining ≥ constant' loop around buildErrorCause found")
				}
			}
		}})
}
