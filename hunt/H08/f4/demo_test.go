package sctp

import (
	"encoding/binary"
	"testing"

	"github.com/pion/transport/v4/test"
	"github.com/stretchr/testify/assert"
	"github.com/stretchr/testify/require"
)

// Finding 4 (C12): ABORT / ERROR chunks with more than one error cause.
// Error causes are TLVs and (RFC 9260 3.2.1 / 3.3.10) every cause except the last one of
// the chunk is padded to a multiple of 4 bytes, exactly like the parameters of INIT or
// RE-CONFIG. chunkAbort/chunkError
//   - marshal():   concatenate the causes WITHOUT the padding  -> emitted chunk malformed
//   - unmarshal(): advance by the cause length WITHOUT skipping the padding -> a well-formed
//     multi-cause chunk is mis-framed and the whole packet is dropped
//
// Encoder and decoder agree with each other (so a round trip succeeds) but not with the
// wire format.
func TestZZHunt4_MultiCauseEncodeNotPadded(t *testing.T) {
	pv := func(s string) errorCause {
		return &errorCauseProtocolViolation{
			errorCauseHeader:      errorCauseHeader{code: protocolViolation},
			additionalInformation: []byte(s),
		}
	}
	for name, c := range map[string]chunk{
		"ERROR": &chunkError{errorCauses: []errorCause{pv("a"), pv("b")}},
		"ABORT": &chunkAbort{errorCauses: []errorCause{pv("a"), pv("b")}},
	} {
		p := &packet{sourcePort: 5000, destinationPort: 5000, verificationTag: 1, chunks: []chunk{c}}
		raw, err := p.marshal(true)
		require.NoError(t, err)
		chunkRaw := raw[packetHeaderSize:]
		t.Logf("%s emitted chunk: %x", name, chunkRaw)

		// walk the causes the way RFC 9260 frames them: every cause starts on a 4-byte boundary
		chunkLen := int(binary.BigEndian.Uint16(chunkRaw[2:]))
		off := chunkHeaderSize
		var lens []int
		for off+4 <= chunkLen {
			code := binary.BigEndian.Uint16(chunkRaw[off:])
			l := int(binary.BigEndian.Uint16(chunkRaw[off+2:]))
			if !assert.Equalf(t, uint16(protocolViolation), code,
				"%s: no error cause header at 4-byte aligned offset %d of the emitted chunk (causes are not padded)", name, off) {
				break
			}
			lens = append(lens, l)
			off += l + getPadding(l)
		}
		assert.Equalf(t, []int{5, 5}, lens, "%s: emitted chunk does not contain two well-framed causes", name)
	}
}

func TestZZHunt4_MultiCauseWellFormedRejected(t *testing.T) {
	// ABORT, two Protocol Violation causes "a" and "b", first one padded (RFC framing)
	abort := []byte{
		byte(ctAbort), 0, 0, 4 + 8 + 5,
		0, 13, 0, 5, 'a', 0, 0, 0, // cause 1 + 3 bytes of padding
		0, 13, 0, 5, 'b', // cause 2 (last: its padding is the chunk padding)
		0, 0, 0,
	}
	raw := append([]byte{0x13, 0x88, 0x13, 0x88, 0, 0, 0, 1, 0, 0, 0, 0}, abort...)

	p := &packet{}
	err := p.unmarshal(false, raw)
	require.NoError(t, err, "a well-formed ABORT with two error causes is rejected (the peer's ABORT is silently lost)")

	a, ok := p.chunks[0].(*chunkAbort)
	require.True(t, ok)
	require.Len(t, a.errorCauses, 2)
	for i, want := range []string{"a", "b"} {
		c, ok := a.errorCauses[i].(*errorCauseProtocolViolation)
		require.True(t, ok)
		require.Equal(t, want, string(c.additionalInformation))
	}
}

// Effect at association level: the peer's (well-formed) ABORT is dropped as an
// undecodable packet and the association stays ESTABLISHED.
func TestZZHunt4_MultiCauseAbortIgnoredByAssociation(t *testing.T) {
	br := test.NewBridge()
	a := createTestAssociation(t, Config{NetConn: br.GetConn0()})
	a.lock.Lock()
	a.setState(established)
	a.sourcePort, a.destinationPort = 5000, 5000
	a.lock.Unlock()

	abort := []byte{
		byte(ctAbort), 0, 0, 4 + 8 + 5,
		0, 13, 0, 5, 'a', 0, 0, 0,
		0, 13, 0, 5, 'b',
		0, 0, 0,
	}
	raw := append([]byte{0x13, 0x88, 0x13, 0x88, 0, 0, 0, 0, 0, 0, 0, 0}, abort...)
	binary.BigEndian.PutUint32(raw[4:], a.myVerificationTag)
	binary.LittleEndian.PutUint32(raw[8:], generatePacketChecksum(raw))

	err := a.handleInbound(raw)
	assert.Error(t, err, "handleInbound reports a received ABORT as a fatal error")
	assert.Equal(t, closed, a.getState(), "association must be closed by the peer's ABORT")
}
