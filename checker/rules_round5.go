package main

import (
	"fmt"
	"go/token"
	"go/types"
	"strings"

	"golang.org/x/tools/go/ssa"
)

// readsFieldOf: the operand tree of v loads a field of the named struct type.
func readsFieldOf(v ssa.Value, typ string, d int, seen map[ssa.Value]bool) (bool, string) {
	if v == nil || d > 10 || seen[v] {
		return false, ""
	}
	seen[v] = true
	if fa, ok := v.(*ssa.FieldAddr); ok && typeShort(fa.X.Type()) == "*"+typ {
		return true, typ + "." + fieldOf(fa.X.Type(), fa.Field).Name()
	}
	in, ok := v.(ssa.Instruction)
	if !ok {
		return false, ""
	}
	for _, op := range in.Operands(nil) {
		if *op != nil {
			if hit, w := readsFieldOf(*op, typ, d+1, seen); hit {
				return true, w
			}
		}
	}
	return false, ""
}

func inLoop(in ssa.Instruction) bool { return len(loopBlocks(in.Block())) > 0 }

func init() {
	register(&Rule{ID: "C18.R11", Props: []string{"C18", "C01"}, Engine: "E3",
		Title:   "a latched read error never discards inbound data: in Stream.handleData the chunk is handed to the reassembly queue under no condition that reads the stream's own state (readErr, state …) — the association has already recorded the TSN, so a chunk dropped here (e.g. while ErrReadDeadlineExceeded is latched until the next SetReadDeadline) is never retransmitted and the message is lost",
		MinInst: 1,
		Run: func(c *RuleCtx) {
			hd := c.Fn("Stream.handleData")
			push := map[*ssa.Function]bool{c.Fn("reassemblyQueue.pushWithError"): true}
			if f := c.P.Fn("reassemblyQueue.push"); f != nil {
				push[f] = true
			}
			ks := keyer{}
			n := 0
			for _, g := range c.P.Region(hd) {
				forEachInstr(g, func(in ssa.Instruction) {
					ci, ok := in.(ssa.CallInstruction)
					if !ok || !push[ci.Common().StaticCallee()] {
						return
					}
					n++
					var bad []string
					for _, f := range localFactsUpTo(in, hd) {
						if hit, w := readsFieldOf(f.Cond, "Stream", 0, map[ssa.Value]bool{}); hit {
							bad = append(bad, fmt.Sprintf("%s=%v (reads %s)", shortValue(c.P, f.Cond), f.Taken, w))
						}
					}
					c.Check(len(bad) == 0, ks.key("inbound-always-queued"), c.Pos(in), "the chunk is queued whatever the stream's read state", "the chunk reaches the reassembly queue only if "+strings.Join(bad, " ∧ ")+": otherwise it is dropped after its TSN was acknowledged")
				})
			}
			c.Check(n >= 1, "queue-site", c.P.Pos(hd.Pos()), fmt.Sprintf("%d hand-over site(s)", n), "Stream.handleData no longer hands the chunk to the reassembly queue")
		}})

	register(&Rule{ID: "C15.R7", Props: []string{"C15"}, Engine: "E3",
		Title:   "the association-level figure is the sum of the two queues in every state: each value Association.BufferedAmount() can return is pendingQueue bytes + in-flight bytes — no constant, no state-dependent shortcut (data keeps draining and being acknowledged in SHUTDOWN-PENDING/RECEIVED)",
		MinInst: 1,
		Run: func(c *RuleCtx) {
			fn := c.Fn("Association.BufferedAmount")
			pq, iq := c.Fn("pendingQueue.getNumBytes"), c.Fn("payloadQueue.getNumBytes")
			ks := keyer{}
			for _, r := range allReturns(fn) {
				for _, lf := range leavesWithFacts(retResults(r)[0]) {
					hasP := derives(lf.Val, IsCallOf(pq), map[ssa.Value]bool{})
					hasI := derives(lf.Val, IsCallOf(iq), map[ssa.Value]bool{})
					c.Check(hasP && hasI, ks.key("figure-is-sum"), c.Pos(r), "pending bytes + in-flight bytes", "a path returns "+shortValue(c.P, lf.Val)+" instead of pending + in-flight bytes: the association figure no longer matches the streams' amounts")
				}
			}
		}})

	register(&Rule{ID: "C15.R8", Props: []string{"C15", "C14"}, Engine: "E3",
		Title:   "a registered stream is never replaced: a new Stream is created for an identifier (createStream, which stores into Association.streams) only where the lookup of that identifier has just missed — acknowledged bytes are credited through streams[id], so replacing the entry of a stream that still has data outstanding strands its buffered amount",
		MinInst: 1,
		Run: func(c *RuleCtx) {
			cs := c.Fn("Association.createStream")
			sf := c.field("Association", "streams")
			ks := keyer{}
			missFact := func(in ssa.Instruction) bool {
				for _, f := range DomFactsX(in.Block()) {
					// ok == false of a comma-ok lookup in a.streams
					if ex, isEx := f.Cond.(*ssa.Extract); isEx && ex.Index == 1 && !f.Taken {
						if lk, isLk := ex.Tuple.(*ssa.Lookup); isLk && IsLoadOf(sf)(lk.X) {
							return true
						}
					}
					// s == nil of a plain lookup
					if b, isB := f.Cond.(*ssa.BinOp); isB && (b.Op == token.EQL || b.Op == token.NEQ) {
						for _, pair := range [][2]ssa.Value{{b.X, b.Y}, {b.Y, b.X}} {
							if !isNilConst(pair[1]) {
								continue
							}
							v := pair[0]
							if ex, isEx := v.(*ssa.Extract); isEx {
								v = ex.Tuple
							}
							if lk, isLk := v.(*ssa.Lookup); isLk && IsLoadOf(sf)(lk.X) && (b.Op == token.EQL) == f.Taken {
								return true
							}
						}
					}
				}
				return false
			}
			n := 0
			for _, site := range c.P.CallSitesOf(cs) {
				n++
				c.Check(missFact(site.Instr), ks.key("create-only-on-miss@"+c.P.FuncName(site.Fn)), c.Pos(site.Instr), "a stream is created only after the lookup missed", "createStream is reached although an entry for the identifier may exist: the registered stream is replaced while its data is still outstanding ("+c.describeConds(site.Instr)+")")
			}
			// any other store into the registry
			for _, fn := range c.P.Funcs {
				if c.P.OwnedBy(fn, map[*ssa.Function]bool{cs: true}) {
					continue
				}
				forEachInstr(fn, func(in ssa.Instruction) {
					if mu, ok := in.(*ssa.MapUpdate); ok && IsLoadOf(sf)(mu.Map) {
						n++
						c.Check(missFact(in), ks.key("registry-store@"+c.P.FuncName(fn)), c.Pos(in), "stored only after the lookup missed", "a stream is stored into the registry where an entry may already exist")
					}
				})
			}
			c.Check(n >= 1, "create-sites", "", fmt.Sprintf("%d creation site(s)", n), "no creation site found")
		}})

	register(&Rule{ID: "C14.R10", Props: []string{"C14", "C18"}, Engine: "E3",
		Title:   "EOF (or any latched read error) is reported only when the queue had nothing to give: in ReadSCTP the return of readErr is dominated by the outcome of reassemblyQueue.read being neither success nor io.ErrShortBuffer — a message that arrived before the reset stays readable with a larger buffer instead of being hidden behind EOF",
		MinInst: 1,
		Run: func(c *RuleCtx) {
			fn := c.Fn("Stream.ReadSCTP")
			re := c.field("Stream", "readErr")
			ks := keyer{}
			n := 0
			for _, g := range c.P.Region(fn) {
				for _, r := range allReturns(g) {
					rs := retResults(r)
					if len(rs) == 0 || !IsLoadOf(re)(rs[len(rs)-1]) {
						continue
					}
					n++
					ok := false
					for _, f := range append(localFactsUpTo(r, fn), DomFactsX(r.Block())...) {
						switch x := f.Cond.(type) {
						case *ssa.Call:
							sc := x.Call.StaticCallee()
							if sc != nil && sc.Name() == "Is" && len(x.Call.Args) == 2 {
								if isGlobalLoad(x.Call.Args[1], "io", "ErrShortBuffer") && !f.Taken {
									ok = true
								}
							}
						case *ssa.BinOp:
							if x.Op == token.EQL || x.Op == token.NEQ {
								for _, a := range []ssa.Value{x.X, x.Y} {
									if isGlobalLoad(a, "io", "ErrShortBuffer") && (x.Op == token.NEQ) == f.Taken {
										ok = true
									}
								}
							}
						}
					}
					c.Check(ok, ks.key("read-error-after-short-buffer"), c.Pos(r), "readErr is returned only after the short-buffer outcome was ruled out", "ReadSCTP can return the latched read error although reassemblyQueue.read reported io.ErrShortBuffer: a complete message that needs a larger buffer is hidden behind EOF ("+c.describeConds(r)+")")
				}
			}
			c.Check(n >= 1, "read-error-return", c.P.Pos(fn.Pos()), fmt.Sprintf("%d return(s) of readErr", n), "ReadSCTP no longer returns the latched read error")
		}})

	register(&Rule{ID: "C19.R13", Props: []string{"C19", "C02"}, Engine: "E2+E3",
		Title:   "the T3-rtx back-off survives SACKs that acknowledge nothing new at the front: t3RTX.stop() (which start() follows with a cleared back-off) is called only where the earliest outstanding TSN was acknowledged (processSelectiveAck under tsn == cumulativeTSNAckPoint+1; onCumulativeTSNAckPointAdvanced) or on teardown — never unconditionally per SACK, or a stream of gap-only SACKs keeps T3 from ever expiring",
		MinInst: 2,
		Run: func(c *RuleCtx) {
			t3 := c.field("Association", "t3RTX")
			cum := c.field("Association", "cumulativeTSNAckPoint")
			adv := c.Fn("Association.onCumulativeTSNAckPointAdvanced")
			teardown := fnSet(c.fns("Association.closeAllTimers", "Association.close"))
			ks := keyer{}
			n := 0
			for _, fn := range c.P.Funcs {
				for _, ci := range callsOnField(fn, t3, "stop") {
					n++
					in := ci.(ssa.Instruction)
					ok := c.P.OwnedBy(fn, teardown) || c.P.OwnedBy(fn, map[*ssa.Function]bool{adv: true})
					why := "teardown / cumulative point advanced"
					if !ok {
						// the acknowledged TSN is the earliest outstanding one
						ok = DominatedByExt(in, CmpCond(token.EQL, AnyV, BinV(token.ADD, IsLoadOf(cum), IsConstInt(1))))
						why = "the earliest outstanding TSN was acknowledged"
					}
					c.Check(ok, ks.key("t3-stop-only-on-front-progress@"+c.P.FuncName(fn)), c.Pos(in), why, "T3-rtx is stopped (and its back-off cleared by the next start) although nothing at the front of the in-flight queue was acknowledged ("+c.describeConds(in)+")")
				}
			}
			c.Check(n >= 2, "t3-stop-sites", "", fmt.Sprintf("%d stop site(s)", n), fmt.Sprintf("only %d T3 stop sites found", n))
		}})

	register(&Rule{ID: "C17.R11", Props: []string{"C17", "C04"}, Engine: "E3-sibling",
		Title:   "peer capabilities accumulate over all Supported-Extensions parameters on every handshake path: a store to peerForwardTSN / peerInterleaving / peerIForwardTSN that executes inside the parameter loop (directly or through a helper called in the loop) ORs the new value into the old one — an assigning store makes the last parameter win, so the client and server roles of the same endpoint negotiate differently",
		MinInst: 3,
		Run: func(c *RuleCtx) {
			ks := keyer{}
			flags := []*types.Var{c.field("Association", "peerForwardTSN"), c.field("Association", "peerInterleaving"), c.field("Association", "peerIForwardTSN")}
			for _, hn := range []string{"Association.handleInit", "Association.handleInitAck", "Association.initWithOutOfBandTokens"} {
				h := c.Fn(hn)
				type st struct {
					in     *ssa.Store
					f      *types.Var
					looped bool
				}
				var found []st
				var walk func(fn *ssa.Function, looped bool, d int, seen map[*ssa.Function]bool)
				walk = func(fn *ssa.Function, looped bool, d int, seen map[*ssa.Function]bool) {
					if fn == nil || fn.Blocks == nil || d > 3 || seen[fn] {
						return
					}
					seen[fn] = true
					defer delete(seen, fn)
					forEachInstr(fn, func(in ssa.Instruction) {
						switch x := in.(type) {
						case *ssa.Store:
							fv := fieldOfAddr(x.Addr)
							for _, f := range flags {
								if fv == f {
									found = append(found, st{x, f, looped || inLoop(in)})
								}
							}
						case ssa.CallInstruction:
							if sc := x.Common().StaticCallee(); sc != nil && c.P.inPkg(sc) {
								walk(sc, looped || inLoop(in), d+1, seen)
							}
						}
					})
				}
				walk(h, false, 0, map[*ssa.Function]bool{})
				for _, s := range found {
					f := s.f
					if IsConstBool(false)(s.in.Val) {
						continue // the reset before the loop
					}
					if !s.looped {
						c.Ok(ks.key("flag-store:"+f.Name()+"@"+hn), c.Pos(s.in), "stored once, outside the parameter loop")
						continue
					}
					acc := derives(s.in.Val, IsLoadOf(f), map[ssa.Value]bool{}) || IsConstBool(true)(s.in.Val) // "if x { flag = true }" only ever sets
					if !acc {
						for _, lf := range leavesWithFacts(s.in.Val) {
							for _, ff := range lf.Facts {
								if IsLoadOf(f)(ff.Cond) {
									acc = true
								}
							}
						}
					}
					c.Check(acc, ks.key("flag-accumulates:"+f.Name()+"@"+hn), c.Pos(s.in), "ORed into the value collected so far", f.Name()+" is overwritten once per Supported-Extensions parameter on the "+hn+" path: the last parameter wins and capabilities listed earlier are forgotten")
				}
			}
		}})
}

// isGlobalLoad: v is a direct load of the package-level variable pkg.name.
func isGlobalLoad(v ssa.Value, pkg, name string) bool {
	if mi, ok := v.(*ssa.MakeInterface); ok {
		v = mi.X
	}
	u, ok := v.(*ssa.UnOp)
	if !ok || u.Op != token.MUL {
		return false
	}
	g, ok := u.X.(*ssa.Global)
	return ok && g.Name() == name && g.Pkg != nil && g.Pkg.Pkg.Name() == pkg
}

func init() {
	register(&Rule{ID: "C12.R13", Props: []string{"C12", "C19"}, Engine: "E3-mustpass",
		Title:   "an encoder hands its header the body it has just built: in every chunk/parameter/error-cause marshal that ends in the header's marshal, each path to that call has stored the header's raw body (and, for chunks, the type) — a dropped store emits a stale or empty body (e.g. a HEARTBEAT ACK without the echoed info, which yields no round-trip sample)",
		MinInst: 20,
		Run: func(c *RuleCtx) {
			hdrs := map[*ssa.Function]string{}
			for _, n := range []string{"chunkHeader.marshal", "paramHeader.marshal", "errorCauseHeader.marshal"} {
				hdrs[c.Fn(n)] = strings.Split(n, ".")[0]
			}
			ks := keyer{}
			for _, fn := range c.P.Funcs {
				name := c.P.FuncName(fn)
				if fn.Parent() != nil || !(strings.HasSuffix(name, ".marshal") || strings.HasSuffix(name, ".Marshal")) || hdrs[fn] != "" {
					continue
				}
				forEachInstr(fn, func(in ssa.Instruction) {
					ci, ok := in.(ssa.CallInstruction)
					if !ok {
						return
					}
					hn := hdrs[ci.Common().StaticCallee()]
					if hn == "" {
						return
					}
					// does the encoder build a body at all? (COOKIE ACK, SHUTDOWN ACK … have none)
					builds := false
					forEachInstr(fn, func(y ssa.Instruction) {
						switch z := y.(type) {
						case *ssa.MakeSlice:
							builds = true
						case ssa.CallInstruction:
							if b, isB := z.Common().Value.(*ssa.Builtin); isB && b.Name() == "append" {
								builds = true
							}
							if sc := z.Common().StaticCallee(); sc != nil && (strings.HasPrefix(sc.Name(), "PutUint") || (c.P.inPkg(sc) && hdrs[sc] == "" && strings.HasSuffix(strings.ToLower(c.P.FuncName(sc)), ".marshal"))) {
								builds = true
							}
						}
					})
					var need []string
					if builds {
						need = append(need, "raw")
					}
					if hn == "chunkHeader" {
						need = append(need, "typ")
					}
					for _, fname := range need {
						f := c.P.Field(hn, fname)
						if f == nil {
							c.Unresolved("field " + hn + "." + fname)
							continue
						}
						ok, bad := MustPassFromBlock(fn.Blocks[0], func(x ssa.Instruction) bool {
							if st, isSt := x.(*ssa.Store); isSt && fieldOfAddr(st.Addr) == f {
								return true
							}
							return false
						}, PathOpts{Fail: func(x ssa.Instruction) bool { return x == in }, ExitOK: true})
						_ = bad
						c.Check(ok, ks.key("header-"+fname+"-set@"+name), c.Pos(in), hn+"."+fname+" is stored on every path to the header's marshal", "a path reaches "+hn+".marshal without storing "+hn+"."+fname+": the emitted "+strings.TrimSuffix(strings.TrimSuffix(name, ".marshal"), ".Marshal")+" carries a stale or empty "+fname)
					}
				})
			}
		}})
}

func init() {
	register(&Rule{ID: "C01.R11", Props: []string{"C01", "C06"}, Engine: "E3-mustpass",
		Title:   "fragment lists are sorted after every insertion: wherever a fragment is appended to chunkSet.chunks, chunkSetMID.chunks or reassemblyQueue.unorderedChunks, every path onwards passes a sort of that list (by TSN / FSN) — completeness checks, the contiguity scan and the copy-out in read() all index these lists positionally, so fragments that arrive out of order would otherwise be reassembled in arrival order",
		MinInst: 3,
		Run: func(c *RuleCtx) {
			lists := []*types.Var{c.field("chunkSet", "chunks"), c.field("chunkSetMID", "chunks"), c.field("reassemblyQueue", "unorderedChunks")}
			// in-package functions that sort their slice argument
			sorters := map[*ssa.Function]bool{}
			for _, fn := range c.P.Funcs {
				if fn.Parent() != nil {
					continue
				}
				forEachInstr(fn, func(in ssa.Instruction) {
					if ci, ok := in.(ssa.CallInstruction); ok {
						if sc := ci.Common().StaticCallee(); sc != nil && sc.Pkg != nil && (sc.Pkg.Pkg.Path() == "sort" || sc.Pkg.Pkg.Path() == "slices") && strings.Contains(sc.Name(), "S") {
							switch sc.Name() {
							case "Slice", "SliceStable", "Sort", "Stable", "SortFunc", "SortStableFunc":
								sorters[fn] = true
							}
						}
					}
				})
			}
			ks := keyer{}
			n := 0
			for _, f := range lists {
				for _, a := range c.P.Writes(f) {
					call, ok := unconv(a.Val).(*ssa.Call)
					if !ok {
						continue
					}
					b, isB := call.Call.Value.(*ssa.Builtin)
					if !isB || b.Name() != "append" || !IsLoadOf(f)(call.Call.Args[0]) {
						continue
					}
					// appending a whole slice (extraction, copy) is not an insertion of one fragment
					if len(call.Call.Args) == 2 {
						if _, isSlice := call.Call.Args[1].(*ssa.Slice); isSlice {
							if al, isAl := call.Call.Args[1].(*ssa.Slice).X.(*ssa.Alloc); !isAl || al == nil {
								continue
							}
						}
					}
					n++
					ok2, bad := MustPass(a.Instr, func(x ssa.Instruction) bool {
						ci, isCall := x.(ssa.CallInstruction)
						if !isCall {
							return false
						}
						sc := ci.Common().StaticCallee()
						if sc == nil {
							return false
						}
						direct := sc.Pkg != nil && (sc.Pkg.Pkg.Path() == "sort" || sc.Pkg.Pkg.Path() == "slices")
						if !sorters[sc] && !direct {
							return false
						}
						for _, arg := range ci.Common().Args {
							if IsLoadOf(f)(arg) {
								return true
							}
						}
						return false
					}, nil)
					c.Check(ok2, ks.key("sorted-after-insert:"+f.Name()+"@"+c.P.FuncName(a.Fn)), c.Pos(a.Instr), "every path after the append sorts the list", "a fragment is appended to "+f.Name()+" and a path leaves without sorting it ("+c.P.InstrPos(bad)+"): out-of-order fragments are reassembled in arrival order")
				}
			}
			c.Check(n >= 1, "insert-sites", "", fmt.Sprintf("%d insertion sites", n), "no insertion site found")
		}})
}

func init() {
	register(&Rule{ID: "C07.R9", Props: []string{"C07", "C06", "C01"}, Engine: "E3",
		Title:   "whoever makes a message readable wakes the reader: Stream.handleData and the four handleForwardTSNFor* wrappers each sample isReadable() and contain a readNotifier.Signal()/Broadcast() whose only condition is that sample (no stream or association field) — without it a reader blocked in ReadSCTP sleeps on although the purge or the new chunk has made the next message deliverable",
		MinInst: 5,
		Run: func(c *RuleCtx) {
			ir := c.Fn("reassemblyQueue.isReadable")
			rn := c.field("Stream", "readNotifier")
			ks := keyer{}
			for _, hn := range []string{"Stream.handleData", "Stream.handleForwardTSNForOrdered", "Stream.handleForwardTSNForUnordered", "Stream.handleForwardTSNForOrderedMID", "Stream.handleForwardTSNForUnorderedMID"} {
				h := c.Fn(hn)
				nSample, nWake := 0, 0
				var all []*ssa.Function
				seenF := map[*ssa.Function]bool{}
				var addF func(f *ssa.Function)
				addF = func(f *ssa.Function) {
					if f == nil || seenF[f] {
						return
					}
					seenF[f] = true
					all = append(all, f)
					for _, an := range f.AnonFuncs {
						addF(an)
					}
				}
				for _, g := range c.P.Region(h) {
					addF(g)
				}
				// shared helpers the wrapper calls (e.g. one lock-purge-sample helper for all four wrappers)
				for _, g := range append([]*ssa.Function{}, all...) {
					forEachInstr(g, func(in ssa.Instruction) {
						if ci, ok := in.(ssa.CallInstruction); ok {
							if sc := ci.Common().StaticCallee(); sc != nil && c.P.inPkg(sc) && sc.Blocks != nil && sc.Signature.Recv() != nil && typeShort(sc.Signature.Recv().Type()) == "*Stream" {
								addF(sc)
							}
						}
					})
				}
				for _, g := range all {
					nSample += len(callsIn(g, ir))
					for _, m := range []string{"Signal", "Broadcast"} {
						for _, ci := range callsOnField(g, rn, m) {
							in := ci.(ssa.Instruction)
							var bad []string
							for _, f := range localFactsUpTo(in, h) {
								if hit, w := readsFieldOf(f.Cond, "Stream", 0, map[ssa.Value]bool{}); hit && !strings.HasSuffix(w, ".reassemblyQueue") {
									bad = append(bad, w)
								}
								if hit, w := readsFieldOf(f.Cond, "Association", 0, map[ssa.Value]bool{}); hit {
									bad = append(bad, w)
								}
							}
							if len(bad) == 0 {
								nWake++
							} else {
								c.Fail(ks.key("wake-condition@"+hn), c.Pos(in), "the wake-up also depends on "+strings.Join(bad, ", ")+": a readable message may not wake the reader")
							}
						}
					}
				}
				c.Check(nSample >= 1 && nWake >= 1, ks.key("wakes-when-readable@"+hn), c.P.Pos(h.Pos()), fmt.Sprintf("%d readability sample(s), %d wake-up(s) conditioned on nothing else", nSample, nWake), fmt.Sprintf("%s samples readability %d time(s) but has %d usable wake-up(s): a reader blocked in ReadSCTP is not woken when this call makes a message deliverable", hn, nSample, nWake))
			}
		}})
}

func init() {
	register(&Rule{ID: "C07.R10", Props: []string{"C07", "C11"}, Engine: "E6",
		Title:   "a FORWARD-TSN purges up to and including the number it names: in the reassembly queue, incomplete ordered sets are dropped exactly for SSN/MID {before, equal} the forwarded one, and unordered fragments are dropped exactly for TSN {before, equal} the new cumulative TSN — an exclusive bound leaves the fragments of the very message that was abandoned in the queue for ever (bytes counted against the window, and for ordered streams a set the advanced nextSSN will never release)",
		MinInst: 3,
		Run: func(c *RuleCtx) {
			sub := c.Fn("reassemblyQueue.subtractNumBytes")
			mask := snaAll &^ snaAntipode
			want := (snaBefore | snaEqual) & mask
			// ordered variants: facts at the byte release of a dropped set
			for _, o := range []struct {
				fn   string
				x    *types.Var
				what string
			}{
				{"reassemblyQueue.forwardTSNForOrdered", c.field("chunkSet", "ssn"), "SSN"},
				{"reassemblyQueue.forwardTSNForOrderedMID", c.field("chunkSetMID", "mid"), "MID"},
				{"reassemblyQueue.forwardTSNForUnorderedMID", c.field("chunkSetMID", "mid"), "MID"},
			} {
				fn := c.P.Fn(o.fn)
				if fn == nil {
					continue
				}
				got, n := 0, 0
				for _, g := range c.P.Region(fn) {
					for _, cs := range callsIn(g, sub) {
						n++
						facts := localFactsUpTo(cs.(ssa.Instruction), fn)
						facts = append(facts, DomFactsX(cs.(ssa.Instruction).Block())...)
						isKey := func(v ssa.Value) bool { // the key of a map range
							ex, ok := unconv(v).(*ssa.Extract)
							if !ok || ex.Index != 1 {
								return false
							}
							_, isNext := ex.Tuple.(*ssa.Next)
							return isNext
						}
						s := serialSituations(facts, Or(IsLoadOf(o.x), isKey), IsParam(fn, 1))
						if s != snaAll {
							got |= s
						}
					}
				}
				if n == 0 {
					continue // this variant releases bytes elsewhere (e.g. deletes a map entry): nothing to judge here
				}
				c.Check(got&mask == want, "purge-bound:"+o.fn, c.P.Pos(fn.Pos()), "sets with "+o.what+" {before,equal} the forwarded one are dropped", "incomplete sets are dropped for "+o.what+" "+snaSetName(got&mask)+" relative to the forwarded one (want {before,equal}): the abandoned message's own fragments stay queued")
			}
			// the expected-next counter moves past the forwarded number whenever it is {before,equal} it
			for _, o := range []struct {
				fn   string
				next *types.Var
			}{
				{"reassemblyQueue.forwardTSNForOrdered", c.field("reassemblyQueue", "nextSSN")},
				{"reassemblyQueue.forwardTSNForOrderedMID", c.field("reassemblyQueue", "nextMID")},
			} {
				fn := c.Fn(o.fn)
				got, n := 0, 0
				for _, a := range c.storesInRegion(fn, o.next) {
					n++
					facts := append(localFactsUpTo(a.Instr, fn), DomFactsX(a.Instr.Block())...)
					if s := serialSituations(facts, IsLoadOf(o.next), IsParam(fn, 1)); s != snaAll {
						got |= s
					} else {
						got |= snaAll // unconditional store: moves in every situation
					}
				}
				okN := n >= 1 && got&(snaBefore|snaEqual) == (snaBefore|snaEqual) && got&snaAfter == 0
				c.Check(okN, "next-moves-past:"+o.next.Name(), c.P.Pos(fn.Pos()), o.next.Name()+" is advanced when it is {before,equal} the forwarded number and never moved back", o.next.Name()+" is advanced for "+snaSetName(got&mask)+" (want {before,equal}): when the abandoned message is exactly the one the reader waits for, the stream stays blocked behind it")
			}
			// unordered fragments: the scan over unorderedChunks continues exactly while tsn is {before,equal}
			fn := c.Fn("reassemblyQueue.forwardTSNForUnordered")
			tsn := c.field("chunkPayloadData", "tsn")
			cont, nTests := 0, 0
			forEachInstr(fn, func(in ssa.Instruction) {
				ifi, ok := in.(*ssa.If)
				if !ok {
					return
				}
				cond, taken := normCond(ifi.Cond, true)
				call, isCall := cond.(*ssa.Call)
				if !isCall || len(call.Call.Args) != 2 {
					return
				}
				_, rel, isSna := snaHelper(call.Call.StaticCallee())
				if !isSna {
					return
				}
				a, b := call.Call.Args[0], call.Call.Args[1]
				mirror := false
				switch {
				case IsLoadOf(tsn)(a) && IsParam(fn, 1)(b):
				case IsParam(fn, 1)(a) && IsLoadOf(tsn)(b):
					mirror = true
				default:
					return
				}
				lp := loopBlocks(ifi.Block())
				s0, s1 := ifi.Block().Succs[0], ifi.Block().Succs[1]
				// which side keeps purging: the one that stays in the loop / reaches the byte release
				stay := -1
				switch {
				case lp[s0] && !lp[s1]:
					stay = 0
				case lp[s1] && !lp[s0]:
					stay = 1
				}
				if stay < 0 {
					return
				}
				nTests++
				set := snaSet(rel, (stay == 0) == taken)
				if mirror {
					set = snaMirror(set)
				}
				cont |= set
			})
			if nTests == 0 {
				c.Fail("purge-bound:unordered", c.P.Pos(fn.Pos()), "UNDECIDED: no serial test of a fragment's TSN against the new cumulative TSN decides the purge scan")
			} else {
				c.Check(cont&mask == want, "purge-bound:unordered", c.P.Pos(fn.Pos()), "fragments with TSN {before,equal} the new cumulative TSN are purged", "unordered fragments are purged for TSN "+snaSetName(cont&mask)+" relative to the new cumulative TSN (want {before,equal}): a fragment carrying exactly the forwarded TSN stays queued")
			}
		}})
}

func init() {
	register(&Rule{ID: "C18.R12", Props: []string{"C18"}, Engine: "E3",
		Title:   "a new read deadline re-arms reading after a timeout and owns a fresh cancel channel: SetReadDeadline clears a latched ErrReadDeadlineExceeded (store of nil to readErr under errors.Is(readErr, ErrReadDeadlineExceeded)), and the timer goroutine it starts waits on a channel made by this call and recorded in readTimeoutCancel — otherwise every read after the first timeout keeps failing, or a replaced deadline can no longer be cancelled and fires on a reader that has none",
		MinInst: 3,
		Run: func(c *RuleCtx) {
			fn := c.Fn("Stream.SetReadDeadline")
			re := c.field("Stream", "readErr")
			rc := c.field("Stream", "readTimeoutCancel")
			cleared := false
			for _, a := range c.storesInRegion(fn, re) {
				if !isNilConst(a.Val) {
					continue
				}
				for _, f := range append(localFactsUpTo(a.Instr, fn), DomFactsX(a.Instr.Block())...) {
					if call, ok := f.Cond.(*ssa.Call); ok && f.Taken {
						if sc := call.Call.StaticCallee(); sc != nil && sc.Name() == "Is" && len(call.Call.Args) == 2 && isGlobalLoad(call.Call.Args[1], "sctp", "ErrReadDeadlineExceeded") {
							cleared = true
						}
					}
					if b, ok := f.Cond.(*ssa.BinOp); ok && (b.Op == token.EQL) == f.Taken && (b.Op == token.EQL || b.Op == token.NEQ) {
						if isGlobalLoad(b.X, "sctp", "ErrReadDeadlineExceeded") || isGlobalLoad(b.Y, "sctp", "ErrReadDeadlineExceeded") {
							cleared = true
						}
					}
				}
			}
			c.Check(cleared, "timeout-cleared-by-new-deadline", c.P.Pos(fn.Pos()), "a latched deadline error is cleared", "SetReadDeadline never clears a latched ErrReadDeadlineExceeded: after one timeout every later Read fails at once, whatever deadline is set")
			// the goroutine's cancel channel
			var mk ssa.Instruction
			for _, a := range c.storesInRegion(fn, rc) {
				if _, isMk := unconv(a.Val).(*ssa.MakeChan); isMk {
					mk = a.Instr
				}
			}
			c.Check(mk != nil, "fresh-cancel-channel", c.P.Pos(fn.Pos()), "readTimeoutCancel receives a channel made by this call", "SetReadDeadline no longer records a fresh cancel channel in readTimeoutCancel: the timer goroutine of this deadline cannot be cancelled by the next call")
			nGo := 0
			for _, g := range c.P.Region(fn) {
				forEachInstr(g, func(in ssa.Instruction) {
					gi, ok := in.(*ssa.Go)
					if !ok {
						return
					}
					nGo++
					okArg := false
					vals := append([]ssa.Value{}, gi.Call.Args...)
					if mc, isMc := gi.Call.Value.(*ssa.MakeClosure); isMc {
						vals = append(vals, mc.Bindings...)
					}
					for _, a := range vals {
						if _, isMk := unconv(a).(*ssa.MakeChan); isMk || IsLoadOf(rc)(a) {
							okArg = true
						}
					}
					c.Check(okArg && (mk == nil || InstrDominates(mk, in)), "goroutine-waits-on-recorded-channel", c.Pos(in), "the timer goroutine is handed the channel recorded in readTimeoutCancel", "the timer goroutine is not handed the channel recorded in readTimeoutCancel (or it is recorded after the goroutine starts)")
				})
			}
			c.Check(nGo >= 1, "deadline-goroutine", c.P.Pos(fn.Pos()), fmt.Sprintf("%d timer goroutine(s)", nGo), "SetReadDeadline starts no timer goroutine")
		}})
}

func init() {
	register(&Rule{ID: "C02.R7", Props: []string{"C02", "C19"}, Engine: "E3",
		Title:   "new data on the wire means T3-rtx is running: the function that pops pending DATA for transmission starts t3RTX under no other condition than 'something was popped' — if the whole first flight is lost no SACK ever arrives, and T3 is the only timer that retransmits for as long as the association lives",
		MinInst: 1,
		Run: func(c *RuleCtx) {
			pop := c.Fn("Association.popPendingDataChunksToSend")
			t3 := c.field("Association", "t3RTX")
			ks := keyer{}
			n := 0
			for _, site := range c.P.CallSitesOf(pop) {
				fn := site.Fn
				n++
				good := 0
				var starts []ssa.Instruction
				for _, g := range c.P.Region(fn) {
					for _, ci := range callsOnField(g, t3, "start") {
						starts = append(starts, ci.(ssa.Instruction))
					}
				}
				for _, in := range starts {
					if in.Parent() == fn && !CanReach(site.Instr, in) {
						continue
					}
					clean := true
					for _, f := range localFactsUpTo(in, fn) {
						if !derives(f.Cond, func(v ssa.Value) bool {
							if ex, ok := v.(*ssa.Extract); ok {
								return ex.Tuple == site.Instr.(ssa.Value)
							}
							return v == site.Instr.(ssa.Value)
						}, map[ssa.Value]bool{}) {
							// a condition established before the pop (it guards the pop as well) is harmless
							if DominatedByExt(site.Instr, func(cv ssa.Value, tk bool) bool { return cv == f.Cond && tk == f.Taken }) {
								continue
							}
							clean = false
						}
					}
					if clean {
						good++
					}
				}
				c.Check(good >= 1, ks.key("t3-started-with-new-data@"+c.P.FuncName(fn)), c.Pos(site.Instr), "t3RTX.start() follows the pop, conditioned only on its result", "after popping new DATA for transmission "+c.P.FuncName(fn)+" does not (unconditionally on the pop's result) start T3-rtx: a lost first flight is never retransmitted")
			}
			c.Check(n >= 1, "pop-sites", "", fmt.Sprintf("%d pop site(s)", n), "popPendingDataChunksToSend has no caller")
		}})

	register(&Rule{ID: "C14.R11", Props: []string{"C14"}, Engine: "E3",
		Title:   "every reconfiguration request gets its own sequence number: generateNextRSN advances myNextRSN by one on every path (a repeated number makes the peer treat the second stream reset as a retransmission of the first and answer it without resetting anything)",
		MinInst: 1,
		Run: func(c *RuleCtx) {
			fn := c.Fn("Association.generateNextRSN")
			f := c.field("Association", "myNextRSN")
			ok := entryMustPass(fn, func(in ssa.Instruction) bool {
				st, isSt := in.(*ssa.Store)
				if !isSt || fieldOfAddr(st.Addr) != f {
					return false
				}
				return BinV(token.ADD, IsLoadOf(f), IsConstInt(1))(st.Val)
			})
			c.Check(ok, "rsn-advances", c.P.Pos(fn.Pos()), "myNextRSN ← myNextRSN + 1 on every path", "a path through generateNextRSN does not advance myNextRSN by one: two requests share a sequence number")
		}})

	register(&Rule{ID: "C03.R16", Props: []string{"C03", "C19", "C08", "C14"}, Engine: "E2-exhaustive",
		Title:   "every chunk handler is dispatched: each Association.handle<X> method whose parameter is a decoded chunk type is called from the dispatch region of handleChunk — a handler that lost its call site silently ignores that chunk kind (a HEARTBEAT ACK then yields no round-trip sample, a SHUTDOWN COMPLETE never closes …)",
		MinInst: 12,
		Run: func(c *RuleCtx) {
			hc := c.Fn("Association.handleChunk")
			reach := c.P.TransitiveCallees(hc)
			ks := keyer{}
			for _, fn := range c.P.Funcs {
				name := c.P.FuncName(fn)
				if fn.Parent() != nil || fn.Synthetic != "" || !strings.HasPrefix(name, "Association.handle") || fn == hc {
					continue
				}
				isChunkHandler := false
				for _, p := range fn.Params[1:] {
					if strings.HasPrefix(typeShort(p.Type()), "*chunk") {
						isChunkHandler = true
					}
				}
				if !isChunkHandler {
					continue
				}
				c.Check(reach[fn], ks.key("dispatched:"+name), c.P.Pos(fn.Pos()), "reachable from handleChunk", name+" is not reachable from handleChunk: chunks of its kind are ignored")
			}
		}})

	register(&Rule{ID: "C14.R12", Props: []string{"C14"}, Engine: "E3",
		Title:   "both parameters of a RE-CONFIG chunk are processed: handleReconfig hands paramA and (when present) paramB to handleReconfigParam — a peer may bundle its own reset request with the response to ours; dropping the second parameter loses one of them",
		MinInst: 2,
		Run: func(c *RuleCtx) {
			fn := c.Fn("Association.handleReconfig")
			hp := c.Fn("Association.handleReconfigParam")
			for _, pn := range []string{"paramA", "paramB"} {
				f := c.field("chunkReconfig", pn)
				n := 0
				nCalls := 0
				for _, g := range c.P.Region(fn) {
					nCalls += len(callsIn(g, hp))
					// the parameter is read and used for more than a nil test (handed on, directly or through a list)
					forEachInstr(g, func(in ssa.Instruction) {
						u, ok := in.(*ssa.UnOp)
						if !ok || !IsLoadOf(f)(u) || u.Referrers() == nil {
							return
						}
						for _, r := range *u.Referrers() {
							if b, isB := r.(*ssa.BinOp); isB && (b.Op == token.EQL || b.Op == token.NEQ) {
								continue
							}
							n++
						}
					})
				}
				if nCalls == 0 {
					n = 0
				}
				c.Check(n >= 1, "reconfig-param-processed:"+pn, c.P.Pos(fn.Pos()), pn+" is handed to handleReconfigParam", "handleReconfig never processes "+pn)
			}
		}})

	register(&Rule{ID: "C17.R12", Props: []string{"C17", "C07"}, Engine: "E3",
		Title:   "a forward-TSN chunk of the variant that was not negotiated is refused: in handleForwardTSN the cumulative-TSN advance and stream skips are dominated by useForwardTSN, in handleIForwardTSN by useIForwardTSN (the variant follows the negotiated interleaving mode on both sides)",
		MinInst: 4,
		Run: func(c *RuleCtx) {
			adv := c.Fn("Association.handlePeerLastTSNAndAcknowledgement")
			ks := keyer{}
			for _, o := range []struct{ h, flag string }{{"Association.handleForwardTSN", "useForwardTSN"}, {"Association.handleIForwardTSN", "useIForwardTSN"}} {
				h := c.Fn(o.h)
				fl := c.field("Association", o.flag)
				for _, g := range c.P.Region(h) {
					forEachInstr(g, func(in ssa.Instruction) {
						ci, ok := in.(ssa.CallInstruction)
						if !ok {
							return
						}
						sc := ci.Common().StaticCallee()
						if sc == nil || (sc != adv && !strings.HasPrefix(c.P.FuncName(sc), "Stream.handleForwardTSNFor")) {
							return
						}
						c.Dom(ks.key("variant-negotiated:"+c.P.FuncName(sc)+"@"+o.h), in, BoolCond(IsLoadOf(fl), true), o.flag+" == true")
					})
				}
			}
		}})
}

func init() {
	register(&Rule{ID: "C04.R12", Props: []string{"C04", "C10", "C13"}, Engine: "E2-sibling",
		Title:   "every handshake path records what the peer told it: handleInit, handleInitAck and initWithOutOfBandTokens (the three places that take a peer INIT/INIT-ACK/token) each store the peer's verification tag and the negotiated stream counts, seed the peer's receive window (setRWND) and the received-TSN base (payloadQueue.init), and evaluate the peer's Zero-Checksum-Acceptable parameter; the INIT-ACK built by handleInit carries the peer's tag — a path that forgets one of them leaves the two ends disagreeing (packets sent with tag 0 are discarded by a conforming peer; zero checksum is never or wrongly used)",
		MinInst: 15,
		Run: func(c *RuleCtx) {
			pvt := c.field("Association", "peerVerificationTag")
			in, out := c.field("Association", "myMaxNumInboundStreams"), c.field("Association", "myMaxNumOutboundStreams")
			szc := c.field("Association", "sendZeroChecksum")
			setR := c.Fn("Association.setRWND")
			pqInit := c.Fn("receivePayloadQueue.init")
			for _, hn := range []string{"Association.handleInit", "Association.handleInitAck", "Association.initWithOutOfBandTokens"} {
				h := c.Fn(hn)
				reg := c.P.Region(h)
				stores := func(f *types.Var) int {
					n := 0
					seen := map[*ssa.Function]bool{}
					var walk func(g *ssa.Function, d int)
					walk = func(g *ssa.Function, d int) {
						if g == nil || g.Blocks == nil || seen[g] || d > 2 {
							return
						}
						seen[g] = true
						n += len(c.storesIn(g, f))
						forEachInstr(g, func(in ssa.Instruction) {
							if ci, ok := in.(ssa.CallInstruction); ok {
								if sc := ci.Common().StaticCallee(); sc != nil && c.P.inPkg(sc) {
									walk(sc, d+1)
								}
							}
						})
						for _, an := range g.AnonFuncs {
							walk(an, d)
						}
					}
					for _, g := range reg {
						walk(g, 0)
					}
					return n
				}
				calls := func(fn *ssa.Function) int {
					return len(callsInDeep(h, fn, 2))
				}
				c.Check(stores(pvt) >= 1, "records-peer-tag@"+hn, c.P.Pos(h.Pos()), "peerVerificationTag is stored", hn+" never stores the peer's verification tag: every later packet is sent with the wrong tag")
				c.Check(stores(in) >= 1 && stores(out) >= 1, "records-stream-counts@"+hn, c.P.Pos(h.Pos()), "negotiated stream counts are stored", hn+" does not store the negotiated inbound/outbound stream counts")
				c.Check(calls(setR) >= 1, "seeds-peer-window@"+hn, c.P.Pos(h.Pos()), "setRWND is called with the peer's a_rwnd", hn+" never seeds the peer's receive window")
				c.Check(calls(pqInit) >= 1, "seeds-tsn-base@"+hn, c.P.Pos(h.Pos()), "payloadQueue.init is called with the peer's initial TSN", hn+" never initialises the received-TSN base from the peer's initial TSN")
				nz := stores(szc)
				if f := c.P.Fn("Association.setSendZeroChecksum"); f != nil {
					nz += calls(f)
				}
				c.Check(nz >= 1, "evaluates-zero-checksum@"+hn, c.P.Pos(h.Pos()), "the peer's Zero-Checksum-Acceptable parameter is evaluated", hn+" never evaluates the peer's Zero-Checksum-Acceptable parameter")
			}
			// the INIT ACK carries the peer's tag
			hi := c.Fn("Association.handleInit")
			vt := c.field("packet", "verificationTag")
			okTag := false
			for _, g := range c.P.Region(hi) {
				for _, a := range c.storesIn(g, vt) {
					if IsLoadOf(pvt)(a.Val) || derives(a.Val, IsLoadOf(c.field("chunkInitCommon", "initiateTag")), map[ssa.Value]bool{}) {
						okTag = true
					}
				}
			}
			if !okTag {
				// built through createPacket(), which reads peerVerificationTag
				if cp := c.P.Fn("Association.createPacket"); cp != nil && len(callsInDeep(hi, cp, 2)) > 0 {
					okTag = true
				}
			}
			c.Check(okTag, "init-ack-carries-peer-tag", c.P.Pos(hi.Pos()), "the INIT ACK's verification tag is the peer's initiate tag", "the INIT ACK built by handleInit does not carry the peer's initiate tag: the peer discards it and the handshake never completes")
		}})
}

func init() {
	register(&Rule{ID: "C05.R10", Props: []string{"C05", "C11"}, Engine: "E3",
		Title:   "duplicate TSNs are reported once: popDuplicates hands the recorded duplicates to the SACK builder and leaves the record empty on every path (otherwise every later SACK repeats them and the list grows without bound under a duplicating network)",
		MinInst: 1,
		Run: func(c *RuleCtx) {
			fn := c.Fn("receivePayloadQueue.popDuplicates")
			f := c.field("receivePayloadQueue", "dupTSN")
			ok := entryMustPass(fn, func(in ssa.Instruction) bool {
				st, isSt := in.(*ssa.Store)
				if !isSt || fieldOfAddr(st.Addr) != f {
					return false
				}
				switch x := unconv(st.Val).(type) {
				case *ssa.Const:
					return true // nil
				case *ssa.MakeSlice:
					return IsConstInt(0)(x.Len)
				case *ssa.Slice:
					// a zero-length slice: x[:0] or a literal []T{}
					if x.High != nil && IsConstInt(0)(x.High) {
						return true
					}
					if al, isAl := x.X.(*ssa.Alloc); isAl {
						if arr, isArr := al.Type().(*types.Pointer).Elem().Underlying().(*types.Array); isArr && arr.Len() == 0 {
							return true
						}
					}
				}
				return false
			})
			c.Check(ok, "duplicates-reported-once", c.P.Pos(fn.Pos()), "the record is emptied on every path", "a path through popDuplicates keeps the recorded duplicates: they are reported again in every SACK and accumulate")
		}})

	register(&Rule{ID: "C06.R8", Props: []string{"C06"}, Engine: "E2",
		Title:   "the configured reliability policy is the one applied: setReliabilityParams stores the unordered flag, the reliability type and the reliability value it is given (a dropped store leaves the limit at its previous value — e.g. 0 retransmissions where 5 were asked for)",
		MinInst: 3,
		Run: func(c *RuleCtx) {
			fn := c.Fn("Stream.setReliabilityParams")
			for _, fname := range []string{"unordered", "reliabilityType", "reliabilityValue"} {
				f := c.field("Stream", fname)
				ok := false
				for _, a := range c.storesInRegion(fn, f) {
					if _, isP := resolveParam(unconv(a.Val)).(*ssa.Parameter); isP {
						ok = true
					}
					if _, isP := unconv(a.Val).(*ssa.Parameter); isP {
						ok = true
					}
				}
				c.Check(ok, "policy-stored:"+fname, c.P.Pos(fn.Pos()), fname+" ← parameter", "setReliabilityParams does not store "+fname+" from its parameter")
			}
		}})
}

func init() {
	register(&Rule{ID: "C10.R10", Props: []string{"C10", "C02"}, Engine: "E3",
		Title:   "every SACK that is not older than the ack point updates the peer window: processAcknowledgement reports 'not processed' (which makes handleSack return before applying a_rwnd) only under 'Cumulative TSN Ack is behind the Cumulative TSN Ack Point' — a repeated, gap-free SACK is exactly how a receiver announces a window that shrank (or reopened), and skipping it leaves the sender transmitting against a stale window",
		MinInst: 2,
		Run: func(c *RuleCtx) {
			fn := c.Fn("Association.processAcknowledgement")
			cum := c.field("Association", "cumulativeTSNAckPoint")
			proc := c.field("acknowledgementResult", "processed")
			gt := c.Fn("sna32GT")
			ks := keyer{}
			n := 0
			for _, g := range c.P.Region(fn) {
				if g != fn {
					continue
				}
				for _, r := range allReturns(g) {
					rs := retResults(r)
					if len(rs) != 2 || !isNilConst(rs[1]) {
						continue // error returns are reported to the caller as errors
					}
					// can 'processed' be false in the returned struct?
					maybeFalse := true
					switch x := rs[0].(type) {
					case *ssa.UnOp:
						if al, ok := x.X.(*ssa.Alloc); ok {
							forEachInstr(g, func(in ssa.Instruction) {
								if st, isSt := in.(*ssa.Store); isSt && fieldOfAddr(st.Addr) == proc && IsConstBool(true)(st.Val) {
									if fa, isFa := st.Addr.(*ssa.FieldAddr); isFa && fa.X == ssa.Value(al) && InstrDominates(in, r) {
										maybeFalse = false
									}
								}
							})
						}
					}
					n++
					if !maybeFalse {
						c.Ok(ks.key("processed-result"), c.Pos(r), "returns processed=true")
						continue
					}
					ok := DominatedByExt(r, CallCond(gt, true, IsLoadOf(cum), AnyV))
					c.Check(ok, ks.key("unprocessed-only-if-stale"), c.Pos(r), "'not processed' only for a SACK older than the ack point", "processAcknowledgement reports a SACK as not processed although it is not older than the ack point ("+c.describeConds(r)+"): its a_rwnd is never applied")
				}
			}
			c.Check(n >= 2, "result-returns", c.P.Pos(fn.Pos()), fmt.Sprintf("%d successful return(s)", n), "processAcknowledgement has fewer than two successful returns")
		}})

	register(&Rule{ID: "C19.R14", Props: []string{"C19", "C04", "C09"}, Engine: "E3-sibling",
		Title:   "stopping a timer always takes it out of the started state: in rtxTimer.stop/close and ackTimer.stop/close the state store is not conditioned on what timer.Stop() returned (Stop() is false exactly when the expiry has already fired and its callback is waiting for the mutex — the callback must then find the timer stopped, or T1-init survives the INIT ACK and later reports a handshake failure on an established association)",
		MinInst: 4,
		Run: func(c *RuleCtx) {
			ks := keyer{}
			for _, tn := range []string{"rtxTimer", "ackTimer"} {
				st := c.field(tn, "state")
				for _, mn := range []string{"stop", "close"} {
					fn := c.Fn(tn + "." + mn)
					n := 0
					for _, a := range c.storesInRegion(fn, st) {
						n++
						bad := ""
						for _, f := range localFactsUpTo(a.Instr, fn) {
							hit := false
							var walk func(v ssa.Value, d int)
							walk = func(v ssa.Value, d int) {
								if v == nil || d > 6 {
									return
								}
								if call, ok := v.(*ssa.Call); ok {
									if sc := call.Call.StaticCallee(); sc != nil && sc.Name() == "Stop" && sc.Pkg != nil && sc.Pkg.Pkg.Path() == "time" {
										hit = true
									}
								}
								if in, ok := v.(ssa.Instruction); ok {
									for _, op := range in.Operands(nil) {
										if *op != nil {
											walk(*op, d+1)
										}
									}
								}
							}
							walk(f.Cond, 0)
							if hit {
								bad = shortValue(c.P, f.Cond)
							}
						}
						c.Check(bad == "", ks.key("state-left-unconditionally:"+tn+"."+mn), c.Pos(a.Instr), "the state store does not depend on timer.Stop()", "the timer leaves the started state only if "+bad+" is true: when the expiry has already fired, the late callback finds it still started, counts an expiry and re-arms")
					}
					c.Check(n >= 1, ks.key("state-store:"+tn+"."+mn), c.P.Pos(fn.Pos()), fmt.Sprintf("%d state store(s)", n), tn+"."+mn+" no longer stores a state")
				}
			}
		}})

	register(&Rule{ID: "C06.R9", Props: []string{"C06", "C07"}, Engine: "E3",
		Title:   "a fragment's abandonment is the message's: chunkPayloadData.abandoned/setAbandoned/setAllInflight read and write the _abandoned and _allInflight flags of the head fragment whenever there is one — an access on the receiver itself is dominated by head == nil (both flags live on the head only; a non-head fragment that consults its own copy is never abandoned and is retransmitted without limit)",
		MinInst: 1,
		Run: func(c *RuleCtx) {
			head := c.field("chunkPayloadData", "head")
			ks := keyer{}
			n := 0
			for _, fname := range []string{"_abandoned", "_allInflight"} {
				f := c.field("chunkPayloadData", fname)
				for _, mn := range []string{"chunkPayloadData.abandoned", "chunkPayloadData.givenUp", "chunkPayloadData.setAbandoned", "chunkPayloadData.setAllInflight"} {
					fn := c.P.Fn(mn)
					if fn == nil {
						continue
					}
					forEachInstr(fn, func(in ssa.Instruction) {
						fa, ok := in.(*ssa.FieldAddr)
						if !ok || fieldOf(fa.X.Type(), fa.Field) != f {
							return
						}
						if _, isParam := fa.X.(*ssa.Parameter); !isParam {
							return // accessed through the head (or a value chosen between head and self)
						}
						n++
						okD := DominatedByExt(in, CmpCond(token.EQL, IsLoadOf(head), isNilConst))
						c.Check(okD, ks.key("flag-on-self-only-without-head:"+fname+"@"+mn), c.Pos(in), "the receiver's own "+fname+" is used only when it has no head", mn+" uses the receiver's own "+fname+" although it may be a non-head fragment (the flag is kept on the head): the fragment's abandonment is misjudged")
					})
				}
			}
			c.Check(true, "self-accesses", "", fmt.Sprintf("%d accesses on the receiver examined (0 when every access goes through a head-selecting helper)", n), "")
		}})
}
