package sctp

import (
	"testing"

	"github.com/stretchr/testify/require"
)

func f4StoredChunks(r *reassemblyQueue) int {
	n := len(r.unorderedChunks)
	for _, s := range r.ordered {
		n += len(s.chunks)
	}
	for _, s := range r.unordered {
		n += len(s.chunks)
	}
	for _, s := range r.orderedMID {
		n += len(s.chunks)
	}
	for _, s := range r.unorderedMID {
		n += len(s.chunks)
	}
	for _, s := range r.unorderedMIDMap {
		n += len(s.chunks)
	}

	return n
}

// C11: DATA chunks without user data are stored like any other chunk but cost no
// receive-window credit, so a peer can make the endpoint store an unbounded number
// of chunks (each pinning its whole inbound packet buffer) while the advertised
// window stays at the full buffer size. Neither the receive window nor the TSN
// window above the cumulative point bounds it, because the TSNs are in sequence
// (the cumulative point follows).
func TestF4_ZeroLengthDataIsStoredWithoutBound(t *testing.T) {
	const bufSize = 1500
	a := createTestAssociation(t, Config{MaxReceiveBufferSize: bufSize})
	a.lock.Lock()
	a.setState(established)
	a.peerVerificationTag = 1
	a.sourcePort = defaultSCTPSrcDstPort
	a.destinationPort = defaultSCTPSrcDstPort
	a.payloadQueue.init(99)
	a.lock.Unlock()

	advertised := func() uint32 {
		a.lock.Lock()
		defer a.lock.Unlock()

		return a.createSelectiveAckChunk().advertisedReceiverWindowCredit
	}

	// Every stored chunk is either above the cumulative point (at most maxTSNOffset
	// of them) or holds at least one byte of the receive buffer; so this is a very
	// generous bound on the number of chunks a bounded receiver can ever store.
	bound := int(getMaxTSNOffset(bufSize)) + bufSize

	const total = 6000
	for i := range total {
		// in-sequence TSNs, one never-completed ordered message per chunk
		// (B set, E never sent), no user data.
		raw, err := a.createPacket([]chunk{&chunkPayloadData{
			tsn:                  uint32(100 + i), //nolint:gosec
			streamIdentifier:     1,
			streamSequenceNumber: uint16(i + 1), //nolint:gosec
			beginningFragment:    true,
			endingFragment:       false,
			payloadType:          PayloadTypeWebRTCBinary,
			userData:             []byte{},
		}}).marshal(true)
		require.NoError(t, err)
		require.NoError(t, a.handleInbound(raw))
	}

	s, err := a.AcceptStream()
	require.NoError(t, err)
	stored := f4StoredChunks(s.reassemblyQueue)
	t.Logf("advertised window=%d (buffer %d), cumulative TSN=%d, stored chunks=%d",
		advertised(), bufSize, a.peerLastTSN(), stored)

	require.LessOrEqualf(t, stored, bound,
		"%d inbound chunks are stored (bound %d) while the advertised window is still %d of %d",
		stored, bound, advertised(), bufSize)
}
