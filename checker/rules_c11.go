package main

import (
	"fmt"
	"go/token"
	"strings"

	"golang.org/x/tools/go/ssa"
)

func init() {
	register(&Rule{ID: "C11.R1", Props: []string{"C11"}, Engine: "E3",
		Title:   "the reassembly byte counter is paired with every container change: each insert is accompanied by AddUint64(len(chunk.userData)) of the same chunk on the accepting path, each removal by subtractNumBytes of the removed chunks' lengths; every container store is classified",
		MinInst: 20,
		Run: func(c *RuleCtx) {
			nB := c.field("reassemblyQueue", "nBytes")
			ud := c.field("chunkPayloadData", "userData")
			isAddOf := func(chunk ssa.Value) func(ssa.Instruction) bool {
				return func(in ssa.Instruction) bool {
					ci, ok := in.(ssa.CallInstruction)
					if !ok {
						return false
					}
					n, ok := isAtomicCall(ci.Common())
					if !ok || n != "AddUint64" || fieldOfAddr(ci.Common().Args[0]) != nB {
						return false
					}
					// second arg = uint64(len(chunk.userData))
					call, ok := unconv(ci.Common().Args[1]).(*ssa.Call)
					if !ok {
						return false
					}
					b, ok := call.Call.Value.(*ssa.Builtin)
					return ok && b.Name() == "len" && isFieldLoadOn(ud, chunk)(call.Call.Args[0])
				}
			}
			// --- inserts
			pw := c.Fn("reassemblyQueue.pushWithError")
			uc := c.field("reassemblyQueue", "unorderedChunks")
			for _, a := range c.storesIn(pw, uc) {
				ok, bad := MustPass(a.Instr, isAddOf(pw.Params[1]), nil)
				c.Check(ok, "insert:unorderedChunks@pushWithError", c.Pos(a.Instr), "append to unorderedChunks is followed by AddUint64(len(chunk.userData))", "unordered fragment stored without charging the counter: "+c.P.InstrPos(bad))
			}
			pnd := c.Fn("chunkSet.pushNoDuplicate")
			for _, cs := range c.P.CallSitesOf(pnd) {
				fn := c.P.FuncName(cs.Fn)
				if fn == "chunkSet.push" {
					continue // wrapper, itself unused by the association (kept for tests)
				}
				chunk := unconv(callArg(cs.Instr, 1))
				ok := false
				forEachInstr(cs.Fn, func(in ssa.Instruction) {
					if isAddOf(chunk)(in) && InstrDominates(in, cs.Instr) {
						ok = true
					}
				})
				c.Check(ok, "insert:chunkSet@"+fn, c.Pos(cs.Instr), "ordered DATA insert is dominated by AddUint64(len(chunk.userData))", "ordered fragment stored without charging the counter")
			}
			c.CallersWithin("insert-api", pnd, "reassemblyQueue.pushWithError", "chunkSet.push")
			c.Check(len(c.P.CallSitesOf(c.Fn("chunkSet.push"))) == 0, "insert-api:chunkSet.push-unused", "", "chunkSet.push (uncounted insert) has no non-test caller", "chunkSet.push is now called: an insert path that does not charge the counter")
			pac := c.Fn("chunkSetMID.pushAndCheck")
			for _, cs := range c.P.CallSitesOf(pac) {
				fn := c.P.FuncName(cs.Fn)
				chunk := unconv(callArg(cs.Instr, 1))
				var acc ssa.Value
				for _, r := range *cs.Instr.(ssa.Value).Referrers() {
					if ex, ok := r.(*ssa.Extract); ok && ex.Index == 1 {
						acc = ex
					}
				}
				if acc == nil {
					c.Fail("insert:chunkSetMID@"+fn, c.Pos(cs.Instr), "accepted result of pushAndCheck is ignored")
					continue
				}
				ok, bad := MustPassOpt(cs.Instr.Block(), instrIndex(cs.Instr)+1, cs.Instr, isAddOf(chunk), PathOpts{Facts: map[ssa.Value]bool{acc: true}})
				c.Check(ok, "insert:chunkSetMID@"+fn, c.Pos(cs.Instr), "accepted I-DATA insert is followed by AddUint64(len(chunk.userData))", "accepted I-DATA fragment not charged: "+c.P.InstrPos(bad))
				// and a refused one is not charged
				okNo, _ := MustPassOpt(cs.Instr.Block(), instrIndex(cs.Instr)+1, cs.Instr, func(ssa.Instruction) bool { return false },
					PathOpts{Facts: map[ssa.Value]bool{acc: false}, ExitOK: true, Fail: isAddOf(chunk)})
				c.Check(okNo, "insert-refused-not-charged:chunkSetMID@"+fn, c.Pos(cs.Instr), "a refused (duplicate) fragment is not charged", "a refused fragment is charged to the counter")
			}
			c.CallersWithin("insert-api", pac, "reassemblyQueue.pushUnorderedIData", "reassemblyQueue.pushOrderedIData")
			// --- removals
			sub := c.Fn("reassemblyQueue.subtractNumBytes")
			lenOfUserData := func(v ssa.Value) bool {
				return Derives(func(x ssa.Value) bool {
					call, ok := x.(*ssa.Call)
					if !ok {
						return false
					}
					b, ok := call.Call.Value.(*ssa.Builtin)
					return ok && b.Name() == "len" && IsLoadOf(ud)(call.Call.Args[0])
				})(v)
			}
			for _, fname := range []string{"reassemblyQueue.forwardTSNForOrdered", "reassemblyQueue.forwardTSNForUnordered", "reassemblyQueue.forwardTSNForOrderedMID", "reassemblyQueue.forwardTSNForUnorderedMID"} {
				fn := c.Fn(fname)
				calls := callsInDeep(fn, sub, 1)
				okArg := len(calls) == 1
				for _, sc := range calls {
					if !lenOfUserData(callArg(sc, 1)) || len(loopBlocks(sc.Block())) == 0 {
						okArg = false
					}
				}
				c.Check(okArg, "remove:"+fname, c.P.Pos(fn.Pos()), "purge subtracts len(userData) of every dropped chunk (in a loop over the dropped chunks)", "purge does not release the dropped chunks' bytes")
			}
			rd := c.Fn("reassemblyQueue.read")
			for _, f := range []string{"ordered", "unordered", "orderedMID", "unorderedMID"} {
				for _, a := range c.storesIn(rd, c.field("reassemblyQueue", f)) {
					ok, bad := MustPass(a.Instr, func(in ssa.Instruction) bool {
						ci, ok := in.(ssa.CallInstruction)
						return ok && ci.Common().StaticCallee() == sub && lenOfUserData(ci.Common().Args[1])
					}, nil)
					c.Check(ok, "remove:read("+f+")", c.Pos(a.Instr), "popping a message is followed by subtractNumBytes(Σ len(userData))", "message popped without releasing its bytes: "+c.P.InstrPos(bad))
				}
			}
			// --- classification of every container store
			class := map[string]string{
				"newReassemblyQueue": "init", "reassemblyQueue.read": "remove",
				"reassemblyQueue.forwardTSNForOrdered": "remove", "reassemblyQueue.forwardTSNForUnordered": "remove",
				"reassemblyQueue.forwardTSNForOrderedMID": "remove", "reassemblyQueue.forwardTSNForUnorderedMID": "remove",
				"reassemblyQueue.findCompleteUnorderedChunkSet": "move", "reassemblyQueue.pushWithError": "insert/move",
				"reassemblyQueue.pushUnorderedIData": "insert/move", "reassemblyQueue.pushOrderedIData": "insert",
			}
			ks := keyer{}
			for _, f := range []string{"ordered", "unordered", "unorderedChunks", "orderedMID", "unorderedMID", "orderedMIDMap", "unorderedMIDMap"} {
				fv := c.field("reassemblyQueue", f)
				for _, a := range c.P.Writes(fv) {
					fn := c.P.FuncName(a.Fn)
					cl, ok := class[fn]
					if !ok {
						// a private helper of a classified function inherits its class
						for cn, cc := range class {
							if cf := c.P.Fn(cn); cf != nil && c.P.OwnedBy(a.Fn, map[*ssa.Function]bool{cf: true}) {
								cl, ok = cc, true
							}
						}
					}
					c.Check(ok, ks.key("container-store("+f+")@"+fn), c.Pos(a.Instr), "classified: "+cl, "unclassified store to reassembly container "+f+" in "+fn+": review its byte accounting")
				}
			}
			for _, tf := range [][2]string{{"chunkSet", "chunks"}, {"chunkSetMID", "chunks"}} {
				allowed := map[string]bool{"newChunkSet": true, "chunkSet.pushNoDuplicate": true, "reassemblyQueue.findCompleteUnorderedChunkSet": true, "newChunkSetMID": true, "chunkSetMID.pushAndCheck": true}
				for _, a := range c.P.Writes(c.field(tf[0], tf[1])) {
					fn := c.P.FuncName(a.Fn)
					c.Check(allowed[fn], ks.key("set-store("+tf[0]+")@"+fn), c.Pos(a.Instr), "classified", "unclassified store to "+tf[0]+".chunks in "+fn)
				}
			}
		}})

	register(&Rule{ID: "C11.R2", Props: []string{"C11"}, Engine: "E2",
		Title:   "the counter has no other writers and never underflows",
		MinInst: 6,
		Run: func(c *RuleCtx) {
			nB := c.field("reassemblyQueue", "nBytes")
			c.WritersWithin("counter", nB, "reassemblyQueue.pushWithError", "reassemblyQueue.pushUnorderedIData", "reassemblyQueue.pushOrderedIData", "reassemblyQueue.subtractNumBytes")
			sub := c.Fn("reassemblyQueue.subtractNumBytes")
			nAdd, nStore := 0, 0
			forEachInstr(sub, func(in ssa.Instruction) {
				ci, ok := in.(ssa.CallInstruction)
				if !ok {
					return
				}
				n, ok := isAtomicCall(ci.Common())
				if !ok {
					return
				}
				switch n {
				case "AddUint64":
					nAdd++
					c.Dom("subtract-guarded", in, CmpCond(token.GEQ, AnyV, IsParam(sub, 1)), "current >= nBytes")
				case "StoreUint64":
					nStore++
					c.Check(IsConstInt(0)(ci.Common().Args[1]), "subtract-floors-at-zero", c.Pos(in), "otherwise the counter is set to 0", "floor is not zero")
				}
			})
			c.Check(nAdd == 1 && nStore == 1, "subtract-shape", c.P.Pos(sub.Pos()), "guarded subtraction with a zero floor", fmt.Sprintf("add=%d store=%d", nAdd, nStore))
		}})

	register(&Rule{ID: "C11.R3", Props: []string{"C11", "C05"}, Engine: "E2-dataflow",
		Title:   "advertised credit = configured buffer − Σ per-stream reassembly bytes, floored at zero; INIT and INIT-ACK advertise the full buffer",
		MinInst: 5,
		Run: func(c *RuleCtx) {
			g := c.Fn("Association.getMyReceiverWindowCredit")
			maxB := c.field("Association", "maxReceiveBufferSize")
			streams := c.field("Association", "streams")
			gnb := c.Fn("Stream.getNumBytesInReassemblyQueue")
			okRange := false
			forEachInstr(g, func(in ssa.Instruction) {
				if rg, ok := in.(*ssa.Range); ok && IsLoadOf(streams)(rg.X) {
					okRange = true
				}
			})
			c.Check(okRange, "credit-sums-all-streams", c.P.Pos(g.Pos()), "iterates over a.streams", "credit no longer sums over all streams")
			calls := callsIn(g, gnb)
			c.Check(len(calls) == 1 && len(loopBlocks(calls[0].Block())) > 0, "credit-per-stream-bytes", c.P.Pos(g.Pos()), "adds s.getNumBytesInReassemblyQueue() for each stream", "per-stream reassembly bytes not accumulated")
			for _, call := range calls {
				var extra []string
				for _, f := range DomFacts(call.Block()) {
					if isLoopBound(f.Cond) || isRangeOK(f.Cond) {
						continue
					}
					extra = append(extra, fmt.Sprintf("%s=%v", shortValue(c.P, f.Cond), f.Taken))
				}
				c.Check(len(extra) == 0, "credit-skips-no-stream", c.Pos(call), "every registered stream's bytes are counted (no condition skips a stream)",
					"some streams are left out of the advertised-window computation: "+strings.Join(extra, ", ")+" (bytes held for them are not charged, so the window never closes while memory grows)")
			}
			for _, r := range allReturns(g) {
				for _, lf := range leavesWithFacts(retResults(r)[0]) {
					v := lf.Val
					if IsConstInt(0)(v) {
						okF := DominatedByExt(r, CmpCond(token.GEQ, AnyV, IsLoadOf(maxB)))
						for _, f := range lf.Facts {
							if CmpCond(token.GEQ, AnyV, IsLoadOf(maxB))(f.Cond, f.Taken) {
								okF = true
							}
						}
						c.Check(okF, "credit-floor", c.Pos(r), "0 only when bytesQueued >= maxReceiveBufferSize", "the credit is 0 on a path not guarded by bytesQueued >= maxReceiveBufferSize")
					} else {
						c.Check(BinV(token.SUB, IsLoadOf(maxB), AnyV)(v), "credit-difference", c.Pos(r), "returns maxReceiveBufferSize - bytesQueued", "credit is not buffer minus queued bytes")
					}
				}
			}
			gq := c.Fn("Stream.getNumBytesInReassemblyQueue")
			for _, r := range allReturns(gq) {
				c.Check(IsCallOf(c.Fn("reassemblyQueue.getNumBytes"))(r.Results[0]), "stream-bytes-source", c.Pos(r), "stream bytes = reassemblyQueue.getNumBytes()", "stream byte count not from the reassembly counter")
			}
			arw := c.field("chunkInitCommon", "advertisedReceiverWindowCredit")
			for _, fname := range []string{"Association.initClient", "Association.handleInit"} {
				fn := c.Fn(fname)
				st := c.storesIn(fn, arw)
				c.Check(len(st) == 1 && IsLoadOf(maxB)(st[0].Val), "init-advertises-buffer@"+fname, c.P.Pos(fn.Pos()), "a_rwnd in INIT/INIT-ACK <- maxReceiveBufferSize", "handshake does not advertise the configured buffer")
			}
		}})

	register(&Rule{ID: "C11.R4", Props: []string{"C11", "C05"}, Engine: "E3",
		Title:   "window admission: nothing beyond cumulativeTSN+maxTSNOffset is accepted",
		MinInst: 2,
		Run: func(c *RuleCtx) {
			cp := c.Fn("receivePayloadQueue.canPush")
			gt := c.Fn("sna32GT")
			cum := c.field("receivePayloadQueue", "cumulativeTSN")
			mo := c.field("receivePayloadQueue", "maxTSNOffset")
			for _, r := range allReturns(cp) {
				if IsConstBool(true)(r.Results[0]) {
					c.Dom("canPush-inside-window", r, CallCond(gt, false, IsParam(cp, 1), BinV(token.ADD, IsLoadOf(cum), IsLoadOf(mo))), "sna32GT(tsn, cum+maxTSNOffset)==false")
				}
			}
			// maxTSNOffset is positive and fixed at construction
			c.WritersWithin("window-size", mo, "newReceivePayloadQueue")
			gm := c.Fn("getMaxTSNOffset")
			// whatever the configured buffer, the result lies in [minTSNOffset, maxTSNOffset] (interval evaluation of every return)
			var lo, hi int64
			fmt.Sscan(c.P.Const("minTSNOffset").Val().String(), &lo)
			fmt.Sscan(c.P.Const("maxTSNOffset").Val().String(), &hi)
			okClamp := lo >= 1
			for _, r := range allReturns(gm) {
				v := retResults(r)[0]
				ub, okU := c.P.upperBound(v, 0)
				lb, okL := c.P.lowerBoundI(v, 0)
				if !okU || ub > hi || !okL || lb < lo {
					okClamp = false
				}
			}
			c.Check(okClamp, "window-clamped", c.P.Pos(gm.Pos()), "tracking window clamped to [minTSNOffset, maxTSNOffset]", "tracking window no longer clamped")
		}})

	register(&Rule{ID: "C11.R5", Props: []string{"C11"}, Engine: "E3",
		Title:   "entry / MID limits: a new reassembly entry is created only when the configured limit is not reached; the limit error is returned to the caller",
		MinInst: 5,
		Run: func(c *RuleCtx) {
			pw := c.Fn("reassemblyQueue.pushWithError")
			lim := c.Fn("reassemblyQueue.isDataLimitReached")
			has := c.Fn("reassemblyQueue.hasDataLimit")
			mid := c.Fn("reassemblyQueue.isMIDLimitReached")
			// "if hasDataLimit() && isDataLimitReached(n) { return err }": the guarded site is
			// reached either with no limit configured or with the limit not reached, so no single
			// branch outcome dominates it. Structural form: an If on isDataLimitReached whose true
			// edge cannot reach the site, sitting on the true edge of an If on hasDataLimit that
			// dominates the site (or dominating the site itself).
			underLimit := func(in ssa.Instruction) bool {
				ok := false
				forEachInstr(pw, func(x ssa.Instruction) {
					ifB, isIf := x.(*ssa.If)
					if !isIf || !IsCallOf(lim)(ifB.Cond) {
						return
					}
					if CanReach(ifB.Block().Succs[0].Instrs[0], in) || ifB.Block().Succs[0] == in.Block() {
						return
					}
					if ifB.Block().Dominates(in.Block()) {
						ok = true
						return
					}
					forEachInstr(pw, func(y ssa.Instruction) {
						ifA, isIfA := y.(*ssa.If)
						if !isIfA || !IsCallOf(has)(ifA.Cond) {
							return
						}
						if ifA.Block().Dominates(in.Block()) && edgeDominates(ifA.Block(), ifA.Block().Succs[0], ifB.Block()) &&
							reachAvoiding(ifA.Block().Succs[1], in.Block(), ifB.Block()) {
							ok = true
						}
					})
				})
				return ok
			}
			for _, nc := range callsIn(pw, c.Fn("newChunkSet")) {
				c.Check(underLimit(nc), "limit:new-ordered-set", c.Pos(nc), "new ordered set only under the entry limit", "ordered set created without the entry-limit test")
			}
			for _, a := range c.storesIn(pw, c.field("reassemblyQueue", "unorderedChunks")) {
				c.Check(underLimit(a.Instr), "limit:unordered-chunk", c.Pos(a.Instr), "unordered fragment stored only under the entry limit", "unordered fragment stored without the entry-limit test")
			}
			for _, nc := range callsIn(pw, c.Fn("chunkSet.pushNoDuplicate")) {
				c.Check(underLimit(nc), "limit:ordered-chunk", c.Pos(nc), "ordered fragment stored only under the entry limit", "ordered fragment stored without the entry-limit test")
			}
			for _, fname := range []string{"reassemblyQueue.pushUnorderedIData", "reassemblyQueue.pushOrderedIData"} {
				fn := c.Fn(fname)
				for _, nc := range callsIn(fn, c.Fn("newChunkSetMID")) {
					c.Dom("limit:new-mid-set@"+fname, nc, CallCond(mid, false), "isMIDLimitReached(...)==false")
				}
			}
			// the predicate itself: maxEntries > 0 && nEntries >= maxEntries
			pred := c.Fn("isReassemblyQueueLimitReached")
			okP := false
			forEachInstr(pred, func(in ssa.Instruction) {
				if b, ok := in.(*ssa.BinOp); ok && b.Op == token.GEQ {
					okP = true
				}
			})
			c.Check(okP, "limit-predicate", c.P.Pos(pred.Pos()), "limit reached ⇔ maxEntries>0 ∧ nEntries>=maxEntries", "limit predicate changed shape")
			// errors of pushWithError reach Stream.handleData's caller
			sh := c.Fn("Stream.handleData")
			for _, pc := range callsIn(sh, pw) {
				var errV ssa.Value
				for _, r := range *pc.(ssa.Value).Referrers() {
					if ex, ok := r.(*ssa.Extract); ok && ex.Index == 1 {
						errV = ex
					}
				}
				okRet := false
				for _, r := range allReturns(sh) {
					if res := retResults(r); len(res) == 1 && errV != nil && res[0] == errV {
						okRet = true
					}
				}
				c.Check(okRet, "limit-error-propagates", c.Pos(pc), "Stream.handleData returns pushWithError's error (⇒ ABORT, C03.R8)", "reassembly limit error is swallowed")
			}
		}})
}

// isRangeOK: the "more elements" flag of a range-over-map/string iteration.
func isRangeOK(v ssa.Value) bool {
	ex, ok := v.(*ssa.Extract)
	if !ok || ex.Index != 0 {
		return false
	}
	_, isNext := ex.Tuple.(*ssa.Next)
	return isNext
}
