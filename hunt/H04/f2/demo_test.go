package sctp

import (
	"errors"
	"io"
	"testing"
	"time"

	"github.com/stretchr/testify/require"
)

// C18 / C14: blocking-write mode. A Write that is parked behind earlier data is
// overtaken by Close(): the close marker is queued first, the parked Write then
// queues its DATA *after* the stream was reset and still reports success.
// The peer's reader gets EOF without that message (it is never delivered), so
// the write neither "sent nothing" nor was it delivered before end-of-file.
func TestHunt3BlockedWriteOvertakenByClose(t *testing.T) {
	conn1, conn2 := createUDPConnPair()
	a1, a2, err := createAssociationPairWithConfig(conn1, conn2, Config{BlockWrite: true, MaxReceiveBufferSize: 4000})
	require.NoError(t, err)
	defer func() { _ = a2.Close() }()
	defer func() { _ = a1.Close() }()

	s1, err := a1.OpenStream(1, PayloadTypeWebRTCBinary)
	require.NoError(t, err)
	_, err = s1.WriteSCTP([]byte("hello"), PayloadTypeWebRTCBinary)
	require.NoError(t, err)
	s2, err := a2.AcceptStream()
	require.NoError(t, err)
	data := make([]byte, 4000)
	n, err := s2.Read(data)
	require.NoError(t, err)
	require.Equal(t, "hello", string(data[:n]))

	okWrites := 0
	// #1 fills the peer's receive window, #2 stays in the pending queue.
	for i := 0; i < 2; i++ {
		_, err = s1.WriteSCTP(data, PayloadTypeWebRTCBinary)
		require.NoError(t, err)
		okWrites++
	}

	// #3 is parked in the blocking-write gate.
	w3 := make(chan error, 1)
	go func() {
		_, werr := s1.WriteSCTP(data, PayloadTypeWebRTCBinary)
		w3 <- werr
	}()
	time.Sleep(200 * time.Millisecond)
	select {
	case werr := <-w3:
		require.FailNow(t, "setup: third write was expected to block", "err=%v", werr)
	default:
	}

	// The writer closes the stream while #3 is still parked.
	require.NoError(t, s1.Close())

	// Now the reader drains the stream until EOF.
	got := 0
	readDone := make(chan error, 1)
	go func() {
		buf := make([]byte, 4000)
		for {
			_, rerr := s2.Read(buf)
			if rerr != nil {
				readDone <- rerr

				return
			}
			got++
		}
	}()

	var w3err error
	select {
	case w3err = <-w3:
	case <-time.After(5 * time.Second):
		require.FailNow(t, "third write never returned")
	}
	if w3err == nil {
		okWrites++
	}

	select {
	case rerr := <-readDone:
		require.True(t, errors.Is(rerr, io.EOF), "reader ended with %v", rerr)
	case <-time.After(5 * time.Second):
		require.FailNow(t, "reader never saw EOF")
	}

	// Give a late message a chance to be reported somewhere.
	time.Sleep(300 * time.Millisecond)

	require.Equalf(t, okWrites, got,
		"writer had %d successful 4000-byte writes (third write err=%v) but the reader received %d before EOF",
		okWrites, w3err, got)
}
