package main

import (
	"encoding/json"
	"fmt"
	"io"
	"os"
	"os/exec"
	"path/filepath"
	"runtime"
	"sort"
	"strings"
)

// Sensitivity sweep (thorough tier): the analyser is run on variants of /repo
// that are only *analysed*, never built into a binary or executed:
//  - seeded defects (/verif/seeded/*/patch.diff) that some rule of the property
//    is recorded to report must still be reported by that property's rules;
//  - behaviour-preserving variants (/verif/variants/preserving/*.diff) must not
//    add any failing obligation.
// The outcome is recorded in the evidence; it does not change the exit status,
// which speaks about the unchanged tree only.

type sweepResult struct {
	Variant string   `json:"variant"`
	Kind    string   `json:"kind"` // seeded | preserving
	Outcome string   `json:"outcome"`
	Rules   []string `json:"rules,omitempty"`
}

func copyTree(src, dst string) error {
	return filepath.Walk(src, func(path string, info os.FileInfo, err error) error {
		if err != nil {
			return err
		}
		rel, _ := filepath.Rel(src, path)
		if rel == ".git" || strings.HasPrefix(rel, ".git"+string(os.PathSeparator)) {
			if info.IsDir() {
				return filepath.SkipDir
			}
			return nil
		}
		target := filepath.Join(dst, rel)
		if info.IsDir() {
			return os.MkdirAll(target, 0o755)
		}
		if !info.Mode().IsRegular() {
			return nil
		}
		in, err := os.Open(path)
		if err != nil {
			return err
		}
		defer in.Close()
		out, err := os.Create(target)
		if err != nil {
			return err
		}
		defer out.Close()
		_, err = io.Copy(out, in)
		return err
	})
}

func analyseVariant(repo, patch string, rules []*Rule) (failed map[string]bool, byRule map[string]bool, note string) {
	tmp, err := os.MkdirTemp("", "sctpverif-variant-")
	if err != nil {
		return nil, nil, "cannot create scratch dir: " + err.Error()
	}
	defer os.RemoveAll(tmp)
	if err := copyTree(repo, tmp); err != nil {
		return nil, nil, "copy failed: " + err.Error()
	}
	cmd := exec.Command("patch", "-p1", "-s", "-f", "-i", patch)
	cmd.Dir = tmp
	if out, err := cmd.CombinedOutput(); err != nil {
		return nil, nil, "patch does not apply to the current tree: " + strings.TrimSpace(string(out))
	}
	p, err := Load(tmp, "", "")
	if err != nil {
		return nil, nil, "variant does not type-check: " + err.Error()
	}
	failed, byRule = map[string]bool{}, map[string]bool{}
	for _, r := range rules {
		res := runRule(p, r, "quick", "")
		for _, o := range res.Obs {
			if !o.OK {
				failed[o.Rule+"|"+o.Construct] = true
				byRule[o.Rule] = true
			}
		}
	}
	p = nil
	runtime.GC()
	return failed, byRule, ""
}

func runSweep(prop, repo, verif string, rules []*Rule, baseFailed map[string]bool) []sweepResult {
	var out []sweepResult
	ruleIDs := map[string]bool{}
	for _, r := range rules {
		ruleIDs[r.ID] = true
	}
	metas, _ := filepath.Glob(filepath.Join(verif, "seeded", "*", "meta.json"))
	sort.Strings(metas)
	for _, mp := range metas {
		b, err := os.ReadFile(mp)
		if err != nil {
			continue
		}
		var meta struct {
			Detected []string `json:"detected_by_now"`
		}
		if json.Unmarshal(b, &meta) != nil {
			continue
		}
		var mine []*Rule
		for _, id := range meta.Detected {
			if ruleIDs[id] {
				for _, r := range rules {
					if r.ID == id {
						mine = append(mine, r)
					}
				}
			}
		}
		if len(mine) == 0 {
			continue
		}
		dir := filepath.Dir(mp)
		name := filepath.Base(dir)
		_, byRule, note := analyseVariant(repo, filepath.Join(dir, "patch.diff"), mine)
		res := sweepResult{Variant: name, Kind: "seeded"}
		switch {
		case note != "":
			res.Outcome = "skipped: " + note
		case len(byRule) > 0:
			res.Outcome = "reported"
			for id := range byRule {
				res.Rules = append(res.Rules, id)
			}
			sort.Strings(res.Rules)
		default:
			res.Outcome = "LOST: no rule of " + prop + " reports this seeded defect any more"
		}
		out = append(out, res)
	}
	pres, _ := filepath.Glob(filepath.Join(verif, "variants", "preserving", "*.diff"))
	sort.Strings(pres)
	for _, pp := range pres {
		failed, _, note := analyseVariant(repo, pp, rules)
		res := sweepResult{Variant: filepath.Base(pp), Kind: "preserving"}
		switch {
		case note != "":
			res.Outcome = "skipped: " + note
		default:
			var extra []string
			for k := range failed {
				if !baseFailed[k] {
					extra = append(extra, k)
				}
			}
			sort.Strings(extra)
			if len(extra) == 0 {
				res.Outcome = "silent"
			} else {
				res.Outcome = fmt.Sprintf("FALSE-ALARM on a behaviour-preserving variant: %s", strings.Join(extra, "; "))
			}
		}
		out = append(out, res)
	}
	return out
}
