package main

import (
	"fmt"
	"go/constant"
	"go/token"
	"go/types"
	"strings"

	"golang.org/x/tools/go/ssa"
)

// Rules added after the fourth round of seeded defects (DESIGN §9).

func init() {
	register(&Rule{ID: "C08.R6", Props: []string{"C08", "C02", "C19"}, Engine: "E3",
		Title:   "T2-shutdown is never left stopped with the shutdown unfinished: every t2Shutdown.stop() is followed, on every path to the function's exit, by raising a flag whose emission restarts T2 (willSendShutdown / willSendShutdownAck), by the SHUTDOWN-COMPLETE step, or by closing the association — T2 is restarted only when a SHUTDOWN or SHUTDOWN-ACK is emitted, so a bare stop ends retransmission for good",
		MinInst: 4,
		Run: func(c *RuleCtx) {
			t2 := c.field("Association", "t2Shutdown")
			stopFn := c.Fn("rtxTimer.stop")
			flags := map[string]bool{"willSendShutdown": true, "willSendShutdownAck": true, "willSendShutdownComplete": true}
			closeFn := c.Fn("Association.close")
			ks := keyer{}
			for _, fn := range c.P.Funcs {
				for _, sc := range callsIn(fn, stopFn) {
					if !IsLoadOf(t2)(callArg(sc, 0)) {
						continue
					}
					isResume := func(x ssa.Instruction) bool {
						if st, ok := x.(*ssa.Store); ok && IsConstBool(true)(st.Val) {
							if f := fieldOfAddr(st.Addr); f != nil && flags[f.Name()] {
								return true
							}
						}
						if ci, ok := x.(ssa.CallInstruction); ok && ci.Common().StaticCallee() == closeFn {
							return true
						}
						return false
					}
					okAfter, bad := MustPass(sc, isResume, nil)
					// or the flag was raised just before the stop (same straight-line region)
					okBefore := false
					forEachInstr(fn, func(x ssa.Instruction) {
						if isResume(x) && InstrDominates(x, sc) {
							// nothing between may clear it: accept when no store of false to the same flag follows
							okBefore = true
						}
					})
					c.Check(okAfter || okBefore, ks.key("t2-stop-resumes@"+c.P.FuncName(fn)), c.Pos(sc), "stopping T2 is paired with a (re)emission request or the end of the association",
						"T2-shutdown is stopped on a path that neither requests a SHUTDOWN/SHUTDOWN-ACK (whose emission restarts T2) nor ends the association: "+c.P.InstrPos(bad))
				}
			}
		}})

	register(&Rule{ID: "C04.R11", Props: []string{"C04", "C09"}, Engine: "E2",
		Title:   "the connect call is answered only by the events that end a handshake: completeHandshake is called from COOKIE-ECHO / COOKIE-ACK processing (established, or establishing failed) and from the exhausted-retry callback, nowhere else — in particular not from a retransmission attempt that found nothing to send, which a late timer callback legitimately does",
		MinInst: 4,
		Run: func(c *RuleCtx) {
			ch := c.Fn("Association.completeHandshake")
			c.CallersWithin("handshake-result", ch, "Association.handleCookieEcho", "Association.handleCookieAck", "Association.onRetransmissionFailure")
		}})

	register(&Rule{ID: "C10.R9", Props: []string{"C10", "C04"}, Engine: "E2-dataflow",
		Title:   "the peer's receive window comes from the peer: in handleInit / handleInitAck the value given to setRWND is the advertisedReceiverWindowCredit of the chunk that was received (the handler's chunk parameter), never of the chunk being built in reply",
		MinInst: 2,
		Run: func(c *RuleCtx) {
			setR := c.Fn("Association.setRWND")
			arw := c.field("chunkInitCommon", "advertisedReceiverWindowCredit")
			for _, name := range []string{"Association.handleInit", "Association.handleInitAck"} {
				fn := c.Fn(name)
				n := 0
				for _, g := range c.P.Region(fn) {
					for _, sc := range callsIn(g, setR) {
						n++
						arg := unconv(callArg(sc, 1))
						_, base := loadedField(arg)
						ok := IsLoadOf(arw)(arg) && base != nil
						if ok {
							// base: &param.chunkInitCommon with param the received chunk (parameter index 2 of the handler)
							root := addrRoot(base)
							ok = false
							for d := 0; d < 4 && root != nil; d++ {
								if root == ssa.Value(fn.Params[2]) {
									ok = true
									break
								}
								p, isP := root.(*ssa.Parameter)
								if !isP || p.Parent() == fn {
									break
								}
								root = through(p) // a helper of the handler that was handed the chunk
								if root != nil {
									root = addrRoot(unconv(root))
								}
							}
						}
						c.Check(ok, "rwnd-from-received-chunk@"+name, c.Pos(sc), "setRWND(<received chunk>.advertisedReceiverWindowCredit)", "the peer's window is not taken from the received chunk's a_rwnd (e.g. from the reply being built: our own buffer size is then used as the peer's window until the first SACK)")
					}
				}
				c.Check(n >= 1, "rwnd-set-once@"+name, c.P.Pos(fn.Pos()), "one setRWND in the handler", fmt.Sprintf("%d setRWND calls", n))
			}
		}})
}

var _ = strings.Join

func init() {
	register(&Rule{ID: "C03.R13", Props: []string{"C03", "C06"}, Engine: "E3",
		Title:   "the unordered-fragment scan slices only an opened run: in findCompleteUnorderedChunkSet a run is declared complete (found = true) only on a path where a beginning fragment opened it (startIdx ≥ 0 is established), so the extraction unorderedChunks[startIdx : startIdx+n] can never start at −1 — whatever TSN a crafted tail fragment carries",
		MinInst: 2,
		Run: func(c *RuleCtx) {
			fn := c.Fn("reassemblyQueue.findCompleteUnorderedChunkSet")
			uc := c.field("reassemblyQueue", "unorderedChunks")
			// the start index of the extraction slice
			var starts []ssa.Value
			forEachInstr(fn, func(in ssa.Instruction) {
				if sl, ok := in.(*ssa.Slice); ok && IsLoadOf(uc)(sl.X) && sl.Low != nil && sl.High != nil {
					starts = append(starts, sl.Low)
				}
			})
			c.Check(len(starts) >= 1, "extract-site", c.P.Pos(fn.Pos()), fmt.Sprintf("%d extraction slice(s)", len(starts)), "no extraction slice unorderedChunks[a:b] found")
			// (a) path enumeration: the scan's control skeleton has four abstract states
			// ({run open?} × {complete?}); its effect per iteration does not depend on the
			// iteration number, so every reachable combination shows within three
			// iterations. On each enumerated path the loop index is a concrete number and
			// the start of the extraction folds to a constant.
			neg, unknown, seenPaths := "", 0, 0
			outs, und := c.P.PEval(fn, PEConfig{LoopBound: 3, MaxPaths: 20000, MaxSteps: 400000,
				Observe: func(in ssa.Instruction, get func(ssa.Value) constant.Value) {
					sl, ok := in.(*ssa.Slice)
					if !ok || !IsLoadOf(uc)(sl.X) || sl.Low == nil || sl.High == nil {
						return
					}
					seenPaths++
					v := get(sl.Low)
					if v == nil || v.Kind() != constant.Int {
						unknown++
						return
					}
					if constant.Sign(v) < 0 {
						neg = render(v)
					}
				}})
			switch {
			case und == "" && len(outs) > 0 && seenPaths > 0 && unknown == 0:
				c.Check(neg == "", "extract-start-nonneg", c.P.Pos(fn.Pos()), fmt.Sprintf("the extraction starts at a non-negative index on all %d enumerated paths that reach it (≤3 iterations; 4 abstract states)", seenPaths), "a path through the scan reaches the extraction with start index "+neg+": a crafted unordered tail fragment slices unorderedChunks["+neg+":…] and panics the read loop")
				return
			case neg != "":
				c.Fail("extract-start-nonneg", c.P.Pos(fn.Pos()), "a path through the scan reaches the extraction with start index "+neg+" (a crafted unordered tail fragment panics the read loop)")
				return
			}
			// (b) structural fallback when the start does not fold to a constant
			for _, st := range starts {
				// every value the start can take is ≥ 0: a non-negative constant / loop index, or −1 guarded away
				okAll := true
				why := ""
				for _, lf := range leavesWithFacts(st) {
					if k, isK := constInt(lf.Val); isK && k >= 0 {
						continue
					}
					if k, isK := constInt(lf.Val); isK && k < 0 {
						// the initial "no run" value may reach the slice only if excluded by a dominating test
						if DominatedByExt(st.(ssa.Instruction), CmpCond(token.GEQ, SameExpr(st), IsConstInt(0))) || DominatedByExt(st.(ssa.Instruction), CmpCond(token.GTR, SameExpr(st), IsConstInt(-1))) {
							continue
						}
						okAll, why = false, "the 'no run' value −1 can reach the extraction"
						continue
					}
					if valueNonNeg(c.P, lf.Val, 0) {
						continue
					}
					okAll, why = false, "start index "+shortValue(c.P, lf.Val)+" is not known to be non-negative"
				}
				if !okAll {
					// fall back to the flag protocol: the slice is reached only with found == true, and found is set only with the run open
					okAll = foundImpliesOpen(c, fn, st)
				}
				c.Check(okAll, "extract-start-nonneg", c.P.Pos(fn.Pos()), "the extraction never starts at a negative index", "the extraction can start at a negative index: "+why+" (a crafted unordered tail fragment panics the read loop)")
			}
		}})
}

// foundImpliesOpen: the extraction is dominated by a boolean flag φ being true
// that is merged in the same block as the start index φ; on every edge on which
// the flag can be true, the start index is non-negative (a loop index, or the
// carried start after a dominating "start < 0 ⇒ skip" test).
func foundImpliesOpen(c *RuleCtx, fn *ssa.Function, start ssa.Value) bool {
	sp, ok := start.(*ssa.Phi)
	if !ok {
		return false
	}
	var useBlk *ssa.BasicBlock
	for _, r := range *start.Referrers() {
		if sl, isSl := r.(*ssa.Slice); isSl && sl.Low == start {
			useBlk = sl.Block()
		}
	}
	if useBlk == nil {
		return false
	}
	for _, f := range DomFacts(useBlk) {
		fl, isPhi := f.Cond.(*ssa.Phi)
		if !isPhi || !f.Taken || fl.Block() != sp.Block() {
			continue
		}
		okAll := true
		n := 0
		for i, fe := range fl.Edges {
			if IsConstBool(false)(fe) {
				continue
			}
			n++
			e := sp.Edges[i]
			if lb, okL := indLower(e, map[*ssa.Phi]bool{}); okL && lb >= 0 {
				continue
			}
			if lb, okL := edgeBound(sp, i, e, false); okL && lb >= 0 {
				continue
			}
			okAll = false
		}
		if okAll && n > 0 {
			return true
		}
	}
	return false
}

// indLower: inductive lower bound of a counter: constants, x + non-negative
// constant, and φ over those (a φ met again on its own cycle is neutral).
func indLower(v ssa.Value, seen map[*ssa.Phi]bool) (int64, bool) {
	v = unconv(v)
	if k, ok := constInt(v); ok {
		return k, true
	}
	switch x := v.(type) {
	case *ssa.BinOp:
		if x.Op == token.ADD {
			if k, ok := constInt(x.Y); ok && k >= 0 {
				if lb, ok := indLower(x.X, seen); ok {
					return lb + k, true
				}
			}
		}
	case *ssa.Phi:
		if seen[x] {
			return 1 << 40, true
		}
		seen[x] = true
		defer delete(seen, x)
		lb := int64(1 << 40)
		for _, e := range x.Edges {
			k, ok := indLower(e, seen)
			if !ok {
				return 0, false
			}
			if k < lb {
				lb = k
			}
		}
		return lb, true
	}
	return 0, false
}

// readsAssocState: the value's operand tree (descending into in-package callees)
// reads a field of the Association or calls one of its state getters.
func readsAssocState(p *Prog, v ssa.Value, d int, seen map[ssa.Value]bool) (bool, string) {
	if v == nil || d > 10 || seen[v] {
		return false, ""
	}
	seen[v] = true
	isAssoc := func(t types.Type) bool {
		if pt, ok := t.Underlying().(*types.Pointer); ok {
			t = pt.Elem()
		}
		n, ok := t.(*types.Named)
		return ok && n.Obj().Name() == "Association"
	}
	switch x := v.(type) {
	case *ssa.FieldAddr:
		if isAssoc(x.X.Type()) {
			return true, "Association." + fieldOf(x.X.Type(), x.Field).Name()
		}
	case *ssa.Call:
		if sc := x.Call.StaticCallee(); sc != nil && sc.Pkg == p.SPkg {
			if sc.Signature.Recv() != nil && isAssoc(sc.Signature.Recv().Type()) {
				return true, p.FuncName(sc) + "()"
			}
			for _, r := range allReturns(sc) {
				for _, rv := range retResults(r) {
					if hit, w := readsAssocState(p, rv, d+1, seen); hit {
						return true, w
					}
				}
			}
		}
	}
	in, ok := v.(ssa.Instruction)
	if !ok {
		return false, ""
	}
	for _, op := range in.Operands(nil) {
		if *op == nil {
			continue
		}
		if hit, w := readsAssocState(p, *op, d+1, seen); hit {
			return true, w
		}
	}
	return false, ""
}

func init() {
	register(&Rule{ID: "C19.R12", Props: []string{"C19"}, Engine: "E3",
		Title:   "a HEARTBEAT is answered whatever the association state: the site in handleHeartbeat that builds the HEARTBEAT ACK is conditioned only on the request's own contents (parameter present and of the right type) — no dominating test reads an Association field or state getter (RFC 9260 §8.3: answered in every state a HEARTBEAT can be received in, including SHUTDOWN-RECEIVED while outstanding DATA drains)",
		MinInst: 1,
		Run: func(c *RuleCtx) {
			hh := c.Fn("Association.handleHeartbeat")
			hi := c.field("paramHeartbeatInfo", "heartbeatInformation")
			n := 0
			for _, a := range c.storesInRegion(hh, hi) {
				if !IsLoadOf(hi)(a.Val) {
					continue
				}
				n++
				var extra []string
				for _, f := range localFactsUpTo(a.Instr, hh) {
					if hit, w := readsAssocState(c.P, f.Cond, 0, map[ssa.Value]bool{}); hit {
						extra = append(extra, fmt.Sprintf("%s=%v (reads %s)", shortValue(c.P, f.Cond), f.Taken, w))
					}
				}
				c.Check(len(extra) == 0, "heartbeat-answered-in-every-state", c.Pos(a.Instr), "the HEARTBEAT ACK depends only on the request's contents", "the HEARTBEAT ACK is sent only if "+strings.Join(extra, " ∧ ")+": in the other states the peer's probe goes unanswered and yields no round-trip sample")
			}
			c.Check(n >= 1, "heartbeat-reply-site", c.P.Pos(hh.Pos()), fmt.Sprintf("%d reply site(s)", n), "no site echoing the request's Heartbeat Info found")
		}})
}

func init() {
	register(&Rule{ID: "C18.R9", Props: []string{"C18"}, Engine: "E3",
		Title:   "an armed read deadline outlives the reads that return before it: outside SetReadDeadline (which replaces the timer) the deadline goroutine's cancel channel is closed only once the read side has ended with an error (readErr ≠ nil dominates the close) — so a Read that returned data does not disarm the timer, and a later Read that blocks is still woken at the deadline instant",
		MinInst: 1,
		Run: func(c *RuleCtx) {
			srd := c.Fn("Stream.SetReadDeadline")
			rc := c.field("Stream", "readTimeoutCancel")
			re := c.field("Stream", "readErr")
			own := map[*ssa.Function]bool{srd: true}
			for _, g := range goTargetsIn(srd) {
				own[g] = true
			}
			ks := keyer{}
			n := 0
			for _, fn := range c.P.Funcs {
				if c.P.OwnedBy(fn, own) {
					continue
				}
				forEachInstr(fn, func(in ssa.Instruction) {
					ci, isCall := in.(ssa.CallInstruction)
					if !isCall {
						return
					}
					b, isB := ci.Common().Value.(*ssa.Builtin)
					if !isB || b.Name() != "close" || !IsLoadOf(rc)(ci.Common().Args[0]) {
						return
					}
					n++
					ok := DominatedByExt(in, CmpCond(token.NEQ, IsLoadOf(re), isNilConst))
					if !ok {
						// teardown: the terminal error is installed right before (unregisterStream): the read side ends here
						for _, a := range c.storesIn(fn, re) {
							if _, isK := a.Val.(*ssa.Const); !isK && InstrDominates(a.Instr, in) {
								ok = true
							}
						}
					}
					c.Check(ok, ks.key("deadline-survives-successful-read@"+c.P.FuncName(fn)), c.Pos(in), "cancelled only after the read side ended with an error", "the read-deadline timer is cancelled although no read error is latched: a later blocking Read is not woken at the deadline ("+c.describeConds(in)+")")
				})
			}
			c.Check(true, "cancel-sites", "", fmt.Sprintf("%d cancel site(s) outside SetReadDeadline", n), "")
		}})
}

// analysisRoots: fn itself, or (for a private helper) the functions that call it.
func analysisRoots(p *Prog, fn *ssa.Function, d int) []*ssa.Function {
	if d > 3 || !p.PrivateHelper(fn) {
		return []*ssa.Function{fn}
	}
	var out []*ssa.Function
	for _, s := range p.CallSitesOf(fn) {
		out = append(out, analysisRoots(p, s.Fn, d+1)...)
	}
	if len(out) == 0 {
		return []*ssa.Function{fn}
	}
	return out
}

func init() {
	register(&Rule{ID: "C18.R10", Props: []string{"C18", "C08"}, Engine: "E5",
		Title:   "the blocking-write gate is thrown open only when the association leaves ESTABLISHED: specialising every function that calls unblockPendingWrites over all entry states, the association state at the call can never be established (Shutdown: after →shutdownPending; close: after →closed; handleShutdown: after →shutdownReceived) — while established the gate is lowered solely by the drain notification, so a parked blocking Write cannot be let through with the previous message still pending",
		MinInst: 2,
		Run: func(c *RuleCtx) {
			e, err := c.P.States()
			if err != nil {
				panic(unresolved{err.Error()})
			}
			ub := c.Fn("Association.unblockPendingWrites")
			est := e.Set("established")
			ks := keyer{}
			n := 0
			for _, fn := range c.P.Funcs {
				for _, site := range callsIn(fn, ub) {
					n++
					bad := ""
					for _, root := range analysisRoots(c.P, fn, 0) {
						run := e.Run(root, e.all)
						s, reached := run.Reach[site]
						if !reached {
							if run.BlockReached(site.Block()) {
								bad = "UNDECIDED: state at the call not computed from " + c.P.FuncName(root)
							}
							continue
						}
						if s&est != 0 {
							bad = fmt.Sprintf("entered from %s the association may still be %s here", c.P.FuncName(root), e.String(s))
						}
					}
					c.Check(bad == "", ks.key("gate-opened-only-off-established@"+c.P.FuncName(fn)), c.Pos(site), "state ≠ established at the call", "unblockPendingWrites is called while the association can be established ("+bad+"): every parked blocking Write proceeds although the pending queue has not drained")
				}
			}
			c.Check(n >= 2, "unblock-sites", "", fmt.Sprintf("%d call site(s)", n), fmt.Sprintf("only %d call sites of unblockPendingWrites", n))
		}})
}

func init() {
	register(&Rule{ID: "C17.R9", Props: []string{"C17"}, Engine: "E2",
		Title:   "the configured stream weights survive scheduler re-initialisation: weightedFairQueueingPendingQueuePolicy.weights is written only while the policy is constructed from the configured weights — not by Reset(), which pendingQueue.setInterleaving calls on the freshly installed policy when interleaving is negotiated (otherwise every stream is served with weight 1 and normalised service diverges)",
		MinInst: 1,
		Run: func(c *RuleCtx) {
			w := c.field("weightedFairQueueingPendingQueuePolicy", "weights")
			n := c.WritersWithin("weights", w, "newWeightedFairQueueingPendingQueuePolicy")
			ctor := fnSet(c.fns("newWeightedFairQueueingPendingQueuePolicy"))
			ks := keyer{}
			for _, fn := range c.P.Funcs {
				if c.P.OwnedBy(fn, ctor) {
					continue
				}
				forEachInstr(fn, func(in ssa.Instruction) {
					mut := false
					switch x := in.(type) {
					case *ssa.MapUpdate:
						mut = IsLoadOf(w)(x.Map)
					case ssa.CallInstruction:
						if b, ok := x.Common().Value.(*ssa.Builtin); ok && (b.Name() == "delete" || b.Name() == "clear") && len(x.Common().Args) > 0 {
							mut = IsLoadOf(w)(x.Common().Args[0])
						}
					}
					if mut {
						c.Fail(ks.key("weights:mutate@"+c.P.FuncName(fn)), c.Pos(in), "the weights table is modified in "+c.P.FuncName(fn)+", outside the constructor")
					}
				})
			}
			c.Check(n >= 1, "weights-configured", "", fmt.Sprintf("%d write(s) of the weights table, all in the constructor", n), "the weights table is never filled from the configuration")
		}})
}

func init() {
	register(&Rule{ID: "C16.R7", Props: []string{"C16"}, Engine: "E6",
		Title:   "no sequence number has a special absolute value: a value classified as a TSN/SSN/MID/request-sequence number is never tested for (in)equality against a constant (a 0 that means 'not recorded' is also a position a wrapped counter legitimately takes; the reviewed exceptions compare a wire field that is defined to be zero)",
		MinInst: 1,
		Run: func(c *RuleCtx) {
			e := c.P.Serial()
			ks := keyer{}
			n := 0
			for _, fn := range c.P.Funcs {
				name := c.P.FuncName(fn)
				if isSnaHelper(name) {
					continue
				}
				forEachInstr(fn, func(in ssa.Instruction) {
					b, ok := in.(*ssa.BinOp)
					if !ok || (b.Op != token.EQL && b.Op != token.NEQ) {
						return
					}
					var ser, other ssa.Value
					switch {
					case e.kind[b.X] == serSerial:
						ser, other = b.X, b.Y
					case e.kind[b.Y] == serSerial:
						ser, other = b.Y, b.X
					default:
						return
					}
					n++
					if _, isK := constInt(unconv(other)); !isK {
						return
					}
					if fsn := c.P.Field("chunkPayloadData", "fragmentSequenceNumber"); fsn != nil && IsLoadOf(fsn)(ser) {
						// RFC 8260 §2.1: the FSN is not free-running; the first fragment of every message is FSN 0 by definition
						c.Ok(ks.key("fsn-origin@"+name), c.Pos(in), "FSN compared with its defined origin 0 (RFC 8260: the first fragment of a message carries FSN 0)")
						return
					}
					c.Fail(ks.key("sentinel-compare@"+name), c.Pos(in), fmt.Sprintf("sequence number %s compared with the constant %s: that absolute value is treated specially, so behaviour differs when the counter passes through it", shortValue(c.P, ser), shortValue(c.P, other)))
				})
			}
			c.Check(true, "equality-tests", "", fmt.Sprintf("%d (in)equality tests on sequence numbers examined", n), "")
		}})
}

func init() {
	register(&Rule{ID: "C11.R7", Props: []string{"C11", "C13", "C17", "C18", "C19", "C10"}, Engine: "E2-exhaustive",
		Title:   "every option reaches the association: Config.applyClient and Config.applyServer (the legacy Config acting as an option) copy every field of Config into the effective configuration (sibling agreement; reviewed role-specific exceptions), and every field of Config is read by the construction code — an option that is dropped on the way silently leaves a limit (message size, reassembly entries, RTO ceiling, zero-checksum, interleaving, scheduler weights …) at its default for that role",
		MinInst: 30,
		Run: func(c *RuleCtx) {
			cfgObj := c.P.Types.Scope().Lookup("Config")
			if cfgObj == nil {
				c.Unresolved("type Config")
				return
			}
			st, ok := cfgObj.Type().Underlying().(*types.Struct)
			if !ok {
				c.Unresolved("type Config struct")
				return
			}
			// role-specific fields, reviewed: which role does not take the option over, and why
			skip := map[string]map[string]string{
				"Config.applyServer": {"snapConfig": "out-of-band (SNAP) tokens are a client-side construction: Server() has no SNAP path"},
			}
			// options that only label diagnostics: no property among C01–C20 depends on them
			diag := map[string]bool{"Name": true, "LoggerFactory": true}
			for _, fnName := range []string{"Config.applyClient", "Config.applyServer"} {
				fn := c.Fn(fnName)
				written := map[string]bool{}
				for _, g := range c.P.Region(fn) {
					forEachInstr(g, func(in ssa.Instruction) {
						if s, ok := in.(*ssa.Store); ok {
							if fa, ok := s.Addr.(*ssa.FieldAddr); ok && isConfigType(fa.X.Type()) {
								if f := fieldOf(fa.X.Type(), fa.Field); f != nil {
									src := map[string]bool{}
									cfgSources(s.Val, 0, src, map[ssa.Value]bool{})
									if _, isK := s.Val.(*ssa.Const); isK || len(src) > 0 || valueFromCall(s.Val) {
										written[f.Name()] = true
									}
								}
							}
						}
					})
				}
				for i := 0; i < st.NumFields(); i++ {
					f := st.Field(i).Name()
					if diag[f] {
						continue
					}
					if why, isSkip := skip[fnName][f]; isSkip {
						c.Ok("cfg-copied:"+fnName+"."+f, c.P.Pos(fn.Pos()), "not taken over by this role (reviewed: "+why+")")
						continue
					}
					c.Check(written[f], "cfg-copied:"+fnName+"."+f, c.P.Pos(fn.Pos()), "option "+f+" is taken over", "option Config."+f+" is not copied by "+fnName+": an association configured through a Config value silently runs with the default")
				}
			}
			// every option is consumed somewhere outside the two copy functions
			copyFns := fnSet(c.fns("Config.applyClient", "Config.applyServer"))
			read := map[string]bool{}
			for _, fn := range c.P.Funcs {
				if c.P.OwnedBy(fn, copyFns) {
					continue
				}
				forEachInstr(fn, func(in ssa.Instruction) {
					switch x := in.(type) {
					case *ssa.FieldAddr:
						if isConfigType(x.X.Type()) {
							for _, r := range *x.Referrers() {
								if u, ok := r.(*ssa.UnOp); ok && u.Op == token.MUL {
									read[fieldOf(x.X.Type(), x.Field).Name()] = true
								}
								if _, ok := r.(*ssa.FieldAddr); ok {
									read[fieldOf(x.X.Type(), x.Field).Name()] = true
								}
							}
						}
					case *ssa.Field:
						if isConfigType(x.X.Type()) {
							read[fieldOf(x.X.Type(), x.Field).Name()] = true
						}
					}
				})
			}
			for i := 0; i < st.NumFields(); i++ {
				f := st.Field(i).Name()
				if diag[f] {
					continue
				}
				c.Check(read[f], "cfg-consumed:"+f, "", "option "+f+" is read by the construction code", "option Config."+f+" is never read outside the copy functions: setting it has no effect")
			}
		}})
}

func valueFromCall(v ssa.Value) bool {
	_, ok := unconv(v).(*ssa.Call)
	return ok
}

// nilReturns: indices of pointer results of fn that are the nil constant on some return,
// and for each, the index of a bool result that is constant false on all of those returns (-1 if none).
func nilReturns(fn *ssa.Function) map[int]int {
	out, _ := nilReturnsE(fn)
	return out
}

// nilReturnsE additionally gives, per nil-able result, the index of an error result
// that is non-nil on every return where the pointer is nil (-1 if none).
func nilReturnsE(fn *ssa.Function) (map[int]int, map[int]int) {
	out := map[int]int{}
	errs := map[int]int{}
	if fn == nil || fn.Blocks == nil {
		return out, errs
	}
	rets := allReturns(fn)
	nres := fn.Signature.Results().Len()
	for i := 0; i < nres; i++ {
		if _, isPtr := fn.Signature.Results().At(i).Type().Underlying().(*types.Pointer); !isPtr {
			continue
		}
		var nilRets []*ssa.Return
		for _, r := range rets {
			rs := retResults(r)
			if i < len(rs) && isNilConst(rs[i]) {
				nilRets = append(nilRets, r)
			}
		}
		if len(nilRets) == 0 {
			continue
		}
		okIdx := -1
		for j := 0; j < nres; j++ {
			if bt, isB := fn.Signature.Results().At(j).Type().Underlying().(*types.Basic); !isB || bt.Kind() != types.Bool {
				continue
			}
			all := true
			for _, r := range nilRets {
				rs := retResults(r)
				if j >= len(rs) || !IsConstBool(false)(rs[j]) {
					all = false
				}
			}
			if all {
				okIdx = j
			}
		}
		out[i] = okIdx
		errs[i] = -1
		for j := 0; j < nres; j++ {
			if fn.Signature.Results().At(j).Type().String() != "error" {
				continue
			}
			all := true
			for _, r := range nilRets {
				rs := retResults(r)
				if j >= len(rs) || isNilConst(rs[j]) {
					all = false
				}
				if j < len(rs) {
					if ph, isPhi := rs[j].(*ssa.Phi); isPhi {
						for _, e := range ph.Edges {
							if isNilConst(e) {
								all = false
							}
						}
					}
				}
			}
			if all {
				errs[i] = j
			}
		}
	}
	return out, errs
}

func init() {
	register(&Rule{ID: "C03.R14", Props: []string{"C03"}, Engine: "E3-nilness",
		Title:   "on inbound paths a pointer that can be nil is tested before it is dereferenced: (a) a variable that is nil unless a loop or branch assigned it (φ with a nil input: the State-Cookie parameter searched in an INIT-ACK, an optional RECONFIG parameter …), (b) the pointer result of an in-package lookup that returns nil (with ok=false) on a miss — the peer decides whether the item is present",
		MinInst: 10,
		Run: func(c *RuleCtx) {
			ks := keyer{}
			region := c.P.TransitiveCallees(c.Fn("Association.handleInbound"))
			region[c.Fn("Association.handleInbound")] = true
			check := func(fn *ssa.Function, v ssa.Value, okVal ssa.Value, what string, errVal ...ssa.Value) {
				bad := ""
				for _, u := range derefUses(v) {
					if len(errVal) == 1 && errVal[0] != nil && DominatedByExt(u, CmpCond(token.EQL, IsValue(errVal[0]), isNilConst)) {
						continue
					}
					if nilGuarded(u, v, okVal) || DominatedByExt(u, CmpCond(token.NEQ, IsValue(v), isNilConst)) {
						continue
					}
					if okVal != nil && DominatedByExt(u, BoolCond(IsValue(okVal), true)) {
						continue
					}
					bad = c.Pos(u)
				}
				// handed to an in-package callee that dereferences the parameter without a test
				if v.Referrers() != nil {
					for _, r := range *v.Referrers() {
						ci, isCall := r.(ssa.CallInstruction)
						if !isCall {
							continue
						}
						sc := ci.Common().StaticCallee()
						if sc == nil || !c.P.inPkg(sc) {
							continue
						}
						if nilGuarded(r, v, okVal) || DominatedByExt(r, CmpCond(token.NEQ, IsValue(v), isNilConst)) ||
							(okVal != nil && DominatedByExt(r, BoolCond(IsValue(okVal), true))) ||
							(len(errVal) == 1 && errVal[0] != nil && DominatedByExt(r, CmpCond(token.EQL, IsValue(errVal[0]), isNilConst))) {
							continue
						}
						for i, a := range ci.Common().Args {
							if a == v {
								if isBad, where := c.paramDerefUnguarded(sc, i, 0); isBad {
									bad = c.P.InstrPos(where) + " (inside " + c.P.FuncName(sc) + ")"
								}
							}
						}
					}
				}
				c.Check(bad == "", ks.key("nil-checked:"+what+"@"+c.P.FuncName(fn)), c.P.Pos(v.Pos()), "every dereference is dominated by a nil (or ok) test", what+" may be nil and is dereferenced at "+bad+" without a test: a crafted packet crashes the read loop")
			}
			// (c) optional pointer fields of the Association: nil until some handler fills them
			ctor := c.Fn("createAssociationFromConfigWithTsn")
			_, ast := c.P.NamedStruct("Association")
			optional := map[*types.Var]bool{}
			if ast != nil {
				for i := 0; i < ast.NumFields(); i++ {
					f := ast.Field(i)
					pt, isPtr := f.Type().Underlying().(*types.Pointer)
					if !isPtr {
						continue
					}
					if _, isStruct := pt.Elem().Underlying().(*types.Struct); !isStruct {
						continue
					}
					set := false
					for _, g := range c.P.Region(ctor) {
						for _, a := range c.storesIn(g, f) {
							if !isNilConst(a.Val) {
								set = true
							}
						}
					}
					if !set {
						optional[f] = true
					}
				}
			}
			for _, fn := range c.P.Funcs {
				if !region[fn] {
					continue
				}
				forEachInstr(fn, func(in ssa.Instruction) {
					ld, ok := in.(*ssa.UnOp)
					if !ok || ld.Op != token.MUL {
						return
					}
					f, base := loadedField(ld)
					if f == nil || !optional[f] || typeShort(base.Type()) != "*Association" {
						return
					}
					if len(derefUses(ld)) == 0 || storedFreshBefore(ld, f) {
						return
					}
					bad := ""
					for _, u := range derefUses(ld) {
						if DominatedByExt(u, CmpCond(token.NEQ, IsLoadOf(f), isNilConst)) {
							continue
						}
						bad = c.Pos(u)
					}
					c.Check(bad == "", ks.key("nil-checked:field "+f.Name()+"@"+c.P.FuncName(fn)), c.Pos(in), "every dereference is dominated by a nil test of the field", "Association."+f.Name()+" is nil until a handler fills it and is dereferenced at "+bad+" without a test: a chunk arriving in a state where it was never filled crashes the read loop")
				})
			}
			for _, fn := range c.P.Funcs {
				if !region[fn] {
					continue
				}
				forEachInstr(fn, func(in ssa.Instruction) {
					switch x := in.(type) {
					case *ssa.Phi:
						if _, isPtr := x.Type().Underlying().(*types.Pointer); !isPtr {
							return
						}
						hasNil := false
						for _, e := range x.Edges {
							if isNilConst(e) {
								hasNil = true
							}
						}
						if hasNil && (len(derefUses(x)) > 0 || passedToPkgCallee(c.P, x)) {
							check(fn, x, nil, "variable "+x.Comment)
						}
					case *ssa.Call:
						sc := x.Call.StaticCallee()
						if sc == nil || !c.P.inPkg(sc) {
							return
						}
						nr, ne := nilReturnsE(sc)
						if len(nr) == 0 {
							return
						}
						if sc.Signature.Results().Len() == 1 {
							if _, has := nr[0]; has && (len(derefUses(x)) > 0 || passedToPkgCallee(c.P, x)) {
								check(fn, x, nil, "result of "+c.P.FuncName(sc))
							}
							return
						}
						var exs = map[int]ssa.Value{}
						for _, r := range *x.Referrers() {
							if ex, isEx := r.(*ssa.Extract); isEx {
								exs[ex.Index] = ex
							}
						}
						for i, okIdx := range nr {
							v := exs[i]
							if v == nil || (len(derefUses(v)) == 0 && !passedToPkgCallee(c.P, v)) {
								continue
							}
							var okVal ssa.Value
							if okIdx >= 0 {
								okVal = exs[okIdx]
							}
							// an error result that is non-nil on the nil returns also guards
							var errVal ssa.Value
							if ne[i] >= 0 {
								errVal = exs[ne[i]]
							}
							check(fn, v, okVal, "result of "+c.P.FuncName(sc), errVal)
						}
					}
				})
			}
		}})
}

func passedToPkgCallee(p *Prog, v ssa.Value) bool {
	if v.Referrers() == nil {
		return false
	}
	for _, r := range *v.Referrers() {
		if ci, ok := r.(ssa.CallInstruction); ok {
			if sc := ci.Common().StaticCallee(); sc != nil && p.inPkg(sc) {
				for _, a := range ci.Common().Args {
					if a == v {
						return true
					}
				}
			}
		}
	}
	return false
}

func init() {
	register(&Rule{ID: "C03.R15", Props: []string{"C03"}, Engine: "E7",
		Title:   "chunk handlers index what they received only after checking its length: every index or slice expression in the Association's handle* functions (the code that consumes decoded chunks: parameter lists, cookie bytes, stream lists) is proven in bounds from the dominating checks by the linear prover",
		MinInst: 1,
		Run: func(c *RuleCtx) {
			region := map[*ssa.Function]bool{}
			roots := map[*ssa.Function]bool{}
			for _, fn := range c.P.Funcs {
				n := c.P.FuncName(fn)
				if strings.HasPrefix(n, "Association.handle") && fn.Parent() == nil {
					region[fn] = true
					roots[fn] = true
				}
				// ... and the free functions that inspect a decoded packet before the handlers see it (checkPacket):
				// a packet that is only a common header decodes to an empty chunk list
				if fn.Parent() == nil && fn.Signature.Recv() == nil && fn.Blocks != nil {
					for i := 0; i < fn.Signature.Params().Len(); i++ {
						if typeShort(fn.Signature.Params().At(i).Type()) == "*packet" {
							region[fn] = true
							roots[fn] = true
						}
					}
				}
			}
			ks := keyer{}
			for _, o := range c.P.LengthGuards(region, roots) {
				key := ks.key("bounds:" + c.P.FuncName(o.Fn) + ":" + o.What)
				c.Check(o.OK, key, c.Pos(o.Instr), "proven: "+o.Need.String()+" >= 0", "cannot prove "+o.What+" in bounds: need "+o.Need.String()+" >= 0 from the dominating checks (a crafted chunk panics the read loop); facts: "+o.Why)
			}
		}})
}

// resolveFreeVar: the value bound to a captured variable where the closure is created
// (a captured variable is a pointer to the slot: the stored value is returned when the
// slot has exactly one store).
func resolveFreeVar(p *Prog, v ssa.Value) ssa.Value {
	fv, ok := v.(*ssa.FreeVar)
	if !ok {
		return v
	}
	fn := fv.Parent()
	idx := -1
	for i, f := range fn.FreeVars {
		if f == fv {
			idx = i
		}
	}
	par := fn.Parent()
	if par == nil || idx < 0 {
		return v
	}
	var bound ssa.Value
	forEachInstr(par, func(in ssa.Instruction) {
		if mc, ok := in.(*ssa.MakeClosure); ok && mc.Fn == ssa.Value(fn) && idx < len(mc.Bindings) {
			bound = mc.Bindings[idx]
		}
	})
	if bound == nil {
		return v
	}
	return bound
}

// loadedThroughSlot: v is a load of a local slot (Alloc or captured variable) with a
// single store; returns the stored value.
func loadedThroughSlot(p *Prog, v ssa.Value) ssa.Value {
	for d := 0; d < 4; d++ {
		u, ok := v.(*ssa.UnOp)
		if !ok || u.Op != token.MUL {
			return v
		}
		slot := resolveFreeVar(p, u.X)
		al, isAlloc := slot.(*ssa.Alloc)
		if !isAlloc {
			return v
		}
		var stores []*ssa.Store
		var scan func(f *ssa.Function)
		scan = func(f *ssa.Function) {
			forEachInstr(f, func(in ssa.Instruction) {
				if st, ok := in.(*ssa.Store); ok && resolveFreeVar(p, st.Addr) == ssa.Value(al) {
					stores = append(stores, st)
				}
			})
			for _, an := range f.AnonFuncs {
				scan(an)
			}
		}
		scan(al.Parent())
		if len(stores) != 1 {
			return v
		}
		v = stores[0].Val
	}
	return v
}

// freshResult: every value fn can return is allocated by that call (an allocation, a
// composite literal, or the result of an in-package constructor that is itself fresh).
func freshResult(p *Prog, fn *ssa.Function, d int) (bool, string) {
	if fn == nil || fn.Blocks == nil || d > 3 {
		return false, "body not available"
	}
	for _, r := range allReturns(fn) {
		for _, rv := range retResults(r) {
			v := rv
			for {
				if mi, ok := v.(*ssa.MakeInterface); ok {
					v = mi.X
					continue
				}
				if ct, ok := v.(*ssa.ChangeType); ok {
					v = ct.X
					continue
				}
				break
			}
			if u, ok := v.(*ssa.UnOp); ok && u.Op == token.MUL {
				if _, isFV := u.X.(*ssa.FreeVar); isFV {
					return false, "returns the captured variable " + u.X.Name() + ", created once outside the call"
				}
				if g, isG := u.X.(*ssa.Global); isG {
					return false, "returns the package-level " + g.Name()
				}
			}
			v = loadedThroughSlot(p, v)
			switch x := v.(type) {
			case *ssa.Alloc:
				if x.Parent() != fn {
					return false, "returns an object allocated outside the call"
				}
			case *ssa.Call:
				sc := x.Call.StaticCallee()
				if sc == nil || !p.inPkg(sc) {
					return false, "returns the result of a call that cannot be followed"
				}
				if ok, why := freshResult(p, sc, d+1); !ok {
					return false, why
				}
			case *ssa.Const:
				// nil
			default:
				return false, "returns " + shortValue(p, v) + ", which outlives the call (captured, global or stored elsewhere)"
			}
		}
	}
	return true, ""
}

func init() {
	register(&Rule{ID: "C17.R10", Props: []string{"C17", "C01"}, Engine: "E2-alias",
		Title:   "a built-in scheduler factory hands every association its own scheduler: each function of this package stored in interleavingSettings.newStreamScheduler returns an object allocated by that very call (constructor result or literal) — never a captured or package-level instance, which every association created from the same option value would share as one pending-chunk store",
		MinInst: 2,
		Run: func(c *RuleCtx) {
			f := c.field("interleavingSettings", "newStreamScheduler")
			ks := keyer{}
			n := 0
			for _, fn := range c.P.Funcs {
				for _, a := range c.storesIn(fn, f) {
					v := a.Val
					for i := 0; i < 6; i++ {
						if ct, ok := v.(*ssa.ChangeType); ok {
							v = ct.X
						}
						v = loadedThroughSlot(c.P, resolveFreeVar(c.P, v))
						v = resolveFreeVar(c.P, v)
					}
					var fac *ssa.Function
					switch x := v.(type) {
					case *ssa.MakeClosure:
						fac, _ = x.Fn.(*ssa.Function)
					case *ssa.Function:
						fac = x
					}
					if fac == nil {
						// a caller-supplied factory or a copy of another settings value: not this package's to judge
						c.Ok(ks.key("factory-source@"+c.P.FuncName(fn)), c.Pos(a.Instr), "factory supplied by the caller / copied from another settings value")
						continue
					}
					n++
					ok, why := freshResult(c.P, fac, 0)
					c.Check(ok, ks.key("factory-fresh@"+c.P.FuncName(fn)), c.Pos(a.Instr), c.P.FuncName(fac)+" returns a scheduler allocated by the call", "the scheduler factory "+c.P.FuncName(fac)+" "+why+": associations built from the same option share one scheduler and send (or discard) each other's pending chunks")
				}
			}
			c.Check(n >= 2, "builtin-factories", "", fmt.Sprintf("%d built-in factories examined", n), fmt.Sprintf("only %d built-in factories found", n))
		}})
}

// readsAssocStateVar: the operand tree of v (descending into in-package callees' results
// and arguments) reads the association state (getState() or the state field).
func readsAssocStateVar(p *Prog, e *stateEngine, v ssa.Value, d int, seen map[ssa.Value]bool) bool {
	if v == nil || d > 10 || seen[v] {
		return false
	}
	seen[v] = true
	switch x := v.(type) {
	case *ssa.Call:
		if sc := x.Call.StaticCallee(); sc != nil {
			if sc == e.getState {
				return true
			}
			if p.inPkg(sc) && sc != e.getState {
				for _, r := range allReturns(sc) {
					for _, rv := range retResults(r) {
						if readsAssocStateVar(p, e, rv, d+1, seen) {
							return true
						}
					}
				}
			}
		}
	case *ssa.FieldAddr:
		if f := fieldOf(x.X.Type(), x.Field); f != nil && f.Name() == "state" && typeShort(x.X.Type()) == "*Association" {
			return true
		}
	}
	in, ok := v.(ssa.Instruction)
	if !ok {
		return false
	}
	for _, op := range in.Operands(nil) {
		if *op != nil && readsAssocStateVar(p, e, *op, d+1, seen) {
			return true
		}
	}
	return false
}

func init() {
	register(&Rule{ID: "C08.R7", Props: []string{"C08", "C07"}, Engine: "E3",
		Title:   "FORWARD-TSN / I-FORWARD-TSN are honoured in every state in which DATA can still be outstanding: in handleForwardTSN and handleIForwardTSN no test that dominates the cumulative-TSN advance or the per-stream skip reads the association state — a shutdown initiator in SHUTDOWN-SENT must still let the peer (draining in SHUTDOWN-RECEIVED) skip abandoned chunks, or the peer never empties its queue and the shutdown never completes",
		MinInst: 4,
		Run: func(c *RuleCtx) {
			e, err := c.P.States()
			if err != nil {
				panic(unresolved{err.Error()})
			}
			adv := c.Fn("Association.handlePeerLastTSNAndAcknowledgement")
			ks := keyer{}
			for _, hn := range []string{"Association.handleForwardTSN", "Association.handleIForwardTSN"} {
				h := c.Fn(hn)
				n := 0
				for _, g := range c.P.Region(h) {
					forEachInstr(g, func(in ssa.Instruction) {
						ci, ok := in.(ssa.CallInstruction)
						if !ok {
							return
						}
						sc := ci.Common().StaticCallee()
						if sc == nil {
							return
						}
						nm := c.P.FuncName(sc)
						if sc != adv && !strings.HasPrefix(nm, "Stream.handleForwardTSNFor") {
							return
						}
						n++
						var bad []string
						for _, f := range localFactsUpTo(in, h) {
							if readsAssocStateVar(c.P, e, f.Cond, 0, map[ssa.Value]bool{}) {
								bad = append(bad, fmt.Sprintf("%s=%v", shortValue(c.P, f.Cond), f.Taken))
							}
						}
						c.Check(len(bad) == 0, ks.key("forward-not-state-gated:"+nm+"@"+hn), c.Pos(in), "not conditioned on the association state", "the skip is applied only if "+strings.Join(bad, " ∧ ")+": in the other states abandoned chunks are never skipped, the peer's queue never drains and a graceful shutdown hangs")
					})
				}
				c.Check(n >= 2, "forward-sites@"+hn, c.P.Pos(h.Pos()), fmt.Sprintf("%d advance/skip sites", n), fmt.Sprintf("only %d advance/skip sites found in %s", n, hn))
			}
		}})
}

// serialSituations: the set of serial positions of (x vs ref) consistent with the facts:
// sna helper calls and plain (in)equalities on the two values.
func serialSituations(facts []condFact, xPat, refPat VPat) int {
	s := snaAll
	for _, f := range facts {
		switch x := f.Cond.(type) {
		case *ssa.Call:
			if len(x.Call.Args) != 2 {
				continue
			}
			_, rel, isSna := snaHelper(x.Call.StaticCallee())
			if !isSna {
				continue
			}
			a, b := x.Call.Args[0], x.Call.Args[1]
			switch {
			case xPat(a) && refPat(b):
				s &= snaSet(rel, f.Taken)
			case refPat(a) && xPat(b):
				s &= snaMirror(snaSet(rel, f.Taken))
			}
		case *ssa.BinOp:
			if x.Op != token.EQL && x.Op != token.NEQ {
				continue
			}
			if !(xPat(x.X) && refPat(x.Y) || refPat(x.X) && xPat(x.Y)) {
				continue
			}
			eq := (x.Op == token.EQL) == f.Taken
			if eq {
				s &= snaEqual
			} else {
				s &= snaAll &^ snaEqual
			}
		}
	}
	return s
}

func snaSetName(s int) string {
	var p []string
	for _, x := range []struct {
		b int
		n string
	}{{snaBefore, "before"}, {snaEqual, "equal"}, {snaAfter, "after"}, {snaAntipode, "antipode"}} {
		if s&x.b != 0 {
			p = append(p, x.n)
		}
	}
	return "{" + strings.Join(p, ",") + "}"
}

func init() {
	register(&Rule{ID: "C07.R8", Props: []string{"C07", "C01", "C14"}, Engine: "E6-sibling",
		Title:   "readability and read agree on the ordered head: the serial positions of the head set's SSN (MID) relative to nextSSN (nextMID) for which isReadable() answers true are exactly those for which read() dequeues it — isReadable only gates the wake-up, so a narrower test (== instead of ≤) leaves a reader asleep behind a complete message that a FORWARD-TSN has already skipped past, with every later message queued behind it",
		MinInst: 2,
		Run: func(c *RuleCtx) {
			ir, rd := c.Fn("reassemblyQueue.isReadable"), c.Fn("reassemblyQueue.read")
			type pair struct {
				name      string
				x, ref    *types.Var
				container *types.Var
			}
			pairs := []pair{
				{"ssn", c.field("chunkSet", "ssn"), c.field("reassemblyQueue", "nextSSN"), c.field("reassemblyQueue", "ordered")},
				{"mid", c.field("chunkSetMID", "mid"), c.field("reassemblyQueue", "nextMID"), c.field("reassemblyQueue", "orderedMID")},
			}
			// complete unordered messages are readable as soon as one is queued
			for _, cn := range []string{"unordered", "unorderedMID"} {
				cf := c.field("reassemblyQueue", cn)
				dequeues := len(c.storesInRegion(rd, cf)) > 0
				found := false
				for _, r := range allReturns(ir) {
					for _, lf := range leavesWithFacts(retResults(r)[0]) {
						if IsConstBool(false)(lf.Val) {
							continue
						}
						facts := append(append([]condFact{}, lf.Facts...), DomFactsX(r.Block())...)
						if _, isK := lf.Val.(*ssa.Const); !isK {
							cc, tt := normCond(lf.Val, true)
							facts = append(facts, condFact{cc, tt})
						}
						for _, f := range facts {
							if CmpCond(token.GTR, lenOf(cf, nil), IsConstInt(0))(f.Cond, f.Taken) || CmpCond(token.NEQ, lenOf(cf, nil), IsConstInt(0))(f.Cond, f.Taken) || CmpCond(token.GEQ, lenOf(cf, nil), IsConstInt(1))(f.Cond, f.Taken) {
								found = true
							}
						}
					}
				}
				c.Check(!dequeues || found, "readable-when-queued:"+cn, c.P.Pos(ir.Pos()), "a non-empty "+cn+" list makes the stream readable", "read() dequeues from "+cn+" but isReadable() never answers true because that list is non-empty: a complete unordered message wakes nobody")
			}
			for _, pr := range pairs {
				xp, rp := IsLoadOf(pr.x), IsLoadOf(pr.ref)
				readable := 0
				for _, g := range c.P.Region(ir) {
					for _, r := range allReturns(g) {
						if g != ir {
							continue
						}
						for _, lf := range leavesWithFacts(retResults(r)[0]) {
							if IsConstBool(false)(lf.Val) {
								continue
							}
							facts := append(append([]condFact{}, lf.Facts...), DomFactsX(r.Block())...)
							if _, isK := lf.Val.(*ssa.Const); !isK {
								cc, tt := normCond(lf.Val, true)
								facts = append(facts, condFact{cc, tt})
							}
							if s := serialSituations(facts, xp, rp); s != snaAll {
								readable |= s
							}
						}
					}
				}
				dequeued := 0
				for _, a := range c.storesInRegion(rd, pr.container) {
					s := serialSituations(DomFactsX(a.Instr.Block()), xp, rp)
					if s != snaAll {
						dequeued |= s
					}
				}
				_ = dequeued
				mask := snaAll &^ snaAntipode // RFC 1982 leaves the half-space distance undefined
				c.Check(readable != 0 && dequeued != 0 && readable&mask == dequeued&mask, "readable-iff-dequeued:"+pr.name, c.P.Pos(ir.Pos()),
					"both accept head "+pr.name+" "+snaSetName(readable&mask)+" relative to the next expected",
					"isReadable answers true for head "+pr.name+" "+snaSetName(readable&mask)+" but read dequeues it for "+snaSetName(dequeued&mask)+": in the difference a complete message is deliverable yet no reader is woken")
			}
		}})
}

func init() {
	register(&Rule{ID: "C06.R7", Props: []string{"C06", "C19"}, Engine: "E2-dataflow",
		Title:   "elapsed time is compared at the resolution of the limit: a Duration's Seconds()/Minutes()/Hours() is scaled (×1000 for the millisecond lifetime and RTT values) before any conversion to an integer — converting first truncates to whole seconds, so a timed-reliability chunk whose 300 ms lifetime has expired is still 'young' until the next full second and keeps being retransmitted",
		MinInst: 2,
		Run: func(c *RuleCtx) {
			ks := keyer{}
			isDurFloat := func(v ssa.Value) bool {
				call, ok := v.(*ssa.Call)
				if !ok {
					return false
				}
				sc := call.Call.StaticCallee()
				if sc == nil || sc.Pkg == nil || sc.Pkg.Pkg.Path() != "time" {
					return false
				}
				switch sc.Name() {
				case "Seconds", "Minutes", "Hours":
					return true
				}
				return false
			}
			for _, fn := range c.P.Funcs {
				forEachInstr(fn, func(in ssa.Instruction) {
					call, ok := in.(*ssa.Call)
					if !ok || !isDurFloat(call) {
						return
					}
					bad := ""
					for _, r := range *call.Referrers() {
						if cv, isCv := r.(*ssa.Convert); isCv && isIntType(cv.Type()) && cv.Referrers() != nil {
							for _, u := range *cv.Referrers() {
								if _, isB := u.(*ssa.BinOp); isB { // used in arithmetic or a comparison (not merely printed)
									bad = c.Pos(cv)
								}
							}
						}
					}
					c.Check(bad == "", ks.key("scaled-before-truncation@"+c.P.FuncName(fn)), c.Pos(in), "the float duration is scaled or used as a float, not truncated first", "a Duration's float value is converted to an integer at "+bad+" before it is scaled: sub-second precision is lost (limits that are not a multiple of one second are enforced late)")
				})
			}
		}})
}

// storedFreshBefore: in the load's block, the closest preceding write of field f stores a
// freshly allocated object and no call lies between that store and the load.
func storedFreshBefore(ld *ssa.UnOp, f *types.Var) bool {
	b := ld.Block()
	idx := -1
	for i, in := range b.Instrs {
		if in == ssa.Instruction(ld) {
			idx = i
		}
	}
	for i := idx - 1; i >= 0; i-- {
		switch x := b.Instrs[i].(type) {
		case *ssa.Store:
			if fieldOfAddr(x.Addr) == f {
				_, isAlloc := x.Val.(*ssa.Alloc)
				return isAlloc
			}
		case ssa.CallInstruction:
			return false
		}
	}
	return false
}
