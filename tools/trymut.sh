#!/bin/bash
# usage: trymut.sh <props (comma)> <file> <python-regex-old> <new>   — analyse a one-edit scratch variant (never executed)
set -e
S=$(mktemp -d /tmp/mut.XXXXXX)
rsync -a --exclude .git /repo/ $S/
python3 - "$S/$2" "$3" "$4" <<'PY'
import sys,re
f,old,new=sys.argv[1:4]
s=open(f).read()
n=len(re.findall(old,s,flags=re.S))
if n!=1:
    print("PATTERN MATCHES",n,"times"); sys.exit(3)
open(f,'w').write(re.sub(old,new,s,count=1,flags=re.S))
PY
(cd $S && GOFLAGS=-mod=mod GOPROXY=off go build ./... ) || { echo "DOES NOT COMPILE"; rm -rf $S; exit 4; }
for p in ${1//,/ }; do
  /verif/bin/sctpverif check $p --repo $S --no-evidence 2>&1 | grep -v "^discharged" | cut -c1-260 | tail -6
done
rm -rf $S
