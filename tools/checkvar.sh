#!/bin/bash
# usage: checkvar.sh <variant name e.g. R01-r3 | v4> [props...] — analyse /repo + the preserving variant (no tests run); any output line is a false alarm
set -u
V=$1; shift
P=/verif/variants/preserving/agents/$V/patch.diff
[ -f $P ] || P=$(ls /verif/variants/preserving/${V}*.diff | head -1)
S=$(mktemp -d /tmp/varchk.XXXXXX); trap 'rm -rf $S' EXIT
rsync -a --exclude .git /repo/ $S/
(cd $S && patch -p1 -s < $P) || { echo "APPLY FAIL"; exit 2; }
if [ "${KEEP:-}" != "" ]; then trap - EXIT; echo "kept $S"; fi
if [ $# -eq 0 ]; then /verif/bin/sctpverif all --repo $S --no-evidence 2>&1 | grep -E "^(VIOLATION|UNRESOLVED) +C" | sort -u | cut -c1-${W:-400} | head -${N:-12}
else for p in "$@"; do /verif/bin/sctpverif check $p --repo $S --no-evidence 2>&1 | grep -E "^(VIOLATION|UNRESOLVED) +C" | sort -u | cut -c1-${W:-400} | head -${N:-12}; done; fi
