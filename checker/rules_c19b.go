package main

import (
	"fmt"
	"go/constant"
	"go/token"
	"go/types"

	"golang.org/x/tools/go/ssa"
)

// appendedElems: values appended one at a time (append(s, v)) in fn, with the append call.
func appendedElems(fn *ssa.Function) map[*ssa.Call][]ssa.Value {
	out := map[*ssa.Call][]ssa.Value{}
	forEachInstr(fn, func(in ssa.Instruction) {
		call, ok := in.(*ssa.Call)
		if !ok {
			return
		}
		b, ok := call.Call.Value.(*ssa.Builtin)
		if !ok || b.Name() != "append" || len(call.Call.Args) != 2 {
			return
		}
		sl, ok := call.Call.Args[1].(*ssa.Slice)
		if !ok {
			return
		}
		al, ok := sl.X.(*ssa.Alloc)
		if !ok {
			return
		}
		for _, r := range *al.Referrers() {
			ia, ok := r.(*ssa.IndexAddr)
			if !ok {
				continue
			}
			for _, r2 := range *ia.Referrers() {
				if st, ok := r2.(*ssa.Store); ok && st.Addr == ia {
					out[call] = append(out[call], st.Val)
				}
			}
		}
	})
	return out
}

func init() {
	register(&Rule{ID: "C19.R9", Props: []string{"C19", "C05"}, Engine: "E5b",
		Title:   "end-of-packet acknowledgement decision table (exhaustive over immediateAckTriggered × delayedAckTriggered): an immediate trigger always wins (ackState=immediate, ack timer stopped, writer woken, timer not armed); only a delayed trigger alone arms the 200 ms timer; no trigger changes nothing",
		MinInst: 4,
		Run: func(c *RuleCtx) {
			hce := c.Fn("Association.handleChunksEnd")
			imm, del := c.field("Association", "immediateAckTriggered"), c.field("Association", "delayedAckTriggered")
			ack := c.field("Association", "ackState")
			kImm, kDel := c.P.Const("ackStateImmediate"), c.P.Const("ackStateDelay")
			if kImm == nil || kDel == nil {
				c.Unresolved("ackStateImmediate/ackStateDelay constants")
				return
			}
			opaque := map[*ssa.Function]bool{c.Fn("Association.awakeWriteLoop"): true, c.Fn("ackTimer.start"): true, c.Fn("ackTimer.stop"): true}
			b := func(x bool) constant.Value { return constant.MakeBool(x) }
			for _, tc := range []struct{ imm, del bool }{{false, false}, {false, true}, {true, false}, {true, true}} {
				key := fmt.Sprintf("ack-decision:immediate=%v,delayed=%v", tc.imm, tc.del)
				outs, und := c.P.PEval(hce, PEConfig{Fields: map[*types.Var]constant.Value{imm: b(tc.imm), del: b(tc.del)}, Opaque: opaque})
				if und != "" || len(outs) == 0 {
					c.Fail(key, c.P.Pos(hce.Pos()), "UNDECIDED: "+und)
					continue
				}
				why := ""
				for _, o := range outs {
					nStart, nStop, nWake := len(o.Called("ackTimer.start")), len(o.Called("ackTimer.stop")), len(o.Called("Association.awakeWriteLoop"))
					st := o.Stores[ack]
					switch {
					case tc.imm:
						if !o.Stored[ack] || st == nil || !constant.Compare(st, token.EQL, kImm.Val()) || nStop != 1 || nWake != 1 || nStart != 0 {
							why = fmt.Sprintf("immediate trigger: ackState=%s stop=%d wake=%d start=%d (want immediate,1,1,0): the SACK reporting a gap/duplicate would wait for the delayed-ack timer", render(st), nStop, nWake, nStart)
						}
					case tc.del:
						if !o.Stored[ack] || st == nil || !constant.Compare(st, token.EQL, kDel.Val()) || nStart != 1 || nStop != 0 {
							why = fmt.Sprintf("delayed trigger only: ackState=%s start=%d stop=%d (want delay,1,0)", render(st), nStart, nStop)
						}
					default:
						if o.Stored[ack] || nStart+nStop+nWake != 0 {
							why = fmt.Sprintf("no trigger: ackState stored=%v start=%d stop=%d wake=%d (want nothing)", o.Stored[ack], nStart, nStop, nWake)
						}
					}
				}
				c.Check(why == "", key, c.P.Pos(hce.Pos()), "decision as specified", why)
			}
		}})

	register(&Rule{ID: "C19.R10", Props: []string{"C19", "C06"}, Engine: "E3",
		Title:   "every transmission is counted (Karn's rule needs it): wherever a DATA chunk is selected for (re)transmission — appended to the outgoing set of the T3, fast-retransmit paths, or moved in flight — the same chunk's nSent is updated on every path to that point, so a retransmitted chunk can never present nSent==1 to the RTT sampler",
		MinInst: 3,
		Run: func(c *RuleCtx) {
			nSent := c.field("chunkPayloadData", "nSent")
			ks := keyer{}
			for _, name := range []string{"Association.getDataPacketsToRetransmit", "Association.gatherOutboundFastRetransmissionPackets"} {
				fn := c.Fn(name)
				n := 0
				for call, elems := range appendedElems(fn) {
					for _, v := range elems {
						if typeShort(v.Type()) != "*chunkPayloadData" {
							continue
						}
						n++
						counted := false
						for _, a := range c.storesIn(fn, nSent) {
							if a.FA.(*ssa.FieldAddr).X == v && (InstrDominates(a.Instr, call) || a.Instr.Block() == call.Block()) && BinV(token.ADD, IsLoadOf(nSent), IsConstInt(1))(a.Val) {
								counted = true
							}
						}
						c.Check(counted, ks.key("counted-before-send@"+name), c.Pos(call), "the chunk appended to the outgoing set has nSent++ on every path", "a chunk is handed to the wire on a path that does not increment its nSent (an ack of the retransmission would be taken as an RTT sample)")
					}
				}
				c.Check(n >= 1, "send-sites@"+name, c.P.Pos(fn.Pos()), fmt.Sprintf("%d selection site(s)", n), "no append of a chunk to the outgoing set found (anchor lost)")
			}
			// RTT sampling sites are guarded by nSent == 1 (C19.R2 covers the sampler; here: the guard reads the same field)
			mv := c.Fn("Association.movePendingDataChunkToInflightQueue")
			first := false
			for _, a := range c.storesIn(mv, nSent) {
				if IsConstInt(1)(a.Val) && len(DomFacts(a.Instr.Block())) == 0 {
					first = true
				}
			}
			c.Check(first, "first-send-sets-1", c.P.Pos(mv.Pos()), "first transmission unconditionally sets nSent=1", "first transmission does not set nSent=1 unconditionally")
		}})
}
