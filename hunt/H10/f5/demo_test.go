package sctp

import (
	"errors"
	"testing"
	"time"

	"github.com/stretchr/testify/require"
)

// SetReadDeadline(extended) racing with the expiry of the previous deadline:
// the expiring timer goroutine has already passed its cancellation check and is
// waiting for the stream lock when the new SetReadDeadline call runs. When the
// timer goroutine finally gets the lock it (a) reports a timeout although the
// deadline now lies one hour in the future and (b) erases the new deadline's
// cancel channel.
//
// The schedule is forced by holding the stream mutex from the test for the
// duration of the race window (any of ReadSCTP / handleData / BufferedAmount ...
// holding it has the same effect in production).
func TestZZSetReadDeadlineExtendRacesExpiry(t *testing.T) {
	a := createTestAssociation(t, Config{})
	a.lock.Lock()
	s := a.createStream(1, false)
	a.lock.Unlock()

	require.NoError(t, s.SetReadDeadline(time.Now().Add(100*time.Millisecond)))

	s.lock.Lock() // something holds the stream lock across the expiry instant

	extended := make(chan struct{})
	go func() {
		// called ~50ms BEFORE the old deadline expires
		_ = s.SetReadDeadline(time.Now().Add(time.Hour))
		close(extended)
	}()
	time.Sleep(250 * time.Millisecond) // old timer fires at ~100ms and queues for the lock
	s.lock.Unlock()
	<-extended
	time.Sleep(50 * time.Millisecond) // let the old timer goroutine finish

	// The deadline is now one hour away. A Read must block (no data), not time out.
	done := make(chan error, 1)
	go func() {
		_, _, err := s.ReadSCTP(make([]byte, 8))
		done <- err
	}()
	select {
	case err := <-done:
		s.lock.RLock()
		cancelNil := s.readTimeoutCancel == nil
		s.lock.RUnlock()
		t.Fatalf("Read returned %v although the read deadline was extended to +1h before it expired (new cancel channel erased: %v)",
			err, cancelNil)
	case <-time.After(500 * time.Millisecond):
		// expected: still blocked. Unblock for cleanup.
		a.lock.Lock()
		a.unregisterStream(s, errors.New("cleanup"))
		a.lock.Unlock()
		<-done
	}
}
