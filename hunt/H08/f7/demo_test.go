package sctp

import (
	"testing"

	"github.com/stretchr/testify/assert"
	"github.com/stretchr/testify/require"
)

// Finding 7 (C12, borderline): a chunk of a type the decoder does not know makes
// packet.unmarshal fail for the WHOLE packet, whatever the two high-order bits of the type
// say (RFC 9260 3.2: 10/11 = "skip this chunk and continue processing"). A perfectly valid
// chunk is therefore decoded when alone and not decoded at all when e.g. a PAD chunk
// (0x84, RFC 4820, used for path-MTU probing together with HEARTBEAT) is bundled with it.
func TestZZHunt7_UnknownSkippableChunkKillsBundle(t *testing.T) {
	hdr := []byte{0x13, 0x88, 0x13, 0x88, 0, 0, 0, 1, 0, 0, 0, 0}
	hb := []byte{byte(ctHeartbeat), 0, 0, 12, 0, 1, 0, 8, 1, 2, 3, 4}
	pad := []byte{0x84, 0, 0, 8, 0, 0, 0, 0} // PAD chunk, action bits 10: skip silently

	alone := &packet{}
	require.NoError(t, alone.unmarshal(false, append(append([]byte{}, hdr...), hb...)))
	require.Len(t, alone.chunks, 1)

	for name, raw := range map[string][]byte{
		"HEARTBEAT,PAD": append(append(append([]byte{}, hdr...), hb...), pad...),
		"PAD,HEARTBEAT": append(append(append([]byte{}, hdr...), pad...), hb...),
	} {
		p := &packet{}
		err := p.unmarshal(false, raw)
		if assert.NoErrorf(t, err, "%s: the HEARTBEAT is no longer decoded because of the chunk bundled with it", name) {
			found := false
			for _, c := range p.chunks {
				if h, ok := c.(*chunkHeartbeat); ok {
					found = true
					assert.Equal(t, alone.chunks[0].(*chunkHeartbeat).params, h.params) //nolint:forcetypeassert
				}
			}
			assert.True(t, found, "%s: HEARTBEAT missing", name)
		}
	}
}
