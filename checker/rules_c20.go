package main

import (
	"fmt"
	"go/types"
	"sort"
	"strings"

	"golang.org/x/tools/go/ssa"
)

// guardSpec: struct -> lock class guarding its (non-exempt) fields.
var guardOf = map[string]string{
	"Association":         "Association.lock",
	"receivePayloadQueue": "Association.lock",
	"payloadQueue":        "Association.lock",
	"pendingQueue":        "Association.lock",
	"controlQueue":        "Association.lock",
	"Stream":              "Stream.lock",
	"reassemblyQueue":     "Stream.lock",
	"rtxTimer":            "rtxTimer.mutex",
	"ackTimer":            "ackTimer.mutex",
	"rtoManager":          "rtoManager.mutex",
}

// fieldGuardOverride: fields guarded by a different lock than their struct's default.
var fieldGuardOverride = map[string]string{
	"Association.rackDeadline": "Association.timerMu",
	"Association.ptoDeadline":  "Association.timerMu",
}

// reviewedUnguarded: field -> reason an unguarded access is accepted.
var reviewedUnguarded = map[string]string{
	"Association.useInterleaving":  "written only while negotiating (handshake handlers under the lock, before any stream can write); Stream.packetize/WriteSCTP read it under Stream.lock only",
	"Association.maxPayloadSize":   "same life cycle as useInterleaving",
	"Association.netConnCloseErr":  "written inside netConnCloseOnce.Do, read after Do returns (Once gives the happens-before)",
	"Association.ackMode":          "test-only knob",
	"Association.recvZeroChecksum": "written at construction and, for out-of-band tokens, in initWithOutOfBandTokens strictly before `go a.readLoop()` (the go statement gives the happens-before; the read loop is the only reader) — C13.R3 restricts the writers to those two functions and checks that no go statement can reach the write",
	"Stream.streamIdentifier":      "set at creation only",
	"reassemblyQueue.nBytes":       "atomic",
	"rtxTimer.timer":               "set at construction; time.Timer is itself synchronised",
	"ackTimer.timer":               "set at construction",
	"rtoManager.noUpdate":          "test-only knob, under the mutex where written",
}

func init() {
	register(&Rule{ID: "C20.R1", Props: []string{"C20"}, Engine: "E4",
		Title:   "guarded-field discipline: every access to a mutable field of Association, its queues, Stream, the reassembly queue and the timers happens with the owning lock held in every calling context (write mode for stores); exempt: atomics, fields written only in constructors, reviewed entries",
		MinInst: 250,
		Run: func(c *RuleCtx) {
			le := c.P.Locks()
			ks := keyer{}
			ctors := map[string]bool{"createAssociationFromConfigWithTsn": true, "newReceivePayloadQueue": true, "newPayloadQueue": true, "newPendingQueue": true,
				"newControlQueue": true, "newReassemblyQueue": true, "newRTXTimer": true, "newAckTimer": true, "newRTOManager": true, "Association.createStream": true}
			var structs []string
			for s := range guardOf {
				structs = append(structs, s)
			}
			sort.Strings(structs)
			for _, sn := range structs {
				_, st := c.P.NamedStruct(sn)
				if st == nil {
					c.Unresolved("struct " + sn)
					continue
				}
				for i := 0; i < st.NumFields(); i++ {
					f := st.Field(i)
					fq := sn + "." + f.Name()
					if isSyncType(f.Type()) {
						continue
					}
					accs := c.P.Accesses(f)
					if len(accs) == 0 {
						continue
					}
					// classification
					atomic, plain := 0, 0
					writersOutsideCtor := 0
					for _, a := range accs {
						switch a.Kind {
						case AccAtomicRead, AccAtomicWrite:
							atomic++
						default:
							plain++
						}
						if (a.Kind == AccWrite || a.Kind == AccAddrEscape) && !ctors[c.P.FuncName(enclosingNamed(a.Fn))] {
							writersOutsideCtor++
						}
					}
					if atomic > 0 {
						continue // R2 checks consistency
					}
					if _, isMap := f.Type().Underlying().(*types.Map); isMap && writersOutsideCtor == 0 {
						// the map header is fixed but its contents are mutated: every load is a guarded access
						for _, a := range accs {
							v, ok := a.Instr.(ssa.Value)
							if !ok || v.Referrers() == nil {
								continue
							}
							for _, r := range *v.Referrers() {
								switch x := r.(type) {
								case *ssa.MapUpdate:
									writersOutsideCtor++
								case ssa.CallInstruction:
									if b, ok := x.Common().Value.(*ssa.Builtin); ok && b.Name() == "delete" {
										writersOutsideCtor++
									}
								}
							}
						}
					}
					if writersOutsideCtor == 0 {
						c.Ok("immutable:"+fq, c.P.Pos(f.Pos()), "written only in its constructor: reads need no lock")
						continue
					}
					guard := guardOf[sn]
					if g, ok := fieldGuardOverride[fq]; ok {
						guard = g
					}
					if why, ok := reviewedUnguarded[fq]; ok {
						c.Ok("reviewed:"+fq, c.P.Pos(f.Pos()), "reviewed: "+why)
						continue
					}
					for _, a := range accs {
						fn := enclosingNamed(a.Fn)
						if ctors[c.P.FuncName(fn)] {
							continue
						}
						held := le.HeldAt(a.Instr)
						if len(held) == 0 {
							continue // not reachable from any entry point
						}
						needW := a.Kind == AccWrite || a.Kind == AccAddrEscape
						if v, ok := a.Instr.(ssa.Value); ok && v.Referrers() != nil && a.Kind == AccRead {
							for _, r := range *v.Referrers() {
								switch x := r.(type) {
								case *ssa.MapUpdate:
									needW = true
								case ssa.CallInstruction:
									if b, ok := x.Common().Value.(*ssa.Builtin); ok && b.Name() == "delete" {
										needW = true
									}
								}
							}
						}
						bad := ""
						for ctx, ls := range held {
							if le.ChainHas(a.Fn, ctx, func(f *ssa.Function) bool { return ctors[c.P.FuncName(f)] }) {
								continue // reached from a constructor: object not yet published
							}
							if !le.Holds(ls, guard, needW) {
								bad = fmt.Sprintf("holding %s via %s", le.String(ls), le.Witness(a.Fn, ctx))
							}
						}
						key := ks.key(fmt.Sprintf("guarded:%s@%s", fq, c.P.FuncName(a.Fn)))
						mode := "read"
						if needW {
							mode = "write"
						}
						c.Check(bad == "", key, c.Pos(a.Instr), fmt.Sprintf("%s under %s in %d context(s)", mode, guard, len(held)),
							fmt.Sprintf("%s of %s without %s: %s", mode, fq, guard, bad))
					}
				}
			}
		}})

	register(&Rule{ID: "C20.R2", Props: []string{"C20"}, Engine: "E2",
		Title:   "atomics are used consistently: a field touched through sync/atomic anywhere is touched only so (constructor initialisation excepted)",
		MinInst: 10,
		Run: func(c *RuleCtx) {
			ks := keyer{}
			for _, sn := range []string{"Association", "Stream", "reassemblyQueue", "associationStats"} {
				_, st := c.P.NamedStruct(sn)
				if st == nil {
					continue
				}
				for i := 0; i < st.NumFields(); i++ {
					f := st.Field(i)
					accs := c.P.Accesses(f)
					atomic := false
					mutated := false
					for _, a := range accs {
						if a.Kind == AccAtomicRead || a.Kind == AccAtomicWrite {
							atomic = true
						}
						fnn := c.P.FuncName(enclosingNamed(a.Fn))
						if (a.Kind == AccAtomicWrite || a.Kind == AccWrite || a.Kind == AccAddrEscape) && fnn != "createAssociationFromConfigWithTsn" && fnn != "newReassemblyQueue" {
							mutated = true
						}
					}
					if !atomic {
						continue
					}
					if !mutated {
						c.Ok(ks.key("atomic:"+sn+"."+f.Name()+":never-mutated"), c.P.Pos(f.Pos()), "never written after construction: plain reads cannot race")
						continue
					}
					for _, a := range accs {
						if a.Kind == AccAtomicRead || a.Kind == AccAtomicWrite {
							c.Ok(ks.key("atomic:"+sn+"."+f.Name()+"@"+c.P.FuncName(a.Fn)), c.Pos(a.Instr), "atomic access")
							continue
						}
						fn := c.P.FuncName(enclosingNamed(a.Fn))
						if fn == "createAssociationFromConfigWithTsn" || fn == "newReassemblyQueue" {
							continue
						}
						// reads under the log-only pattern are still races: report
						c.Fail(ks.key("atomic:"+sn+"."+f.Name()+"@"+c.P.FuncName(a.Fn)), c.Pos(a.Instr), "plain "+a.Kind.String()+" of a field that is accessed atomically elsewhere (data race)")
					}
				}
			}
		}})

	register(&Rule{ID: "C20.R3", Props: []string{"C20"}, Engine: "E4",
		Title:   "lock order is acyclic and matches the oracle: Stream.writeLock < Association.lock < Stream.lock < {timer, RTO, deadline mutexes}; in particular the association lock is never taken while a stream lock is held",
		MinInst: 5,
		Run: func(c *RuleCtx) {
			le := c.P.Locks()
			rank := map[string]int{"Stream.writeLock": 0, "Association.lock": 1, "Stream.lock": 2,
				"rtxTimer.mutex": 3, "ackTimer.mutex": 3, "rtoManager.mutex": 3, "Association.timerMu": 3}
			seen := map[string]bool{}
			for _, ed := range le.OrderEdges() {
				h := strings.Split(ed.Held, ":")[0]
				a := strings.Split(ed.Acquired, ":")[0]
				k := h + "->" + a
				if seen[k] {
					continue
				}
				seen[k] = true
				rh, okH := rank[h]
				ra, okA := rank[a]
				ok := okH && okA && rh < ra
				c.Check(ok, "order:"+k, c.Pos(ed.Site), "consistent with the oracle order; witness "+le.Witness(ed.Fn, ed.Ctx),
					fmt.Sprintf("lock order violation: %s acquired while holding %s (potential deadlock); witness %s", a, h, le.Witness(ed.Fn, ed.Ctx)))
			}
			c.Check(len(seen) >= 5, "order-edges", "", fmt.Sprintf("%d distinct held→acquired edges observed", len(seen)), "too few lock-order edges observed (analysis lost precision?)")
			// timer observers are invoked with the timer mutex released
			for _, tn := range []string{"rtxTimer.timeout", "ackTimer.timeout"} {
				fn := c.Fn(tn)
				forEachInstr(fn, func(in ssa.Instruction) {
					d, ok := in.(*ssa.Defer)
					if !ok || !d.Call.IsInvoke() {
						return
					}
					// deferred ⇒ runs at function exit; the Unlock call must precede the RunDefers
					okRel := false
					forEachInstr(fn, func(x ssa.Instruction) {
						if ci, ok := x.(*ssa.Call); ok {
							if _, op, isMu := le.mutexOp(&ci.Call); isMu && op == "Unlock" {
								okRel = true
							}
						}
					})
					c.Check(okRel, "observer-called-unlocked:"+tn+"."+d.Call.Method.Name(), c.Pos(in), "observer callback is deferred past the explicit mutex.Unlock()", "observer callback may run with the timer mutex held")
				})
			}
		}})

	register(&Rule{ID: "C20.R4", Props: []string{"C20"}, Engine: "E4",
		Title:   "balanced locking: every function returns, on every path, with the lockset it was entered with",
		MinInst: 1,
		Run: func(c *RuleCtx) {
			le := c.P.Locks()
			ub := le.Unbalanced()
			ks := keyer{}
			for _, u := range ub {
				c.Fail(ks.key("unbalanced:"+c.P.FuncName(u.Fn)), c.P.Pos(u.Fn.Pos()), u.Msg+" — "+le.Witness(u.Fn, u.Entry))
			}
			n := 0
			for _, m := range le.results {
				for _, cx := range m {
					if cx.live {
						n++
					}
				}
			}
			c.Check(n >= 300, "contexts-analysed", "", fmt.Sprintf("%d live (function, entry-lockset) contexts, all balanced", n), "lock analysis covered too few contexts")
		}})

	register(&Rule{ID: "C20.R5", Props: []string{"C20"}, Engine: "E4",
		Title:   "every chunk handler is entered with Association.lock held for writing, in every calling context",
		MinInst: 15,
		Run: func(c *RuleCtx) {
			le := c.P.Locks()
			for _, h := range c.chunkHandlers() {
				fn := c.Fn(h)
				ctxs := le.Contexts(fn)
				ok := len(ctxs) > 0
				for _, cx := range ctxs {
					if !le.Holds(cx, "Association.lock", true) {
						ok = false
					}
				}
				c.Check(ok, "handler-locked:"+h, c.P.Pos(fn.Pos()), fmt.Sprintf("entered with Association.lock:W in %d context(s)", len(ctxs)), "chunk handler can be entered without the association lock")
			}
		}})

	register(&Rule{ID: "C20.R6", Props: []string{"C20"}, Engine: "E4",
		Title:   "unlock windows inside locked regions are a reviewed table: only processAcknowledgement (buffer-release callback) and resetStreamsIfAny (stream reset notification) drop Association.lock while their caller holds it",
		MinInst: 2,
		Run: func(c *RuleCtx) {
			le := c.P.Locks()
			reviewed := map[string]string{
				"Association.processAcknowledgement": "drops the lock around Stream.onBufferReleased so the user callback runs lock-free",
				"Association.resetStreamsIfAny":      "drops the lock around Stream.onInboundStreamReset",
			}
			found := map[string]bool{}
			for _, fn := range c.P.Funcs {
				heldOnEntry := false
				for _, cx := range le.Contexts(fn) {
					if le.Holds(cx, "Association.lock", false) {
						heldOnEntry = true
					}
				}
				if !heldOnEntry {
					continue
				}
				forEachInstr(fn, func(in ssa.Instruction) {
					ci, ok := in.(*ssa.Call)
					if !ok {
						return
					}
					if cl, op, isMu := le.mutexOp(&ci.Call); isMu && cl == "Association.lock" && (op == "Unlock" || op == "RUnlock") {
						name := c.P.FuncName(fn)
						if _, known := reviewed[name]; !known {
							// a private helper of a reviewed function carries that function's review
							for rn := range reviewed {
								if rf := c.P.Fn(rn); rf != nil && c.P.OwnedBy(fn, map[*ssa.Function]bool{rf: true}) {
									name = rn
								}
							}
						}
						if !found[name] {
							found[name] = true
							why, ok := reviewed[name]
							c.Check(ok, "unlock-window:"+name, c.Pos(in), "reviewed: "+why, "new unlock window: Association.lock is released inside a region whose caller holds it; state read before the window may be stale after it")
						}
					}
				})
			}
			for n := range reviewed {
				if !found[n] {
					c.Fail("unlock-window:"+n, "", "reviewed unlock window no longer exists (table out of date)")
				}
			}
		}})
}

func isSyncType(t types.Type) bool {
	s := t.String()
	return strings.HasPrefix(s, "sync.") || strings.HasPrefix(s, "*sync.") || strings.HasPrefix(s, "sync/atomic.")
}
