package main

import (
	"encoding/json"
	"fmt"
	"os"
	"path/filepath"
	"runtime/debug"
	"sort"
	"strings"

	"golang.org/x/tools/go/ssa"
)

// Rule is one statically decided clause of one or more properties.
type Rule struct {
	ID      string   // "C01.R1"
	Props   []string // properties the rule serves (first = owner)
	Title   string   // what is decided
	Engine  string
	MinInst int // minimum number of obligations confirmed by hand on today's tree
	Run     func(c *RuleCtx)
}

type Obligation struct {
	Rule      string `json:"rule"`
	Construct string `json:"construct"` // stable key: resolved construct, never a line number
	Pos       string `json:"pos,omitempty"`
	OK        bool   `json:"ok"`
	Fact      string `json:"fact"`
	Status    string `json:"status"` // discharged | VIOLATION | UNRESOLVED | KNOWN
}

type RuleCtx struct {
	P    *Prog
	Rule *Rule
	Obs  []Obligation
	Tier string
}

type unresolved struct{ what string }

func (c *RuleCtx) Ok(construct, pos, fact string) {
	c.Obs = append(c.Obs, Obligation{Rule: c.Rule.ID, Construct: construct, Pos: pos, OK: true, Fact: fact, Status: "discharged"})
}

func (c *RuleCtx) Fail(construct, pos, why string) {
	c.Obs = append(c.Obs, Obligation{Rule: c.Rule.ID, Construct: construct, Pos: pos, OK: false, Fact: why, Status: "VIOLATION"})
}

// Check records ok/fail in one call.
func (c *RuleCtx) Check(ok bool, construct, pos, okFact, failFact string) bool {
	if ok {
		c.Ok(construct, pos, okFact)
	} else {
		c.Fail(construct, pos, failFact)
	}
	return ok
}

func (c *RuleCtx) Unresolved(what string) {
	c.Obs = append(c.Obs, Obligation{Rule: c.Rule.ID, Construct: "anchor:" + what, OK: false, Fact: "anchor not found in /repo: " + what, Status: "UNRESOLVED"})
}

// Fn resolves a function or aborts the rule as UNRESOLVED.
func (c *RuleCtx) Fn(name string) *ssa.Function {
	f := c.P.Fn(name)
	if f == nil {
		panic(unresolved{"func " + name})
	}
	return f
}

func (c *RuleCtx) Pos(in ssa.Instruction) string { return c.P.InstrPos(in) }

// ------------------------------------------------------------ known findings

type KnownFinding struct {
	Property  string `json:"property"`
	Rule      string `json:"rule"`
	Construct string `json:"construct"`
	Status    string `json:"status"` // known | fixed | known-dynamic
	Commit    string `json:"commit,omitempty"`
	What      string `json:"what"`
	Demo      string `json:"demo,omitempty"` // known-dynamic: the demonstration under /verif (hunt/Hxx/fN)
}

func loadKnown(verifDir string) ([]KnownFinding, error) {
	b, err := os.ReadFile(filepath.Join(verifDir, "known_findings.json"))
	if err != nil {
		if os.IsNotExist(err) {
			return nil, nil
		}
		return nil, err
	}
	var out struct {
		Findings []KnownFinding `json:"findings"`
	}
	if err := json.Unmarshal(b, &out); err != nil {
		return nil, err
	}
	return out.Findings, nil
}

// ------------------------------------------------------------ running

type RuleResult struct {
	Rule   *Rule
	Obs    []Obligation
	Panic  string
	Arch   string
	NumObs int
}

func runRule(p *Prog, r *Rule, tier, arch string) (res RuleResult) {
	curProg = p // the helper-transparency layer consults the program under analysis
	ctx := &RuleCtx{P: p, Rule: r, Tier: tier}
	res.Rule = r
	res.Arch = arch
	defer func() {
		if x := recover(); x != nil {
			if u, ok := x.(unresolved); ok {
				ctx.Unresolved(u.what)
			} else {
				res.Panic = fmt.Sprintf("%v\n%s", x, debug.Stack())
				ctx.Obs = append(ctx.Obs, Obligation{Rule: r.ID, Construct: "analysis-panic", OK: false,
					Fact: fmt.Sprintf("analysis panicked: %v", x), Status: "UNRESOLVED"})
			}
		}
		n := 0
		for _, o := range ctx.Obs {
			if o.Status != "UNRESOLVED" {
				n++
			}
		}
		// Vacuity guard. MinInst is the count confirmed by hand on the reference
		// tree; merging duplicated code into a helper legitimately lowers the
		// number of sites, so the guard trips only when at most half are left.
		floor := (r.MinInst + 1) / 2
		if n < floor {
			ctx.Obs = append(ctx.Obs, Obligation{Rule: r.ID, Construct: "instance-count", OK: false,
				Fact:   fmt.Sprintf("rule matched %d instances, fewer than half of the %d confirmed by hand (vacuous pass refused)", n, r.MinInst),
				Status: "UNRESOLVED"})
		}
		res.Obs = ctx.Obs
		res.NumObs = n
	}()
	r.Run(ctx)
	return res
}

type Evidence struct {
	PropertyID  string         `json:"property_id"`
	Tier        string         `json:"tier"`
	Seed        int            `json:"seed"`
	Level       string         `json:"level"`
	Coverage    map[string]any `json:"coverage"`
	Assumptions []string       `json:"assumptions"`
	WallS       float64        `json:"wall_s"`
	Violations  int            `json:"violations"`
}

func writeJSON(path string, v any) error {
	b, err := json.MarshalIndent(v, "", " ")
	if err != nil {
		return err
	}
	if err := os.MkdirAll(filepath.Dir(path), 0o755); err != nil {
		return err
	}
	return os.WriteFile(path, append(b, '\n'), 0o644)
}

func sortObs(obs []Obligation) {
	sort.SliceStable(obs, func(i, j int) bool {
		if obs[i].Rule != obs[j].Rule {
			return ruleLess(obs[i].Rule, obs[j].Rule)
		}
		return obs[i].Construct < obs[j].Construct
	})
}

func ruleLess(a, b string) bool {
	pa, na := splitRule(a)
	pb, nb := splitRule(b)
	if pa != pb {
		return pa < pb
	}
	return na < nb
}

func splitRule(s string) (string, int) {
	i := strings.Index(s, ".R")
	if i < 0 {
		return s, 0
	}
	n := 0
	fmt.Sscanf(s[i+2:], "%d", &n)
	return s[:i], n
}
