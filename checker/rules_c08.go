package main

import (
	"fmt"
	"go/constant"
	"go/token"
	"go/types"
	"strings"

	"golang.org/x/tools/go/ssa"
)

// stateChecks: If instructions comparing a getState() result with `established`.
func (c *RuleCtx) establishedChecks(fn *ssa.Function) (checks []*ssa.If, okSucc map[*ssa.If]int) {
	getState := c.Fn("Association.getState")
	est := c.P.Const("established")
	var ev int64
	fmt.Sscan(est.Val().String(), &ev)
	okSucc = map[*ssa.If]int{}
	isEst := CmpCond(token.EQL, IsCallOf(getState), IsConstInt(ev))
	forEachInstr(fn, func(in ssa.Instruction) {
		ifi, ok := in.(*ssa.If)
		if !ok {
			return
		}
		// an If one outcome of which establishes state == established, directly or through a helper's result
		for idx := 0; idx < 2; idx++ {
			cc, tt := normCond(ifi.Cond, idx == 0)
			facts := append([]condFact{{cc, tt}}, helperCondFacts(cc, tt, 0, map[*ssa.BasicBlock]bool{})...)
			for _, f := range facts {
				if isEst(f.Cond, f.Taken) {
					if _, dup := okSucc[ifi]; !dup {
						okSucc[ifi] = idx
						checks = append(checks, ifi)
					}
				}
			}
		}
	})
	return
}

func init() {
	register(&Rule{ID: "C08.R2", Props: []string{"C08", "C18", "C14"}, Engine: "E3+E4",
		Title:   "new data is refused once shutdown began: after every acquisition of Association.lock on the way to a pending-queue push, state==established is re-checked; OpenStream rejects all closing states",
		MinInst: 10,
		Run: func(c *RuleCtx) {
			le := c.P.Locks()
			push := c.Fn("pendingQueue.push")
			for _, fname := range []string{"Association.sendPayloadData", "Association.sendResetRequest"} {
				fn := c.Fn(fname)
				checks, okSucc := c.establishedChecks(fn)
				c.Check(len(checks) >= 1, "state-checks@"+fname, c.P.Pos(fn.Pos()), fmt.Sprintf("%d established-checks", len(checks)), "no state==established check")
				isCheck := func(in ssa.Instruction) bool {
					ifi, ok := in.(*ssa.If)
					if !ok {
						return false
					}
					_, is := okSucc[ifi]
					return is
				}
				ks := keyer{}
				for _, pc := range callsIn(fn, push) {
					// the failing edge of each check cannot reach the push
					for _, k := range checks {
						bad := k.Block().Succs[1-okSucc[k]]
						c.Check(!CanReach(bad.Instrs[0], pc) && bad != pc.Block(), ks.key("check-fails-closed@"+fname), c.Pos(k), "not-established edge never reaches the push", "the not-established edge can still reach pendingQueue.push")
					}
					// after every Lock of a.lock that can reach the push, a check is passed first
					nLocks := 0
					forEachInstr(fn, func(in ssa.Instruction) {
						ci, ok := in.(ssa.CallInstruction)
						if !ok {
							return
						}
						if _, isDefer := in.(*ssa.Defer); isDefer {
							return
						}
						cl, op, isMu := le.mutexOp(ci.Common())
						if !isMu || cl != "Association.lock" || op != "Lock" || !CanReach(in, pc) {
							return
						}
						nLocks++
						ok2, bad := MustPassOpt(in.Block(), instrIndex(in)+1, in, isCheck, PathOpts{ExitOK: true, Fail: func(x ssa.Instruction) bool { return x == ssa.Instruction(pc) }})
						c.Check(ok2, ks.key("recheck-after-lock@"+fname), c.Pos(in), "state==established is checked between this lock acquisition and the push",
							"pendingQueue.push reachable after (re)acquiring the lock without re-checking state==established ("+c.P.InstrPos(bad)+"): data could be queued after shutdown began")
					})
					c.Check(nLocks >= 1, ks.key("locks-before-push@"+fname), c.Pos(pc), fmt.Sprintf("%d lock acquisitions precede the push", nLocks), "no lock acquisition precedes the push")
				}
			}
			// OpenStream
			os := c.Fn("Association.OpenStream")
			getState := c.Fn("Association.getState")
			for _, gc := range callsIn(os, c.Fn("Association.getOrCreateStream")) {
				for _, st := range []string{"shutdownAckSent", "shutdownPending", "shutdownReceived", "shutdownSent", "closed"} {
					k := c.P.Const(st)
					var kv int64
					fmt.Sscan(k.Val().String(), &kv)
					c.Dom("openstream-rejects:"+st, gc, CmpCond(token.NEQ, IsCallOf(getState), IsConstInt(kv)), "state != "+st)
				}
			}
		}})

	register(&Rule{ID: "C08.R3", Props: []string{"C08"}, Engine: "E3",
		Title:   "SHUTDOWN and SHUTDOWN-ACK are raised only after the data drained: entering shutdownSent/shutdownAckSent is dominated by hasPendingOrInflightData()==false (or by the crossed-shutdown state)",
		MinInst: 5,
		Run: func(c *RuleCtx) {
			e, err := c.P.States()
			if err != nil {
				panic(unresolved{err.Error()})
			}
			has := c.Fn("Association.hasPendingOrInflightData")
			ks := keyer{}
			n := 0
			for _, cs := range c.P.CallSitesOf(e.setState) {
				to, ok := e.constState(cs.Instr.Common().Args[1])
				if !ok {
					continue
				}
				name := e.String(to)
				if to != e.Set("shutdownSent") && to != e.Set("shutdownAckSent") {
					continue
				}
				n++
				fn := c.P.FuncName(cs.Fn)
				drained := DominatedByExt(cs.Instr, CallCond(has, false))
				if drained {
					c.Ok(ks.key("drained-before:"+name+"@"+fn), c.Pos(cs.Instr), "dominated by hasPendingOrInflightData()==false")
					continue
				}
				// crossed shutdown: from shutdownSent (which itself was entered drained)
				ss := c.P.Const("shutdownSent")
				var sv int64
				fmt.Sscan(ss.Val().String(), &sv)
				crossed := to == e.Set("shutdownAckSent") && DominatedByExt(cs.Instr, CmpCond(token.EQL, IsCallOf(e.getState), IsConstInt(sv)))
				c.Check(crossed, ks.key("drained-before:"+name+"@"+fn), c.Pos(cs.Instr), "crossed shutdown: entered from shutdownSent, which is only entered drained",
					"state "+name+" can be entered while data is still pending or in flight")
			}
			// (an exact count would alarm on a behaviour-preserving merge: Shutdown()'s immediate entry
			// duplicates what the write loop's drain path does anyway)
			c.Check(n >= 2, "shutdown-entry-sites", "", fmt.Sprintf("%d entry sites into shutdownSent/shutdownAckSent", n), fmt.Sprintf("only %d entry sites into shutdownSent/shutdownAckSent", n))
			// hasPendingOrInflightData = pending.size()>0 || inflight.size()>0
			okP, okI := false, false
			forEachInstr(has, func(in ssa.Instruction) {
				if b, ok := in.(*ssa.BinOp); ok && b.Op == token.GTR && IsConstInt(0)(b.Y) {
					if IsCallOf(c.Fn("pendingQueue.size"))(b.X) {
						okP = true
					}
					if IsCallOf(c.Fn("payloadQueue.size"))(b.X) {
						okI = true
					}
				}
			})
			c.Check(okP && okI, "drain-predicate", c.P.Pos(has.Pos()), "drain predicate covers pending and in-flight queues", "drain predicate no longer covers both queues")
		}})

	register(&Rule{ID: "C08.R4", Props: []string{"C08", "C09"}, Engine: "E5b",
		Title:   "writer priority table (exhaustive 2^4 flags × 8 states): ABORT and SHUTDOWN-COMPLETE are terminal and suppress everything else; SHUTDOWN-ACK in shutdownAckSent and SHUTDOWN(+SACK) in shutdownSent precede the control queue",
		MinInst: 128,
		Run: func(c *RuleCtx) {
			e, err := c.P.States()
			if err != nil {
				panic(unresolved{err.Error()})
			}
			fn := c.Fn("Association.gatherOutboundPriorityPackets")
			fA, fC := c.field("Association", "willSendAbort"), c.field("Association", "willSendShutdownComplete")
			fK, fS := c.field("Association", "willSendShutdownAck"), c.field("Association", "willSendShutdown")
			// the ABORT emission: the helper gatherAbortPacket, or (if it was inlined) the clearing of willSendAbort
			gAbort := c.P.Fn("Association.gatherAbortPacket")
			gShut := c.Fn("Association.gatherOutboundShutdownPackets")
			gSack := c.Fn("Association.gatherOutboundSackPackets")
			opaque := map[*ssa.Function]bool{gShut: true, gSack: true, c.Fn("Association.marshalPacket"): true, c.Fn("Association.createPacket"): true}
			if gAbort != nil {
				opaque[gAbort] = true
			}
			b := func(x bool) constant.Value { return constant.MakeBool(x) }
			for si, sn := range e.names {
				var sv int64
				for v, i := range e.values {
					if i == si {
						sv = v
					}
				}
				for m := 0; m < 16; m++ {
					ab, co, ak, sh := m&1 != 0, m&2 != 0, m&4 != 0, m&8 != 0
					outs, und := c.P.PEval(fn, PEConfig{
						Fields: map[*types.Var]constant.Value{fA: b(ab), fC: b(co), fK: b(ak), fS: b(sh)}, Opaque: opaque,
						BindVal: func(v ssa.Value) (constant.Value, bool) {
							if IsCallOf(e.getState)(v) {
								return constant.MakeInt64(sv), true
							}
							return nil, false
						}})
					key := fmt.Sprintf("priority:state=%s,abort=%v,complete=%v,ack=%v,shutdown=%v", sn, ab, co, ak, sh)
					if und != "" || len(outs) == 0 {
						c.Fail(key, c.P.Pos(fn.Pos()), "UNDECIDED: "+und)
						continue
					}
					want := "none"
					switch {
					case ab:
						want = "abort"
					case co:
						want = "complete"
					case sn == "shutdownAckSent" && ak:
						want = "ack"
					case sn == "shutdownSent" && sh:
						want = "shutdown+sack"
					}
					ok := true
					why := ""
					for _, o := range outs {
						nA, nS, nK := len(o.Called("Association.gatherAbortPacket")), len(o.Called("Association.gatherOutboundShutdownPackets")), len(o.Called("Association.gatherOutboundSackPackets"))
						if gAbort == nil && o.Stored[fA] && o.Stores[fA] != nil && !constant.BoolVal(o.Stores[fA]) {
							nA = 1
						}
						term := o.Ret[len(o.Ret)-1]
						isTerm := term != nil && term.Kind() == constant.Bool && constant.BoolVal(term)
						notTerm := term != nil && term.Kind() == constant.Bool && !constant.BoolVal(term)
						switch want {
						case "abort":
							if nA != 1 || nS != 0 || nK != 0 || !isTerm {
								ok, why = false, fmt.Sprintf("abort pending: abortCalls=%d shutdownCalls=%d sackCalls=%d terminal=%s", nA, nS, nK, render(term))
							}
						case "complete":
							if nA != 0 || nS != 1 || nK != 0 || !isTerm {
								ok, why = false, fmt.Sprintf("SHUTDOWN-COMPLETE pending: shutdownCalls=%d sackCalls=%d terminal=%s", nS, nK, render(term))
							}
						case "ack":
							if nA != 0 || nS != 1 || nK != 0 || !notTerm {
								ok, why = false, fmt.Sprintf("SHUTDOWN-ACK priority: shutdownCalls=%d terminal=%s", nS, render(term))
							}
						case "shutdown+sack":
							if nA != 0 || nS != 1 || nK != 1 || !notTerm {
								ok, why = false, fmt.Sprintf("SHUTDOWN priority: shutdownCalls=%d sackCalls=%d terminal=%s", nS, nK, render(term))
							}
						case "none":
							if nA+nS+nK != 0 || !notTerm {
								ok, why = false, fmt.Sprintf("no priority output expected: calls=%d terminal=%s", nA+nS+nK, render(term))
							}
						}
					}
					c.Check(ok, key, c.P.Pos(fn.Pos()), "priority decision = "+want, "priority table broken: "+why)
				}
			}
		}})

	register(&Rule{ID: "C08.R5", Props: []string{"C08"}, Engine: "E5b+E3",
		Title:   "shutdown emission table and T2: COMPLETE > ACK > SHUTDOWN; emitting SHUTDOWN or SHUTDOWN-ACK (re)starts T2; a terminal result stops the writer before any other output; pending writers are released when shutdown starts on either side",
		MinInst: 12,
		Run: func(c *RuleCtx) {
			fn := c.Fn("Association.gatherOutboundShutdownPackets")
			fC := c.field("Association", "willSendShutdownComplete")
			fK, fS := c.field("Association", "willSendShutdownAck"), c.field("Association", "willSendShutdown")
			mp := c.Fn("Association.marshalPacket")
			opaque := map[*ssa.Function]bool{mp: true, c.Fn("Association.createPacket"): true, c.Fn("rtxTimer.start"): true, c.Fn("rtoManager.getRTO"): true, c.Fn("Association.peerLastTSN"): true}
			b := func(x bool) constant.Value { return constant.MakeBool(x) }
			for m := 0; m < 8; m++ {
				co, ak, sh := m&1 != 0, m&2 != 0, m&4 != 0
				outs, und := c.P.PEval(fn, PEConfig{Fields: map[*types.Var]constant.Value{fC: b(co), fK: b(ak), fS: b(sh)}, Opaque: opaque})
				key := fmt.Sprintf("emit:complete=%v,ack=%v,shutdown=%v", co, ak, sh)
				if und != "" || len(outs) == 0 {
					c.Fail(key, c.P.Pos(fn.Pos()), "UNDECIDED: "+und)
					continue
				}
				ok, why := true, ""
				for _, o := range outs {
					nMarshal := len(o.Called("Association.marshalPacket"))
					nT2 := len(o.Called("rtxTimer.start"))
					okRet := o.Ret[len(o.Ret)-1]
					stays := okRet != nil && okRet.Kind() == constant.Bool && constant.BoolVal(okRet)
					switch {
					case co:
						// terminal: flags cleared; on marshal success ok=false
						if nMarshal != 1 || nT2 != 0 {
							ok, why = false, fmt.Sprintf("COMPLETE: marshal=%d t2=%d", nMarshal, nT2)
						}
						for _, f := range []*types.Var{fC, fK, fS} {
							if v := o.Stores[f]; !o.Stored[f] || v == nil || constant.BoolVal(v) {
								ok, why = false, "COMPLETE does not clear "+f.Name()
							}
						}
					case ak:
						if nMarshal != 1 || !stays {
							ok, why = false, fmt.Sprintf("ACK: marshal=%d ok=%s", nMarshal, render(okRet))
						}
						if v := o.Stores[fK]; !o.Stored[fK] || v == nil || constant.BoolVal(v) {
							ok, why = false, "ACK flag not consumed"
						}
					case sh:
						if nMarshal != 1 || !stays {
							ok, why = false, fmt.Sprintf("SHUTDOWN: marshal=%d ok=%s", nMarshal, render(okRet))
						}
						if v := o.Stores[fS]; !o.Stored[fS] || v == nil || constant.BoolVal(v) {
							ok, why = false, "SHUTDOWN flag not consumed"
						}
					default:
						if nMarshal != 0 || !stays {
							ok, why = false, "nothing pending but a packet is built or the writer is stopped"
						}
					}
				}
				// T2 is started on the success path of ACK / SHUTDOWN, and COMPLETE's success path returns ok=false
				if ok && (ak || sh) && !co {
					started := false
					for _, o := range outs {
						if len(o.Called("rtxTimer.start")) == 1 {
							started = true
						}
					}
					if !started {
						ok, why = false, "no path starts T2 after emitting"
					}
				}
				if ok && co {
					stops := false
					for _, o := range outs {
						r := o.Ret[len(o.Ret)-1]
						if r != nil && r.Kind() == constant.Bool && !constant.BoolVal(r) {
							stops = true
						}
					}
					if !stops {
						ok, why = false, "SHUTDOWN-COMPLETE never tells the writer to close (ok stays true)"
					}
				}
				c.Check(ok, key, c.P.Pos(fn.Pos()), fmt.Sprintf("%d path(s) consistent with the emission table", len(outs)), "emission table broken: "+why)
			}
			// t2 start is dominated by marshal success in the function (never armed without a packet)
			t2 := c.field("Association", "t2Shutdown")
			for _, sc := range callsIn(fn, c.Fn("rtxTimer.start")) {
				f, _ := loadedField(callArg(sc, 0))
				c.Check(f == t2, "t2-is-shutdown-timer", c.Pos(sc), "the timer started is t2Shutdown", "a different timer is started when emitting shutdown chunks")
			}
			// gatherOutbound returns right away on a terminal result
			g := c.Fn("Association.gatherOutbound")
			pr := c.Fn("Association.gatherOutboundPriorityPackets")
			for _, pc := range callsIn(g, pr) {
				var term ssa.Value
				for _, r := range *pc.(ssa.Value).Referrers() {
					if ex, ok := r.(*ssa.Extract); ok && ex.Index == 2 {
						term = ex
					}
				}
				n := 0
				forEachInstr(g, func(in ssa.Instruction) {
					ci, ok := in.(ssa.CallInstruction)
					if !ok || in == ssa.Instruction(pc) {
						return
					}
					if _, isDefer := in.(*ssa.Defer); isDefer {
						return
					}
					sc := ci.Common().StaticCallee()
					if sc == nil || !strings.HasPrefix(c.P.FuncName(sc), "Association.gather") && c.P.FuncName(sc) != "controlQueue.popAll" {
						return
					}
					n++
					if term == nil || !DominatedByExt(in, BoolCond(IsValue(term), false)) {
						c.Fail("terminal-suppresses:"+c.P.FuncName(sc), c.Pos(in), "output gathered although the priority packets were terminal")
					}
				})
				c.Check(n >= 8 && term != nil, "terminal-suppresses", c.Pos(pc), fmt.Sprintf("all %d other gather steps are dominated by terminal==false", n), "gather steps not found")
			}
			// writeLoop closes the association when gatherOutbound says !ok
			wl := c.Fn("Association.writeLoop")
			for _, gc := range callsIn(wl, g) {
				var okV ssa.Value
				for _, r := range *gc.(ssa.Value).Referrers() {
					if ex, isEx := r.(*ssa.Extract); isEx && ex.Index == 1 {
						okV = ex
					}
				}
				closed := false
				for _, cc := range callsIn(wl, c.Fn("Association.close")) {
					if okV != nil && DominatedByExt(cc, BoolCond(IsValue(okV), false)) {
						closed = true
					}
				}
				c.Check(closed, "writer-closes-after-complete", c.Pos(gc), "!ok from gatherOutbound ⇒ writeLoop calls close()", "writeLoop does not close the association after the final packet")
			}
			// unblockPendingWrites
			ub := c.Fn("Association.unblockPendingWrites")
			sd := c.Fn("Association.Shutdown")
			e, _ := c.P.States()
			for _, sc := range callsIn(sd, e.setState) {
				if cs, _ := e.constState(sc.Common().Args[1]); cs == e.Set("shutdownPending") {
					ok, bad := MustPass(sc, c.P.CallTargetPred(0, ub), nil)
					c.Check(ok, "unblock-on-local-shutdown", c.Pos(sc), "Shutdown releases blocked writers after entering shutdownPending", "Shutdown does not release blocked writers: "+c.P.InstrPos(bad))
				}
			}
			hs := c.Fn("Association.handleShutdown")
			ent := c.Fn("entersShutdownReceived")
			nU := 0
			for _, uc := range callsIn(hs, ub) {
				nU++
				c.Dom("unblock-on-peer-shutdown", uc, CallCond(ent, true), "entersShutdownReceived(state)")
			}
			c.Check(nU == 1, "unblock-on-peer-shutdown-site", c.P.Pos(hs.Pos()), "handleShutdown releases blocked writers", fmt.Sprintf("%d unblock sites", nU))
		}})
}
