package sctp

import (
	"fmt"
	"math/rand"
	"strings"
	"testing"
)

type zzOp struct {
	kind      int // 0 data, 1 fwd, 2 read
	tsnOff    uint32
	sid       uint16
	ssnOff    uint32
	b, e, u   bool
	fsn       uint32
	payload   string
	fwd       []zzFwd
	immediate bool
}

type zzFwd struct {
	sid uint16
	off uint32
	u   bool
}

func zzRunRecv(t *testing.T, ops []zzOp, tsnBase uint32, seqBase uint32, idata bool) string {
	t.Helper()
	a := createTestAssociation(t, Config{})
	a.lock.Lock()
	defer a.lock.Unlock()
	a.useInterleaving = idata
	a.useForwardTSN = !idata
	a.useIForwardTSN = idata
	a.setState(established)
	a.payloadQueue.init(tsnBase - 1)
	for sid := uint16(0); sid < 3; sid++ {
		s := a.createStream(sid, false)
		s.reassemblyQueue.nextSSN = uint16(seqBase)
		s.reassemblyQueue.nextMID = seqBase
	}
	var out strings.Builder
	snap := func() {
		sack := a.createSelectiveAckChunk()
		fmt.Fprintf(&out, " cum=%d", sack.cumulativeTSNAck-tsnBase)
		for _, g := range sack.gapAckBlocks {
			fmt.Fprintf(&out, " g%d-%d", g.start, g.end)
		}
		for _, d := range sack.duplicateTSN {
			fmt.Fprintf(&out, " d%d", d-tsnBase)
		}
		fmt.Fprintf(&out, " rw=%d ia=%v da=%v", sack.advertisedReceiverWindowCredit, a.immediateAckTriggered, a.delayedAckTriggered)
		for sid := uint16(0); sid < 3; sid++ {
			s := a.streams[sid]
			if s == nil {
				fmt.Fprintf(&out, " s%d:nil", sid)

				continue
			}
			s.lock.Lock()
			fmt.Fprintf(&out, " s%d:r=%v,n=%d,nx=%d/%d", sid, s.reassemblyQueue.isReadable(), s.reassemblyQueue.getNumBytes(),
				s.reassemblyQueue.nextSSN-uint16(seqBase), s.reassemblyQueue.nextMID-seqBase)
			s.lock.Unlock()
		}
		out.WriteString("\n")
	}
	for i, op := range ops {
		a.immediateAckTriggered = false
		a.delayedAckTriggered = false
		fmt.Fprintf(&out, "%d:", i)
		switch op.kind {
		case 0:
			c := &chunkPayloadData{
				tsn: tsnBase + op.tsnOff, streamIdentifier: op.sid,
				beginningFragment: op.b, endingFragment: op.e, unordered: op.u,
				userData: []byte(op.payload), payloadType: PayloadTypeWebRTCBinary,
				immediateSack: op.immediate,
			}
			if idata {
				c.iData = true
				c.messageIdentifier = seqBase + op.ssnOff
				c.fragmentSequenceNumber = op.fsn
				c.streamSequenceNumber = uint16(c.messageIdentifier)
			} else {
				c.streamSequenceNumber = uint16(seqBase + op.ssnOff)
			}
			pk := a.handleData(c)
			fmt.Fprintf(&out, "D pk=%d", len(pk))
		case 1:
			if idata {
				f := &chunkIForwardTSN{newCumulativeTSN: tsnBase + op.tsnOff}
				for _, x := range op.fwd {
					f.streams = append(f.streams, chunkIForwardTSNStream{identifier: x.sid, unordered: x.u, messageIdentifier: seqBase + x.off})
				}
				f.streams = normalizeIForwardTSNStreams(f.streams)
				a.handleIForwardTSN(f)
			} else {
				f := &chunkForwardTSN{newCumulativeTSN: tsnBase + op.tsnOff}
				for _, x := range op.fwd {
					if x.u {
						continue
					}
					f.streams = append(f.streams, chunkForwardTSNStream{identifier: x.sid, sequence: uint16(seqBase + x.off)})
				}
				a.handleForwardTSN(f)
			}
			out.WriteString("F")
		case 2:
			s := a.streams[op.sid]
			if s != nil {
				buf := make([]byte, 4096)
				s.lock.Lock()
				n, _, err := s.reassemblyQueue.read(buf)
				s.lock.Unlock()
				fmt.Fprintf(&out, "R %q %v", buf[:n], err)
			}
		}
		snap()
	}

	return out.String()
}

func zzGenOps(r *rand.Rand, n int, idata bool) []zzOp {
	ops := []zzOp{}
	// model a sender producing messages, then shuffle/dup/drop deliveries
	type msg struct {
		sid   uint16
		seq   uint32
		u     bool
		frags int
		tsn0  uint32
	}
	var tsn uint32
	seqO := map[uint16]uint32{}
	seqU := map[uint16]uint32{}
	var chunks []zzOp
	var msgs []msg
	for len(chunks) < n {
		sid := uint16(r.Intn(3))
		u := r.Intn(4) == 0
		frags := 1 + r.Intn(3)
		var seq uint32
		if u && idata {
			seq = seqU[sid]
			seqU[sid]++
		} else if !u {
			seq = seqO[sid]
			seqO[sid]++
		} else {
			seq = seqO[sid]
		}
		msgs = append(msgs, msg{sid, seq, u, frags, tsn})
		for f := 0; f < frags; f++ {
			chunks = append(chunks, zzOp{
				kind: 0, tsnOff: tsn, sid: sid, ssnOff: seq, u: u, b: f == 0, e: f == frags-1, fsn: uint32(f),
				payload: fmt.Sprintf("m%d.%d.%d;", sid, seq, f), immediate: r.Intn(10) == 0,
			})
			tsn++
		}
	}
	// delivery with reordering within a sliding window, dups, drops + forward tsn
	pendingIdx := r.Perm(len(chunks))
	// make it mostly ordered: sort by idx + noise
	order := make([]int, len(chunks))
	for i := range order {
		order[i] = i
	}
	for i := range order {
		j := i + r.Intn(6)
		if j < len(order) {
			order[i], order[j] = order[j], order[i]
		}
	}
	_ = pendingIdx
	dropped := map[int]bool{}
	for _, idx := range order {
		switch r.Intn(12) {
		case 0: // drop: later forward-tsn over it
			dropped[idx] = true
		case 1: // duplicate
			ops = append(ops, chunks[idx], chunks[idx])
		default:
			ops = append(ops, chunks[idx])
		}
		if r.Intn(5) == 0 {
			ops = append(ops, zzOp{kind: 2, sid: uint16(r.Intn(3))})
		}
		if r.Intn(15) == 0 && len(dropped) > 0 {
			// forward TSN up to the end of the message containing the highest dropped chunk
			hi := -1
			for d := range dropped {
				if d > hi {
					hi = d
				}
			}
			// find message
			var f zzOp
			f.kind = 1
			last := map[[2]int]uint32{}
			var upTo uint32
			for _, m := range msgs {
				if int(m.tsn0) <= hi {
					upTo = m.tsn0 + uint32(m.frags) - 1
					k := [2]int{int(m.sid), 0}
					if m.u {
						k[1] = 1
					}
					if m.u && !idata {
						continue
					}
					last[k] = m.seq
				}
			}
			f.tsnOff = upTo
			for k, v := range last {
				f.fwd = append(f.fwd, zzFwd{sid: uint16(k[0]), off: v, u: k[1] == 1})
			}
			// deterministic order
			for i := 0; i < len(f.fwd); i++ {
				for j := i + 1; j < len(f.fwd); j++ {
					if f.fwd[j].sid < f.fwd[i].sid || (f.fwd[j].sid == f.fwd[i].sid && !f.fwd[j].u && f.fwd[i].u) {
						f.fwd[i], f.fwd[j] = f.fwd[j], f.fwd[i]
					}
				}
			}
			ops = append(ops, f)
			dropped = map[int]bool{}
		}
	}
	for i := 0; i < 12; i++ {
		ops = append(ops, zzOp{kind: 2, sid: uint16(i % 3)})
	}

	return ops
}

func TestZZDifferentialRecv(t *testing.T) {
	tsnBases := []uint32{1000, 0, 1, 0x7fffffff, 0x80000000, 0xffffffff, 0xfffffff0, 0xffffffc0, 0xffffff00, 0xffffe000, 0xffff8000}
	seqBases := []uint32{0, 1, 0x7fff, 0x8000, 0xfffe, 0xffff, 0xfff0, 0x7fffffff, 0x80000000, 0xffffffff, 0xfffffff8}
	for _, idata := range []bool{false, true} {
		for seed := int64(0); seed < 60; seed++ {
			r := rand.New(rand.NewSource(seed))
			ops := zzGenOps(r, 60+r.Intn(200), idata)
			ref := zzRunRecv(t, ops, 1000, 0, idata)
			for _, tb := range tsnBases {
				for _, sb := range seqBases {
					got := zzRunRecv(t, ops, tb, sb, idata)
					if got != ref {
						rl, gl := strings.Split(ref, "\n"), strings.Split(got, "\n")
						for i := range rl {
							if i >= len(gl) || rl[i] != gl[i] {
								t.Fatalf("idata=%v seed=%d tsnBase=%#x seqBase=%#x diverge at line %d:\nref: %s\ngot: %s\nop=%+v",
									idata, seed, tb, sb, i, rl[i], gl[i], ops[i])
							}
						}
					}
				}
			}
		}
	}
}
