package sctp

// Finding 4 (C03): a FORWARD-TSN (or I-FORWARD-TSN) whose New Cumulative TSN is
// exactly 2^31 ahead of the receiver's cumulative TSN is judged "not ahead" by
// the TSN-level code (the cumulative TSN is not advanced, the SACK is unchanged)
// but its per-stream part is applied anyway: the stream's next SSN / MID is
// forwarded and already acknowledged, still undelivered fragments are purged.
//
// Copy to the package root as zz_f4_test.go and run:
//   go test -count=1 -run 'TestF4' -v .

import (
	"net"
	"testing"
	"time"

	"github.com/pion/logging"
	"github.com/stretchr/testify/require"
)

type f4NopConn struct{ closed chan struct{} }

func (c *f4NopConn) Read(_ []byte) (int, error)  { <-c.closed; return 0, net.ErrClosed }
func (c *f4NopConn) Write(p []byte) (int, error) { return len(p), nil }
func (c *f4NopConn) Close() error {
	select {
	case <-c.closed:
	default:
		close(c.closed)
	}

	return nil
}
func (c *f4NopConn) LocalAddr() net.Addr                { return &net.IPAddr{} }
func (c *f4NopConn) RemoteAddr() net.Addr               { return &net.IPAddr{} }
func (c *f4NopConn) SetDeadline(_ time.Time) error      { return nil }
func (c *f4NopConn) SetReadDeadline(_ time.Time) error  { return nil }
func (c *f4NopConn) SetWriteDeadline(_ time.Time) error { return nil }

const f4PeerInitTSN = uint32(1000)

func f4Assoc(t *testing.T, interleaving bool) *Association {
	t.Helper()
	lf := logging.NewDefaultLoggerFactory()
	lf.DefaultLogLevel = logging.LogLevelDisabled
	a, err := createServerAssociation(Config{
		NetConn:       &f4NopConn{closed: make(chan struct{})},
		LoggerFactory: lf,
	}, WithEnableInterleaving(interleaving))
	require.NoError(t, err)
	a.lock.Lock()
	a.payloadQueue.init(f4PeerInitTSN - 1)
	a.peerVerificationTag = 0x1234
	a.sourcePort, a.destinationPort = 5000, 5000
	a.peerForwardTSN = true
	a.peerInterleaving = interleaving
	a.peerIForwardTSN = interleaving
	require.NoError(t, a.updateInterleavingState())
	a.setState(established)
	a.lock.Unlock()
	t.Cleanup(func() { _ = a.close() })

	return a
}

func f4Packet(t *testing.T, a *Association, cs ...chunk) []byte {
	t.Helper()
	p := &packet{sourcePort: 5000, destinationPort: 5000, verificationTag: a.myVerificationTag, chunks: cs}
	raw, err := p.marshal(true)
	require.NoError(t, err)

	return raw
}

func TestF4ForwardTSNHalfApplied(t *testing.T) {
	a := f4Assoc(t, false)
	require.True(t, a.useForwardTSN)

	// tsn 1000: first fragment of the ordered message ssn=0 on stream 1 (incomplete)
	require.NoError(t, a.handleInbound(f4Packet(t, a, &chunkPayloadData{
		tsn: 1000, streamIdentifier: 1, streamSequenceNumber: 0, beginningFragment: true,
		payloadType: PayloadTypeWebRTCBinary, userData: []byte("ordered-part-1"),
	})))
	a.gatherOutbound()

	a.lock.Lock()
	s := a.streams[1]
	a.lock.Unlock()
	require.NotNil(t, s)
	require.Equal(t, uint32(1000), a.peerLastTSN())
	require.Equal(t, len("ordered-part-1"), s.getNumBytesInReassemblyQueue())

	fwd := &chunkForwardTSN{
		newCumulativeTSN: a.peerLastTSN() + 1<<31,
		streams:          []chunkForwardTSNStream{{identifier: 1, sequence: 7}},
	}
	require.NoError(t, a.handleInbound(f4Packet(t, a, fwd)))
	a.gatherOutbound()

	a.lock.Lock()
	cum := a.peerLastTSN()
	aborting := a.willSendAbort
	a.lock.Unlock()
	if aborting || cum == fwd.newCumulativeTSN {
		return // answered with ABORT, or applied as a whole: both consistent
	}

	// The cumulative TSN did not move, i.e. the chunk was treated as out of date.
	// It must then have been dropped without side effects.
	require.Equal(t, uint32(1000), cum)
	s.lock.RLock()
	nextSSN := s.reassemblyQueue.nextSSN
	nOrdered := len(s.reassemblyQueue.ordered)
	s.lock.RUnlock()
	t.Logf("FORWARD-TSN: cumTSN=%d (unchanged) nextSSN=%d orderedSets=%d queuedBytes=%d",
		cum, nextSSN, nOrdered, s.getNumBytesInReassemblyQueue())
	require.Equal(t, uint16(0), nextSSN, "stream SSN was forwarded although the cumulative TSN was not")
	require.Equal(t, 1, nOrdered, "an acknowledged, undelivered fragment was purged")
}

func TestF4IForwardTSNHalfApplied(t *testing.T) {
	a := f4Assoc(t, true)
	require.True(t, a.useIForwardTSN)

	require.NoError(t, a.handleInbound(f4Packet(t, a, &chunkPayloadData{
		tsn: 1000, streamIdentifier: 1, messageIdentifier: 0, beginningFragment: true, iData: true,
		payloadType: PayloadTypeWebRTCBinary, userData: []byte("ordered-part-1"),
	})))
	a.gatherOutbound()

	a.lock.Lock()
	s := a.streams[1]
	a.lock.Unlock()
	require.NotNil(t, s)
	require.Equal(t, uint32(1000), a.peerLastTSN())
	require.Equal(t, len("ordered-part-1"), s.getNumBytesInReassemblyQueue())

	fwd := &chunkIForwardTSN{
		newCumulativeTSN: a.peerLastTSN() + 1<<31,
		streams:          []chunkIForwardTSNStream{{identifier: 1, messageIdentifier: 7}},
	}
	require.NoError(t, a.handleInbound(f4Packet(t, a, fwd)))
	a.gatherOutbound()

	a.lock.Lock()
	cum := a.peerLastTSN()
	aborting := a.willSendAbort
	a.lock.Unlock()
	if aborting || cum == fwd.newCumulativeTSN {
		return
	}
	require.Equal(t, uint32(1000), cum)
	s.lock.RLock()
	nextMID := s.reassemblyQueue.nextMID
	nOrdered := len(s.reassemblyQueue.orderedMID)
	s.lock.RUnlock()
	t.Logf("I-FORWARD-TSN: cumTSN=%d (unchanged) nextMID=%d orderedSets=%d queuedBytes=%d",
		cum, nextMID, nOrdered, s.getNumBytesInReassemblyQueue())
	require.Equal(t, uint32(0), nextMID, "stream MID was forwarded although the cumulative TSN was not")
	require.Equal(t, 1, nOrdered, "an acknowledged, undelivered fragment was purged")
}
