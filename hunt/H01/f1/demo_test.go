package sctp

// Finding 1 (C05): with a large receive buffer the SACK chunk length overflows
// its 16-bit Chunk Length field; the emitted SACK is malformed and does not
// report the accepted TSNs.
//
// Copy to the package root as zz_f1_test.go and run:
//   go test -count=1 -run 'TestF1' .
// TestF1SackOverflowFullHistory replays the complete arrival history through
// handleInbound; it takes ~30 s (the per-chunk cost is inside the library) and
// is therefore only run when F1_FULL=1 is set.

import (
	"net"
	"os"
	"testing"
	"time"

	"github.com/pion/logging"
	"github.com/stretchr/testify/require"
)

type f1NopConn struct{ closed chan struct{} }

func (c *f1NopConn) Read(_ []byte) (int, error)  { <-c.closed; return 0, net.ErrClosed }
func (c *f1NopConn) Write(p []byte) (int, error) { return len(p), nil }
func (c *f1NopConn) Close() error {
	select {
	case <-c.closed:
	default:
		close(c.closed)
	}

	return nil
}
func (c *f1NopConn) LocalAddr() net.Addr                { return &net.IPAddr{} }
func (c *f1NopConn) RemoteAddr() net.Addr               { return &net.IPAddr{} }
func (c *f1NopConn) SetDeadline(_ time.Time) error      { return nil }
func (c *f1NopConn) SetReadDeadline(_ time.Time) error  { return nil }
func (c *f1NopConn) SetWriteDeadline(_ time.Time) error { return nil }

const f1PeerInitTSN = uint32(1000)

func f1Assoc(t *testing.T, recvBuf uint32) *Association {
	t.Helper()
	lf := logging.NewDefaultLoggerFactory()
	lf.DefaultLogLevel = logging.LogLevelDisabled
	a, err := createServerAssociation(Config{
		NetConn:              &f1NopConn{closed: make(chan struct{})},
		LoggerFactory:        lf,
		MaxReceiveBufferSize: recvBuf,
	}, WithEnableInterleaving(false))
	require.NoError(t, err)
	// established association, like the existing handler-level tests build it
	a.lock.Lock()
	a.payloadQueue.init(f1PeerInitTSN - 1)
	a.peerVerificationTag = 0x1234
	a.sourcePort, a.destinationPort = 5000, 5000
	a.setState(established)
	a.lock.Unlock()
	t.Cleanup(func() { _ = a.close() })

	return a
}

func f1DataPacket(t *testing.T, a *Association, tsns ...uint32) []byte {
	t.Helper()
	p := &packet{sourcePort: 5000, destinationPort: 5000, verificationTag: a.myVerificationTag}
	for _, tsn := range tsns {
		p.chunks = append(p.chunks, &chunkPayloadData{
			tsn: tsn, streamIdentifier: 1, unordered: true, beginningFragment: true, endingFragment: true,
			payloadType: PayloadTypeWebRTCBinary, userData: []byte{0x42},
		})
	}
	raw, err := p.marshal(true)
	require.NoError(t, err)
	require.LessOrEqual(t, len(raw), int(receiveMTU))

	return raw
}

// checks that the next acknowledgement is well-formed and reports every accepted TSN.
func f1CheckNextSack(t *testing.T, a *Association, accepted map[uint32]bool) {
	t.Helper()
	outs, _ := a.gatherOutbound()
	var sack *chunkSelectiveAck
	for _, o := range outs {
		p := &packet{}
		require.NoError(t, p.unmarshal(true, o),
			"the SACK packet emitted by the endpoint (%d bytes) cannot be parsed", len(o))
		for _, c := range p.chunks {
			if s, ok := c.(*chunkSelectiveAck); ok {
				sack = s
			}
		}
	}
	require.NotNil(t, sack, "a SACK must be emitted")
	reported := map[uint32]bool{}
	for _, b := range sack.gapAckBlocks {
		for i := uint32(b.start); i <= uint32(b.end); i++ {
			reported[sack.cumulativeTSNAck+i] = true
		}
	}
	for tsn := range accepted {
		require.True(t, reported[tsn], "accepted tsn %d is not reported by the SACK", tsn)
	}
}

// Fast variant: the arrival history "every second TSN was lost" is installed
// directly in the receive queue (receivePayloadQueue.push is what handleData
// calls), then one real DATA packet is processed and the SACK it triggers is
// examined.
func TestF1SackOverflow(t *testing.T) {
	a := f1Assoc(t, 8*1024*1024)
	require.Equal(t, uint32(40000), a.payloadQueue.maxTSNOffset, "tracking window for an 8 MiB receive buffer")

	accepted := map[uint32]bool{}
	const nBlocks = 16400 // 16 + 4*16400 = 65616 > 65535
	tsn := f1PeerInitTSN + 1
	a.lock.Lock()
	for i := 0; i < nBlocks-1; i++ {
		require.True(t, a.payloadQueue.push(tsn))
		accepted[tsn] = true
		tsn += 2
	}
	a.lock.Unlock()

	// the last one arrives through the normal inbound path
	require.NoError(t, a.handleInbound(f1DataPacket(t, a, tsn)))
	accepted[tsn] = true
	require.Equal(t, nBlocks, a.payloadQueue.size())

	f1CheckNextSack(t, a, accepted)
}

// Full variant: every DATA chunk goes through handleInbound.
func TestF1SackOverflowFullHistory(t *testing.T) {
	if os.Getenv("F1_FULL") == "" {
		t.Skip("set F1_FULL=1 (takes ~30 s)")
	}
	a := f1Assoc(t, 8*1024*1024)
	accepted := map[uint32]bool{}
	const nBlocks = 16400
	tsn := f1PeerInitTSN + 1
	for sent := 0; sent < nBlocks; {
		var tsns []uint32
		for i := 0; i < 100 && sent < nBlocks; i++ {
			tsns = append(tsns, tsn)
			accepted[tsn] = true
			tsn += 2
			sent++
		}
		require.NoError(t, a.handleInbound(f1DataPacket(t, a, tsns...)))
	}
	require.Equal(t, nBlocks, a.payloadQueue.size())
	f1CheckNextSack(t, a, accepted)
}

// Same root cause through the duplicate-TSN list: 16400 duplicates reported in
// one SACK (the write loop did not run while 41 inbound packets were processed).
func TestF1SackOverflowDuplicates(t *testing.T) {
	a := f1Assoc(t, 0)
	require.NoError(t, a.handleInbound(f1DataPacket(t, a, f1PeerInitTSN)))
	for sent := 0; sent < 16400; sent += 400 {
		tsns := make([]uint32, 400)
		for i := range tsns {
			tsns[i] = f1PeerInitTSN
		}
		require.NoError(t, a.handleInbound(f1DataPacket(t, a, tsns...)))
	}
	f1CheckNextSack(t, a, map[uint32]bool{})
}
