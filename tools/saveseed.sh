#!/bin/bash
# usage: saveseed.sh <agent seed dir> <seeded-id e.g. C09-s3> "<first-eval detected_by, space separated or empty>"
# Copies a CONFIRMED seed (evalseed.sh said build=ok suite=pass demo fail/pass) into /verif/seeded/<id>/ with meta.json.
set -eu
SRC=$1; ID=$2; DET=${3:-}
D=/verif/seeded/$ID; mkdir -p $D
cp $SRC/patch.diff $SRC/demo_test.go $SRC/notes.md $D/
python3 - "$D" "${ID%%-*}" "$DET" <<'PY'
import json,sys
d,prop,det=sys.argv[1:4]
det=[x for x in det.split() if x]
json.dump({"property":prop,"source":"independent sub-agent given only the property text and a scratch worktree (second round: asked for mechanisms different from the first-round seeds)",
"confirmed":{"builds":True,"existing_suite_passes_with_change":True,"demo_fails_with_change":True,"demo_passes_without_change":True},
"what_ran":"tools/evalseed.sh (scratch copy of /repo under /tmp: apply patch, go build, full go test, demo with and without the change, then `bin/sctpverif all --repo <scratch>`)",
"needs_to_manifest":"see notes.md","detected_by_at_first_evaluation":det,"detected_by_now":det},open(d+"/meta.json","w"),indent=1)
PY
echo saved $D
