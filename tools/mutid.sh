#!/bin/bash
# usage: mutid.sh <mutant id> [rule filter]  — analyse one mutant of mutation/stageA.jsonl in a scratch copy (never executed)
set -e
S=$(mktemp -d /tmp/mutid.XXXXXX); trap 'rm -rf $S' EXIT
rsync -a --exclude .git /repo/ $S/
python3 - "$S" "$1" <<'PY'
import json,sys,os
d,mid=sys.argv[1:3]
for l in open('/verif/mutation/stageA.jsonl'):
    m=json.loads(l)
    if m['id']==mid:
        src=open('/repo/'+m['file'],'rb').read()
        open(os.path.join(d,m['file']),'wb').write(src[:m['start']]+m['new'].encode()+src[m['end']:])
        print(m['id'],m['file'],m['line'],m['func'],m['op'],'|',m['orig'][:100])
PY
/verif/bin/sctpverif all --repo $S --no-evidence 2>&1 | grep -E "^(VIOLATION|UNRESOLVED) +C" | sort -u | cut -c1-220 | head -${N:-4}
