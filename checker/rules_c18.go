package main

import (
	"fmt"
	"go/token"
	"go/types"

	"golang.org/x/tools/go/ssa"
)

func isLenOfParam(fn *ssa.Function, idx int) VPat {
	return func(v ssa.Value) bool {
		call, ok := unconv(v).(*ssa.Call)
		if !ok {
			return false
		}
		b, ok := call.Call.Value.(*ssa.Builtin)
		return ok && b.Name() == "len" && idx < len(fn.Params) && call.Call.Args[0] == ssa.Value(fn.Params[idx])
	}
}

func init() {
	register(&Rule{ID: "C18.R1", Props: []string{"C18"}, Engine: "E3",
		Title:   "rejections precede side effects: in WriteSCTP fragmenting and queuing are dominated by the size check and the stream-state check",
		MinInst: 4,
		Run: func(c *RuleCtx) {
			ws := c.Fn("Stream.WriteSCTP")
			mms := c.Fn("Association.MaxMessageSize")
			stF := c.Fn("Stream.State")
			open := c.P.Const("StreamStateOpen")
			var ov int64
			fmt.Sscan(open.Val().String(), &ov)
			for _, name := range []string{"Stream.packetize", "Association.sendPayloadData"} {
				for _, pc := range callsIn(ws, c.Fn(name)) {
					c.Dom("size-checked-before:"+name, pc, CmpCond(token.LEQ, isLenOfParam(ws, 1), Derives(IsCallOf(mms))), "len(payload) <= MaxMessageSize()")
					c.Dom("state-checked-before:"+name, pc, CmpCond(token.EQL, IsCallOf(stF), IsConstInt(ov)), "State() == Open")
				}
			}
			// nothing with an effect happens before the checks: the first effectful call is packetize
			pk := c.Fn("Stream.packetize")
			okFirst := true
			forEachInstr(ws, func(in ssa.Instruction) {
				st, ok := in.(*ssa.Store)
				if !ok || isFresh(st.Addr) {
					return
				}
				if _, isAlloc := addrRoot(st.Addr).(*ssa.Alloc); isAlloc {
					return
				}
				for _, pc := range callsIn(ws, pk) {
					if !InstrDominates(pc, in) {
						okFirst = false
					}
				}
			})
			c.Check(okFirst, "no-state-change-before-checks", c.P.Pos(ws.Pos()), "no stream/association field is written before packetize", "a field is written before the rejection checks")
		}})

	register(&Rule{ID: "C18.R2", Props: []string{"C18", "C01"}, Engine: "E7",
		Title:   "an empty write consumes nothing: sequence numbers, buffered amount and the blocking-write gate are touched only when at least one chunk is produced",
		MinInst: 2,
		Run: func(c *RuleCtx) {
			ws := c.Fn("Stream.WriteSCTP")
			pk := c.Fn("Stream.packetize")
			nonEmptyAtCall := func(pc ssa.Instruction) bool {
				return DominatedByExt(pc, CmpCond(token.NEQ, isLenOfParam(ws, 1), IsConstInt(0))) ||
					DominatedByExt(pc, CmpCond(token.GTR, isLenOfParam(ws, 1), IsConstInt(0)))
			}
			// either the caller proves the payload non-empty, or every counter store in packetize is guarded
			for _, pc := range callsIn(ws, pk) {
				if nonEmptyAtCall(pc) {
					c.Ok("empty-write:packetize", c.Pos(pc), "packetize is reached only with len(payload) != 0")
					continue
				}
				guarded := true
				bad := ""
				for _, f := range []string{"sequenceNumber", "nextOrderedMID", "nextUnorderedMID", "bufferedAmount"} {
					for _, a := range c.storesIn(pk, c.field("Stream", f)) {
						g := DominatedByExt(a.Instr, CmpCond(token.NEQ, isLenOfParam(pk, 1), IsConstInt(0))) ||
							DominatedByExt(a.Instr, CmpCond(token.GTR, isLenOfParam(pk, 1), IsConstInt(0))) ||
							DominatedByExt(a.Instr, func(v ssa.Value, t bool) bool {
								// len(chunks) > 0 / != 0
								b, ok := v.(*ssa.BinOp)
								if !ok {
									return false
								}
								eff := b.Op
								if !t {
									eff = invertOp(eff)
								}
								if call, ok := unconv(b.X).(*ssa.Call); ok {
									if bi, ok := call.Call.Value.(*ssa.Builtin); ok && bi.Name() == "len" && IsConstInt(0)(b.Y) && (eff == token.GTR || eff == token.NEQ) {
										return true
									}
								}
								return false
							})
						if !g {
							guarded = false
							bad = f + " at " + c.Pos(a.Instr)
						}
					}
				}
				c.Check(guarded, "empty-write:packetize", c.Pos(pc), "every counter update in packetize is guarded by a non-empty proof",
					"Write([]byte{}) reaches packetize, whose fragment loop runs zero times but still consumes "+bad+": the SSN/MID is burnt with no chunk sent, so every later ordered message on the stream is undeliverable")
			}
			spd := c.Fn("Association.sendPayloadData")
			wp := c.field("Association", "writePending")
			for _, sc := range callsIn(ws, spd) {
				if nonEmptyAtCall(sc) {
					c.Ok("empty-write:gate", c.Pos(sc), "sendPayloadData is reached only with a non-empty payload")
					continue
				}
				guarded := true
				for _, a := range c.storesIn(spd, wp) {
					if !IsConstBool(true)(a.Val) {
						continue
					}
					g := DominatedByExt(a.Instr, func(v ssa.Value, t bool) bool {
						b, ok := v.(*ssa.BinOp)
						if !ok {
							return false
						}
						eff := b.Op
						if !t {
							eff = invertOp(eff)
						}
						return isLenOfParam(spd, 2)(b.X) && IsConstInt(0)(b.Y) && (eff == token.GTR || eff == token.NEQ)
					})
					if !g {
						guarded = false
					}
				}
				c.Check(guarded, "empty-write:gate", c.Pos(sc), "writePending is raised only when chunks are queued",
					"in blocking-write mode an empty write sets writePending with nothing queued to clear it: every later write blocks forever")
			}
		}})

	register(&Rule{ID: "C18.R4", Props: []string{"C18"}, Engine: "E3+E4",
		Title:   "blocking-write gate: the wait selects on the deadline and the captured notify channel, a deadline returns without queuing anything, the gate is raised before the pushes and lowered when the pending queue drains",
		MinInst: 6,
		Run: func(c *RuleCtx) {
			spd := c.Fn("Association.sendPayloadData")
			wp := c.field("Association", "writePending")
			wn := c.field("Association", "writeNotify")
			bw := c.field("Association", "blockWrite")
			push := c.Fn("pendingQueue.push")
			var sel *ssa.Select
			forEachInstr(spd, func(in ssa.Instruction) {
				if s, ok := in.(*ssa.Select); ok && s.Blocking {
					sel = s
				}
			})
			if sel == nil {
				c.Fail("gate-wait", c.P.Pos(spd.Pos()), "no blocking select in sendPayloadData")
				return
			}
			// the notify channel is captured under the lock before it is released
			var notifyCh ssa.Value
			for _, st := range sel.States {
				if IsLoadOf(wn)(st.Chan) {
					notifyCh = st.Chan
				}
			}
			c.Check(notifyCh != nil, "gate-waits-on-notify", c.Pos(sel), "select waits on the captured a.writeNotify", "wait does not include writeNotify")
			if notifyCh != nil {
				le := c.P.Locks()
				ld := notifyCh.(ssa.Instruction)
				okHeld := true
				for _, ls := range le.HeldAt(ld) {
					if !le.Holds(ls, "Association.lock", false) {
						okHeld = false
					}
				}
				c.Check(okHeld, "notify-captured-under-lock", c.Pos(ld), "writeNotify is read while holding Association.lock (unblockPendingWrites replaces it under the lock)", "writeNotify read without the lock: a close+replace can be missed")
			}
			// the ctx.Done() case leads to a return without a push
			okCtx := false
			for i, st := range sel.States {
				if chanName(st.Chan) != ".Done()" {
					continue
				}
				// find the block taken when index == i
				for _, r := range *sel.Referrers() {
					ex, ok := r.(*ssa.Extract)
					if !ok || ex.Index != 0 {
						continue
					}
					for _, r2 := range *ex.Referrers() {
						b, ok := r2.(*ssa.BinOp)
						if !ok || b.Op != token.EQL || !IsConstInt(int64(i))(b.Y) {
							continue
						}
						for _, r3 := range *b.Referrers() {
							if ifi, ok := r3.(*ssa.If); ok {
								blk := ifi.Block().Succs[0]
								reach := false
								for _, pc := range callsIn(spd, push) {
									if blk == pc.Block() || CanReach(blk.Instrs[0], pc) {
										reach = true
									}
								}
								okCtx = !reach
							}
						}
					}
				}
			}
			c.Check(okCtx, "deadline-queues-nothing", c.Pos(sel), "the ctx.Done() case cannot reach pendingQueue.push", "a write that hit its deadline can still queue data")
			// gate raised before pushes, only in blocking mode
			for _, a := range c.storesIn(spd, wp) {
				if !IsConstBool(true)(a.Val) {
					continue
				}
				c.Dom("gate-only-blocking-mode", a.Instr, BoolCond(IsLoadOf(bw), true), "a.blockWrite")
				for _, pc := range callsIn(spd, push) {
					c.Check(CanReach(a.Instr, pc) && !CanReach(pc, a.Instr), "gate-before-push", c.Pos(a.Instr), "writePending=true precedes the pushes", "gate raised after queuing")
				}
				// and only after the loop saw writePending == false
				if !DominatedByExt(a.Instr, BoolCond(IsLoadOf(wp), false)) {
					// not a plain dominating test (e.g. `for { …; if !blockWrite || !writePending { break }; wait }` followed by
					// `if blockWrite { writePending = true }`): decide per path, keyed by field — blockWrite never changes
					// after construction, writePending can change whenever the association lock is released
					unlock := func(f *types.Var, in ssa.Instruction) bool {
						if f != wp {
							return false
						}
						ci, isCall := in.(ssa.CallInstruction)
						if !isCall {
							return false
						}
						if _, isSel := in.(*ssa.Select); isSel {
							return true
						}
						sc := ci.Common().StaticCallee()
						return sc != nil && (sc.Name() == "Unlock" || sc.Name() == "Lock" || sc.Name() == "RUnlock" || sc.Name() == "RLock")
					}
					ok := fieldKnownAt(a.Instr, []*types.Var{wp, bw}, func(f *types.Var, in ssa.Instruction) bool {
						if _, isSel := in.(*ssa.Select); isSel && f == wp {
							return true
						}
						return unlock(f, in)
					}, wp, false)
					c.Check(ok, "gate-after-wait", c.Pos(a.Instr), "on every path writePending was seen false since the lock was last taken", "NOT dominated by writePending == false (holds here: "+c.describeConds(a.Instr)+")")
				} else {
					c.Dom("gate-after-wait", a.Instr, BoolCond(IsLoadOf(wp), false), "writePending == false")
				}
			}
			// drain edge
			pop := c.Fn("Association.popPendingDataChunksToSend")
			// the drain notification: a non-blocking send on writeNotify with writePending cleared, in pop itself or in a helper it calls
			wn = c.field("Association", "writeNotify")
			var notifySends []ssa.Instruction
			forEachInstrDeep(c.P, pop, 2, func(in ssa.Instruction) {
				if sel, ok := in.(*ssa.Select); ok && !sel.Blocking {
					for _, st := range sel.States {
						if st.Dir == types.SendOnly && IsLoadOf(wn)(st.Chan) {
							notifySends = append(notifySends, in)
						}
					}
				}
			})
			c.Check(len(notifySends) >= 1, "drain-notifies", c.P.Pos(pop.Pos()), "the writer notifies blocked writers when the pending queue drains", fmt.Sprintf("%d drain notification sites", len(notifySends)))
			for _, ns := range notifySends {
				c.Dom("drain-notifies:blocking", ns, BoolCond(IsLoadOf(bw), true), "a.blockWrite")
				c.Dom("drain-notifies:empty", ns, CmpCond(token.EQL, IsCallOf(c.Fn("pendingQueue.size")), IsConstInt(0)), "pendingQueue.size() == 0")
				okClr := false
				for _, a := range c.storesIn(ns.Parent(), wp) {
					if IsConstBool(false)(a.Val) && (InstrDominates(a.Instr, ns) || a.Instr.Block() == ns.Block()) {
						okClr = true
					}
				}
				c.Check(okClr, "notify-lowers-gate", c.Pos(ns), "the notification clears writePending", "the drain notification does not clear writePending")
			}
			ub := c.Fn("Association.unblockPendingWrites")
			okU := false
			for _, a := range c.storesIn(ub, wp) {
				if IsConstBool(false)(a.Val) {
					okU = true
				}
			}
			c.Check(okU, "unblock-lowers-gate", c.P.Pos(ub.Pos()), "unblockPendingWrites clears writePending", "unblockPendingWrites does not clear writePending")
		}})

	register(&Rule{ID: "C18.R5", Props: []string{"C18"}, Engine: "E3",
		Title:   "a short read buffer keeps the message: every container change and byte release in reassemblyQueue.read is on the err == nil side, and the short-buffer error is reported with the needed size",
		MinInst: 6,
		Run: func(c *RuleCtx) {
			rd := c.Fn("reassemblyQueue.read")
			// "err": a value that may hold io.ErrShortBuffer (directly, through φ, or as a helper's result)
			noErr := func(v ssa.Value, t bool) bool {
				b, ok := v.(*ssa.BinOp)
				if !ok || !isNilConst(b.Y) {
					return false
				}
				if !mayBeGlobal(b.X, "io", "ErrShortBuffer", 0, map[ssa.Value]bool{}) {
					return false
				}
				return (b.Op == token.NEQ && !t) || (b.Op == token.EQL && t)
			}
			n := 0
			for _, f := range []string{"ordered", "unordered", "orderedMID", "unorderedMID", "nextSSN", "nextMID"} {
				for _, a := range c.storesIn(rd, c.field("reassemblyQueue", f)) {
					n++
					c.Dom(fmt.Sprintf("keep-on-short-buffer:%s", f), a.Instr, noErr, "err == nil")
				}
			}
			for _, sc := range callsIn(rd, c.Fn("reassemblyQueue.subtractNumBytes")) {
				n++
				c.Dom(ks18.key("keep-bytes-on-short-buffer"), sc, noErr, "err == nil")
			}
			c.Check(n >= 8, "read-mutations", c.P.Pos(rd.Pos()), fmt.Sprintf("%d mutation sites, all on the success side", n), "mutation sites missing")
			// the short-buffer test compares remaining space with the fragment length
			okT := 0
			for _, g := range c.P.Region(rd) {
				forEachInstr(g, func(in ssa.Instruction) {
					ifi, ok := in.(*ssa.If)
					if !ok {
						return
					}
					b, ok := ifi.Cond.(*ssa.BinOp)
					if !ok || b.Op != token.LSS {
						return
					}
					// len(<the caller's buffer>) - copied < len(fragment): the buffer is a []byte parameter
					for i, prm := range g.Params {
						if typeShort(prm.Type()) == "[]byte" && Derives(isLenOfParam(g, i))(b.X) {
							okT++
						}
					}
				})
			}
			c.Check(okT >= 1, "short-buffer-test", c.P.Pos(rd.Pos()), fmt.Sprintf("len(buf)-nTotal < len(fragment) tested (%d site(s)) for both framings", okT), "no short-buffer test found")
			// ReadSCTP returns short-buffer results instead of waiting
			rs := c.Fn("Stream.ReadSCTP")
			okR := false
			forEachInstr(rs, func(in ssa.Instruction) {
				if call, ok := in.(*ssa.Call); ok {
					if sc := call.Call.StaticCallee(); sc != nil && sc.Name() == "Is" && sc.Pkg != nil && sc.Pkg.Pkg.Path() == "errors" {
						okR = true
					}
				}
			})
			c.Check(okR, "short-buffer-returned", c.P.Pos(rs.Pos()), "ReadSCTP returns io.ErrShortBuffer to the caller", "ReadSCTP no longer distinguishes the short-buffer error")
		}})

	register(&Rule{ID: "C18.R6", Props: []string{"C18"}, Engine: "E2",
		Title:   "the read-deadline goroutine only records the deadline error (if none is set) and wakes the reader; it never touches queued data",
		MinInst: 3,
		Run: func(c *RuleCtx) {
			// the goroutine SetReadDeadline starts (a closure, or a method it was moved to)
			gs := goTargetsIn(c.Fn("Stream.SetReadDeadline"))
			if len(gs) != 1 {
				panic(unresolved{"the goroutine started by Stream.SetReadDeadline"})
			}
			g := gs[0]
			re := c.field("Stream", "readErr")
			rtc := c.field("Stream", "readTimeoutCancel")
			allowed := map[*types.Var]bool{re: true, rtc: true}
			okOnly := true
			forEachInstr(g, func(in ssa.Instruction) {
				if st, ok := in.(*ssa.Store); ok && !isFresh(st.Addr) {
					if f := fieldOfAddr(st.Addr); f == nil || !allowed[f] {
						if _, isAlloc := addrRoot(st.Addr).(*ssa.Alloc); !isAlloc {
							okOnly = false
						}
					}
				}
			})
			c.Check(okOnly, "deadline-goroutine-writes", c.P.Pos(g.Pos()), "writes only readErr / readTimeoutCancel", "the deadline goroutine writes other stream state")
			for _, a := range c.storesIn(g, re) {
				c.Dom("deadline-keeps-existing-error", a.Instr, CmpCond(token.EQL, IsLoadOf(re), isNilConst), "readErr == nil")
			}
			reach := c.P.TransitiveCallees(g)
			c.Check(!reach[c.Fn("reassemblyQueue.read")] && !reach[c.Fn("reassemblyQueue.subtractNumBytes")], "deadline-goroutine-no-queue", c.P.Pos(g.Pos()), "does not reach the reassembly queue", "the deadline goroutine can reach the reassembly queue")
			okSig := false
			forEachInstr(g, func(in ssa.Instruction) {
				if ci, ok := in.(ssa.CallInstruction); ok {
					if sc := ci.Common().StaticCallee(); sc != nil && sc.Name() == "Broadcast" {
						okSig = true
					}
				}
			})
			c.Check(okSig, "deadline-wakes-reader", c.P.Pos(g.Pos()), "wakes every blocked reader (Broadcast)", "the deadline does not wake every blocked reader (Signal wakes one; with several goroutines in Read the others stay blocked past the deadline)")
			// the timer acts only while it still owns the deadline: under the lock, readTimeoutCancel is still its own channel
			for _, a := range c.storesIn(g, re) {
				owns := false
				for _, ft := range DomFactsX(a.Instr.Block()) {
					b, isB := ft.Cond.(*ssa.BinOp)
					if !isB || (b.Op != token.EQL && b.Op != token.NEQ) {
						continue
					}
					isOwn := func(v ssa.Value) bool {
						switch unconv(v).(type) {
						case *ssa.Parameter, *ssa.FreeVar:
							return true
						}
						if u, isU := unconv(v).(*ssa.UnOp); isU {
							_, fv := u.X.(*ssa.FreeVar)
							return fv
						}
						return false
					}
					same := (IsLoadOf(rtc)(b.X) && isOwn(b.Y)) || (IsLoadOf(rtc)(b.Y) && isOwn(b.X))
					if same && ((b.Op == token.EQL && ft.Taken) || (b.Op == token.NEQ && !ft.Taken)) {
						owns = true
					}
				}
				c.Check(owns, "deadline-timer-still-owns-deadline", c.Pos(a.Instr), "readErr is set only while readTimeoutCancel is still this timer's channel", "a timer that was superseded while it waited for the stream lock still installs the deadline error (and clears the new deadline's cancel channel)")
			}
		}})
}

var ks18 = keyer{}

// calleesOneLevel: in-package functions statically called from fn.
func calleesOneLevel(p *Prog, fn *ssa.Function) []*ssa.Function {
	seen := map[*ssa.Function]bool{}
	var out []*ssa.Function
	forEachInstr(fn, func(in ssa.Instruction) {
		if ci, ok := in.(ssa.CallInstruction); ok {
			if _, isGo := in.(*ssa.Go); isGo {
				return
			}
			if sc := ci.Common().StaticCallee(); sc != nil && p.inPkg(sc) && sc.Blocks != nil && !seen[sc] {
				seen[sc] = true
				out = append(out, sc)
			}
		}
	})
	return out
}
