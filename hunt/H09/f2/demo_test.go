package sctp

import (
	"bytes"
	"sync"
	"sync/atomic"
	"testing"
	"time"

	"github.com/pion/transport/v4/test"
	"github.com/stretchr/testify/require"
)

// Default configuration on both sides (interleaving negotiated, default
// scheduler, default 1 MiB receive buffer, default 64 KiB max message size).
// 20 reliable ordered streams each carry ONE maximum-size message at the same
// time. No packet is lost. The receiving application accepts every stream and
// reads eagerly.
func TestHunt2InterleavedMaxSizeMessagesOnManyStreamsNeverDelivered(t *testing.T) {
	const nStreams = 20

	br := test.NewBridge()
	a0, a1, err := createNewAssociationPairWithInterleaving(br, ackModeNoDelay, 0, true, true)
	require.NoError(t, err)
	defer closeAssociationPair(br, a0, a1)
	require.True(t, a0.useInterleaving)

	msgSize := int(a0.MaxMessageSize())
	require.Equal(t, 65536, msgSize)

	var delivered int32
	var wg sync.WaitGroup
	go func() {
		for {
			s, aerr := a1.AcceptStream()
			if aerr != nil {
				return
			}
			wg.Add(1)
			go func() {
				defer wg.Done()
				buf := make([]byte, msgSize)
				n, _, rerr := s.ReadSCTP(buf)
				if rerr != nil {
					return
				}
				want := bytes.Repeat([]byte{byte(s.StreamIdentifier())}, msgSize)
				if n == msgSize && bytes.Equal(buf[:n], want) {
					atomic.AddInt32(&delivered, 1)
				}
			}()
		}
	}()

	for i := 0; i < nStreams; i++ {
		s, oerr := a0.OpenStream(uint16(i), PayloadTypeWebRTCBinary)
		require.NoError(t, oerr)
		n, werr := s.WriteSCTP(bytes.Repeat([]byte{byte(i)}, msgSize), PayloadTypeWebRTCBinary)
		require.NoError(t, werr)
		require.Equal(t, msgSize, n)
	}

	deadline := time.Now().Add(8 * time.Second)
	for time.Now().Before(deadline) && atomic.LoadInt32(&delivered) < nStreams {
		br.Tick()
		time.Sleep(100 * time.Microsecond)
	}

	a1.lock.RLock()
	credit := a1.getMyReceiverWindowCredit()
	a1.lock.RUnlock()
	t.Logf("delivered=%d/%d sender: pending=%d inflight=%d rwnd=%d ; receiver window credit=%d",
		atomic.LoadInt32(&delivered), nStreams,
		a0.pendingQueue.size(), a0.inflightQueue.size(), a0.RWND(), credit)

	require.Equal(t, int32(nStreams), atomic.LoadInt32(&delivered),
		"every accepted message must be delivered")
}

// Variant of hunt2 without interleaving: classic DATA, a single stream, a
// single message of the (default) maximum message size, receive buffer
// configured smaller than that (32 KiB). No loss.
func TestHunt2bMessageLargerThanReceiveBufferNeverDelivered(t *testing.T) {
	br := test.NewBridge()
	a0, a1, err := createNewAssociationPair(br, ackModeNoDelay, 32*1024)
	require.NoError(t, err)
	defer closeAssociationPair(br, a0, a1)

	s0, s1, err := establishSessionPair(br, a0, a1, 1)
	require.NoError(t, err)

	msgSize := int(a0.MaxMessageSize())
	msg := bytes.Repeat([]byte{0xab}, msgSize)
	n, err := s0.WriteSCTP(msg, PayloadTypeWebRTCBinary)
	require.NoError(t, err)
	require.Equal(t, msgSize, n)

	got := make(chan int, 1)
	go func() {
		buf := make([]byte, msgSize)
		n, _, rerr := s1.ReadSCTP(buf)
		if rerr == nil {
			got <- n
		}
	}()

	deadline := time.Now().Add(6 * time.Second)
	for time.Now().Before(deadline) {
		br.Tick()
		select {
		case n := <-got:
			require.Equal(t, msgSize, n)
			return
		default:
		}
		time.Sleep(100 * time.Microsecond)
	}
	a1.lock.RLock()
	credit := a1.getMyReceiverWindowCredit()
	a1.lock.RUnlock()
	t.Fatalf("message of %d bytes never delivered: sender pending=%d inflight=%d rwnd=%d, receiver credit=%d queued=%d",
		msgSize, a0.pendingQueue.size(), a0.inflightQueue.size(), a0.RWND(), credit, s1.getNumBytesInReassemblyQueue())
}
