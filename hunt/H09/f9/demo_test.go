package sctp

import (
	"bytes"
	"sync/atomic"
	"testing"
	"time"

	"github.com/pion/transport/v4/test"
	"github.com/stretchr/testify/require"
)

// Default configuration (interleaving negotiated). The sender opens 40 reliable
// ordered streams and writes three 3000-byte messages on each (360 kB in
// total, well inside the 1 MiB receive window). No packet is lost.
// The receiving application handles one stream at a time: AcceptStream, read
// that stream's three messages, AcceptStream again, ...
func TestHunt9UnacceptedStreamsBlockAcceptedOnesForever(t *testing.T) {
	const nStreams = 40
	const perStream = 3
	const msgSize = 3000

	br := test.NewBridge()
	a0, a1, err := createNewAssociationPairWithInterleaving(br, ackModeNoDelay, 0, true, true)
	require.NoError(t, err)
	defer closeAssociationPair(br, a0, a1)
	require.True(t, a0.useInterleaving)
	// only to make the retransmissions (which cannot help) happen quickly
	a0.rtoMgr.setRTO(50, true)

	for i := 0; i < nStreams; i++ {
		s, oerr := a0.OpenStream(uint16(i), PayloadTypeWebRTCBinary)
		require.NoError(t, oerr)
		for m := 0; m < perStream; m++ {
			_, werr := s.WriteSCTP(bytes.Repeat([]byte{byte(i), byte(m)}, msgSize/2), PayloadTypeWebRTCBinary)
			require.NoError(t, werr)
		}
	}

	var delivered int32
	readerDone := make(chan string, 1)
	go func() {
		buf := make([]byte, 65536)
		for i := 0; i < nStreams; i++ {
			s, aerr := a1.AcceptStream()
			if aerr != nil {
				readerDone <- "accept: " + aerr.Error()

				return
			}
			_ = s.SetReadDeadline(time.Now().Add(6 * time.Second))
			for m := 0; m < perStream; m++ {
				n, _, rerr := s.ReadSCTP(buf)
				if rerr != nil {
					readerDone <- "stream " + string(rune('0'+s.StreamIdentifier()/10)) + string(rune('0'+s.StreamIdentifier()%10)) +
						": message " + string(rune('0'+m)) + ": " + rerr.Error()

					return
				}
				want := bytes.Repeat([]byte{byte(s.StreamIdentifier()), byte(m)}, msgSize/2)
				if !bytes.Equal(buf[:n], want) {
					readerDone <- "corrupt message"

					return
				}
				atomic.AddInt32(&delivered, 1)
			}
		}
		readerDone <- ""
	}()

	var result string
loop:
	for {
		select {
		case result = <-readerDone:
			break loop
		default:
			if br.Tick() == 0 {
				time.Sleep(200 * time.Microsecond)
			}
		}
	}

	a0.lock.RLock()
	a1.lock.RLock()
	t.Logf("delivered %d/%d; sender cwnd=%d inflight=%d chunks (%d bytes) pending=%d chunks T3 timeouts=%d; "+
		"receiver accept backlog=%d/%d, window credit=%d, %s",
		atomic.LoadInt32(&delivered), nStreams*perStream, a0.CWND(), a0.inflightQueue.size(), a0.inflightQueue.getNumBytes(),
		a0.pendingQueue.size(), a0.stats.getNumT3Timeouts(), len(a1.acceptCh), cap(a1.acceptCh),
		a1.getMyReceiverWindowCredit(), a1.payloadQueue.getGapAckBlocksString())
	a1.lock.RUnlock()
	a0.lock.RUnlock()
	require.Empty(t, result, "a message accepted by Write was never delivered")
}
