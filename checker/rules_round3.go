package main

import (
	"fmt"
	"go/token"
	"go/types"
	"strings"

	"golang.org/x/tools/go/ssa"
)

// Rules added after the third round of seeded defects (DESIGN §9).

// mentionsElemOf: v is computed from an element of the slice field f (a set
// picked while ranging over r.ordered, its fields, calls on it, …).
func mentionsElemOf(v ssa.Value, f *types.Var, d int, seen map[ssa.Value]bool) bool {
	if v == nil || d > 10 || seen[v] {
		return false
	}
	seen[v] = true
	switch x := v.(type) {
	case *ssa.UnOp:
		if ia, ok := x.X.(*ssa.IndexAddr); ok && IsLoadOf(f)(ia.X) {
			return true
		}
		return mentionsElemOf(x.X, f, d+1, seen)
	case *ssa.FieldAddr:
		return mentionsElemOf(x.X, f, d+1, seen)
	case *ssa.IndexAddr:
		return IsLoadOf(f)(x.X) || mentionsElemOf(x.X, f, d+1, seen)
	case *ssa.Field:
		return mentionsElemOf(x.X, f, d+1, seen)
	case *ssa.BinOp:
		return mentionsElemOf(x.X, f, d+1, seen) || mentionsElemOf(x.Y, f, d+1, seen)
	case *ssa.Convert:
		return mentionsElemOf(x.X, f, d+1, seen)
	case *ssa.Phi:
		for _, e := range x.Edges {
			if mentionsElemOf(e, f, d+1, seen) {
				return true
			}
		}
	case *ssa.Extract:
		return mentionsElemOf(x.Tuple, f, d+1, seen)
	case *ssa.Next:
		if rg, ok := x.Iter.(*ssa.Range); ok {
			return IsLoadOf(f)(rg.X)
		}
	case *ssa.Call:
		for _, a := range x.Call.Args {
			if mentionsElemOf(a, f, d+1, seen) {
				return true
			}
		}
		if x.Call.IsInvoke() {
			return mentionsElemOf(x.Call.Value, f, d+1, seen)
		}
	}
	return false
}

func init() {
	register(&Rule{ID: "C01.R9", Props: []string{"C01", "C02"}, Engine: "E3",
		Title:   "one reassembly set per ordered message: an arriving DATA fragment joins the existing set of its stream sequence number whenever that set holds a fragment — the only properties of a queued set that decide the match are its SSN and whether its first chunk is a fragment (so a message whose last fragment arrives first is not split into two sets that can never complete)",
		MinInst: 2,
		Run: func(c *RuleCtx) {
			pw := c.Fn("reassemblyQueue.pushWithError")
			ordered := c.field("reassemblyQueue", "ordered")
			ssn := c.field("chunkSet", "ssn")
			isFrag := c.Fn("chunkPayloadData.isFragmented")
			n := 0
			forEachInstr(pw, func(in ssa.Instruction) {
				phi, ok := in.(*ssa.Phi)
				if !ok || typeShort(phi.Type()) != "*chunkSet" {
					return
				}
				for i, e := range phi.Edges {
					if _, viaPhi := e.(*ssa.Phi); viaPhi || !mentionsElemOf(e, ordered, 0, map[ssa.Value]bool{}) {
						continue // only the edge on which a queued set is picked
					}
					n++
					pred := phi.Block().Preds[i]
					facts := DomFacts(pred)
					if len(pred.Instrs) > 0 {
						if ifi, ok := pred.Instrs[len(pred.Instrs)-1].(*ssa.If); ok && pred.Succs[0] != pred.Succs[1] {
							cc, tt := normCond(ifi.Cond, pred.Succs[0] == phi.Block())
							facts = append(facts, condFact{cc, tt})
						}
					}
					var extra []string
					okSSN, okFrag := false, false
					for _, f := range facts {
						if isLoopBound(f.Cond) || isRangeOK(f.Cond) {
							continue
						}
						if !mentionsElemOf(f.Cond, ordered, 0, map[ssa.Value]bool{}) {
							continue // says nothing about which queued set is chosen
						}
						switch {
						case CmpCond(token.EQL, IsLoadOf(ssn), AnyV)(f.Cond, f.Taken):
							okSSN = true
						case CallCond(isFrag, true)(f.Cond, f.Taken):
							okFrag = true
						case phiExplainedBy(f.Cond, facts):
						default:
							extra = append(extra, fmt.Sprintf("%s=%v", shortValue(c.P, f.Cond), f.Taken))
						}
					}
					c.Check(okSSN && len(extra) == 0, "set-match", c.Pos(phi), fmt.Sprintf("existing set chosen by set.ssn == chunk.ssn (first-chunk-is-fragment test present: %v) and nothing else about the set", okFrag),
						"the existing set of the message is chosen (or passed over) by another property of the queued set: "+strings.Join(extra, ", ")+" — fragments of one message can end up in two sets")
				}
			})
			c.Check(n >= 1, "set-match-site", c.P.Pos(pw.Pos()), fmt.Sprintf("%d lookup site(s) of an existing ordered set", n), "no lookup of an existing ordered set found in pushWithError")
		}})

	register(&Rule{ID: "C05.R9", Props: []string{"C05", "C11"}, Engine: "E6-sibling",
		Title:   "canPush and push agree on the tracking window: the set of serial positions of tsn relative to cumulativeTSN and to cumulativeTSN+maxTSNOffset for which canPush answers true equals the set for which push records the TSN (a TSN that push would record but canPush refuses is marked received without its data ever reaching a stream)",
		MinInst: 2,
		Run: func(c *RuleCtx) {
			cp, push := c.Fn("receivePayloadQueue.canPush"), c.Fn("receivePayloadQueue.push")
			cum := c.field("receivePayloadQueue", "cumulativeTSN")
			mo := c.field("receivePayloadQueue", "maxTSNOffset")
			mask := c.field("receivePayloadQueue", "tsnBitmask")
			// situations of (tsn vs ref) established by the sna facts
			situ := func(facts []condFact, tsnPat, refPat VPat) int {
				s := snaAll
				for _, f := range facts {
					call, ok := f.Cond.(*ssa.Call)
					if !ok || len(call.Call.Args) != 2 {
						continue
					}
					_, rel, isSna := snaHelper(call.Call.StaticCallee())
					if !isSna {
						continue
					}
					a, b := call.Call.Args[0], call.Call.Args[1]
					switch {
					case tsnPat(a) && refPat(b):
						s &= snaSet(rel, f.Taken)
					case refPat(a) && tsnPat(b):
						s &= snaMirror(snaSet(rel, f.Taken))
					}
				}
				return s
			}
			hi := BinV(token.ADD, IsLoadOf(cum), IsLoadOf(mo))
			lo := IsLoadOf(cum)
			// canPush: union over "return true" leaves
			cpLo, cpHi := 0, 0
			for _, r := range allReturns(cp) {
				for _, lf := range leavesWithFacts(retResults(r)[0]) {
					facts := append(append([]condFact{}, lf.Facts...), DomFactsX(r.Block())...)
					// a leaf that is a boolean expression (return !hasChunk(tsn)) may be true
					mayBeTrue := !IsConstBool(false)(lf.Val)
					if !mayBeTrue {
						continue
					}
					if _, isK := lf.Val.(*ssa.Const); !isK {
						// the answer is this expression: it is true exactly when …
						cc, tt := normCond(lf.Val, true)
						facts = append(facts, condFact{cc, tt})
					}
					cpLo |= situ(facts, IsParam(cp, 1), lo)
					cpHi |= situ(facts, IsParam(cp, 1), hi)
				}
			}
			// push: the bit-setting store
			puLo, puHi, nSet := 0, 0, 0
			for _, st := range c.elementStores(mask) {
				if st.Parent() != push {
					continue
				}
				if b, ok := st.Val.(*ssa.BinOp); !ok || b.Op != token.OR {
					continue
				}
				nSet++
				facts := DomFactsX(st.Block())
				puLo |= situ(facts, IsParam(push, 1), lo)
				puHi |= situ(facts, IsParam(push, 1), hi)
			}
			name := func(s int) string {
				var p []string
				for _, x := range []struct {
					b int
					n string
				}{{snaBefore, "before"}, {snaEqual, "equal"}, {snaAfter, "after"}, {snaAntipode, "antipode"}} {
					if s&x.b != 0 {
						p = append(p, x.n)
					}
				}
				return "{" + strings.Join(p, ",") + "}"
			}
			c.Check(nSet == 1, "push-bit-set-site", c.P.Pos(push.Pos()), "one bit-setting store in push", fmt.Sprintf("%d bit-setting stores", nSet))
			c.Check(cpLo == puLo && cpLo != snaAll, "window-lower-edge-agrees", c.P.Pos(cp.Pos()), "tsn vs cumulativeTSN: canPush and push both accept "+name(cpLo),
				"canPush accepts tsn "+name(cpLo)+" relative to cumulativeTSN but push records "+name(puLo))
			c.Check(cpHi == puHi && cpHi != snaAll, "window-upper-edge-agrees", c.P.Pos(cp.Pos()), "tsn vs cumulativeTSN+maxTSNOffset: canPush and push both accept "+name(cpHi),
				"canPush accepts tsn "+name(cpHi)+" relative to cumulativeTSN+maxTSNOffset but push records "+name(puHi)+": at the differing position a TSN is marked received although its data was refused (or the reverse)")
		}})

	register(&Rule{ID: "C09.R11", Props: []string{"C09", "C18", "C08"}, Engine: "E3",
		Title:   "teardown releases every blocked writer: unblockPendingWrites closes (and replaces) the notify channel under no other condition than blocking-write mode being on — in particular not depending on writePending, which the drain notification clears while other writers are still parked",
		MinInst: 2,
		Run: func(c *RuleCtx) {
			ub := c.Fn("Association.unblockPendingWrites")
			bw := c.field("Association", "blockWrite")
			wn := c.field("Association", "writeNotify")
			n := 0
			forEachInstr(ub, func(in ssa.Instruction) {
				ci, ok := in.(ssa.CallInstruction)
				if !ok {
					return
				}
				b, ok := ci.Common().Value.(*ssa.Builtin)
				if !ok || b.Name() != "close" || !IsLoadOf(wn)(ci.Common().Args[0]) {
					return
				}
				n++
				var extra []string
				for _, f := range DomFacts(in.Block()) {
					if BoolCond(IsLoadOf(bw), true)(f.Cond, f.Taken) {
						continue
					}
					extra = append(extra, fmt.Sprintf("%s=%v", shortValue(c.P, f.Cond), f.Taken))
				}
				c.Check(len(extra) == 0, "wake-all-unconditional", c.Pos(in), "close(writeNotify) depends only on blockWrite", "blocked writers are released only if "+strings.Join(extra, " ∧ ")+": a writer still parked on the old channel stays blocked for ever after Close/Abort/Shutdown")
			})
			c.Check(n == 1, "wake-all-site", c.P.Pos(ub.Pos()), "one broadcast (close) of the notify channel", fmt.Sprintf("%d close(writeNotify) sites in unblockPendingWrites", n))
		}})

	register(&Rule{ID: "C10.R8", Props: []string{"C10"}, Engine: "E3",
		Title:   "fast recovery ends when the exit point is acknowledged, however far the cumulative ack jumps: the SACK-side clearing of inFastRecovery is decided per acknowledged chunk (tsn == exit point inside the loop over popped chunks) or by a serial ≥ comparison of the cumulative ack with the exit point — never by equality with the SACK's cumulative TSN alone (a jump past the exit point would leave the sender in fast recovery and the next loss would not cut cwnd)",
		MinInst: 1,
		Run: func(c *RuleCtx) {
			inFR := c.field("Association", "inFastRecovery")
			exitP := c.field("Association", "fastRecoverExitPoint")
			tsn := c.field("chunkPayloadData", "tsn")
			psa := c.Fn("Association.processSelectiveAck")
			n := 0
			for _, g := range c.P.Region(c.Fn("Association.processAcknowledgement")) {
				_ = g
			}
			region := map[*ssa.Function]bool{}
			for _, root := range []*ssa.Function{psa, c.Fn("Association.processAcknowledgement"), c.Fn("Association.handleSack")} {
				for _, g := range c.P.Region(root) {
					region[g] = true
				}
			}
			ks := keyer{}
			for g := range region {
				for _, a := range c.storesIn(g, inFR) {
					if !IsConstBool(false)(a.Val) {
						continue
					}
					n++
					okPerChunk := len(loopBlocks(a.Instr.Block())) > 0 && DominatedByExt(a.Instr, CmpCond(token.EQL, IsLoadOf(tsn), IsLoadOf(exitP)))
					okSerial := false
					for _, f := range DomFactsX(a.Instr.Block()) {
						call, ok := f.Cond.(*ssa.Call)
						if !ok || len(call.Call.Args) != 2 {
							continue
						}
						if _, rel, isSna := snaHelper(call.Call.StaticCallee()); isSna {
							x, y := call.Call.Args[0], call.Call.Args[1]
							var s int
							switch {
							case IsLoadOf(exitP)(y):
								s = snaSet(rel, f.Taken)
							case IsLoadOf(exitP)(x):
								s = snaMirror(snaSet(rel, f.Taken))
							default:
								continue
							}
							// the other operand is at or after the exit point, and "after" is included
							if s&snaBefore == 0 && s&snaAfter != 0 && s&snaEqual != 0 {
								okSerial = true
							}
						}
					}
					c.Check(okPerChunk || okSerial, ks.key("fr-exit@"+c.P.FuncName(g)), c.Pos(a.Instr), "fast recovery is left per acknowledged chunk or by a serial ≥ test against the exit point",
						"fast recovery is left only on an exact match that a jumping cumulative ack can skip ("+c.describeConds(a.Instr)+")")
				}
			}
			c.Check(n >= 1, "fr-exit-site", c.P.Pos(psa.Pos()), fmt.Sprintf("%d SACK-side exit site(s)", n), "no SACK-side exit from fast recovery found")
		}})
}
