package main

import (
	"fmt"
	"go/token"
	"go/types"
	"sort"
	"strings"

	"golang.org/x/tools/go/ssa"
)

type blockSite struct {
	Fn    *ssa.Function
	Instr ssa.Instruction
	Kind  string   // select | recv | send | cond-wait
	Chans []string // channel descriptions
}

func (c *RuleCtx) blockingSites() []blockSite {
	var out []blockSite
	for _, fn := range c.P.Funcs {
		forEachInstr(fn, func(in ssa.Instruction) {
			switch x := in.(type) {
			case *ssa.Select:
				if !x.Blocking {
					return
				}
				bs := blockSite{Fn: fn, Instr: in, Kind: "select"}
				for _, st := range x.States {
					bs.Chans = append(bs.Chans, chanName(st.Chan))
				}
				out = append(out, bs)
			case *ssa.UnOp:
				if x.Op == token.ARROW {
					out = append(out, blockSite{fn, in, "recv", []string{chanName(x.X)}})
				}
			case *ssa.Send:
				out = append(out, blockSite{fn, in, "send", []string{chanName(x.Chan)}})
			case ssa.CallInstruction:
				if sc := x.Common().StaticCallee(); sc != nil && sc.Pkg != nil && sc.Pkg.Pkg.Path() == "sync" && sc.Name() == "Wait" {
					out = append(out, blockSite{fn, in, "cond-wait", nil})
				}
			}
		})
	}
	return out
}

// terminationTable: function|kind -> channels that must be among the alternatives.
var terminationTable = map[string][]string{
	"ServerWithOptions|select":                  {"readLoopCloseCh", "handshakeCompletedCh"},
	"createClientWithOptionsWithContext|select": {"readLoopCloseCh", "handshakeCompletedCh", ".Done()"},
	"Association.Shutdown|select":               {"closeWriteLoopCh", ".Done()"},
	"Association.Close|recv":                    {"readLoopCloseCh"},
	"Association.Abort|select":                  {"abortSentCh", "After()"},
	"Association.Abort|recv":                    {"readLoopCloseCh"},
	"Association.writeLoop|select":              {"closeWriteLoopCh", "awakeWriteLoopCh"},
	"Association.AcceptStream|recv":             {"acceptCh"},
	"Association.sendPayloadData|select":        {".Done()", "writeNotify"},
	"Association.completeHandshake|select":      {"closeWriteLoopCh", "readLoopCloseCh", "handshakeCompletedCh"},
	"Association.timerLoop|select":              {"closeWriteLoopCh", "timerUpdateCh", "C"},
	"Stream.ReadSCTP|cond-wait":                 {},
	"Stream.SetReadDeadline$1|select":           {"param:readTimeoutCancel", "C"},
}

func init() {
	register(&Rule{ID: "C09.R1", Props: []string{"C09", "C12"}, Engine: "E2",
		Title:   "one reader, one writer and one closer of the transport",
		MinInst: 5,
		Run: func(c *RuleCtx) {
			nc := c.field("Association", "netConn")
			allowed := map[string]string{"Read": "Association.readLoop", "Write": "Association.writeLoop", "Close": "Association.closeNetConn$1",
				"SetWriteDeadline": "Association.Abort", "SetReadDeadline": "Association.Abort"}
			ks := keyer{}
			seen := map[string]bool{}
			for _, fn := range c.P.Funcs {
				forEachInstr(fn, func(in ssa.Instruction) {
					ci, ok := in.(ssa.CallInstruction)
					if !ok || !ci.Common().IsInvoke() || !IsLoadOf(nc)(ci.Common().Value) {
						return
					}
					m := ci.Common().Method.Name()
					seen[m] = true
					want, known := allowed[m]
					okOwner := known && c.P.FuncName(fn) == want
					if known && !okOwner {
						if wf := c.P.Fn(want); wf != nil && c.P.OwnedBy(fn, map[*ssa.Function]bool{wf: true, enclosingNamed(wf): true}) {
							okOwner = true // a private helper (or closure) of the single owner
						}
					}
					c.Check(okOwner, ks.key("netConn."+m+"@"+c.P.FuncName(fn)), c.Pos(in), "netConn."+m+" only in "+want,
						"netConn."+m+" used outside its single owner: a second reader/writer/closer of the transport")
				})
			}
			for _, m := range []string{"Read", "Write", "Close"} {
				if !seen[m] {
					c.Fail("netConn."+m, "", "no netConn."+m+" call found")
				}
			}
			// netConn never escapes: every read of the field is the receiver of an invoke
			for _, a := range c.P.Reads(nc) {
				v := a.Instr.(ssa.Value)
				okUse := true
				for _, r := range *v.Referrers() {
					ci, isCall := r.(ssa.CallInstruction)
					if isCall && ci.Common().IsInvoke() && ci.Common().Value == v {
						continue
					}
					if _, dbg := r.(*ssa.DebugRef); dbg {
						continue
					}
					okUse = false
				}
				c.Check(okUse, ks.key("netConn-no-escape@"+c.P.FuncName(a.Fn)), c.Pos(a.Instr), "netConn used only as a call receiver", "netConn value escapes (stored or passed on)")
			}
			// Close is inside the Once
			cnc := c.Fn("Association.closeNetConn")
			once := c.field("Association", "netConnCloseOnce")
			okOnce := false
			forEachInstr(cnc, func(in ssa.Instruction) {
				if ci, ok := in.(ssa.CallInstruction); ok {
					if sc := ci.Common().StaticCallee(); sc != nil && sc.Name() == "Do" && fieldOfAddr(ci.Common().Args[0]) == once {
						for _, f := range funcValues(ci.Common().Args[1]) {
							if c.P.FuncName(f) == "Association.closeNetConn$1" {
								okOnce = true
							}
						}
					}
				}
			})
			c.Check(okOnce, "netConn.Close-once", c.P.Pos(cnc.Pos()), "netConn.Close runs inside netConnCloseOnce.Do", "netConn.Close no longer guarded by the Once")
		}})

	register(&Rule{ID: "C09.R2", Props: []string{"C09", "C14"}, Engine: "E3",
		Title:   "read-loop exit releases everyone: the deferred exit closure always stops the writer, marks the association closed, unregisters every stream (error + broadcast), unblocks writers and closes the accept and done channels",
		MinInst: 10,
		Run: func(c *RuleCtx) {
			rl := c.Fn("Association.readLoop")
			ex := c.Fn("Association.readLoop$1")
			// the defer is registered before anything can fail
			var def *ssa.Defer
			forEachInstr(rl, func(in ssa.Instruction) {
				if d, ok := in.(*ssa.Defer); ok {
					for _, f := range funcValues(d.Call.Value) {
						if f == ex {
							def = d
						}
					}
				}
			})
			if def == nil {
				c.Fail("exit-deferred", c.P.Pos(rl.Pos()), "readLoop no longer defers its exit closure")
				return
			}
			var read ssa.Instruction
			forEachInstr(rl, func(in ssa.Instruction) {
				if ci, ok := in.(ssa.CallInstruction); ok && ci.Common().IsInvoke() && ci.Common().Method.Name() == "Read" {
					read = in
				}
			})
			c.Check(read != nil && InstrDominates(def, read), "exit-deferred", c.Pos(def), "exit closure deferred before the first Read", "exit closure not registered before the read loop")
			e, _ := c.P.States()
			must := func(key string, pred func(ssa.Instruction) bool, what string) {
				ok := entryMustPass(ex, func(in ssa.Instruction) bool {
					if _, isDefer := in.(*ssa.Defer); isDefer {
						return false
					}
					return pred(in) || helperAlwaysPasses(in, pred, 0)
				})
				c.Check(ok, "exit:"+key, c.P.Pos(ex.Pos()), "every path through the exit closure "+what, "a path through the read-loop exit closure does not "+what)
			}
			isCallN := func(name string) func(ssa.Instruction) bool {
				f := c.Fn(name)
				return func(in ssa.Instruction) bool {
					ci, ok := in.(ssa.CallInstruction)
					return ok && ci.Common().StaticCallee() == f
				}
			}
			isClose := func(field string) func(ssa.Instruction) bool {
				f := c.field("Association", field)
				return func(in ssa.Instruction) bool {
					ci, ok := in.(ssa.CallInstruction)
					if !ok {
						return false
					}
					b, ok := ci.Common().Value.(*ssa.Builtin)
					return ok && b.Name() == "close" && IsLoadOf(f)(ci.Common().Args[0])
				}
			}
			once := c.field("Association", "closeWriteLoopOnce")
			must("stops-writer", func(in ssa.Instruction) bool {
				ci, ok := in.(ssa.CallInstruction)
				if !ok {
					return false
				}
				sc := ci.Common().StaticCallee()
				return sc != nil && sc.Name() == "Do" && fieldOfAddr(ci.Common().Args[0]) == once
			}, "closes closeWriteLoopCh through its Once")
			must("state-closed", func(in ssa.Instruction) bool {
				ci, ok := in.(ssa.CallInstruction)
				if !ok || ci.Common().StaticCallee() != e.setState {
					return false
				}
				cs, _ := e.constState(ci.Common().Args[1])
				return cs == e.Set("closed")
			}, "sets state closed")
			must("unblocks-writers", isCallN("Association.unblockPendingWrites"), "calls unblockPendingWrites")
			must("closes-acceptCh", isClose("acceptCh"), "closes acceptCh")
			must("closes-readLoopCloseCh", isClose("readLoopCloseCh"), "closes readLoopCloseCh")
			// every stream is unregistered: the call sits in a range over a.streams
			streams := c.field("Association", "streams")
			un := c.Fn("Association.unregisterStream")
			okLoop := false
			for _, uc := range callsInDeep(ex, un, 1) {
				if len(loopBlocks(uc.Block())) == 0 {
					continue
				}
				forEachInstr(uc.Parent(), func(in ssa.Instruction) {
					if rg, ok := in.(*ssa.Range); ok && IsLoadOf(streams)(rg.X) {
						okLoop = true
					}
				})
				// the error handed over is the loop's exit error (captured variable, or the parameter it was passed as)
				ev := unconv(callArg(uc, 2))
				if p, isP := ev.(*ssa.Parameter); isP {
					if a := through(p); a != nil {
						ev = unconv(a)
					}
				}
				_, isFree := ev.(*ssa.UnOp)
				c.Check(isFree, "exit:stream-gets-close-error", c.Pos(uc), "unregisterStream receives the read loop's closeErr", "streams are not given the read loop's exit error")
			}
			c.Check(okLoop, "exit:unregisters-all-streams", c.P.Pos(ex.Pos()), "unregisterStream is called in a range over a.streams", "not every stream is unregistered on exit")
			// unregisterStream stores readErr and broadcasts
			re := c.field("Stream", "readErr")
			st := c.storesIn(un, re)
			c.Check(len(st) == 1 && IsParam(un, 2)(st[0].Val), "unregister:sets-readErr", c.P.Pos(un.Pos()), "s.readErr <- err", "unregisterStream does not record the error for readers")
			okB := entryMustPass(un, func(in ssa.Instruction) bool {
				ci, ok := in.(ssa.CallInstruction)
				if _, isDefer := in.(*ssa.Defer); isDefer || !ok {
					return false
				}
				sc := ci.Common().StaticCallee()
				return sc != nil && sc.Name() == "Broadcast"
			})
			c.Check(okB, "unregister:broadcasts", c.P.Pos(un.Pos()), "unregisterStream always broadcasts to blocked readers", "blocked readers are not woken on unregister")
		}})

	register(&Rule{ID: "C09.R3", Props: []string{"C09"}, Engine: "E3+E8",
		Title:   "close() stops everything: state closed, transport closed, every timer field closed, writer told to exit; the writer's exit stops all timers",
		MinInst: 12,
		Run: func(c *RuleCtx) {
			cl := c.Fn("Association.close")
			e, _ := c.P.States()
			once := c.field("Association", "closeWriteLoopOnce")
			type req struct {
				key  string
				pred func(ssa.Instruction) bool
			}
			callOf := func(name string) func(ssa.Instruction) bool {
				f := c.Fn(name)
				return func(in ssa.Instruction) bool {
					ci, ok := in.(ssa.CallInstruction)
					return ok && ci.Common().StaticCallee() == f
				}
			}
			for _, r := range []req{
				{"sets-closed", func(in ssa.Instruction) bool {
					ci, ok := in.(ssa.CallInstruction)
					if !ok || ci.Common().StaticCallee() != e.setState {
						return false
					}
					cs, _ := e.constState(ci.Common().Args[1])
					return cs == e.Set("closed")
				}},
				{"closes-transport", callOf("Association.closeNetConn")},
				{"closes-timers", callOf("Association.closeAllTimers")},
				{"stops-writer", func(in ssa.Instruction) bool {
					ci, ok := in.(ssa.CallInstruction)
					if !ok {
						return false
					}
					sc := ci.Common().StaticCallee()
					return sc != nil && sc.Name() == "Do" && fieldOfAddr(ci.Common().Args[0]) == once
				}},
			} {
				c.Check(entryMustPass(cl, r.pred), "close:"+r.key, c.P.Pos(cl.Pos()), "every path through close() "+r.key, "close() can return without: "+r.key)
			}
			// closeAllTimers covers every timer-typed field of Association
			cat := c.Fn("Association.closeAllTimers")
			_, st := c.P.NamedStruct("Association")
			for i := 0; i < st.NumFields(); i++ {
				f := st.Field(i)
				ts := typeShort(f.Type())
				if ts != "*rtxTimer" && ts != "*ackTimer" {
					continue
				}
				closed := false
				forEachInstr(cat, func(in ssa.Instruction) {
					ci, ok := in.(ssa.CallInstruction)
					if !ok {
						return
					}
					sc := ci.Common().StaticCallee()
					if sc != nil && sc.Name() == "close" && len(ci.Common().Args) == 1 && IsLoadOf(f)(ci.Common().Args[0]) {
						closed = true
					}
				})
				c.Check(closed, "timers:"+f.Name(), c.P.Pos(cat.Pos()), "closeAllTimers closes "+f.Name(), "timer field "+f.Name()+" is not closed by closeAllTimers: it can fire after teardown")
			}
			for _, n := range []string{"Association.stopRackTimer", "Association.stopPTOTimer"} {
				c.Check(len(callsIn(cat, c.Fn(n))) == 1, "timers:"+n, c.P.Pos(cat.Pos()), "closeAllTimers calls "+n, "closeAllTimers no longer calls "+n)
			}
			// rtxTimer.close / ackTimer.close make the timer unusable
			for _, tn := range []string{"rtxTimer", "ackTimer"} {
				fn := c.Fn(tn + ".close")
				stf := c.field(tn, "state")
				okC := false
				for _, a := range c.storesIn(fn, stf) {
					if k := c.P.Const(tn + "Closed"); k != nil {
						if v, ok := constInt(a.Val); ok && fmt.Sprint(v) == k.Val().String() {
							okC = true
						}
					}
				}
				c.Check(okC, "timer-close-final:"+tn, c.P.Pos(fn.Pos()), tn+".close sets the closed state", tn+".close no longer marks the timer closed")
				stt := c.Fn(tn + ".start")
				okS := false
				forEachInstr(stt, func(in ssa.Instruction) {
					if ifi, ok := in.(*ssa.If); ok {
						if b, ok := ifi.Cond.(*ssa.BinOp); ok && b.Op == token.NEQ && IsLoadOf(stf)(b.X) {
							okS = true
						}
					}
				})
				c.Check(okS, "timer-start-refuses-closed:"+tn, c.P.Pos(stt.Pos()), tn+".start refuses unless stopped", tn+".start no longer checks the state")
			}
			// writeLoop exit
			wl := c.Fn("Association.writeLoop")
			okW := true
			nRet := 0
			for _, r := range allReturns(wl) {
				nRet++
				// each return is preceded on its path by closeAllTimers (directly or via close())
				pre := false
				forEachInstr(wl, func(in ssa.Instruction) {
					ci, ok := in.(ssa.CallInstruction)
					if !ok {
						return
					}
					sc := ci.Common().StaticCallee()
					if sc == nil {
						return
					}
					if (sc == cat || sc == cl) && InstrDominates(in, r) {
						pre = true
					}
				})
				if !pre {
					okW = false
				}
			}
			c.Check(okW && nRet >= 2, "writer-exit-stops-timers", c.P.Pos(wl.Pos()), "every exit of writeLoop is preceded by closeAllTimers()/close()", "writeLoop can exit leaving timers armed")
		}})

	register(&Rule{ID: "C09.R4", Props: []string{"C09"}, Engine: "E2",
		Title:   "close-once: every close(chan) is inside the channel's sync.Once, in the once-per-association read-loop exit, or immediately followed by replacing the channel",
		MinInst: 8,
		Run: func(c *RuleCtx) {
			ks := keyer{}
			onceOf := map[string]string{"closeWriteLoopCh": "closeWriteLoopOnce", "abortSentCh": "abortSentOnce"}
			n := 0
			for _, fn := range c.P.Funcs {
				forEachInstr(fn, func(in ssa.Instruction) {
					ci, ok := in.(ssa.CallInstruction)
					if !ok {
						return
					}
					b, ok := ci.Common().Value.(*ssa.Builtin)
					if !ok || b.Name() != "close" {
						return
					}
					n++
					f, _ := loadedField(ci.Common().Args[0])
					name := c.P.FuncName(fn)
					if f == nil {
						c.Fail(ks.key("close@"+name), c.Pos(in), "close of a channel that is not a struct field: unclassified")
						return
					}
					key := ks.key("close(" + f.Name() + ")@" + name)
					switch f.Name() {
					case "closeWriteLoopCh", "abortSentCh":
						// fn must be a closure passed to the field's Once.Do
						okOnce := false
						for _, e := range c.P.RefSitesOf(fn) {
							if call, ok := e.Site.(ssa.CallInstruction); ok {
								if sc := call.Common().StaticCallee(); sc != nil && sc.Name() == "Do" {
									if of := fieldOfAddr(call.Common().Args[0]); of != nil && of.Name() == onceOf[f.Name()] {
										okOnce = true
									}
								}
							}
							if mc, ok := e.Site.(*ssa.MakeClosure); ok {
								for _, r := range *mc.Referrers() {
									if call, ok := r.(ssa.CallInstruction); ok {
										if sc := call.Common().StaticCallee(); sc != nil && sc.Name() == "Do" {
											if of := fieldOfAddr(call.Common().Args[0]); of != nil && of.Name() == onceOf[f.Name()] {
												okOnce = true
											}
										}
									}
								}
							}
						}
						c.Check(okOnce, key, c.Pos(in), "closed inside "+onceOf[f.Name()]+".Do", "close("+f.Name()+") outside its sync.Once: a second close panics")
					case "acceptCh", "readLoopCloseCh":
						exitFn := c.P.Fn("Association.readLoop$1")
						c.Check(name == "Association.readLoop$1" || (exitFn != nil && fn.Parent() == nil && c.P.OwnedBy(fn, map[*ssa.Function]bool{exitFn: true}) && len(c.P.CallSitesOf(fn)) == 1), key, c.Pos(in), "closed in the read loop's exit closure (runs once per association)", "close("+f.Name()+") outside the read-loop exit closure")
					case "writeNotify", "readTimeoutCancel":
						// followed in the same block by a store replacing the field
						// on every path from the close, the field is overwritten before the function returns
						replaced, _ := MustPass(in, func(x ssa.Instruction) bool {
							st, ok := x.(*ssa.Store)
							return ok && fieldOfAddr(st.Addr) == f
						}, nil)
						c.Check(replaced, key, c.Pos(in), "channel replaced (re-made / nil) on every path after the close, under the same lock", "close("+f.Name()+") without replacing the channel: the next close panics")
					default:
						c.Fail(key, c.Pos(in), "close of "+f.Name()+": not in the close-once table")
					}
				})
			}
			c.Check(n >= 8, "close-sites", "", fmt.Sprintf("%d close sites classified", n), "close sites missing")
			// go a.readLoop() exactly once per init path
			rl := c.Fn("Association.readLoop")
			per := map[string]int{}
			for _, cs := range c.P.CallSitesOf(rl) {
				if _, isGo := cs.Instr.(*ssa.Go); isGo {
					per[c.P.FuncName(cs.Fn)]++
				} else {
					c.Fail("readLoop-started-once", c.Pos(cs.Instr), "readLoop called synchronously")
				}
			}
			okOnce := len(per) == 3
			for _, n := range per {
				if n != 1 {
					okOnce = false
				}
			}
			c.Check(okOnce, "readLoop-started-once", "", fmt.Sprintf("go readLoop() once in each of %v", sortedKeysInt(per)), fmt.Sprintf("readLoop start sites changed: %v", per))
			for initFn := range per {
				callers := c.P.CallSitesOf(c.Fn(initFn))
				c.Check(len(callers) == 1, "init-called-once:"+initFn, "", initFn+" has a single call site (constructor path)", fmt.Sprintf("%s has %d call sites", initFn, len(callers)))
			}
		}})

	register(&Rule{ID: "C09.R5", Props: []string{"C09", "C04", "C08", "C18"}, Engine: "E8",
		Title:   "every blocking operation has a termination alternative that teardown closes or fires (table of all blocking sites; a new blocking site fails until reviewed)",
		MinInst: 13,
		Run: func(c *RuleCtx) {
			ks := keyer{}
			seen := map[string]bool{}
			for _, bs := range c.blockingSites() {
				k := c.P.FuncName(bs.Fn) + "|" + bs.Kind
				want, ok := terminationTable[k]
				if !ok {
					// a private helper of a function with a reviewed site of the same kind carries that review
					for tk := range terminationTable {
						parts := strings.SplitN(tk, "|", 2)
						if parts[1] != bs.Kind {
							continue
						}
						if of := c.P.Fn(parts[0]); of != nil && of != bs.Fn && c.P.OwnedBy(bs.Fn, map[*ssa.Function]bool{of: true}) {
							k, want, ok = tk, terminationTable[tk], true
						}
						// a reviewed goroutine closure "F$n" that became a named method still started (only) by F
						if i := strings.Index(parts[0], "$"); i > 0 && c.P.Fn(parts[0]) == nil {
							if outer := c.P.Fn(parts[0][:i]); outer != nil {
								for _, gt := range goTargetsIn(outer) {
									if gt == bs.Fn && len(c.P.CallSitesOf(bs.Fn)) == 1 {
										k, want, ok = tk, terminationTable[tk], true
									}
								}
							}
						}
					}
				}
				key := ks.key("block:" + k)
				if !ok {
					c.Fail(key, c.Pos(bs.Instr), "blocking "+bs.Kind+" on "+strings.Join(bs.Chans, ",")+" is not in the termination table: review how teardown ends it")
					continue
				}
				seen[k] = true
				have := map[string]bool{}
				for _, ch := range bs.Chans {
					have[ch] = true
				}
				var missing []string
				for _, w := range want {
					if !have[w] {
						missing = append(missing, w)
					}
				}
				c.Check(len(missing) == 0, key, c.Pos(bs.Instr), "alternatives: "+strings.Join(bs.Chans, ","), "termination alternative(s) missing: "+strings.Join(missing, ","))
			}
			for k := range terminationTable {
				if !seen[k] {
					c.Fail("block:"+k, "", "blocking site listed in the table no longer exists (table out of date)")
				}
			}
			// Close: the wait is preceded by close(); Abort: by SetReadDeadline
			cl := c.Fn("Association.Close")
			for _, bs := range c.blockingSites() {
				switch c.P.FuncName(bs.Fn) + "|" + bs.Kind {
				case "Association.Close|recv":
					pre := false
					for _, cc := range callsIn(cl, c.Fn("Association.close")) {
						if InstrDominates(cc, bs.Instr) {
							pre = true
						}
					}
					c.Check(pre, "Close-closes-first", c.Pos(bs.Instr), "Close() calls close() (transport closed) before waiting for the read loop", "Close() waits for the read loop without closing the transport first")
				case "Association.Abort|recv":
					pre := false
					forEachInstr(bs.Fn, func(in ssa.Instruction) {
						if ci, ok := in.(ssa.CallInstruction); ok && ci.Common().IsInvoke() && ci.Common().Method.Name() == "SetReadDeadline" && InstrDominates(in, bs.Instr) {
							pre = true
						}
					})
					c.Check(pre, "Abort-forces-read-deadline", c.Pos(bs.Instr), "Abort() forces a read deadline before waiting for the read loop", "Abort() waits for the read loop without unblocking its Read")
				}
			}
			// ReadSCTP's wait is in a loop that re-checks readErr
			rs := c.Fn("Stream.ReadSCTP")
			re := c.field("Stream", "readErr")
			for _, bs := range c.blockingSites() {
				if bs.Fn == rs && bs.Kind == "cond-wait" {
					lp := loopBlocks(bs.Instr.Block())
					okRe := false
					for b := range lp {
						for _, in := range b.Instrs {
							if v, ok := in.(ssa.Value); ok && IsLoadOf(re)(v) {
								okRe = true
							}
						}
					}
					c.Check(okRe, "ReadSCTP-rechecks-readErr", c.Pos(bs.Instr), "the wait loop re-checks s.readErr (set by unregisterStream / reset / deadline)", "ReadSCTP's wait loop does not re-check readErr")
				}
			}
		}})

	register(&Rule{ID: "C09.R6", Props: []string{"C09"}, Engine: "E8",
		Title:   "goroutines can exit: every loop in a goroutine body has an exit edge",
		MinInst: 4,
		Run: func(c *RuleCtx) {
			ks := keyer{}
			targets := map[*ssa.Function]bool{}
			for _, fn := range c.P.Funcs {
				forEachInstr(fn, func(in ssa.Instruction) {
					if g, ok := in.(*ssa.Go); ok {
						if sc := g.Call.StaticCallee(); sc != nil {
							targets[sc] = true
						}
						for _, f := range funcValues(g.Call.Value) {
							targets[f] = true
						}
					}
				})
			}
			for fn := range targets {
				name := c.P.FuncName(fn)
				rets := allReturns(fn)
				c.Check(len(rets) > 0, ks.key("go-can-return@"+name), c.P.Pos(fn.Pos()), "goroutine body has a return", "goroutine body never returns")
				done := map[*ssa.BasicBlock]bool{}
				for _, b := range fn.Blocks {
					if done[b] {
						continue
					}
					lp := loopBlocks(b)
					if len(lp) == 0 {
						continue
					}
					exit := false
					for x := range lp {
						done[x] = true
						for _, s := range x.Succs {
							if !lp[s] {
								exit = true
							}
						}
					}
					c.Check(exit, ks.key("loop-has-exit@"+name), c.P.Pos(b.Instrs[0].Pos()), "loop has an exit edge", "infinite loop without exit in a goroutine")
				}
			}
			c.Check(len(targets) >= 4, "go-targets", "", fmt.Sprintf("%d goroutine bodies analysed", len(targets)), "goroutine bodies missing")
		}})

	register(&Rule{ID: "C09.R7", Props: []string{"C09"}, Engine: "E3",
		Title:   "a transport write error closes the transport so the reader unblocks",
		MinInst: 1,
		Run: func(c *RuleCtx) {
			wl := c.Fn("Association.writeLoop")
			cnc := c.Fn("Association.closeNetConn")
			found := false
			for _, wg := range c.P.Region(wl) {
				forEachInstr(wg, func(in ssa.Instruction) {
					ifi, ok := in.(*ssa.If)
					if !ok {
						return
					}
					b, ok := ifi.Cond.(*ssa.BinOp)
					if !ok || b.Op != token.NEQ || !isNilConst(b.Y) {
						return
					}
					ex, ok := b.X.(*ssa.Extract)
					if !ok {
						return
					}
					call, ok := ex.Tuple.(*ssa.Call)
					if !ok || !call.Call.IsInvoke() || call.Call.Method.Name() != "Write" {
						return
					}
					found = true
					ok2, bad := MustPassFromBlock(ifi.Block().Succs[0], c.P.CallTargetPred(0, cnc), PathOpts{})
					c.Check(ok2, "write-error-closes-transport", c.Pos(ifi), "netConn.Write error ⇒ closeNetConn()", "a write-error path leaves the transport open (reader stays blocked): "+c.P.InstrPos(bad))
				})
			}
			c.Check(found, "write-error-branch", c.P.Pos(wl.Pos()), "write error is tested", "netConn.Write error is not tested")
		}})

	register(&Rule{ID: "C09.R8", Props: []string{"C09"}, Engine: "E2-dataflow",
		Title:   "the ABORT cause reaches the application: handleAbort's error wraps ErrChunk and the formatted causes, and the read loop hands its exit error to every stream",
		MinInst: 3,
		Run: func(c *RuleCtx) {
			ha := c.Fn("Association.handleAbort")
			ec := c.field("chunkAbort", "errorCauses")
			for _, r := range allReturns(ha) {
				res := retResults(r)
				call, ok := res[0].(*ssa.Call)
				okErrorf := ok && call.Call.StaticCallee() != nil && call.Call.StaticCallee().Name() == "Errorf"
				wrapsErrChunk := false
				if okErrorf {
					forEachInstr(ha, func(in ssa.Instruction) {
						if u, ok := in.(*ssa.UnOp); ok && u.Op == token.MUL {
							if g, ok := u.X.(*ssa.Global); ok && g.Name() == "ErrChunk" {
								wrapsErrChunk = true
							}
						}
					})
					if k, ok := call.Call.Args[0].(*ssa.Const); ok {
						wrapsErrChunk = wrapsErrChunk && strings.Contains(k.Value.String(), "%w")
					}
				}
				c.Check(okErrorf && wrapsErrChunk, "abort-error-wraps-ErrChunk", c.Pos(r), "handleAbort returns fmt.Errorf(... %w ..., ErrChunk, causes)", "handleAbort's error no longer wraps ErrChunk")
			}
			reads := 0
			for _, a := range c.P.Reads(ec) {
				if a.Fn == ha {
					reads++
				}
			}
			c.Check(reads >= 1, "abort-error-has-causes", c.P.Pos(ha.Pos()), "the error text is built from the chunk's errorCauses", "the error no longer includes the abort causes")
			// readLoop: closeErr <- handleInbound's error
			rl := c.Fn("Association.readLoop")
			hi := c.Fn("Association.handleInbound")
			okStore := false
			forEachInstr(rl, func(in ssa.Instruction) {
				if st, ok := in.(*ssa.Store); ok {
					if al, ok := st.Addr.(*ssa.Alloc); ok && al.Comment == "closeErr" && IsCallOf(hi)(st.Val) {
						okStore = true
					}
				}
			})
			c.Check(okStore, "readLoop-keeps-abort-error", c.P.Pos(rl.Pos()), "closeErr <- handleInbound(...) error", "the read loop does not keep handleInbound's (ABORT) error")
		}})

	register(&Rule{ID: "C09.R9", Props: []string{"C09", "C20"}, Engine: "E4",
		Title:   "no blocking operation and no transport I/O while holding Association.lock (reviewed exception: completeHandshake's select, which has termination alternatives)",
		MinInst: 15,
		Run: func(c *RuleCtx) {
			le := c.P.Locks()
			ks := keyer{}
			reviewed := map[string]string{"Association.completeHandshake|select": "handshake hand-over to the connect call; alternatives closeWriteLoopCh/readLoopCloseCh end it on teardown"}
			check := func(fn *ssa.Function, in ssa.Instruction, kind string) {
				k := c.P.FuncName(fn) + "|" + kind
				held := le.HeldAt(in)
				if len(held) == 0 {
					c.Ok(ks.key("nolock:"+k), c.Pos(in), "site not reachable from any entry point in the lock analysis")
					return
				}
				bad := ""
				for ctx, ls := range held {
					if le.Holds(ls, "Association.lock", false) {
						bad = le.Witness(fn, ctx) + " holds " + le.String(ls)
					}
				}
				if why, ok := reviewed[k]; ok {
					c.Ok(ks.key("nolock:"+k), c.Pos(in), "reviewed exception: "+why)
					return
				}
				c.Check(bad == "", ks.key("nolock:"+k), c.Pos(in), "Association.lock not held in any calling context", "blocking while holding Association.lock: "+bad)
			}
			for _, bs := range c.blockingSites() {
				check(bs.Fn, bs.Instr, bs.Kind)
			}
			nc := c.field("Association", "netConn")
			for _, fn := range c.P.Funcs {
				forEachInstr(fn, func(in ssa.Instruction) {
					ci, ok := in.(ssa.CallInstruction)
					if ok && ci.Common().IsInvoke() && IsLoadOf(nc)(ci.Common().Value) && (ci.Common().Method.Name() == "Read" || ci.Common().Method.Name() == "Write") {
						check(fn, in, "io-"+ci.Common().Method.Name())
					}
				})
			}
		}})
}

func sortedKeysInt(m map[string]int) []string {
	var out []string
	for k := range m {
		out = append(out, k)
	}
	sort.Strings(out)
	return out
}

var _ = types.Typ
