package main

import (
	"fmt"
	"go/constant"
	"go/token"
	"go/types"

	"golang.org/x/tools/go/ssa"
)

func init() {
	register(&Rule{ID: "C18.R7", Props: []string{"C18", "C14"}, Engine: "E5b",
		Title:   "Close is effective: specialising Stream.Close on state==Open (read error unknown), every path that requests the outgoing reset has first stored a state other than Open, so a later write is refused whatever read error was latched; specialising on Closing/Closed, the state is not changed and no second reset is requested",
		MinInst: 3,
		Run: func(c *RuleCtx) {
			cl := c.Fn("Stream.Close")
			stateF := c.field("Stream", "state")
			srr := c.Fn("Association.sendResetRequest")
			open := c.P.Const("StreamStateOpen")
			if open == nil {
				c.Unresolved("StreamStateOpen")
				return
			}
			for _, sn := range []string{"StreamStateOpen", "StreamStateClosing", "StreamStateClosed"} {
				k := c.P.Const(sn)
				key := "close-from:" + sn
				outs, und := c.P.PEval(cl, PEConfig{Fields: map[*types.Var]constant.Value{stateF: k.Val()}, Opaque: map[*ssa.Function]bool{srr: true}})
				if und != "" || len(outs) == 0 {
					c.Fail(key, c.P.Pos(cl.Pos()), "UNDECIDED: "+und)
					continue
				}
				why := ""
				for _, o := range outs {
					nReset := len(o.Called("Association.sendResetRequest"))
					if sn == "StreamStateOpen" {
						v := o.Stores[stateF]
						if !o.Stored[stateF] || v == nil || constant.Compare(v, token.EQL, open.Val()) {
							why = fmt.Sprintf("a path through Close leaves the stream Open (state stored=%v value=%s, reset requests=%d): writes after Close are still accepted", o.Stored[stateF], render(v), nReset)
						} else if nReset != 1 {
							why = fmt.Sprintf("Close from Open requests %d resets (want 1)", nReset)
						}
					} else {
						if o.Stored[stateF] && (o.Stores[stateF] == nil || !constant.Compare(o.Stores[stateF], token.EQL, k.Val())) {
							why = "Close changes the state of a stream that is already closing/closed"
						}
						if nReset != 0 {
							why = "a second Close requests another reset"
						}
					}
				}
				c.Check(why == "", key, c.P.Pos(cl.Pos()), fmt.Sprintf("%d path(s) as specified", len(outs)), why)
			}
		}})
}

func init() {
	register(&Rule{ID: "C18.R8", Props: []string{"C18", "C09"}, Engine: "E3",
		Title:   "setting a read deadline (including disabling it) always cancels the previous deadline's timer: every path through SetReadDeadline passes the test of readTimeoutCancel, whose non-nil side closes it, so a disabled or replaced deadline can never fire later and fail a read that has no deadline",
		MinInst: 2,
		Run: func(c *RuleCtx) {
			fn := c.Fn("Stream.SetReadDeadline")
			rc := c.field("Stream", "readTimeoutCancel")
			var test *ssa.If
			forEachInstr(fn, func(in ssa.Instruction) {
				if ifi, ok := in.(*ssa.If); ok && CmpCond(token.NEQ, IsLoadOf(rc), isNilConst)(ifi.Cond, true) {
					test = ifi
				}
			})
			if test == nil {
				c.Fail("cancel-test", c.P.Pos(fn.Pos()), "SetReadDeadline no longer tests readTimeoutCancel != nil")
				return
			}
			ok, bad := MustPassFromBlock(fn.Blocks[0], func(x ssa.Instruction) bool { return x == ssa.Instruction(test) }, PathOpts{})
			c.Check(ok, "cancel-on-every-path", c.Pos(test), "every path through SetReadDeadline tests (and cancels) the previous timer", "a path through SetReadDeadline leaves the previous deadline's timer armed: "+c.P.InstrPos(bad))
			closes := false
			forEachInstr(fn, func(in ssa.Instruction) {
				ci, isCall := in.(ssa.CallInstruction)
				if !isCall {
					return
				}
				if b, isB := ci.Common().Value.(*ssa.Builtin); isB && b.Name() == "close" && IsLoadOf(rc)(ci.Common().Args[0]) && in.Block() == test.Block().Succs[0] {
					closes = true
				}
			})
			c.Check(closes, "cancel-closes", c.Pos(test), "the non-nil side closes the cancel channel", "the previous cancel channel is not closed on the non-nil side")
		}})
}
