// SPDX-FileCopyrightText: 2026 The Pion community <https://pion.ly>
// SPDX-License-Identifier: MIT

package sctp

import (
	"sync/atomic"
	"testing"
	"time"

	"github.com/pion/logging"
	"github.com/pion/transport/v4/test"
	"github.com/stretchr/testify/require"
)

func hunt6CreateBlockingPair(t *testing.T, br *test.Bridge) (*Association, *Association) {
	t.Helper()

	type result struct {
		a   *Association
		err error
	}
	ch0 := make(chan result, 1)
	ch1 := make(chan result, 1)
	lf := logging.NewDefaultLoggerFactory()

	go func() {
		a, err := ClientWithOptions(WithName("a0"), WithNetConn(br.GetConn0()), WithLoggerFactory(lf),
			WithEnableInterleaving(false), WithBlockWrite(true))
		ch0 <- result{a, err}
	}()
	go func() {
		a, err := ServerWithOptions(WithName("a1"), WithNetConn(br.GetConn1()), WithLoggerFactory(lf),
			WithEnableInterleaving(false))
		ch1 <- result{a, err}
	}()

	var a0, a1 *Association
	for i := 0; i < 200 && (a0 == nil || a1 == nil); i++ {
		time.Sleep(10 * time.Millisecond)
		br.Tick()
		select {
		case r := <-ch0:
			require.NoError(t, r.err)
			a0 = r.a
		default:
		}
		select {
		case r := <-ch1:
			require.NoError(t, r.err)
			a1 = r.a
		default:
		}
	}
	require.NotNil(t, a0)
	require.NotNil(t, a1)
	a0.ackMode = ackModeNoDelay
	a1.ackMode = ackModeNoDelay

	return a0, a1
}

// C15, "failed blocking writes": a blocking write adds its length to the stream's buffered
// amount BEFORE it is accepted (Stream.packetize) and takes it out again, silently, when the
// write fails (Stream.WriteSCTP error path). While the writer is blocked the figure is inflated
// by bytes that were never accepted, so when the acknowledged bytes take the really accepted
// amount across the low threshold, onBufferReleased does not see a crossing; the later rollback
// subtracts without firing the callback. Net effect: the amount went from above the threshold
// to zero and the callback never fired.
func TestHunt6FailedBlockingWriteHidesLowThresholdCrossing(t *testing.T) {
	lim := test.TimeOut(time.Second * 15)
	defer lim.Stop()

	const (
		accepted  = 60000
		rejected  = 10000
		threshold = 50000
	)

	br := test.NewBridge()
	a0, a1 := hunt6CreateBlockingPair(t, br)
	defer closeAssociationPair(br, a0, a1)

	s0, s1, err := establishSessionPair(br, a0, a1, 1)
	require.NoError(t, err)
	go func() { // drain the receiver
		buf := make([]byte, 65536)
		for {
			if _, _, rerr := s1.ReadSCTP(buf); rerr != nil {
				return
			}
		}
	}()

	var nCalls int32
	s0.SetBufferedAmountLowThreshold(threshold)
	s0.OnBufferedAmountLow(func() { atomic.AddInt32(&nCalls, 1) })

	// write #1 is accepted; only cwnd worth of it leaves, the rest stays pending (the bridge is
	// not processed), so the association stays "write pending".
	n, err := s0.WriteSCTP(make([]byte, accepted), PayloadTypeWebRTCBinary)
	require.NoError(t, err)
	require.Equal(t, accepted, n)
	require.Equal(t, uint64(accepted), s0.BufferedAmount())

	// write #2 blocks behind it and will fail with its deadline.
	require.NoError(t, s0.SetWriteDeadline(time.Now().Add(1500*time.Millisecond)))
	type wres struct {
		n   int
		err error
	}
	w2 := make(chan wres, 1)
	go func() {
		wn, werr := s0.WriteSCTP(make([]byte, rejected), PayloadTypeWebRTCBinary)
		w2 <- wres{wn, werr}
	}()

	// the not-yet-accepted (and never to be accepted) write is already counted.
	require.Eventually(t, func() bool { return s0.BufferedAmount() == accepted+rejected },
		time.Second, 5*time.Millisecond)

	// let acknowledgements take the really accepted amount below the threshold, packet by
	// packet, while plenty of write #1 is still pending (so write #2 stays blocked).
	for a0.BufferedAmount() >= threshold {
		br.Tick()
		time.Sleep(time.Millisecond)
		select {
		case r := <-w2:
			require.Failf(t, "write #2 finished early", "n=%d err=%v", r.n, r.err)
		default:
		}
	}
	a0.lock.RLock()
	pendingChunks := a0.pendingQueue.size()
	a0.lock.RUnlock()
	require.Greater(t, pendingChunks, 0, "write #1 is still partly pending, write #2 still blocked")
	outstandingAccepted := a0.BufferedAmount()
	require.Less(t, outstandingAccepted, threshold)
	t.Logf("accepted and unacknowledged: %d (< threshold %d); stream reports %d; callbacks so far: %d",
		outstandingAccepted, threshold, s0.BufferedAmount(), atomic.LoadInt32(&nCalls))

	// write #2 now fails.
	r := <-w2
	require.Error(t, r.err)
	require.Equal(t, 0, r.n)

	// deliver and acknowledge the rest.
	flushBuffers(br, a0, a1)
	require.Eventually(t, func() bool {
		br.Process()

		return s0.BufferedAmount() == 0
	}, 3*time.Second, 5*time.Millisecond)

	// The only accepted write was 60000 bytes, all acknowledged: the buffered amount went from
	// 60000 (> 50000) to 0, one downward crossing of the threshold.
	require.Equal(t, int32(1), atomic.LoadInt32(&nCalls),
		"the low-threshold callback must fire for the downward crossing of the threshold")
}
