package main

import (
	"fmt"
	"go/token"
	"go/types"
	"sort"
	"strings"

	"golang.org/x/tools/go/ssa"
)

// E1 — wire layout extraction: field ↔ (offset, width, endianness).

type wireSlot struct {
	Field  string // struct.field
	Offset string // "12", "loop+2", "var"
	Width  int    // bytes
	Endian string // BE | LE | byte
	Cond   string // "" or guard (e.g. "beginningFragment=true")
	Pos    string
}

func (w wireSlot) key() string {
	return fmt.Sprintf("%s@%s/%d/%s%s", w.Field, w.Offset, w.Width, w.Endian, w.Cond)
}

func binaryCall(cc *ssa.CallCommon) (name string, endian string, ok bool) {
	sc := cc.StaticCallee()
	if sc == nil || sc.Pkg == nil || sc.Pkg.Pkg.Path() != "encoding/binary" || sc.Signature.Recv() == nil {
		return "", "", false
	}
	rt := sc.Signature.Recv().Type().String()
	switch {
	case strings.HasSuffix(rt, "bigEndian"):
		endian = "BE"
	case strings.HasSuffix(rt, "littleEndian"):
		endian = "LE"
	default:
		return "", "", false
	}
	return sc.Name(), endian, true
}

func widthOf(name string) int {
	switch {
	case strings.HasSuffix(name, "16"):
		return 2
	case strings.HasSuffix(name, "32"):
		return 4
	case strings.HasSuffix(name, "64"):
		return 8
	}
	return 0
}

// offsetOf describes the low bound of a slice expression buf[low:].
func offsetOf(v ssa.Value) string {
	sl, ok := v.(*ssa.Slice)
	if !ok {
		return "0"
	}
	return offsetExpr(sl.Low)
}

func offsetExpr(low ssa.Value) string {
	if low == nil {
		return "0"
	}
	if k, ok := constInt(low); ok {
		return fmt.Sprint(k)
	}
	switch x := unconv(low).(type) {
	case *ssa.Phi:
		return "loop"
	case *ssa.BinOp:
		if x.Op == token.ADD {
			if k, ok := constInt(x.Y); ok {
				if _, isPhi := unconv(x.X).(*ssa.Phi); isPhi {
					return fmt.Sprintf("loop+%d", k)
				}
			}
		}
	}
	return "var"
}

func fieldLabel(f *types.Var, owner types.Type) string {
	if f == nil {
		return ""
	}
	return f.Name()
}

// sourceField: v is (a conversion of) a load of a struct field; returns its name.
func sourceField(v ssa.Value) string {
	v = unconv(v)
	if f, _ := loadedField(v); f != nil {
		return f.Name()
	}
	// len(x.f) as uint16
	if call, ok := v.(*ssa.Call); ok {
		if b, ok := call.Call.Value.(*ssa.Builtin); ok && b.Name() == "len" {
			if f, _ := loadedField(call.Call.Args[0]); f != nil {
				return "len(" + f.Name() + ")"
			}
		}
	}
	// element of a ranged slice: g.start where g = elem of x.f
	if fv, ok := v.(*ssa.Field); ok {
		if f := fieldOf(fv.X.Type(), fv.Field); f != nil {
			return "elem." + f.Name()
		}
	}
	if u, ok := v.(*ssa.UnOp); ok && u.Op == token.MUL {
		if ia, ok := u.X.(*ssa.IndexAddr); ok {
			if f, _ := loadedField(ia.X); f != nil {
				return "elem(" + f.Name() + ")"
			}
		}
	}
	return ""
}

// destField: store address is a struct field (or element field of a slice field).
func destField(addr ssa.Value) string {
	switch x := addr.(type) {
	case *ssa.FieldAddr:
		f := fieldOf(x.X.Type(), x.Field)
		if f == nil {
			return ""
		}
		if ia, ok := x.X.(*ssa.IndexAddr); ok {
			_ = ia
			return "elem." + f.Name()
		}
		return f.Name()
	case *ssa.IndexAddr:
		if f, _ := loadedField(x.X); f != nil {
			return "elem(" + f.Name() + ")"
		}
	}
	return ""
}

// condLabel: the bool-field guards dominating an instruction (used for the
// I-DATA slot that holds PPID or FSN depending on the B bit).
func condLabel(in ssa.Instruction) string {
	var parts []string
	for _, f := range DomFacts(in.Block()) {
		if lf, _ := loadedField(f.Cond); lf != nil {
			if bt, ok := lf.Type().Underlying().(*types.Basic); ok && bt.Kind() == types.Bool && lf.Name() == "beginningFragment" {
				parts = append(parts, fmt.Sprintf("%s=%v", lf.Name(), f.Taken))
			}
		}
	}
	sort.Strings(parts)
	if len(parts) == 0 {
		return ""
	}
	return "|" + strings.Join(parts, ",")
}

// encLayout extracts slots written by an encoder function.
func (p *Prog) encLayout(fn *ssa.Function) []wireSlot {
	var out []wireSlot
	forEachInstr(fn, func(in ssa.Instruction) {
		switch x := in.(type) {
		case *ssa.Call:
			name, endian, ok := binaryCall(&x.Call)
			if !ok || !strings.HasPrefix(name, "PutUint") {
				return
			}
			src := sourceField(x.Call.Args[2])
			if src == "" {
				if k, isK := constInt(x.Call.Args[2]); isK {
					src = fmt.Sprintf("const(%d)", k)
				} else {
					src = "expr"
				}
			}
			out = append(out, wireSlot{src, normOffset(x.Call.Args[1], in), widthOf(name), endian, condLabel(in), p.InstrPos(in)})
		case *ssa.Store:
			ia, ok := x.Addr.(*ssa.IndexAddr)
			if !ok {
				return
			}
			if bt, ok := x.Val.Type().Underlying().(*types.Basic); !ok || (bt.Kind() != types.Uint8 && bt.Kind() != types.Byte) {
				return
			}
			src := sourceField(x.Val)
			if src == "" {
				return
			}
			out = append(out, wireSlot{src, normIndex(ia.Index, in), 1, "byte", "", p.InstrPos(in)})
		}
	})
	return out
}

// decLayout extracts slots read by a decoder function.
func (p *Prog) decLayout(fn *ssa.Function) []wireSlot {
	var out []wireSlot
	forEachInstr(fn, func(in ssa.Instruction) {
		st, ok := in.(*ssa.Store)
		if !ok {
			return
		}
		dst := destField(st.Addr)
		if dst == "" {
			return
		}
		v := unconv(st.Val)
		if ex, ok := v.(*ssa.Extract); ok && ex.Index == 0 {
			// field <- first result of an in-package reader f(buf[k:]) that returns BigEndian.UintN(its parameter)
			if call, ok := ex.Tuple.(*ssa.Call); ok {
				if sc := call.Call.StaticCallee(); sc != nil && p.inPkg(sc) && sc.Blocks != nil && len(call.Call.Args) == 1 {
					for _, r := range allReturns(sc) {
						if inner, ok := unconv(retResults(r)[0]).(*ssa.Call); ok {
							if name, endian, ok := binaryCall(&inner.Call); ok && strings.HasPrefix(name, "Uint") && unconv(inner.Call.Args[1]) == ssa.Value(sc.Params[0]) {
								out = append(out, wireSlot{dst, normOffset(call.Call.Args[0], in), widthOf(name), endian, condLabel(in), p.InstrPos(in)})
							}
						}
					}
				}
			}
			return
		}
		switch x := v.(type) {
		case *ssa.Call:
			name, endian, ok := binaryCall(&x.Call)
			if ok && strings.HasPrefix(name, "Uint") {
				out = append(out, wireSlot{dst, normOffset(x.Call.Args[1], in), widthOf(name), endian, condLabel(in), p.InstrPos(in)})
			}
		case *ssa.UnOp:
			if x.Op == token.MUL {
				if ia, ok := x.X.(*ssa.IndexAddr); ok {
					if bt, ok := x.Type().Underlying().(*types.Basic); ok && (bt.Kind() == types.Uint8) {
						out = append(out, wireSlot{dst, normIndex(ia.Index, in), 1, "byte", "", p.InstrPos(in)})
					}
				}
			}
		case *ssa.MakeSlice:
			// s.f = make([]T, binary.BigEndian.Uint16(raw[k:]))  — the count field
			if call, ok := unconv(x.Len).(*ssa.Call); ok {
				if name, endian, ok := binaryCall(&call.Call); ok && strings.HasPrefix(name, "Uint") {
					out = append(out, wireSlot{"len(" + dst + ")", offsetOf(call.Call.Args[1]), widthOf(name), endian, "", p.InstrPos(in)})
				}
			}
		}
	})
	return out
}

// flagBitsDec: field <- flags & mask != 0
func (p *Prog) flagBitsDec(fn *ssa.Function) map[string]int64 {
	out := map[string]int64{}
	forEachInstr(fn, func(in ssa.Instruction) {
		st, ok := in.(*ssa.Store)
		if !ok {
			return
		}
		dst := destField(st.Addr)
		b, ok := st.Val.(*ssa.BinOp)
		if dst == "" || !ok || b.Op != token.NEQ || !IsConstInt(0)(b.Y) {
			return
		}
		and, ok := b.X.(*ssa.BinOp)
		if !ok || and.Op != token.AND {
			return
		}
		if k, ok := constInt(and.Y); ok {
			if f, _ := loadedField(and.X); f != nil && f.Name() == "flags" {
				out[dst] = k
			}
		}
	})
	return out
}

// flagBitsEnc: for each `if x.boolField { flags = m | flags |= m }` contributing
// to a value later stored into chunkHeader.flags: field -> set of masks (one per
// encoder branch; both DATA and I-DATA branches must agree).
func (p *Prog) flagBitsEnc(fn *ssa.Function) map[string][]int64 {
	return p.flagBitsEncOf(fn, nil)
}

// flagBitsOfValue: the flag masks that can be OR-ed into v (a flags byte built
// by a chain of "if field { flags |= mask }"), whether v is built in the
// function that stores it or returned by a helper.
func (p *Prog) flagBitsOfValue(v ssa.Value) map[string][]int64 {
	v = unconv(v)
	if call, ok := v.(*ssa.Call); ok {
		if sc := call.Call.StaticCallee(); sc != nil && p.inPkg(sc) && sc.Blocks != nil {
			out := map[string][]int64{}
			for _, r := range allReturns(sc) {
				for f, ms := range p.flagBitsOfValue(retResults(r)[0]) {
					out[f] = append(out[f], ms...)
				}
			}
			return out
		}
	}
	in, ok := v.(ssa.Instruction)
	if !ok || in.Parent() == nil {
		return nil
	}
	closure := map[*ssa.Phi]bool{}
	var walk func(x ssa.Value, d int)
	walk = func(x ssa.Value, d int) {
		if d > 40 {
			return
		}
		switch y := x.(type) {
		case *ssa.Phi:
			if closure[y] {
				return
			}
			closure[y] = true
			for _, e := range y.Edges {
				walk(e, d+1)
			}
		case *ssa.BinOp:
			walk(y.X, d+1)
			walk(y.Y, d+1)
		case *ssa.Convert:
			walk(y.X, d+1)
		}
	}
	walk(v, 0)
	return p.flagBitsEncOf(in.Parent(), closure)
}

func (p *Prog) flagBitsEncOf(fn *ssa.Function, only map[*ssa.Phi]bool) map[string][]int64 {
	out := map[string][]int64{}
	forEachInstr(fn, func(in ssa.Instruction) {
		phi, ok := in.(*ssa.Phi)
		if !ok {
			return
		}
		if only != nil && !only[phi] {
			return
		}
		bt, ok := phi.Type().Underlying().(*types.Basic)
		if !ok || bt.Kind() != types.Uint8 {
			return
		}
		for i, e := range phi.Edges {
			pred := phi.Block().Preds[i]
			var mask int64 = -1
			if k, ok := constInt(e); ok && k != 0 {
				mask = k
			} else if b, ok := e.(*ssa.BinOp); ok && b.Op == token.OR {
				if k, ok := constInt(b.Y); ok {
					mask = k
				}
			}
			if mask < 0 {
				continue
			}
			// the edge leaves the then-branch of `if x.boolField`
			for _, f := range DomFacts(pred) {
				if lf, _ := loadedField(f.Cond); lf != nil && f.Taken {
					if fb, ok := lf.Type().Underlying().(*types.Basic); ok && fb.Kind() == types.Bool {
						// innermost guard only: the pred's immediate dominating If
						if idom := pred.Idom(); idom != nil {
							if ifi, ok := idom.Instrs[len(idom.Instrs)-1].(*ssa.If); ok && ifi.Cond == f.Cond {
								out[lf.Name()] = append(out[lf.Name()], mask)
							}
						}
					}
				}
			}
		}
	})
	return out
}
