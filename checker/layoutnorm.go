package main

import (
	"fmt"
	"go/token"
	"sort"
	"strings"

	"golang.org/x/tools/go/ssa"
)

// Normalisation of wire offsets for array-like parts of chunks: an offset is
// rendered as a linear expression over the 0-based iteration index "i" of the
// enclosing loop, len(field) terms and constants, independent of whether the
// code keeps a running offset (offset += 4) or computes 12+4*i, and of whether
// it slices the buffer first (body := raw[12:]).

type symLin struct {
	coef map[string]int64
	c    int64
	ok   bool
}

func symConst(c int64) symLin { return symLin{coef: map[string]int64{}, c: c, ok: true} }
func symBad() symLin          { return symLin{coef: map[string]int64{}, ok: false} }
func symAtom(a string) symLin { return symLin{coef: map[string]int64{a: 1}, ok: true} }

func (a symLin) plus(b symLin, k int64) symLin {
	r := symLin{coef: map[string]int64{}, c: a.c + k*b.c, ok: a.ok && b.ok}
	for x, v := range a.coef {
		r.coef[x] += v
	}
	for x, v := range b.coef {
		r.coef[x] += k * v
	}
	for x, v := range r.coef {
		if v == 0 {
			delete(r.coef, x)
		}
	}
	return r
}

func (a symLin) String() string {
	if !a.ok {
		return "var"
	}
	var keys []string
	for k := range a.coef {
		keys = append(keys, k)
	}
	sort.Strings(keys)
	var parts []string
	for _, k := range keys {
		if a.coef[k] == 1 {
			parts = append(parts, k)
		} else {
			parts = append(parts, fmt.Sprintf("%d*%s", a.coef[k], k))
		}
	}
	if a.c != 0 || len(parts) == 0 {
		parts = append(parts, fmt.Sprint(a.c))
	}
	return strings.Join(parts, "+")
}

// loopOf returns the blocks of the innermost loop whose header is phi's block.
func headerLoop(phi *ssa.Phi) map[*ssa.BasicBlock]bool { return loopBlocks(phi.Block()) }

// stepOf: the constant added to φ on every back edge (all back edges agree).
func stepOf(phi *ssa.Phi) (int64, bool) {
	lp := headerLoop(phi)
	var step int64
	found := false
	for i, e := range phi.Edges {
		if !lp[phi.Block().Preds[i]] {
			continue
		}
		k, ok := stepThrough(unconv(e), phi, map[ssa.Value]bool{})
		if !ok {
			return 0, false
		}
		if found && k != step {
			return 0, false
		}
		step, found = k, true
	}
	return step, found
}

// stepThrough follows φ-webs on continue paths: every leaf must be phi+k.
func stepThrough(v ssa.Value, phi *ssa.Phi, seen map[ssa.Value]bool) (int64, bool) {
	if seen[v] {
		return 0, false
	}
	seen[v] = true
	switch x := v.(type) {
	case *ssa.BinOp:
		if unconv(x.X) != ssa.Value(phi) {
			return 0, false
		}
		k, ok := constInt(x.Y)
		if !ok {
			return 0, false
		}
		switch x.Op {
		case token.ADD:
			return k, true
		case token.SUB:
			return -k, true
		}
	}
	return 0, false
}

// initOf: the value φ has on loop entry (all entry edges agree structurally).
func initOf(phi *ssa.Phi) (ssa.Value, bool) {
	lp := headerLoop(phi)
	var init ssa.Value
	for i, e := range phi.Edges {
		if lp[phi.Block().Preds[i]] {
			continue
		}
		if init != nil && !sameExpr(init, e, 0) {
			return nil, false
		}
		init = e
	}
	return init, init != nil
}

// tripCount: number of iterations of the loop headed by phi's block, when it is
// a range loop over a slice field (len(field)) or a counted loop i < n.
func tripCount(phi *ssa.Phi) symLin {
	lp := headerLoop(phi)
	for b := range lp {
		ifi, ok := b.Instrs[len(b.Instrs)-1].(*ssa.If)
		if !ok {
			continue
		}
		exits := false
		for _, s := range b.Succs {
			if !lp[s] {
				exits = true
			}
		}
		if !exits {
			continue
		}
		bo, ok := ifi.Cond.(*ssa.BinOp)
		if !ok || bo.Op != token.LSS {
			continue
		}
		// φ+1 < len(X)   (range index)   or   φ < n
		bound := symValue(bo.Y, 0)
		if !bound.ok {
			continue
		}
		lhs := unconv(bo.X)
		if add, ok := lhs.(*ssa.BinOp); ok && add.Op == token.ADD && IsConstInt(1)(add.Y) {
			if p2, ok := unconv(add.X).(*ssa.Phi); ok && p2.Block() == phi.Block() {
				if k, ok := constInt(firstInit(p2)); ok && k == -1 {
					return bound
				}
			}
		}
		if p2, ok := lhs.(*ssa.Phi); ok && p2.Block() == phi.Block() {
			if k, ok := constInt(firstInit(p2)); ok && k == 0 {
				return bound
			}
		}
	}
	return symBad()
}

func firstInit(phi *ssa.Phi) ssa.Value {
	v, _ := initOf(phi)
	return v
}

// symValue renders an integer value; loop counters become init + step*i.
func symValue(v ssa.Value, d int) symLin {
	if d > 12 || v == nil {
		return symBad()
	}
	if k, ok := constInt(v); ok {
		return symConst(k)
	}
	switch x := unconv(v).(type) {
	case *ssa.BinOp:
		switch x.Op {
		case token.ADD:
			return symValue(x.X, d+1).plus(symValue(x.Y, d+1), 1)
		case token.SUB:
			return symValue(x.X, d+1).plus(symValue(x.Y, d+1), -1)
		case token.MUL:
			if k, ok := constInt(x.X); ok {
				return symConst(0).plus(symValue(x.Y, d+1), k)
			}
			if k, ok := constInt(x.Y); ok {
				return symConst(0).plus(symValue(x.X, d+1), k)
			}
		}
	case *ssa.Call:
		if b, ok := x.Call.Value.(*ssa.Builtin); ok && b.Name() == "len" {
			if f, _ := loadedField(x.Call.Args[0]); f != nil {
				return symAtom("len(" + f.Name() + ")")
			}
			// len of a ranged local slice value: name by its source field if it is a load
			return symAtom("len(" + x.Call.Args[0].Name() + ")")
		}
	case *ssa.Phi:
		step, okS := stepOf(x)
		init, okI := initOf(x)
		if !okS || !okI {
			return symBad()
		}
		return symValue(exitOrValue(init, x), d+1).plus(symAtom("i"), step)
	}
	return symBad()
}

// exitOrValue: if init is a loop counter of an earlier loop, its value after
// that loop is init' + step'*tripCount; otherwise the value itself.
func exitOrValue(init ssa.Value, user *ssa.Phi) ssa.Value {
	return init
}

// symValueAt is symValue, except that a counter φ of a loop that does not
// contain `at` is taken at its exit value init + step*trip.
func symValueAt(v ssa.Value, at *ssa.BasicBlock, d int) symLin {
	if d > 12 || v == nil {
		return symBad()
	}
	if k, ok := constInt(v); ok {
		return symConst(k)
	}
	switch x := unconv(v).(type) {
	case *ssa.BinOp:
		switch x.Op {
		case token.ADD:
			return symValueAt(x.X, at, d+1).plus(symValueAt(x.Y, at, d+1), 1)
		case token.SUB:
			return symValueAt(x.X, at, d+1).plus(symValueAt(x.Y, at, d+1), -1)
		case token.MUL:
			if k, ok := constInt(x.X); ok {
				return symConst(0).plus(symValueAt(x.Y, at, d+1), k)
			}
			if k, ok := constInt(x.Y); ok {
				return symConst(0).plus(symValueAt(x.X, at, d+1), k)
			}
		}
	case *ssa.Call:
		return symValue(x, d)
	case *ssa.Phi:
		step, okS := stepOf(x)
		init, okI := initOf(x)
		if !okS || !okI {
			return symBad()
		}
		lp := headerLoop(x)
		base := symValueAt(init, x.Block(), d+1)
		if lp[at] || at == x.Block() {
			// inside the loop: 0-based iteration index. For the range-index form
			// (init -1, used as φ+1) the +1 is added by the BinOp above.
			return base.plus(symAtom("i"), step)
		}
		// after the loop
		return base.plus(tripCount(x), step)
	}
	return symBad()
}

// absOffset: absolute offset inside the chunk value of buf[low:], following
// re-slicing of the buffer (body := raw[12:]).
func absOffset(slice ssa.Value, at *ssa.BasicBlock, d int) symLin {
	if d > 6 {
		return symBad()
	}
	sl, ok := slice.(*ssa.Slice)
	if !ok {
		return symConst(0)
	}
	low := symConst(0)
	if sl.Low != nil {
		low = symValueAt(sl.Low, at, 0)
	}
	return absOffset(sl.X, at, d+1).plus(low, 1)
}

// normOffset is the canonical rendering used by the layout comparison. The
// range-index form contributes i-1+1: callers see plain "i".
func normOffset(slice ssa.Value, in ssa.Instruction) string {
	e := absOffset(slice, in.Block(), 0)
	if !e.ok {
		return offsetOf(slice)
	}
	return e.String()
}

func normIndex(idx ssa.Value, in ssa.Instruction) string {
	e := symValueAt(idx, in.Block(), 0)
	if !e.ok {
		return offsetExpr(idx)
	}
	return e.String()
}
