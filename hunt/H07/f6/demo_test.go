package sctp

import (
	"runtime"
	"strings"
	"testing"
	"time"

	"github.com/pion/transport/v4/test"
	"github.com/stretchr/testify/assert"
	"github.com/stretchr/testify/require"
)

func countGoroutinesContaining(substr string) int {
	buf := make([]byte, 1<<20)
	n := runtime.Stack(buf, true)
	cnt := 0
	for _, g := range strings.Split(string(buf[:n]), "\n\n") {
		if strings.Contains(g, substr) {
			cnt++
		}
	}

	return cnt
}

// A read deadline armed on a stream starts a background goroutine + timer.
// Closing the association does not stop it.
func TestHunt2ReadDeadlineGoroutineSurvivesClose(t *testing.T) {
	br := test.NewBridge()
	a0, a1, err := createNewAssociationPair(br, ackModeNoDelay, 0)
	require.NoError(t, err)

	s0, s1, err := establishSessionPair(br, a0, a1, 1)
	require.NoError(t, err)
	_ = s0

	before := countGoroutinesContaining("(*Stream).SetReadDeadline")
	require.NoError(t, s1.SetReadDeadline(time.Now().Add(time.Hour)))
	require.Equal(t, before+1, countGoroutinesContaining("(*Stream).SetReadDeadline"))

	closeAssociationPair(br, a0, a1)

	leaked := 0
	for i := 0; i < 20; i++ {
		time.Sleep(50 * time.Millisecond)
		leaked = countGoroutinesContaining("(*Stream).SetReadDeadline") - before
		if leaked == 0 {
			break
		}
	}
	assert.Equal(t, 0, leaked, "read-deadline goroutine/timer still running after the association was closed")
}
