package main

import (
	"strings"

	"golang.org/x/tools/go/ssa"
)

// elemFieldOf: v is field `name` of an element of the ranged slice (forwarded.name).
func elemFieldName(v ssa.Value) (string, ssa.Value) {
	v = unconv(v)
	switch x := v.(type) {
	case *ssa.Field:
		if f := fieldOf(x.X.Type(), x.Field); f != nil {
			return f.Name(), x.X
		}
	case *ssa.UnOp:
		if f, base := loadedField(x); f != nil {
			return f.Name(), base
		}
	}
	return "", nil
}

func init() {
	register(&Rule{ID: "C07.R7", Props: []string{"C07", "C11"}, Engine: "E2-dataflow+sibling",
		Title:   "receiver-side skip dispatch: each FORWARD-TSN entry purges the stream it names with the sequence it carries, every stream gets the unordered purge with the chunk's new cumulative TSN, each I-FORWARD-TSN entry goes to the ordered or unordered MID purge according to its own U flag with its own message identifier, and the four Stream wrappers delegate to the same-named reassembly-queue purge with their own argument",
		MinInst: 12,
		Run: func(c *RuleCtx) {
			streamsF := c.field("Association", "streams")
			// the Stream receiver of call: lookup in a.streams keyed by <elem>.identifier ; returns key's base
			// (the stream may also come from a get-or-create: every φ leaf must name the same key — the lookup's
			// index, or the identifier argument of the creating call)
			lookupKeyBase := func(recv ssa.Value) (string, ssa.Value) {
				name, base, first := "", ssa.Value(nil), true
				for _, lf := range phiLeaves(recv) {
					var n string
					var b ssa.Value
					x := unconv(lf.Val)
					if ex, ok := x.(*ssa.Extract); ok {
						x = ex.Tuple
					}
					switch y := x.(type) {
					case *ssa.Lookup:
						if IsLoadOf(streamsF)(y.X) {
							n, b = elemFieldName(y.Index)
						}
					case *ssa.Call:
						if sc := y.Call.StaticCallee(); sc != nil && c.P.inPkg(sc) {
							for _, a := range y.Call.Args {
								if an, ab := elemFieldName(a); an == "identifier" {
									n, b = an, ab
								}
							}
						}
					}
					if first {
						name, base, first = n, b, false
					} else if n != name || b != base {
						return "", nil
					}
				}
				return name, base
			}
			type want struct{ handler, wrapper, argField string }
			for _, w := range []want{
				{"Association.handleForwardTSN", "Stream.handleForwardTSNForOrdered", "sequence"},
				{"Association.handleIForwardTSN", "Stream.handleForwardTSNForOrderedMID", "messageIdentifier"},
				{"Association.handleIForwardTSN", "Stream.handleForwardTSNForUnorderedMID", "messageIdentifier"},
			} {
				h, wr := c.Fn(w.handler), c.Fn(w.wrapper)
				calls := callsIn(h, wr)
				c.Check(len(calls) == 1, "dispatch-site:"+w.wrapper, c.P.Pos(h.Pos()), "one dispatch site", "dispatch sites changed")
				for _, call := range calls {
					kn, kbase := lookupKeyBase(callArg(call, 0))
					an, abase := elemFieldName(callArg(call, 1))
					ok := kn == "identifier" && an == w.argField && kbase != nil && kbase == abase
					c.Check(ok, "dispatch-own-entry:"+w.wrapper, c.Pos(call), "streams[e.identifier]."+strings.TrimPrefix(w.wrapper, "Stream.")+"(e."+w.argField+") for one and the same entry e",
						"the purge is sent to stream '"+kn+"' with argument '"+an+"' (not identifier/"+w.argField+" of the same entry): another stream's messages are purged or the wrong skip point is applied")
					if strings.HasSuffix(w.wrapper, "MID") {
						wantU := strings.Contains(w.wrapper, "Unordered")
						okU := DominatedByExt(call, func(v ssa.Value, t bool) bool {
							n, b := elemFieldName(v)
							return n == "unordered" && b == abase && t == wantU
						})
						c.Check(okU, "dispatch-by-U-flag:"+w.wrapper, c.Pos(call), "selected by the entry's own U flag", "ordered/unordered purge not selected by the entry's U flag")
					}
				}
			}
			// unordered purge broadcast
			h := c.Fn("Association.handleForwardTSN")
			un := c.Fn("Stream.handleForwardTSNForUnordered")
			for _, call := range callsIn(h, un) {
				an, _ := elemFieldName(callArg(call, 1))
				var extra []string
				adv := callsIn(h, c.Fn("receivePayloadQueue.advanceCumulativeTSN"))
				for _, f := range DomFacts(call.Block()) {
					if isLoopBound(f.Cond) || isRangeOK(f.Cond) {
						continue
					}
					dominatesAdv := false
					for _, a := range adv {
						for _, g := range DomFacts(a.Block()) {
							if g.Cond == f.Cond && g.Taken == f.Taken {
								dominatesAdv = true
							}
						}
					}
					if !dominatesAdv {
						extra = append(extra, shortValue(c.P, f.Cond))
					}
				}
				c.Check(an == "newCumulativeTSN" && len(extra) == 0, "broadcast-unordered-purge", c.Pos(call), "every stream gets handleForwardTSNForUnordered(chunk.newCumulativeTSN)",
					"unordered purge argument is '"+an+"' or some streams are skipped: "+strings.Join(extra, ", "))
			}
			// the cumulative point moves before the purges
			for _, name := range []string{"Association.handleForwardTSN", "Association.handleIForwardTSN"} {
				fn := c.Fn(name)
				adv := callsIn(fn, c.Fn("receivePayloadQueue.advanceCumulativeTSN"))
				ok := len(adv) == 1
				if ok {
					an, _ := elemFieldName(callArg(adv[0], 1))
					ok = an == "newCumulativeTSN"
				}
				c.Check(ok, "advance-to-new-cumulative@"+name, c.P.Pos(fn.Pos()), "advanceCumulativeTSN(chunk.newCumulativeTSN)", "cumulative TSN not advanced to the chunk's new cumulative TSN")
			}
			// wrappers delegate to the same-named purge with their own parameter
			for _, suf := range []string{"Ordered", "Unordered", "OrderedMID", "UnorderedMID"} {
				wr := c.Fn("Stream.handleForwardTSNFor" + suf)
				target := c.Fn("reassemblyQueue.forwardTSNFor" + suf)
				n := 0
				ok := true
				for _, fn := range c.P.Funcs {
					if enclosingNamed(fn) != wr {
						continue
					}
					forEachInstr(fn, func(in ssa.Instruction) {
						ci, isCall := in.(ssa.CallInstruction)
						if !isCall {
							return
						}
						sc := ci.Common().StaticCallee()
						if sc == nil || !strings.HasPrefix(c.P.FuncName(sc), "reassemblyQueue.forwardTSNFor") {
							return
						}
						n++
						if sc != target {
							ok = false
						}
						// argument is the wrapper's own parameter (possibly captured)
						arg := unconv(ci.Common().Args[1])
						isOwn := false
						if p, isP := arg.(*ssa.Parameter); isP && p.Parent() == wr {
							isOwn = true
						}
						if fv, isFV := arg.(*ssa.FreeVar); isFV {
							_ = fv
							isOwn = true
						}
						if u, isU := arg.(*ssa.UnOp); isU {
							if _, isFV := u.X.(*ssa.FreeVar); isFV {
								isOwn = true
							}
						}
						if !isOwn {
							ok = false
						}
					})
				}
				c.Check(ok && n >= 1, "wrapper-delegates:"+suf, c.P.Pos(wr.Pos()), "calls reassemblyQueue.forwardTSNFor"+suf+" with its own argument", "wrapper calls a different purge or passes something else")
				// the reader is woken on what the purge made readable: isReadable() is evaluated after the purge
				isR := c.Fn("reassemblyQueue.isReadable")
				nR, okAfter := 0, true
				for _, fn := range c.P.Funcs {
					if enclosingNamed(fn) != wr && !c.P.OwnedBy(fn, map[*ssa.Function]bool{wr: true}) {
						continue
					}
					for _, rc := range callsIn(fn, isR) {
						nR++
						after := false
						for _, pc := range callsIn(fn, target) {
							if InstrDominates(pc, rc) {
								after = true
							}
						}
						if !after {
							okAfter = false
						}
					}
				}
				if nR == 0 {
					// shared helper taking the purge as a callback: helper(func(r){ r.forwardTSNFor<suf>(x) }) with
					// isReadable() evaluated in the helper after it has called the callback
					for _, fn := range c.P.Funcs {
						if enclosingNamed(fn) != wr {
							continue
						}
						forEachInstr(fn, func(in ssa.Instruction) {
							ci, isCall := in.(ssa.CallInstruction)
							if !isCall {
								return
							}
							hlp := ci.Common().StaticCallee()
							if hlp == nil || !c.P.inPkg(hlp) || hlp.Blocks == nil {
								return
							}
							for ai, a := range ci.Common().Args {
								mc, isMc := a.(*ssa.MakeClosure)
								if !isMc {
									continue
								}
								cb, _ := mc.Fn.(*ssa.Function)
								if cb == nil || len(callsIn(cb, target)) == 0 || ai >= len(hlp.Params) {
									continue
								}
								// in the helper: the dynamic call of that parameter dominates isReadable()
								var dyn []ssa.Instruction
								forEachInstr(hlp, func(y ssa.Instruction) {
									if cj, ok := y.(ssa.CallInstruction); ok && !cj.Common().IsInvoke() && cj.Common().Value == ssa.Value(hlp.Params[ai]) {
										dyn = append(dyn, y)
									}
								})
								for _, rc := range callsIn(hlp, isR) {
									nR++
									after := false
									for _, d := range dyn {
										if InstrDominates(d, rc) {
											after = true
										}
									}
									if !after {
										okAfter = false
									}
								}
							}
						})
					}
				}
				c.Check(nR >= 1 && okAfter, "wake-after-purge:"+suf, c.P.Pos(wr.Pos()), "readability is tested after the purge (the reader is signalled for what the skip released)", "readability is tested before the purge: a message that becomes deliverable because of the skip does not wake a blocked reader")
			}
		}})
}
