package main

import (
	"fmt"
	"go/token"
	"go/types"
	"strings"

	"golang.org/x/tools/go/ssa"
)

// Round 9: rules for the defects that independent bug-hunting sub-agents demonstrated on the unmodified tree and
// that were repaired (F15–F27). Each rule is the structural necessary condition the repair establishes; it fires
// again when the repair is reverted (seeds Cxx-s17/-s18).

// factsSerial: serial situations of x relative to ref implied by the facts dominating block b.
func factsSerial(b *ssa.BasicBlock, x, ref VPat) int {
	return serialSituations(DomFactsX(b), x, ref)
}

func isFieldNamed(v ssa.Value, name string) bool {
	f, _ := loadedOrField(unconv(v))
	return f != nil && f.Name() == name
}

func init() {
	register(&Rule{ID: "C04.R15", Props: []string{"C04", "C03"}, Engine: "E3",
		Title:   "an INIT ACK is validated before anything is recorded from it: in handleInitAck every store to an Association field (and every call that initialises the receive queue or the peer window) is dominated by the port check and by the presence of the State Cookie — a rejected INIT ACK must leave the association exactly as it was (otherwise it overwrites the tag and TSN learnt from a colliding INIT, or switches zero checksums on)",
		MinInst: 4,
		Run: func(c *RuleCtx) {
			fn := c.Fn("Association.handleInitAck")
			_, assocT := c.P.NamedStruct("Association")
			isAssocField := func(f *types.Var) bool {
				if f == nil || assocT == nil {
					return false
				}
				for i := 0; i < assocT.NumFields(); i++ {
					if assocT.Field(i) == f {
						return true
					}
				}
				return false
			}
			srcPort := c.field("Association", "sourcePort")
			var sites []ssa.Instruction
			for _, g := range c.P.Region(fn) {
				forEachInstr(g, func(in ssa.Instruction) {
					switch x := in.(type) {
					case *ssa.Store:
						if isAssocField(fieldOfAddr(x.Addr)) {
							sites = append(sites, in)
						}
					case *ssa.Call:
						if sc := x.Call.StaticCallee(); sc != nil {
							switch c.P.FuncName(sc) {
							case "receivePayloadQueue.init", "Association.setRWND", "Association.setState":
								sites = append(sites, in)
							}
						}
					}
				})
			}
			ks := keyer{}
			for _, in := range sites {
				facts := DomFactsX(in.Block())
				if in.Parent() != fn {
					facts = append(facts, callerFacts(in.Block(), 0, map[*ssa.BasicBlock]bool{})...)
				}
				cookie, port := false, false
				for _, ft := range facts {
					b, ok := ft.Cond.(*ssa.BinOp)
					if !ok {
						continue
					}
					if (b.Op == token.EQL && !ft.Taken) || (b.Op == token.NEQ && ft.Taken) {
						for _, side := range []ssa.Value{b.X, b.Y} {
							if typeShort(side.Type()) == "*paramStateCookie" {
								other := b.Y
								if side == b.Y {
									other = b.X
								}
								if isNilConst(other) {
									cookie = true
								}
							}
						}
					}
					if (b.Op == token.NEQ && !ft.Taken) || (b.Op == token.EQL && ft.Taken) {
						if IsLoadOf(srcPort)(b.X) || IsLoadOf(srcPort)(b.Y) {
							port = true
						}
					}
				}
				c.Check(cookie && port, ks.key("recorded-only-after-validation"), c.Pos(in), "dominated by the port check and by cookie != nil",
					fmt.Sprintf("state is recorded from the INIT ACK before it has been validated (port check dominates: %v, cookie presence dominates: %v): a rejected INIT ACK still rewrites the association", port, cookie))
			}
			c.Check(len(sites) >= 4, "recording-sites", c.P.Pos(fn.Pos()), fmt.Sprintf("%d recording site(s)", len(sites)), "fewer recording sites than reviewed")
		}})

	register(&Rule{ID: "C10.R11", Props: []string{"C10"}, Engine: "E3-path",
		Title:   "every chunk moved from the pending queue into flight is charged against the peer's receive window: in popPendingDataChunksToSend no path from the peek of a chunk to its movePendingDataChunkToInflightQueue avoids setRWND — including the window-probe path (a probe sent into a small non-zero window otherwise leaves the stale window admitting further chunks)",
		MinInst: 2,
		Run: func(c *RuleCtx) {
			fn := c.Fn("Association.popPendingDataChunksToSend")
			move := c.Fn("Association.movePendingDataChunkToInflightQueue")
			setR := c.Fn("Association.setRWND")
			rw := c.field("Association", "rwnd")
			charged := func(in ssa.Instruction) bool {
				if ci, ok := in.(ssa.CallInstruction); ok && ci.Common().StaticCallee() == setR {
					return true
				}
				if st, ok := in.(*ssa.Store); ok && fieldOfAddr(st.Addr) == rw {
					return true
				}
				if name, ok := isAtomicCallInstr(in); ok && name != "" {
					if ci, isC := in.(ssa.CallInstruction); isC && len(ci.Common().Args) > 0 && fieldOfAddr(ci.Common().Args[0]) == rw {
						return true
					}
				}
				return false
			}
			n := 0
			ks := keyer{}
			for _, g := range c.P.Region(fn) {
				for _, m := range callsIn(g, move) {
					mi := m.(ssa.Instruction)
					n++
					// the peek that produced the chunk
					arg := unconv(callArg(m, 1))
					var starts []ssa.Instruction
					for _, lf := range phiLeaves(arg) {
						if call, ok := unconv(lf.Val).(*ssa.Call); ok && call.Parent() == g {
							starts = append(starts, call)
						}
					}
					if len(starts) == 0 {
						c.Fail(ks.key("moved-chunk-origin"), c.Pos(mi), "UNDECIDED: the moved chunk does not come from a peek in this function")
						continue
					}
					ok := true
					for _, s := range starts {
						good, _ := MustPassOpt(s.Block(), instrIndex(s)+1, s, charged, PathOpts{Fail: func(in ssa.Instruction) bool { return in == mi }, ExitOK: true})
						if !good {
							ok = false
						}
					}
					c.Check(ok, ks.key("moved-chunk-charged-to-rwnd"), c.Pos(mi), "no path from the peek to the move avoids setRWND", "a chunk goes into flight without being charged against the peer's receive window (the window probe): the stale window then admits further chunks beyond what the peer advertised")
				}
			}
			c.Check(n >= 2, "move-sites", c.P.Pos(fn.Pos()), fmt.Sprintf("%d move site(s)", n), "fewer move sites than reviewed")
		}})

	register(&Rule{ID: "C11.R9", Props: []string{"C11", "C03"}, Engine: "E3",
		Title:   "a DATA / I-DATA chunk without user data is refused: chunkPayloadData.check() returns (abort=true, error) under len(userData)==0 (RFC 9260 §6.2) — an empty chunk is stored for reassembly but adds nothing to the byte count that closes the receive window, so a peer could make the endpoint hold an unbounded number of them",
		MinInst: 1,
		Run: func(c *RuleCtx) {
			fn := c.Fn("chunkPayloadData.check")
			ud := c.field("chunkPayloadData", "userData")
			ok := false
			for _, g := range c.P.Region(fn) {
				for _, r := range allReturns(g) {
					res := retResults(r)
					if len(res) != 2 || !IsConstBool(true)(res[0]) || len(phiLeaves(res[1])) == 0 {
						continue
					}
					for _, ft := range DomFactsX(r.Block()) {
						b, isB := ft.Cond.(*ssa.BinOp)
						if !isB {
							continue
						}
						isLen := func(v ssa.Value) bool {
							call, isCall := unconv(v).(*ssa.Call)
							if !isCall {
								return false
							}
							bi, isBi := call.Call.Value.(*ssa.Builtin)
							return isBi && bi.Name() == "len" && IsLoadOf(ud)(call.Call.Args[0])
						}
						zero := (isLen(b.X) && IsConstInt(0)(b.Y)) || (isLen(b.Y) && IsConstInt(0)(b.X))
						if zero && ((b.Op == token.EQL && ft.Taken) || (b.Op == token.NEQ && !ft.Taken) || (b.Op == token.GTR && !ft.Taken && isLen(b.X)) || (b.Op == token.LSS && !ft.Taken && isLen(b.Y))) {
							ok = true
						}
					}
				}
			}
			c.Check(ok, "empty-data-refused", c.P.Pos(fn.Pos()), "check() aborts on len(userData)==0", "a DATA chunk with no user data passes validation: it is acknowledged and stored without costing any receive window")
		}})

	register(&Rule{ID: "C09.R12", Props: []string{"C09", "C04"}, Engine: "E3",
		Title:   "a failed handshake leaves nothing running: in the connect and accept entry points every return that hands the handshake's error to the caller is dominated by Association.Close() (loops, timers and transport are stopped; an association nobody owns cannot complete a handshake later)",
		MinInst: 2,
		Run: func(c *RuleCtx) {
			closeFn := c.Fn("Association.Close")
			n := 0
			ks := keyer{}
			for _, name := range []string{"createClientWithOptionsWithContext", "ServerWithOptions"} {
				fn := c.Fn(name)
				for _, g := range c.P.Region(fn) {
					for _, r := range allReturns(g) {
						res := retResults(r)
						if len(res) != 2 {
							continue
						}
						fromSelect := false
						for _, lf := range phiLeaves(res[1]) {
							x := unconv(lf.Val)
							if ta, ok := x.(*ssa.TypeAssert); ok {
								x = unconv(ta.X)
							}
							if ex, ok := x.(*ssa.Extract); ok {
								if _, isSel := ex.Tuple.(*ssa.Select); isSel {
									fromSelect = true
								}
							}
							if u, ok := x.(*ssa.UnOp); ok && u.Op == token.ARROW {
								fromSelect = true
							}
						}
						if !fromSelect {
							continue
						}
						n++
						closed := false
						for _, cc := range callsIn(g, closeFn) {
							if InstrDominates(cc.(ssa.Instruction), r) {
								closed = true
							}
						}
						c.Check(closed, ks.key("handshake-error-closes@"+name), c.Pos(r), "Close() dominates the return of the handshake error", "the handshake error is returned while the association keeps running (loops, timers, transport): it can still complete a handshake nobody is waiting for")
					}
				}
			}
			c.Check(n >= 2, "handshake-error-returns", "", fmt.Sprintf("%d return(s) of a handshake error", n), "handshake error returns not found")
		}})

	register(&Rule{ID: "C03.R18", Props: []string{"C03", "C14"}, Engine: "E6-sibling",
		Title:   "the limit on stored reset requests is applied exactly where a request is stored: the serial situations of senderLastTSN relative to the cumulative TSN under which handleReconfigParam applies maxReconfigRequests are the complement of those under which resetStreamsIfAny performs (and forgets) the request — with different predicates the two disagree half the number space apart and such requests are stored without bound",
		MinInst: 1,
		Run: func(c *RuleCtx) {
			h, rs := c.Fn("Association.handleReconfigParam"), c.Fn("Association.resetStreamsIfAny")
			peer := IsCallOf(c.Fn("Association.peerLastTSN"))
			sender := func(v ssa.Value) bool { return isFieldNamed(v, "senderLastTSN") }
			// perform set: situations under which reconfigRequests entry is deleted in resetStreamsIfAny
			rq := c.field("Association", "reconfigRequests")
			perform := -1
			forEachInstr(rs, func(in ssa.Instruction) {
				if call, ok := in.(*ssa.Call); ok {
					if b, isB := call.Call.Value.(*ssa.Builtin); isB && b.Name() == "delete" && IsLoadOf(rq)(call.Call.Args[0]) {
						perform = factsSerial(in.Block(), sender, peer)
					}
				}
			})
			if perform < 0 {
				c.Fail("perform-condition", c.P.Pos(rs.Pos()), "UNDECIDED: no delete from reconfigRequests in resetStreamsIfAny")
				return
			}
			// a performed request is always forgotten: from the response "performed" back — every return of
			// resetStreamsIfAny that is reached on the perform edge has passed the delete (a delete that sits inside the
			// loop over the listed streams is skipped when none of them exists: the request stays stored, is re-run
			// after every later TSN and the map grows without bound)
			{
				isDel := func(in ssa.Instruction) bool {
					call, ok := in.(*ssa.Call)
					if !ok {
						return false
					}
					b, isB := call.Call.Value.(*ssa.Builtin)
					return isB && b.Name() == "delete" && IsLoadOf(rq)(call.Call.Args[0])
				}
				// the perform branch: successor block of the If whose true edge carries the perform situations
				okAll, nBr := true, 0
				forEachInstr(rs, func(in ssa.Instruction) {
					ifi, isIf := in.(*ssa.If)
					if !isIf {
						return
					}
					for si, succ := range ifi.Block().Succs {
						cc, tt := normCond(ifi.Cond, si == 0)
						if serialSituations([]condFact{{cc, tt}}, sender, peer) != perform || perform == snaAll {
							continue
						}
						nBr++
						if ok, _ := MustPassFromBlock(succ, isDel, PathOpts{}); !ok {
							okAll = false
						}
					}
				})
				c.Check(nBr >= 1 && okAll, "performed-request-always-forgotten", c.P.Pos(rs.Pos()), "every path of the perform branch deletes the stored request", "a performed reset request can stay in reconfigRequests (the delete is not on every path of the perform branch): it is performed again after every later TSN and stored requests pile up without bound")
			}
			// cap set: situations under which the too-many error is returned
			n := 0
			for _, r := range allReturns(h) {
				res := retResults(r)
				if len(res) != 2 || len(phiLeaves(res[1])) == 0 {
					continue
				}
				limited := false
				for _, ft := range DomFactsX(r.Block()) {
					if b, ok := ft.Cond.(*ssa.BinOp); ok {
						isLen := func(v ssa.Value) bool {
							call, isCall := unconv(v).(*ssa.Call)
							if !isCall {
								return false
							}
							bi, isBi := call.Call.Value.(*ssa.Builtin)
							return isBi && bi.Name() == "len" && IsLoadOf(rq)(call.Call.Args[0])
						}
						if isLen(b.X) || isLen(b.Y) {
							limited = true
						}
					}
				}
				if !limited {
					continue
				}
				n++
				capSet := factsSerial(r.Block(), sender, peer)
				c.Check(capSet == snaAll&^perform, "limit-applies-where-stored", c.Pos(r), "limit applied for senderLastTSN "+snaSetName(capSet)+" = complement of performed "+snaSetName(perform),
					"the limit is applied for senderLastTSN "+snaSetName(capSet)+" relative to the cumulative TSN but requests are stored for "+snaSetName(snaAll&^perform)+": in the difference requests are stored without any limit")
			}
			c.Check(n >= 1, "limit-sites", c.P.Pos(h.Pos()), fmt.Sprintf("%d limit site(s)", n), "no limit on stored reset requests found")
		}})

	register(&Rule{ID: "C03.R19", Props: []string{"C03", "C07", "C05"}, Engine: "E6-sibling",
		Title:   "a FORWARD-TSN is applied whole or not at all: the serial situations of the cumulative TSN relative to the chunk's new cumulative TSN under which handleForwardTSN / handleIForwardTSN treat the chunk as out of date are exactly those under which receivePayloadQueue.advanceCumulativeTSN does not advance — otherwise (half the number space apart) the cumulative point stays while the per-stream skips and purges are still applied",
		MinInst: 2,
		Run: func(c *RuleCtx) {
			adv := c.Fn("receivePayloadQueue.advanceCumulativeTSN")
			cum := IsLoadOf(c.field("receivePayloadQueue", "cumulativeTSN"))
			noAdv := -1
			for _, r := range allReturns(adv) {
				// the early return: not preceded by a store to cumulativeTSN
				stored := false
				cumF := c.field("receivePayloadQueue", "cumulativeTSN")
				for _, a := range c.storesIn(adv, cumF) {
					if CanReach(a.Instr, r) {
						stored = true
					}
				}
				// ... or through a private helper (resetTo(cum)) called before this return
				forEachInstr(adv, func(in ssa.Instruction) {
					ci, ok := in.(ssa.CallInstruction)
					if !ok {
						return
					}
					sc := ci.Common().StaticCallee()
					if sc == nil || !c.P.inPkg(sc) || sc.Blocks == nil {
						return
					}
					writes := false
					forEachInstrDeep(c.P, sc, 1, func(y ssa.Instruction) {
						if st, isSt := y.(*ssa.Store); isSt && fieldOfAddr(st.Addr) == cumF {
							writes = true
						}
					})
					if writes && CanReach(in, r) {
						stored = true
					}
				})
				if !stored {
					s := factsSerial(r.Block(), cum, IsParam(adv, 1))
					if noAdv < 0 {
						noAdv = s
					} else {
						noAdv |= s
					}
				}
			}
			if noAdv < 0 || noAdv == snaAll {
				c.Fail("advance-condition", c.P.Pos(adv.Pos()), "UNDECIDED: advanceCumulativeTSN has no conditional early return")
				return
			}
			peer := IsCallOf(c.Fn("Association.peerLastTSN"))
			newCum := func(v ssa.Value) bool { return isFieldNamed(v, "newCumulativeTSN") }
			for _, hn := range []string{"Association.handleForwardTSN", "Association.handleIForwardTSN"} {
				h := c.Fn(hn)
				calls := callsInDeep(h, adv, 2)
				if len(calls) == 0 {
					c.Fail("advance-site@"+hn, c.P.Pos(h.Pos()), "no call of advanceCumulativeTSN")
					continue
				}
				// situations under which the advance call IS reached; out of date = complement
				reached := 0
				for _, ac := range calls {
					reached |= serialSituations(localFactsUpTo(ac.(ssa.Instruction), h), peer, newCum)
				}
				outOfDate := snaAll &^ reached
				c.Check(outOfDate == noAdv, "out-of-date-iff-no-advance@"+hn, c.Pos(calls[0].(ssa.Instruction)), "treated as out of date for cumulative "+snaSetName(outOfDate)+" = advanceCumulativeTSN does not advance",
					"the handler applies the chunk for cumulative TSN "+snaSetName(reached)+" relative to the new cumulative TSN, but advanceCumulativeTSN does not advance for "+snaSetName(noAdv)+": in the overlap the skips and purges run although the cumulative point did not move")
			}
		}})

	register(&Rule{ID: "C08.R8", Props: []string{"C08", "C18"}, Engine: "E3",
		Title:   "an empty write is subject to the same state check as any other write: the success return of WriteSCTP for len(payload)==0 is dominated by a test that the association is established (writes attempted after shutdown began are rejected, empty ones included)",
		MinInst: 1,
		Run: func(c *RuleCtx) {
			fn := c.Fn("Stream.WriteSCTP")
			est := c.P.Const("established")
			if est == nil {
				panic(unresolved{"const established"})
			}
			want, _ := constantInt64(est)
			n := 0
			ks := keyer{}
			for _, r := range allReturns(fn) {
				res := retResults(r)
				if len(res) != 2 || len(phiLeaves(res[1])) != 0 || !IsConstInt(0)(res[0]) {
					continue // not a "(0, nil)" return
				}
				empty := false
				okState := false
				for _, ft := range DomFactsX(r.Block()) {
					b, isB := ft.Cond.(*ssa.BinOp)
					if !isB {
						continue
					}
					isLenP := func(v ssa.Value) bool {
						call, isCall := unconv(v).(*ssa.Call)
						if !isCall {
							return false
						}
						bi, isBi := call.Call.Value.(*ssa.Builtin)
						return isBi && bi.Name() == "len" && unconv(call.Call.Args[0]) == ssa.Value(fn.Params[1])
					}
					if ((isLenP(b.X) && IsConstInt(0)(b.Y)) || (isLenP(b.Y) && IsConstInt(0)(b.X))) && ((b.Op == token.EQL && ft.Taken) || (b.Op == token.NEQ && !ft.Taken)) {
						empty = true
					}
					isState := func(v ssa.Value) bool {
						call, isCall := unconv(v).(*ssa.Call)
						return isCall && call.Call.StaticCallee() != nil && call.Call.StaticCallee().Name() == "getState"
					}
					if ((isState(b.X) && IsConstInt(want)(b.Y)) || (isState(b.Y) && IsConstInt(want)(b.X))) && ((b.Op == token.EQL && ft.Taken) || (b.Op == token.NEQ && !ft.Taken)) {
						okState = true
					}
				}
				if !empty {
					continue
				}
				n++
				c.Check(okState, ks.key("empty-write-checks-association-state"), c.Pos(r), "dominated by getState() == established", "an empty write returns success without looking at the association state: it is accepted after shutdown began, where any other write is rejected")
			}
			c.Check(n >= 1, "empty-write-returns", c.P.Pos(fn.Pos()), fmt.Sprintf("%d success return(s) for an empty payload", n), "no success return for an empty payload found")
		}})

	register(&Rule{ID: "C01.R13", Props: []string{"C01", "C06"}, Engine: "E3",
		Title:   "inbound traffic does not change what Write sends: in getOrCreateStream the default payload protocol identifier of a stream that already exists is overwritten only under defaultPayloadType != PayloadTypeUnknown (the inbound DATA path looks streams up with PayloadTypeUnknown; without the guard the first message from the peer resets the PPI the application opened the stream with)",
		MinInst: 1,
		Run: func(c *RuleCtx) {
			fn := c.Fn("Association.getOrCreateStream")
			set := c.Fn("Stream.SetDefaultPayloadType")
			streamsF := c.field("Association", "streams")
			n := 0
			ks := keyer{}
			for _, g := range c.P.Region(fn) {
				for _, cs := range callsIn(g, set) {
					existing := false
					for _, lf := range phiLeaves(callArg(cs, 0)) {
						x := unconv(lf.Val)
						if ex, ok := x.(*ssa.Extract); ok {
							x = ex.Tuple
						}
						if lk, ok := x.(*ssa.Lookup); ok && IsLoadOf(streamsF)(lk.X) {
							existing = true
						}
					}
					if !existing {
						continue
					}
					n++
					guarded := false
					isP := func(v ssa.Value) bool { return resolveParamIs(v, fn, 3) }
					for _, ft := range DomFactsX(cs.(ssa.Instruction).Block()) {
						b, isB := ft.Cond.(*ssa.BinOp)
						if !isB {
							continue
						}
						if ((isP(b.X) && IsConstInt(0)(b.Y)) || (isP(b.Y) && IsConstInt(0)(b.X))) && ((b.Op == token.NEQ && ft.Taken) || (b.Op == token.EQL && !ft.Taken)) {
							guarded = true
						}
					}
					if !guarded && cs.(ssa.Instruction).Parent() == fn {
						// merged call site for the looked-up and the freshly created stream (`if !found || ppi != Unknown`):
						// decide per path — whenever the stream was found, the payload type is known
						isFound := func(v ssa.Value) (bool, bool) { // (recognised, value of "found" when v is true)
							if ex, ok := v.(*ssa.Extract); ok && ex.Index == 1 {
								if lk, isLk := ex.Tuple.(*ssa.Lookup); isLk && IsLoadOf(streamsF)(lk.X) {
									return true, true
								}
							}
							if b, ok := v.(*ssa.BinOp); ok && (b.Op == token.NEQ || b.Op == token.EQL) {
								for _, pr := range [][2]ssa.Value{{b.X, b.Y}, {b.Y, b.X}} {
									if !isNilConst(pr[1]) {
										continue
									}
									x := unconv(pr[0])
									if ex, isEx := x.(*ssa.Extract); isEx {
										x = ex.Tuple
									}
									if lk, isLk := x.(*ssa.Lookup); isLk && IsLoadOf(streamsF)(lk.X) {
										return true, b.Op == token.NEQ
									}
								}
							}
							return false, false
						}
						states := pathStatesAt(cs.(ssa.Instruction), func(cond ssa.Value) (string, bool, bool) {
							if rec, v := isFound(cond); rec {
								return "found", v, true
							}
							if b, ok := cond.(*ssa.BinOp); ok && (b.Op == token.NEQ || b.Op == token.EQL) {
								if (isP(b.X) && IsConstInt(0)(b.Y)) || (isP(b.Y) && IsConstInt(0)(b.X)) {
									return "known-ppi", b.Op == token.NEQ, true
								}
							}
							return "", false, false
						})
						if len(states) > 0 {
							guarded = true
							for _, st := range states {
								if f, has := st["found"]; (!has || f) && !st["known-ppi"] {
									guarded = false
								}
							}
						}
					}
					c.Check(guarded, ks.key("existing-stream-keeps-its-default-ppi"), c.Pos(cs.(ssa.Instruction)), "overwritten only for a known payload type", "the default PPI of an existing stream is overwritten on every lookup, including the PayloadTypeUnknown lookups of the inbound DATA path")
				}
			}
			c.Check(n >= 1, "existing-stream-sites", c.P.Pos(fn.Pos()), fmt.Sprintf("%d site(s)", n), "getOrCreateStream no longer sets the default PPI of an existing stream (OpenStream relies on it)")
		}})

	register(&Rule{ID: "C20.R4", Props: []string{"C20", "C01", "C08"}, Engine: "E4",
		Title:   "writers of one stream are serialised in every mode: in Stream.WriteSCTP the call that takes the sequence number (packetize), the call that queues the chunks (sendPayloadData) and the roll-back stores all happen with Stream.writeLock held in every context — otherwise a later sequence number can be queued first (the peer, under window pressure, then never gets the earlier one) and a roll-back can undo a number below ones already sent",
		MinInst: 2,
		Run: func(c *RuleCtx) {
			fn := c.Fn("Stream.WriteSCTP")
			le := c.P.Locks()
			n := 0
			ks := keyer{}
			check := func(in ssa.Instruction, what string) {
				n++
				held := le.HeldAt(in)
				ok := len(held) > 0
				for _, ls := range held {
					if !le.Holds(ls, "Stream.writeLock", true) {
						ok = false
					}
				}
				c.Check(ok, ks.key("under-write-lock:"+what), c.Pos(in), "Stream.writeLock held in every context", what+" runs without Stream.writeLock in some mode: concurrent writers of one stream can queue their messages in a different order than their sequence numbers")
			}
			for _, g := range c.P.Region(fn) {
				for _, cs := range callsIn(g, c.Fn("Stream.packetize")) {
					check(cs.(ssa.Instruction), "packetize")
				}
				for _, cs := range callsIn(g, c.Fn("Association.sendPayloadData")) {
					check(cs.(ssa.Instruction), "sendPayloadData")
				}
			}
			c.Check(n >= 2, "write-steps", c.P.Pos(fn.Pos()), fmt.Sprintf("%d step(s)", n), "packetize / sendPayloadData calls not found in WriteSCTP")
		}})

	register(&Rule{ID: "C20.R5", Props: []string{"C20", "C18"}, Engine: "E2",
		Title:   "readers are woken with Broadcast, never Signal: several goroutines may be blocked in Read on one stream, and one event (a gap filled, a skip, a deadline, a teardown) can concern all of them — Signal wakes one and leaves the others asleep on a readable queue or past their deadline",
		MinInst: 6,
		Run: func(c *RuleCtx) {
			rn := c.field("Stream", "readNotifier")
			nB := 0
			ks := keyer{}
			for _, fn := range c.P.Funcs {
				forEachInstr(fn, func(in ssa.Instruction) {
					ci, ok := in.(ssa.CallInstruction)
					if !ok {
						return
					}
					sc := ci.Common().StaticCallee()
					if sc == nil || len(ci.Common().Args) == 0 || !IsLoadOf(rn)(ci.Common().Args[0]) {
						return
					}
					switch sc.Name() {
					case "Broadcast":
						nB++
						c.Ok(ks.key("wakes-all-readers@"+c.P.FuncName(enclosingNamed(fn))), c.Pos(in), "Broadcast")
					case "Signal":
						c.Fail(ks.key("wakes-all-readers@"+c.P.FuncName(enclosingNamed(fn))), c.Pos(in), "readNotifier.Signal() wakes a single reader: with several goroutines blocked in Read the others miss the event")
					}
				})
			}
			c.Check(nB >= 6, "wake-up-sites", "", fmt.Sprintf("%d Broadcast site(s)", nB), "fewer wake-up sites than reviewed")
		}})

	register(&Rule{ID: "C09.R13", Props: []string{"C09"}, Engine: "E3",
		Title:   "teardown stops a pending read-deadline timer: Association.unregisterStream closes Stream.readTimeoutCancel whenever it is set (under no other condition), so the goroutine and timer started by SetReadDeadline do not outlive the stream",
		MinInst: 1,
		Run: func(c *RuleCtx) {
			rc := c.field("Stream", "readTimeoutCancel")
			ks := keyer{}
			// the same on the other path by which a stream leaves the registry: the peer's reset
			// (Stream.onInboundStreamReset; the stream is deleted from Association.streams right after it)
			{
				rfn := c.Fn("Stream.onInboundStreamReset")
				nr := 0
				for _, g := range c.P.Region(rfn) {
					forEachInstr(g, func(in ssa.Instruction) {
						ci, isCall := in.(ssa.CallInstruction)
						if !isCall {
							return
						}
						b, isB := ci.Common().Value.(*ssa.Builtin)
						if isB && b.Name() == "close" && IsLoadOf(rc)(ci.Common().Args[0]) {
							nr++
						}
					})
				}
				c.Check(nr >= 1, "reset-stops-deadline-timer", c.P.Pos(rfn.Pos()), fmt.Sprintf("%d close site(s)", nr), "a stream reset by the peer is forgotten by the association without its read-deadline timer being stopped: the timer goroutine outlives Close until the deadline")
			}
			fn := c.Fn("Association.unregisterStream")
			n := 0
			for _, g := range c.P.Region(fn) {
				forEachInstr(g, func(in ssa.Instruction) {
					ci, isCall := in.(ssa.CallInstruction)
					if !isCall {
						return
					}
					b, isB := ci.Common().Value.(*ssa.Builtin)
					if !isB || b.Name() != "close" || !IsLoadOf(rc)(ci.Common().Args[0]) {
						return
					}
					n++
					var extra []string
					for _, ft := range localFactsUpTo(in, fn) {
						if bo, ok := ft.Cond.(*ssa.BinOp); ok && (IsLoadOf(rc)(bo.X) || IsLoadOf(rc)(bo.Y)) {
							continue
						}
						extra = append(extra, shortValue(c.P, ft.Cond))
					}
					c.Check(len(extra) == 0, ks.key("deadline-timer-stopped-on-teardown"), c.Pos(in), "closed whenever set", "the deadline timer is stopped only under a further condition")
				})
			}
			c.Check(n >= 1, "teardown-stops-deadline-timer", c.P.Pos(fn.Pos()), fmt.Sprintf("%d close site(s)", n), "unregisterStream does not stop a pending read-deadline timer: its goroutine lives until the deadline")
		}})

	register(&Rule{ID: "C08.R9", Props: []string{"C08", "C09"}, Engine: "E3",
		Title:   "Shutdown reports success only for a completed shutdown sequence: the nil return of Association.Shutdown is dominated by a test of shutdownCompleted, and that flag is set only where SHUTDOWN COMPLETE is sent or its receipt is accepted (the write loop also ends on ABORT, Close and transport failure)",
		MinInst: 2,
		Run: func(c *RuleCtx) {
			fn := c.Fn("Association.Shutdown")
			sc := c.field("Association", "shutdownCompleted")
			n := 0
			ks := keyer{}
			for _, g := range c.P.Region(fn) {
				for _, r := range allReturns(g) {
					res := retResults(r)
					if g != fn || len(res) != 1 || len(phiLeaves(res[0])) != 0 {
						continue
					}
					n++
					ok := DominatedByExt(r, BoolCond(func(v ssa.Value) bool {
						return IsLoadOf(sc)(v) || derives(v, IsLoadOf(sc), map[ssa.Value]bool{})
					}, true))
					c.Check(ok, ks.key("success-only-when-sequence-completed"), c.Pos(r), "return nil is dominated by shutdownCompleted", "Shutdown returns nil without knowing that the shutdown sequence completed: an aborted or closed association is reported as gracefully shut down")
				}
			}
			c.Check(n >= 1, "success-returns", c.P.Pos(fn.Pos()), fmt.Sprintf("%d nil return(s)", n), "Shutdown has no success return")
			c.WritersWithin("completed-flag", sc, "Association.handleShutdownComplete", "Association.gatherOutboundShutdownPackets")
		}})

	register(&Rule{ID: "C05.R12", Props: []string{"C05", "C11"}, Engine: "E2-sibling",
		Title:   "one TSN, one bitmap cell: in receivePayloadQueue.hasChunk / push / pop the word index is (T/64) mod len(tsnBitmask) and the bit is T mod 64 for one and the same T (the TSN being tested, recorded or released) — a cell computed from a neighbouring TSN (cumulative+1 written as offset+1) agrees 63 times out of 64 and leaves a stale bit at every word boundary, which one ring length later is read as a TSN that never arrived",
		MinInst: 3,
		Run: func(c *RuleCtx) {
			bm := c.field("receivePayloadQueue", "tsnBitmask")
			n := 0
			for _, name := range []string{"receivePayloadQueue.hasChunk", "receivePayloadQueue.push", "receivePayloadQueue.pop"} {
				fn := c.Fn(name)
				var idxT, bitT []ssa.Value
				okShape := true
				why := ""
				// through a private helper that returns (word, bit) for a TSN: cell(tsn) → (tsn/64)%len, tsn%64
				var cellCalls []*ssa.Call
				var viaHelperT func(v ssa.Value, want string, d int) (ssa.Value, bool)
				viaHelperT = func(v ssa.Value, want string, d int) (ssa.Value, bool) {
					v = unconv(v)
					if b, ok := v.(*ssa.BinOp); ok && b.Op == token.REM {
						if want == "idx" {
							if quo, isQ := unconv(b.X).(*ssa.BinOp); isQ && quo.Op == token.QUO && IsConstInt(64)(quo.Y) {
								return unconv(quo.X), true
							}
							return nil, false
						}
						if IsConstInt(64)(b.Y) {
							return unconv(b.X), true
						}
						return nil, false
					}
					ex, ok := v.(*ssa.Extract)
					if !ok || d > 2 {
						return nil, false
					}
					call, ok := ex.Tuple.(*ssa.Call)
					if !ok {
						return nil, false
					}
					rs := helperReturns(call, ex.Index)
					if len(rs) != 1 {
						return nil, false
					}
					cellCalls = append(cellCalls, call)
					t, ok := viaHelperT(rs[0], want, d+1)
					if !ok {
						return nil, false
					}
					if p, isP := t.(*ssa.Parameter); isP && p.Parent() == call.Call.StaticCallee() {
						for i, q := range p.Parent().Params {
							if q == p && i < len(call.Call.Args) {
								return unconv(call.Call.Args[i]), true
							}
						}
					}
					return t, true
				}
				for _, g := range c.P.Region(fn) {
					if g != fn && enclosingNamed(g) != fn {
						continue
					}
					forEachInstr(g, func(in ssa.Instruction) {
						switch x := in.(type) {
						case *ssa.IndexAddr:
							if !IsLoadOf(bm)(x.X) {
								return
							}
							t, ok := viaHelperT(x.Index, "idx", 0)
							if !ok {
								okShape, why = false, "word index is not (T/64) mod len"
								return
							}
							idxT = append(idxT, t)
						case *ssa.BinOp:
							// mask form `1 << bit`, or test form `(word >> bit) & 1`
							if !(x.Op == token.SHL && IsConstInt(1)(unconv(x.X))) && x.Op != token.SHR {
								return
							}
							if x.Op == token.SHR {
								if _, isK := unconv(x.Y).(*ssa.Const); isK {
									return
								}
							}
							t, ok := viaHelperT(x.Y, "bit", 0)
							if !ok {
								okShape, why = false, "bit position is not T mod 64 (an offset was added or the expression changed)"
								return
							}
							bitT = append(bitT, t)
						}
					})
				}
				if len(bitT) == 0 {
					// the helper returns (word, mask): the shift sits inside it
					for _, call := range cellCalls {
						h := call.Call.StaticCallee()
						if h == nil {
							continue
						}
						forEachInstr(h, func(in ssa.Instruction) {
							b, ok := in.(*ssa.BinOp)
							if !ok || b.Op != token.SHL || !IsConstInt(1)(unconv(b.X)) {
								return
							}
							rem, isRem := unconv(b.Y).(*ssa.BinOp)
							if !isRem || rem.Op != token.REM || !IsConstInt(64)(rem.Y) {
								okShape, why = false, "bit position is not T mod 64 (an offset was added or the expression changed)"
								return
							}
							if p, isP := unconv(rem.X).(*ssa.Parameter); isP && p.Parent() == h {
								for i, q := range h.Params {
									if q == p && i < len(call.Call.Args) {
										bitT = append(bitT, unconv(call.Call.Args[i]))
									}
								}
							}
						})
					}
				}
				if len(idxT) == 0 && len(bitT) == 0 {
					continue // delegates to a helper examined under its own name
				}
				n++
				same := len(idxT) > 0 && len(bitT) > 0
				all := append(append([]ssa.Value{}, idxT...), bitT...)
				for _, v := range all {
					if !sameExpr(all[0], v, 0) {
						same = false
					}
				}
				c.Check(okShape && same, "cell-of-one-tsn@"+name, c.P.Pos(fn.Pos()), "word (T/64)%len and bit T%64 of the same T", "the bitmap cell is not computed from one TSN ("+why+"): at a word boundary a different cell is touched than the one that was tested")
			}
			c.Check(n >= 3, "bitmap-accessors", "", fmt.Sprintf("%d accessor(s)", n), "fewer bitmap accessors than reviewed")
		}})

	register(&Rule{ID: "C10.R12", Props: []string{"C10"}, Engine: "E2-dataflow",
		Title:   "the peer's window is only ever taken from what the peer advertised, or reduced: no call of setRWND passes RWND() plus something (credit handed back locally — e.g. for bytes a SHUTDOWN acknowledged — was never advertised: after a window probe it turns the clamped zero into room for several chunks)",
		MinInst: 3,
		Run: func(c *RuleCtx) {
			setR := c.Fn("Association.setRWND")
			n := 0
			ks := keyer{}
			for _, cs := range c.P.CallSitesOf(setR) {
				n++
				arg := callArg(cs.Instr, 1)
				grows := false
				for _, lf := range phiLeaves(arg) {
					if b, ok := unconv(lf.Val).(*ssa.BinOp); ok && b.Op == token.ADD {
						isR := func(v ssa.Value) bool {
							call, isCall := unconv(v).(*ssa.Call)
							return isCall && call.Call.StaticCallee() != nil && call.Call.StaticCallee().Name() == "RWND"
						}
						if isR(b.X) || isR(b.Y) {
							grows = true
						}
					}
				}
				c.Check(!grows, ks.key("rwnd-never-credited-locally@"+c.P.FuncName(enclosingNamed(cs.Fn))), c.Pos(cs.Instr.(ssa.Instruction)), "advertised value or a reduction", "setRWND(RWND() + …): receive-window credit is created locally instead of being taken from an advertisement")
			}
			c.Check(n >= 3, "rwnd-update-sites", "", fmt.Sprintf("%d site(s)", n), "fewer setRWND sites than reviewed")
		}})

	register(&Rule{ID: "C10.R13", Props: []string{"C10"}, Engine: "E3",
		Title:   "the window cut by a loss signal is held during the recovery: in onCumulativeTSNAckPointAdvanced every setCWND that grows the window is dominated by !inFastRecovery or by cwnd strictly above ssthresh — entering fast recovery leaves cwnd == ssthresh, so a congestion-avoidance branch taken at equality would open the window again while the loss is still being repaired",
		MinInst: 2,
		Run: func(c *RuleCtx) {
			fn := c.Fn("Association.onCumulativeTSNAckPointAdvanced")
			setC := c.Fn("Association.setCWND")
			inFR := c.field("Association", "inFastRecovery")
			ssth := c.field("Association", "ssthresh")
			isCwnd := func(v ssa.Value) bool {
				call, isCall := unconv(v).(*ssa.Call)
				return isCall && call.Call.StaticCallee() != nil && call.Call.StaticCallee().Name() == "CWND"
			}
			n := 0
			ks := keyer{}
			for _, g := range c.P.Region(fn) {
				for _, cs := range callsIn(g, setC) {
					grows := derives(callArg(cs, 1), func(v ssa.Value) bool {
						b, ok := v.(*ssa.BinOp)
						return ok && b.Op == token.ADD && (derives(b.X, isCwnd, map[ssa.Value]bool{}) || derives(b.Y, isCwnd, map[ssa.Value]bool{}))
					}, map[ssa.Value]bool{})
					if !grows {
						continue
					}
					n++
					ok := false
					for _, ft := range localFactsUpTo(cs.(ssa.Instruction), fn) {
						if BoolCond(IsLoadOf(inFR), false)(ft.Cond, ft.Taken) {
							ok = true
						}
						b, isB := ft.Cond.(*ssa.BinOp)
						if !isB {
							continue
						}
						op, x, y := b.Op, b.X, b.Y
						if isCwnd(y) && IsLoadOf(ssth)(x) {
							op, x, y = swapOp(op), y, x
						}
						if !(isCwnd(x) && IsLoadOf(ssth)(y)) {
							continue
						}
						if !ft.Taken {
							op = invertOp(op)
						}
						if op == token.GTR {
							ok = true
						}
					}
					c.Check(ok, ks.key("growth-not-during-recovery"), c.Pos(cs.(ssa.Instruction)), "!inFastRecovery or cwnd > ssthresh", "the congestion window can grow while cwnd == ssthresh inside fast recovery: the window a loss signal cut is opened again before the loss is repaired")
				}
			}
			c.Check(n >= 2, "growth-sites", c.P.Pos(fn.Pos()), fmt.Sprintf("%d growth site(s)", n), "fewer window-growth sites than reviewed")
		}})

	register(&Rule{ID: "C17.R15", Props: []string{"C17", "C01"}, Engine: "E3-path",
		Title:   "the message policy's selection is always written as a pair: wherever messagePendingQueuePolicy.selected is set to a value that can be true, unorderedIsSelected is assigned on the same path (before it since entry, or after it before the function returns) — peek() reads the pair, and a stale unorderedIsSelected from an earlier unfragmented unordered message makes it serve the unordered queue in the middle of a fragmented ordered message (fragments no longer consecutive, the rest starved)",
		MinInst: 1,
		Run: func(c *RuleCtx) {
			sel := c.field("messagePendingQueuePolicy", "selected")
			uis := c.field("messagePendingQueuePolicy", "unorderedIsSelected")
			isU := func(in ssa.Instruction) bool {
				st, ok := in.(*ssa.Store)
				return ok && fieldOfAddr(st.Addr) == uis
			}
			n := 0
			ks := keyer{}
			for _, a := range c.P.Writes(sel) {
				if a.Kind != AccWrite || IsConstBool(false)(a.Val) {
					continue
				}
				n++
				after, _ := MustPass(a.Instr, isU, nil)
				before, _ := MustPassOpt(a.Fn.Blocks[0], 0, nil, isU, PathOpts{Fail: func(in ssa.Instruction) bool { return in == a.Instr }, ExitOK: true})
				c.Check(after || before, ks.key("selection-written-as-a-pair@"+c.P.FuncName(enclosingNamed(a.Fn))), c.Pos(a.Instr), "unorderedIsSelected is assigned on every path that sets selected", "selected can become true while unorderedIsSelected keeps whatever an earlier message left in it: peek() then serves the wrong queue in the middle of a fragmented message")
			}
			c.Check(n >= 1, "selection-sites", "", fmt.Sprintf("%d site(s)", n), "no site sets selected")
		}})

	register(&Rule{ID: "C19.R18", Props: []string{"C19"}, Engine: "E3",
		Title:   "a timer's state is settled before its observer runs: in ackTimer.timeout and rtxTimer.timeout no store to the timer's state can follow the observer call (an expiry that marks the timer stopped only after the callback lets a start() issued during the callback be refused, or wipes out the timer that start() re-armed: the delayed acknowledgement then has no timer behind it)",
		MinInst: 2,
		Run: func(c *RuleCtx) {
			n := 0
			for _, w := range [][2]string{{"ackTimer.timeout", "ackTimer"}, {"rtxTimer.timeout", "rtxTimer"}} {
				fn := c.Fn(w[0])
				st := c.field(w[1], "state")
				var obs []ssa.Instruction
				for _, g := range c.P.Region(fn) {
					forEachInstr(g, func(in ssa.Instruction) {
						ci, ok := in.(ssa.CallInstruction)
						if !ok || !ci.Common().IsInvoke() {
							return
						}
						obs = append(obs, in)
					})
				}
				if len(obs) == 0 {
					c.Fail("observer-call@"+w[0], c.P.Pos(fn.Pos()), "no observer invocation found")
					continue
				}
				n++
				ok := true
				where := ""
				for _, g := range c.P.Region(fn) {
					for _, a := range c.storesIn(g, st) {
						for _, o := range obs {
							if o.Parent() != g {
								continue
							}
							// a deferred observer call runs at function exit: any state store is before it
							if _, isDefer := o.(*ssa.Defer); isDefer {
								continue
							}
							if CanReach(o, a.Instr) {
								ok, where = false, c.Pos(a.Instr)
							}
						}
					}
				}
				c.Check(ok, "state-settled-before-observer@"+w[0], c.P.Pos(fn.Pos()), "no state store after the observer call", "the timer's state is written after the observer callback ("+where+"): a start() or stop()+start() that happens during the callback is undone or refused")
			}
			c.Check(n >= 2, "timeout-callbacks", "", fmt.Sprintf("%d callback(s)", n), "timeout callbacks not found")
		}})

	register(&Rule{ID: "C18.R16", Props: []string{"C18"}, Engine: "E3-path",
		Title:   "SetDeadline always goes through SetReadDeadline: every path through Stream.SetDeadline calls Stream.SetReadDeadline (only that call clears a deadline error left behind by an expired deadline; a shortcut for 'no timer armed' skips exactly the case where the deadline already fired)",
		MinInst: 1,
		Run: func(c *RuleCtx) {
			fn := c.Fn("Stream.SetDeadline")
			srd := c.Fn("Stream.SetReadDeadline")
			ok, bad := MustPassFromBlock(fn.Blocks[0], func(in ssa.Instruction) bool {
				ci, isCall := in.(ssa.CallInstruction)
				return isCall && ci.Common().StaticCallee() == srd
			}, PathOpts{})
			where := ""
			if bad != nil {
				where = c.Pos(bad)
			}
			c.Check(ok, "set-deadline-delegates", c.P.Pos(fn.Pos()), "every path calls SetReadDeadline", "a path through SetDeadline skips SetReadDeadline (exit "+where+"): an expired deadline's error is never cleared and later reads fail at once instead of blocking")
		}})

	register(&Rule{ID: "C15.R11", Props: []string{"C15"}, Engine: "E3-path",
		Title:   "every accepted write is counted: every path through Stream.packetize adds the payload length to bufferedAmount (the acknowledgement path and the failed-write roll-back subtract it unconditionally)",
		MinInst: 1,
		Run: func(c *RuleCtx) {
			fn := c.Fn("Stream.packetize")
			ba := c.field("Stream", "bufferedAmount")
			ok, bad := MustPassFromBlock(fn.Blocks[0], func(in ssa.Instruction) bool {
				st, isSt := in.(*ssa.Store)
				return isSt && fieldOfAddr(st.Addr) == ba
			}, PathOpts{})
			where := ""
			if bad != nil {
				where = c.Pos(bad)
			}
			c.Check(ok, "write-always-counted", c.P.Pos(fn.Pos()), "every path stores bufferedAmount", "a path through packetize does not count the payload in bufferedAmount (exit "+where+"): the stream's figure is too small while the bytes are outstanding and underflows on a failed write")
		}})

	register(&Rule{ID: "C14.R15", Props: []string{"C14", "C07"}, Engine: "E3",
		Title:   "a FORWARD-TSN's stream skips are applied before anything that depends on the new cumulative TSN runs: in handleForwardTSN / handleIForwardTSN no call of handlePeerLastTSNAndAcknowledgement can reach a per-stream skip (that call pops buffered TSNs and re-evaluates stored reset requests: run first, it can reset the stream before it has learnt what was skipped — EOF ahead of a deliverable message, and a phantom stream created by the late skip)",
		MinInst: 2,
		Run: func(c *RuleCtx) {
			hp := c.Fn("Association.handlePeerLastTSNAndAcknowledgement")
			n := 0
			for _, hn := range []string{"Association.handleForwardTSN", "Association.handleIForwardTSN"} {
				h := c.Fn(hn)
				var skips []ssa.Instruction
				forEachInstr(h, func(in ssa.Instruction) {
					ci, ok := in.(ssa.CallInstruction)
					if !ok {
						return
					}
					if sc := ci.Common().StaticCallee(); sc != nil && strings.HasPrefix(c.P.FuncName(sc), "Stream.handleForwardTSNFor") {
						skips = append(skips, in)
					}
				})
				ok := true
				for _, pc := range callsIn(h, hp) {
					n++
					for _, sk := range skips {
						if CanReach(pc.(ssa.Instruction), sk) {
							ok = false
						}
					}
				}
				c.Check(ok, "skips-before-acknowledgement@"+hn, c.P.Pos(h.Pos()), "the acknowledgement step cannot reach a per-stream skip", "handlePeerLastTSNAndAcknowledgement runs before the per-stream skips: a stored stream reset can be performed before the stream has been told what the FORWARD-TSN skipped")
			}
			c.Check(n >= 2, "acknowledgement-sites", "", fmt.Sprintf("%d site(s)", n), "acknowledgement calls not found in the forward-TSN handlers")
		}})

	register(&Rule{ID: "C14.R16", Props: []string{"C14"}, Engine: "E2",
		Title:   "AcceptStream hands over every accepted stream: it returns what it received from the accept channel without looking at the stream (a stream that was already reset by the peer still holds the messages received before the reset; filtering it out loses them)",
		MinInst: 1,
		Run: func(c *RuleCtx) {
			fn := c.Fn("Association.AcceptStream")
			_, streamT := c.P.NamedStruct("Stream")
			reads := ""
			for _, g := range c.P.Region(fn) {
				forEachInstrDeep(c.P, g, 1, func(in ssa.Instruction) {
					if fa, ok := in.(*ssa.FieldAddr); ok && streamT != nil {
						if f := fieldOf(fa.X.Type(), fa.Field); f != nil {
							for i := 0; i < streamT.NumFields(); i++ {
								if streamT.Field(i) == f {
									reads = f.Name()
								}
							}
						}
					}
				})
			}
			c.Check(reads == "", "accept-does-not-filter", c.P.Pos(fn.Pos()), "no Stream field is consulted", "AcceptStream looks at Stream."+reads+" before handing the stream over: a stream it filters out takes its unread messages with it")
		}})

	register(&Rule{ID: "C12.R15", Props: []string{"C12"}, Engine: "E1",
		Title:   "the I-FORWARD-TSN entry limit keeps the chunk length representable: chunkHeaderSize + newCumulativeTSNLength + maxIForwardTSNStreams × iForwardTSNEntryLength ≤ 65535 (one entry more and the 16-bit Chunk Length wraps to 0)",
		MinInst: 1,
		Run: func(c *RuleCtx) {
			get := func(n string) int64 {
				k := c.P.Const(n)
				if k == nil {
					panic(unresolved{"const " + n})
				}
				v, _ := constantInt64(k)
				return v
			}
			total := get("chunkHeaderSize") + get("newCumulativeTSNLength") + get("maxIForwardTSNStreams")*get("iForwardTSNEntryLength")
			c.Check(total <= 65535, "entry-limit-fits-chunk-length", "", fmt.Sprintf("largest chunk %d bytes ≤ 65535", total), fmt.Sprintf("the largest I-FORWARD-TSN the limit admits is %d bytes: its 16-bit Chunk Length field wraps", total))
			// and the next entry would not fit (the limit is the largest possible, not merely safe)
			c.Check(total+get("iForwardTSNEntryLength") > 65535, "entry-limit-is-tight", "", "one more entry would not fit", "the entry limit is lower than what the chunk length can express")
		}})
}

// resolveParamIs: v is (after following private-helper parameters) parameter #idx of fn.
func resolveParamIs(v ssa.Value, fn *ssa.Function, idx int) bool {
	p, ok := resolveParam(unconv(v)).(*ssa.Parameter)
	return ok && p.Parent() == fn && idx < len(fn.Params) && fn.Params[idx] == p
}

// isAtomicCallInstr: in is a call of a sync/atomic function.
func isAtomicCallInstr(in ssa.Instruction) (string, bool) {
	ci, ok := in.(ssa.CallInstruction)
	if !ok {
		return "", false
	}
	return isAtomicCall(ci.Common())
}
