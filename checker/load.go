package main

import (
	"fmt"
	"go/ast"
	"go/token"
	"go/types"
	"os"
	"sort"
	"strings"

	"golang.org/x/tools/go/packages"
	"golang.org/x/tools/go/ssa"
	"golang.org/x/tools/go/ssa/ssautil"
)

// Prog is the type-checked, SSA-lowered view of /repo that every rule reads.
type Prog struct {
	Dir   string
	Fset  *token.FileSet
	Pkg   *packages.Package
	Types *types.Package
	SSA   *ssa.Program
	SPkg  *ssa.Package

	// Funcs holds every function with a body that belongs to the package:
	// declared functions, methods, anonymous functions, generic instances and
	// the synthetic bound/thunk wrappers referenced from them.
	Funcs    []*ssa.Function
	byName   map[string]*ssa.Function
	alias    map[*ssa.Function]string // renamed function -> reference name (renames.go)
	Renames  []string
	privMemo map[*ssa.Function]bool

	cg        map[*ssa.Function][]cgEdge
	cgIn      map[*ssa.Function][]cgEdge
	namedImpl map[string][]*ssa.Function // interface method name -> package methods

	fieldAcc map[*types.Var][]Access
	lockEng  *lockEngine
	stateEng *stateEngine
	serEng   *serialEngine

	NFiles int
}

type cgEdge struct {
	From, To *ssa.Function
	Site     ssa.Instruction // call / go / defer / MakeClosure / referencing instr
	Kind     string          // static | invoke | ref
}

func goEnv() []string {
	env := os.Environ()
	out := env[:0:0]
	for _, e := range env {
		if strings.HasPrefix(e, "GOWORK=") || strings.HasPrefix(e, "GOFLAGS=") ||
			strings.HasPrefix(e, "GOPROXY=") || strings.HasPrefix(e, "GOSUMDB=") ||
			strings.HasPrefix(e, "GOTOOLCHAIN=") {
			continue
		}
		out = append(out, e)
	}
	out = append(out, "GOWORK=off", "GOFLAGS=-mod=mod", "GOPROXY=off")
	return out
}

// Load type-checks the package in dir (no tests) and builds SSA. goarch may be
// empty (host) or e.g. "386".
func Load(dir, goarch string, tags string) (*Prog, error) {
	env := goEnv()
	if goarch != "" {
		env = append(env, "GOARCH="+goarch)
	}
	cfg := &packages.Config{
		Mode:  packages.LoadAllSyntax,
		Dir:   dir,
		Env:   env,
		Tests: false,
	}
	if tags != "" {
		cfg.BuildFlags = []string{"-tags=" + tags}
	}
	pkgs, err := packages.Load(cfg, ".")
	if err != nil {
		return nil, fmt.Errorf("packages.Load: %w", err)
	}
	if len(pkgs) != 1 {
		return nil, fmt.Errorf("expected exactly 1 root package, got %d", len(pkgs))
	}
	root := pkgs[0]
	var errs []string
	packages.Visit(pkgs, nil, func(p *packages.Package) {
		for _, e := range p.Errors {
			errs = append(errs, e.Error())
		}
	})
	if len(errs) > 0 {
		return nil, fmt.Errorf("type/load errors: %s", strings.Join(errs, "; "))
	}
	if root.Types == nil || root.Types.Name() != "sctp" {
		return nil, fmt.Errorf("root package is %v, want sctp", root.Types)
	}
	sprog, spkgs := ssautil.AllPackages(pkgs, ssa.InstantiateGenerics)
	sprog.Build()
	p := &Prog{
		Dir:    dir,
		Fset:   root.Fset,
		Pkg:    root,
		Types:  root.Types,
		SSA:    sprog,
		SPkg:   spkgs[0],
		byName: map[string]*ssa.Function{},
		NFiles: len(root.Syntax),
	}
	if p.SPkg == nil {
		return nil, fmt.Errorf("no SSA package for root")
	}
	p.collectFuncs()
	if len(p.Funcs) < 400 {
		return nil, fmt.Errorf("only %d functions loaded; expected the whole sctp package (>=400)", len(p.Funcs))
	}
	p.buildCallGraph()
	curProg = p
	p.followRenames()
	return p, nil
}

func (p *Prog) inPkg(fn *ssa.Function) bool {
	if fn == nil {
		return false
	}
	if fn.Pkg == p.SPkg {
		return true
	}
	if o := fn.Origin(); o != nil && o.Pkg == p.SPkg {
		return true
	}
	// synthetic wrappers ($bound, $thunk) have nil Pkg; attribute by the
	// object they wrap.
	if fn.Pkg == nil && fn.Object() != nil && fn.Object().Pkg() == p.Types {
		return true
	}
	if par := fn.Parent(); par != nil {
		return p.inPkg(par)
	}
	return false
}

// FuncName gives the stable key of a function: "Association.handleData",
// "sna32LT", "Association.readLoop$1", "queue[*chunkPayloadData].At".
func (p *Prog) FuncName(fn *ssa.Function) string {
	if fn == nil {
		return "<nil>"
	}
	if n, ok := p.alias[fn]; ok {
		return n
	}
	if par := fn.Parent(); par != nil {
		// anonymous: name is parent$N
		n := fn.Name()
		if i := strings.LastIndex(n, "$"); i >= 0 {
			return p.FuncName(par) + n[i:]
		}
		return p.FuncName(par) + "$" + n
	}
	name := fn.Name()
	if o := fn.Origin(); o != nil {
		name = o.Name()
	}
	if fn.Signature != nil && fn.Signature.Recv() != nil {
		t := fn.Signature.Recv().Type()
		if pt, ok := t.(*types.Pointer); ok {
			t = pt.Elem()
		}
		tn := types.TypeString(t, func(pk *types.Package) string {
			if pk == p.Types {
				return ""
			}
			return pk.Name()
		})
		tn = strings.ReplaceAll(tn, "sctp.", "")
		if i := strings.Index(tn, "["); i >= 0 {
			tn = tn[:i]
		}
		return tn + "." + name
	}
	return name
}

func (p *Prog) collectFuncs() {
	seen := map[*ssa.Function]bool{}
	var add func(fn *ssa.Function)
	add = func(fn *ssa.Function) {
		if fn == nil || seen[fn] || !p.inPkg(fn) {
			return
		}
		seen[fn] = true
		if fn.Blocks == nil {
			return
		}
		p.Funcs = append(p.Funcs, fn)
		for _, an := range fn.AnonFuncs {
			add(an)
		}
		for _, b := range fn.Blocks {
			for _, in := range b.Instrs {
				for _, op := range in.Operands(nil) {
					if op == nil || *op == nil {
						continue
					}
					if f, ok := (*op).(*ssa.Function); ok {
						add(f)
					}
				}
			}
		}
	}
	for fn := range ssautil.AllFunctions(p.SSA) {
		add(fn)
	}
	sort.Slice(p.Funcs, func(i, j int) bool {
		a, b := p.Funcs[i], p.Funcs[j]
		if a.Pos() != b.Pos() {
			return a.Pos() < b.Pos()
		}
		return p.FuncName(a) < p.FuncName(b)
	})
	for _, fn := range p.Funcs {
		n := p.FuncName(fn)
		if strings.Contains(fn.Synthetic, "wrapper") || strings.Contains(fn.Synthetic, "thunk") ||
			strings.Contains(fn.Synthetic, "bound") {
			n += "#" + strings.Fields(fn.Synthetic)[0]
		}
		if _, dup := p.byName[n]; !dup {
			p.byName[n] = fn
		}
	}
}

// Fn resolves a function key; nil if absent.
func (p *Prog) Fn(name string) *ssa.Function { return p.byName[name] }

// NamedStruct returns the struct type declared as name in the package.
func (p *Prog) NamedStruct(name string) (*types.Named, *types.Struct) {
	obj := p.Types.Scope().Lookup(name)
	if obj == nil {
		return nil, nil
	}
	n, ok := obj.Type().(*types.Named)
	if !ok {
		return nil, nil
	}
	st, ok := n.Underlying().(*types.Struct)
	if !ok {
		return n, nil
	}
	return n, st
}

// Field resolves "Struct.field" to its *types.Var.
func (p *Prog) Field(structName, field string) *types.Var {
	_, st := p.NamedStruct(structName)
	if st == nil {
		return nil
	}
	for i := 0; i < st.NumFields(); i++ {
		if st.Field(i).Name() == field {
			return st.Field(i)
		}
	}
	return p.renamedField(structName, st, field)
}

func (p *Prog) Const(name string) *types.Const {
	c, _ := p.Types.Scope().Lookup(name).(*types.Const)
	return c
}

func (p *Prog) Pos(pos token.Pos) string {
	if !pos.IsValid() {
		return "-"
	}
	ps := p.Fset.Position(pos)
	f := ps.Filename
	if strings.HasPrefix(f, p.Dir+"/") {
		f = f[len(p.Dir)+1:]
	}
	return fmt.Sprintf("%s:%d", f, ps.Line)
}

// InstrPos gives a best-effort position for an instruction (falls back to the
// nearest positioned instruction in its block, then the function).
func (p *Prog) InstrPos(in ssa.Instruction) string {
	if in == nil {
		return "-"
	}
	if in.Pos().IsValid() {
		return p.Pos(in.Pos())
	}
	if v, ok := in.(ssa.Value); ok {
		_ = v
	}
	b := in.Block()
	if b != nil {
		idx := -1
		for i, x := range b.Instrs {
			if x == in {
				idx = i
				break
			}
		}
		for i := idx; i >= 0; i-- {
			if b.Instrs[i].Pos().IsValid() {
				return p.Pos(b.Instrs[i].Pos())
			}
		}
		for i := idx + 1; i < len(b.Instrs) && i >= 0; i++ {
			if b.Instrs[i].Pos().IsValid() {
				return p.Pos(b.Instrs[i].Pos())
			}
		}
		return p.Pos(b.Parent().Pos())
	}
	return "-"
}

// ---------------------------------------------------------------- call graph

func (p *Prog) buildCallGraph() {
	p.cg = map[*ssa.Function][]cgEdge{}
	p.cgIn = map[*ssa.Function][]cgEdge{}
	inSet := map[*ssa.Function]bool{}
	for _, fn := range p.Funcs {
		inSet[fn] = true
	}
	// all concrete methods in the package by method name (for CHA on invoke)
	type recvM struct {
		recv types.Type
		fn   *ssa.Function
	}
	methods := map[string][]recvM{}
	scope := p.Types.Scope()
	for _, nm := range scope.Names() {
		tn, ok := scope.Lookup(nm).(*types.TypeName)
		if !ok || tn.IsAlias() {
			continue
		}
		named, ok := tn.Type().(*types.Named)
		if !ok || named.TypeParams().Len() > 0 {
			continue
		}
		if _, isIface := named.Underlying().(*types.Interface); isIface {
			continue
		}
		for _, t := range []types.Type{named, types.NewPointer(named)} {
			ms := p.SSA.MethodSets.MethodSet(t)
			for i := 0; i < ms.Len(); i++ {
				sel := ms.At(i)
				f := p.SSA.MethodValue(sel)
				if f == nil {
					continue
				}
				methods[sel.Obj().Name()] = append(methods[sel.Obj().Name()], recvM{t, f})
			}
		}
	}
	addEdge := func(e cgEdge) {
		p.cg[e.From] = append(p.cg[e.From], e)
		p.cgIn[e.To] = append(p.cgIn[e.To], e)
	}
	extra := []*ssa.Function{}
	consider := func(f *ssa.Function) {
		if f != nil && !inSet[f] && p.inPkg(f) && f.Blocks != nil {
			inSet[f] = true
			extra = append(extra, f)
		}
	}
	process := func(fn *ssa.Function) {
		for _, b := range fn.Blocks {
			for _, in := range b.Instrs {
				var callee ssa.Value
				if ci, ok := in.(ssa.CallInstruction); ok {
					cc := ci.Common()
					if cc.IsInvoke() {
						it, _ := cc.Value.Type().Underlying().(*types.Interface)
						for _, rm := range methods[cc.Method.Name()] {
							if it != nil && types.Implements(rm.recv, it) {
								consider(rm.fn)
								addEdge(cgEdge{fn, rm.fn, in, "invoke"})
							}
						}
					} else if sc := cc.StaticCallee(); sc != nil {
						callee = cc.Value
						if p.inPkg(sc) {
							consider(sc)
							addEdge(cgEdge{fn, sc, in, "static"})
						}
					}
				}
				for _, op := range in.Operands(nil) {
					if op == nil || *op == nil {
						continue
					}
					f, ok := (*op).(*ssa.Function)
					if !ok || !p.inPkg(f) {
						continue
					}
					if *op == callee {
						continue
					}
					consider(f)
					addEdge(cgEdge{fn, f, in, "ref"})
				}
			}
		}
	}
	for _, fn := range p.Funcs {
		process(fn)
	}
	for len(extra) > 0 {
		fn := extra[0]
		extra = extra[1:]
		p.Funcs = append(p.Funcs, fn)
		n := p.FuncName(fn) + "#" + strings.Fields(fn.Synthetic + " synthetic")[0]
		if _, dup := p.byName[n]; !dup {
			p.byName[n] = fn
		}
		process(fn)
	}
}

// Roots are the entry points of the package as a library: exported functions
// and exported methods (on any type), plus init.
func (p *Prog) Roots() []*ssa.Function {
	var roots []*ssa.Function
	for _, fn := range p.Funcs {
		if fn.Parent() != nil || fn.Synthetic != "" && fn.Name() != "init" {
			continue
		}
		if ast.IsExported(fn.Name()) || (fn.Name() == "init" && fn.Signature.Recv() == nil) {
			roots = append(roots, fn)
		}
	}
	return roots
}

// ReachableAvoiding returns the functions reachable from roots when the gate
// functions are not expanded (a gate itself is not included unless it is a
// root, in which case it is still not expanded).
func (p *Prog) ReachableAvoiding(roots []*ssa.Function, gates map[*ssa.Function]bool) map[*ssa.Function]*cgEdge {
	// value: the edge through which the function was first reached (nil for roots)
	reach := map[*ssa.Function]*cgEdge{}
	var work []*ssa.Function
	for _, r := range roots {
		if gates[r] {
			continue
		}
		if _, ok := reach[r]; !ok {
			reach[r] = nil
			work = append(work, r)
		}
	}
	for len(work) > 0 {
		fn := work[0]
		work = work[1:]
		for i := range p.cg[fn] {
			e := p.cg[fn][i]
			if gates[e.To] {
				continue
			}
			if _, ok := reach[e.To]; !ok {
				reach[e.To] = &e
				work = append(work, e.To)
			}
		}
	}
	return reach
}

// PathTo renders the call path recorded by ReachableAvoiding.
func (p *Prog) PathTo(reach map[*ssa.Function]*cgEdge, fn *ssa.Function) string {
	var parts []string
	cur := fn
	for i := 0; i < 40; i++ {
		parts = append([]string{p.FuncName(cur)}, parts...)
		e := reach[cur]
		if e == nil {
			break
		}
		cur = e.From
	}
	return strings.Join(parts, " -> ")
}

// Callers returns the call-graph in-edges of fn.
func (p *Prog) Callers(fn *ssa.Function) []cgEdge { return p.cgIn[fn] }

// Callees returns out-edges.
func (p *Prog) Callees(fn *ssa.Function) []cgEdge { return p.cg[fn] }

// TransitiveCallees returns every function reachable from fn (incl. fn).
func (p *Prog) TransitiveCallees(fn *ssa.Function) map[*ssa.Function]bool {
	seen := map[*ssa.Function]bool{fn: true}
	work := []*ssa.Function{fn}
	for len(work) > 0 {
		f := work[0]
		work = work[1:]
		for _, e := range p.cg[f] {
			if !seen[e.To] {
				seen[e.To] = true
				work = append(work, e.To)
			}
		}
	}
	return seen
}
