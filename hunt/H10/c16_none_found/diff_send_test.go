package sctp

import (
	"fmt"
	"math/rand"
	"sort"
	"strings"
	"testing"
)

type zzSOp struct {
	kind    int // 0 send, 1 sack, 2 t3, 3 abandon, 4 gather
	n       int
	sid     uint16
	cumOff  uint32 // relative to base-1 (number of chunks cum-acked)
	gaps    []gapAckBlock
	abandon uint32
	dups    []uint32
}

func zzRunSend(t *testing.T, ops []zzSOp, base uint32, ssnBase uint16, idata bool) string {
	t.Helper()
	a := createTestAssociation(t, Config{})
	a.lock.Lock()
	a.useInterleaving = idata
	a.useForwardTSN = !idata
	a.useIForwardTSN = idata
	_ = a.pendingQueue.setInterleaving(idata)
	a.maxPayloadSize = maxPayloadSizeForMTU(a.mtu, idata)
	a.setState(established)
	a.initialTSN = base
	a.myNextTSN = base
	a.myNextRSN = base
	a.minTSN2MeasureRTT = base
	a.cumulativeTSNAckPoint = base - 1
	a.advancedPeerTSNAckPoint = base - 1
	a.rackHighestDeliveredOrigTSN = base - 1
	a.setCWND(1 << 20)
	a.setRWND(1 << 20)
	a.ssthresh = 1 << 20
	a.payloadQueue.init(12345)
	streams := map[uint16]*Stream{}
	for sid := uint16(0); sid < 3; sid++ {
		s := a.createStream(sid, false)
		s.sequenceNumber = ssnBase
		s.nextOrderedMID = uint32(ssnBase) | 0xffff0000
		s.nextUnorderedMID = uint32(ssnBase) | 0xffff0000
		s.reliabilityType = ReliabilityTypeRexmit
		s.reliabilityValue = 100
		streams[sid] = s
	}
	a.lock.Unlock()
	midBase := uint32(ssnBase) | 0xffff0000

	var out strings.Builder
	snap := func() {
		a.lock.Lock()
		defer a.lock.Unlock()
		fmt.Fprintf(&out, " cum=%d adv=%d next=%d infl=%d/%d pend=%d FR=%v exit=%d wrf=%v wfwd=%v cwnd=%d ss=%d rwnd=%d rs=%v",
			a.cumulativeTSNAckPoint-base, a.advancedPeerTSNAckPoint-base, a.myNextTSN-base,
			a.inflightQueue.size(), a.inflightQueue.getNumBytes(), a.pendingQueue.size(), a.inFastRecovery,
			func() uint32 {
				if a.inFastRecovery {
					return a.fastRecoverExitPoint - base
				}

				return 0
			}(),
			a.willRetransmitFast, a.willSendForwardTSN, a.CWND(), a.ssthresh, a.RWND(), a.rackReorderingSeen)
		for i := 0; i < a.inflightQueue.size(); i++ {
			c, _ := a.inflightQueue.get(a.cumulativeTSNAckPoint + 1 + uint32(i))
			fmt.Fprintf(&out, " [%d a%v m%d ab%v n%d]", c.tsn-base, c.acked, c.missIndicator, c.abandoned(), c.nSent)
		}
		if a.willSendForwardTSN && sna32GT(a.advancedPeerTSNAckPoint, a.cumulativeTSNAckPoint) {
			if idata {
				f := a.createIForwardTSN()
				f.streams = normalizeIForwardTSNStreams(f.streams)
				ss := []string{}
				for _, s := range f.streams {
					ss = append(ss, fmt.Sprintf("%d/%v/%d", s.identifier, s.unordered, s.messageIdentifier-midBase))
				}
				sort.Strings(ss)
				fmt.Fprintf(&out, " IFWD(%d %v)", f.newCumulativeTSN-base, ss)
			} else {
				f := a.createForwardTSN()
				ss := []string{}
				for _, s := range f.streams {
					ss = append(ss, fmt.Sprintf("%d/%d", s.identifier, s.sequence-ssnBase))
				}
				sort.Strings(ss)
				fmt.Fprintf(&out, " FWD(%d %v)", f.newCumulativeTSN-base, ss)
			}
		}
		out.WriteString("\n")
	}
	for i, op := range ops {
		fmt.Fprintf(&out, "%d:", i)
		switch op.kind {
		case 0:
			s := streams[op.sid]
			chunks, _ := s.packetize(make([]byte, op.n), PayloadTypeWebRTCBinary)
			a.lock.Lock()
			for _, c := range chunks {
				a.pendingQueue.push(c)
			}
			cs, _ := a.popPendingDataChunksToSend(nil, nil)
			a.lock.Unlock()
			fmt.Fprintf(&out, "S%d", len(cs))
			for _, c := range cs {
				if idata {
					fmt.Fprintf(&out, "(t%d m%d f%d)", c.tsn-base, c.messageIdentifier-midBase, c.fragmentSequenceNumber)
				} else {
					fmt.Fprintf(&out, "(t%d s%d)", c.tsn-base, c.streamSequenceNumber-ssnBase)
				}
			}
		case 1:
			a.lock.Lock()
			sack := &chunkSelectiveAck{
				cumulativeTSNAck:               base - 1 + op.cumOff,
				advertisedReceiverWindowCredit: 1 << 20,
				gapAckBlocks:                   op.gaps,
			}
			for _, d := range op.dups {
				sack.duplicateTSN = append(sack.duplicateTSN, base+d)
			}
			err := a.handleSack(sack)
			a.lock.Unlock()
			es := "<nil>"
			if err != nil {
				es = strings.ReplaceAll(err.Error(), fmt.Sprint(base-1+op.cumOff), "X")
				es = strings.Split(es, ":")[0]
			}
			fmt.Fprintf(&out, "K%d%v err=%v", op.cumOff, op.gaps, es)
		case 2:
			a.onRetransmissionTimeout(timerT3RTX, 1)
			fmt.Fprintf(&out, "T3 cwnd=%d", a.CWND())
			a.setCWND(1 << 20)
		case 3:
			a.lock.Lock()
			if c, ok := a.inflightQueue.get(a.cumulativeTSNAckPoint + 1 + op.abandon); ok {
				c.setAbandoned(true)
				if c.head != nil {
					c.head._allInflight = true
				} else {
					c._allInflight = true
				}
				fmt.Fprintf(&out, "AB%d", c.tsn-base)
			}
			a.lock.Unlock()
		case 4:
			a.lock.Lock()
			var raws [][]byte
			b := int64(0)
			c := false
			raws = a.gatherOutboundFastRetransmissionPackets(raws, &b, &c)
			n1 := len(raws)
			raws = a.gatherOutboundForwardTSNPackets(raws)
			a.lock.Unlock()
			fmt.Fprintf(&out, "G fr=%d fwd=%d", n1, len(raws)-n1)
		}
		snap()
	}

	return out.String()
}

func zzGenSOps(r *rand.Rand, n int) []zzSOp {
	ops := []zzSOp{}
	sent := 0
	cum := 0
	for i := 0; i < n; i++ {
		switch x := r.Intn(10); {
		case x < 4:
			sz := 1 + r.Intn(2500)
			ops = append(ops, zzSOp{kind: 0, n: sz, sid: uint16(r.Intn(3))})
			sent += (sz + 1151) / 1152
		case x < 8:
			if sent-cum <= 0 {
				continue
			}
			adv := 0
			if r.Intn(2) == 0 {
				adv = r.Intn(min(sent-cum, 4) + 1)
			}
			cum += adv
			op := zzSOp{kind: 1, cumOff: uint32(cum)}
			rem := sent - cum
			pos := 2
			for pos <= rem && r.Intn(3) != 0 {
				st := pos + r.Intn(2)
				en := st + r.Intn(3)
				if en > rem {
					break
				}
				op.gaps = append(op.gaps, gapAckBlock{start: uint16(st), end: uint16(en)})
				pos = en + 2
			}
			if r.Intn(6) == 0 {
				op.dups = []uint32{uint32(r.Intn(cum + 1))}
			}
			ops = append(ops, op)
		case x == 8:
			if r.Intn(3) == 0 {
				ops = append(ops, zzSOp{kind: 2})
			} else {
				ops = append(ops, zzSOp{kind: 4})
			}
		default:
			ops = append(ops, zzSOp{kind: 3, abandon: uint32(r.Intn(3))})
		}
	}

	return ops
}

func TestZZDifferentialSend(t *testing.T) {
	bases := []uint32{5000, 0, 1, 2, 0x7ffffffe, 0x7fffffff, 0x80000000, 0xffffffff, 0xfffffffe, 0xfffffff0, 0xffffffc0, 0xffffff80}
	ssnBases := []uint16{0, 1, 0x7ffe, 0x7fff, 0x8000, 0xfffd, 0xfffe, 0xffff}
	for _, idata := range []bool{false, true} {
		for seed := int64(0); seed < 300; seed++ {
			r := rand.New(rand.NewSource(seed))
			ops := zzGenSOps(r, 80)
			ref := zzRunSend(t, ops, 5000, 0, idata)
			for _, b := range bases {
				for _, sb := range ssnBases {
					got := zzRunSend(t, ops, b, sb, idata)
					if got != ref {
						rl, gl := strings.Split(ref, "\n"), strings.Split(got, "\n")
						for i := range rl {
							if i >= len(gl) || rl[i] != gl[i] {
								t.Fatalf("idata=%v seed=%d base=%#x ssnBase=%#x diverge at line %d:\nref: %s\ngot: %s\nop=%+v",
									idata, seed, b, sb, i, rl[i], gl[i], ops[i])
							}
						}
					}
				}
			}
		}
	}
}
