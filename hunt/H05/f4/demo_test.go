// SPDX-FileCopyrightText: 2026 The Pion community <https://pion.ly>
// SPDX-License-Identifier: MIT

package sctp

import (
	"testing"
	"time"

	"github.com/pion/transport/v4/test"
	"github.com/stretchr/testify/require"
)

// C15 (callback may call back into the association): the low-threshold callback runs on the
// association's readLoop goroutine. Association.Close() (and Abort()) wait for readLoop to
// exit (<-a.readLoopCloseCh), so calling them from the callback waits for the very goroutine
// that is executing the callback: it never returns and the association's read side is dead.
func TestHunt5CloseFromBufferedAmountLowCallbackHangs(t *testing.T) {
	lim := test.TimeOut(time.Second * 10)
	defer lim.Stop()

	br := test.NewBridge()
	a0, a1, err := createNewAssociationPair(br, ackModeNoDelay, 0)
	require.NoError(t, err)
	defer closeAssociationPair(br, a0, a1)

	s0, _, err := establishSessionPair(br, a0, a1, 1)
	require.NoError(t, err)

	entered := make(chan struct{})
	returned := make(chan struct{})
	s0.SetBufferedAmountLowThreshold(0)
	s0.OnBufferedAmountLow(func() {
		close(entered)
		_ = a0.Close() // "may call back into the association"
		close(returned)
	})

	_, err = s0.WriteSCTP(make([]byte, 100), PayloadTypeWebRTCBinary)
	require.NoError(t, err)

	deadline := time.Now().Add(3 * time.Second)
	for time.Now().Before(deadline) {
		br.Process()
		select {
		case <-returned:
			return // fine
		default:
		}
		time.Sleep(5 * time.Millisecond)
	}

	select {
	case <-entered:
	default:
		require.Fail(t, "callback was never invoked")
	}
	require.Fail(t, "Association.Close() called from the OnBufferedAmountLow callback never returned")
}
