package main

import (
	"fmt"
	"go/constant"
	"go/token"
	"go/types"
	"sort"
	"strings"

	"golang.org/x/tools/go/ssa"
)

// Helper transparency. Maintainers extract blocks into private helper
// functions, inline them back, or name a boolean sub-expression. The queries
// below make the rules indifferent to that:
//   - PrivateHelper / OwnedBy : a function all of whose uses are static calls
//     from an owner (transitively) belongs to that owner for every
//     who-may-write / who-may-call table;
//   - through()               : a value that is the result of a call to a
//     single-return helper is matched by looking at the returned expression;
//   - helper facts            : a branch on a helper's result implies the
//     branch outcomes that select the matching return statements inside it,
//     and code inside a private helper inherits the facts common to all of its
//     call sites;
//   - must-pass               : a call to a helper that itself always passes
//     the target counts as passing it;
//   - dominance across a helper boundary (InstrDominates).

// PrivateHelper: in-package function with a body that is only ever called
// statically (never stored, passed, started with go, or exported as API).
func (p *Prog) PrivateHelper(fn *ssa.Function) bool {
	if p == nil || fn == nil || fn.Blocks == nil || !p.inPkg(fn) {
		return false
	}
	if v, ok := p.privMemo[fn]; ok {
		return v
	}
	ok := true
	if fn.Parent() == nil {
		if fn.Object() != nil && fn.Object().Exported() {
			ok = false
		}
		for _, r := range p.Roots() {
			if r == fn {
				ok = false
			}
		}
	}
	n := 0
	for _, e := range p.cgIn[fn] {
		switch e.Kind {
		case "static":
			if _, isGo := e.Site.(*ssa.Go); isGo {
				ok = false
			}
			n++
		default:
			// a closure's MakeClosure is a "ref"; it is still private if the closure value is only called in place
			if mc, isMC := e.Site.(*ssa.MakeClosure); isMC && closureOnlyCalled(mc) {
				continue
			}
			ok = false
		}
	}
	if n == 0 {
		ok = false
	}
	if p.privMemo == nil {
		p.privMemo = map[*ssa.Function]bool{}
	}
	p.privMemo[fn] = ok
	return ok
}

func closureOnlyCalled(mc *ssa.MakeClosure) bool {
	refs := mc.Referrers()
	if refs == nil {
		return false
	}
	for _, r := range *refs {
		switch x := r.(type) {
		case *ssa.DebugRef:
		case *ssa.Call:
			if x.Call.Value != ssa.Value(mc) {
				return false
			}
		case *ssa.Defer:
			if x.Call.Value != ssa.Value(mc) {
				return false
			}
		default:
			return false
		}
	}
	return true
}

// OwnedBy: fn is one of allow, is nested in one, or is a private helper all of
// whose callers are owned by allow.
func (p *Prog) OwnedBy(fn *ssa.Function, allow map[*ssa.Function]bool) bool {
	return p.ownedBy(fn, allow, 0, map[*ssa.Function]bool{})
}

func (p *Prog) ownedBy(fn *ssa.Function, allow map[*ssa.Function]bool, d int, busy map[*ssa.Function]bool) bool {
	if fn == nil {
		return false
	}
	if allow[fn] || allow[enclosingNamed(fn)] {
		return true
	}
	if d > 4 || busy[fn] {
		return false
	}
	busy[fn] = true
	defer delete(busy, fn)
	if fn.Parent() != nil {
		// a closure belongs to whoever owns the function it is written in
		return p.ownedBy(enclosingNamed(fn), allow, d+1, busy)
	}
	if !p.PrivateHelper(fn) {
		return false
	}
	sites := p.CallSitesOf(fn)
	if len(sites) == 0 {
		return false
	}
	for _, cs := range sites {
		if !p.ownedBy(cs.Fn, allow, d+1, busy) {
			return false
		}
	}
	return true
}

// Region: fn, its closures, and the private helpers owned by it.
func (p *Prog) Region(fn *ssa.Function) []*ssa.Function {
	allow := map[*ssa.Function]bool{fn: true}
	out := []*ssa.Function{fn}
	for _, g := range p.Funcs {
		if g != fn && g.Parent() == nil && p.OwnedBy(g, allow) {
			out = append(out, g)
		}
	}
	return out
}

// singleReturn: the only Return of fn (nil if none or several).
func singleReturn(fn *ssa.Function) *ssa.Return {
	var ret *ssa.Return
	for _, b := range fn.Blocks {
		for _, in := range b.Instrs {
			if r, ok := in.(*ssa.Return); ok {
				if ret != nil {
					return nil
				}
				ret = r
			}
		}
	}
	return ret
}

// through: if v is (a result of) a call to an in-package single-return
// function, the returned expression; if v is a parameter of a private helper
// with exactly one call site, the argument passed there. nil otherwise.
func through(v ssa.Value) ssa.Value {
	p := curProg
	if p == nil || v == nil {
		return nil
	}
	switch x := v.(type) {
	case *ssa.Call:
		if r := helperResult(p, x, 0); r != nil {
			return r
		}
	case *ssa.Extract:
		if call, ok := x.Tuple.(*ssa.Call); ok {
			if r := helperResult(p, call, x.Index); r != nil {
				return r
			}
		}
	case *ssa.Parameter:
		fn := x.Parent()
		if fn == nil || !p.PrivateHelper(fn) {
			return nil
		}
		sites := p.CallSitesOf(fn)
		if len(sites) != 1 {
			return nil
		}
		for i, q := range fn.Params {
			if q == x && i < len(sites[0].Instr.Common().Args) {
				return sites[0].Instr.Common().Args[i]
			}
		}
	}
	return nil
}

func helperResult(p *Prog, call *ssa.Call, idx int) ssa.Value {
	sc := call.Call.StaticCallee()
	if sc == nil || sc.Blocks == nil || !p.inPkg(sc) || call.Call.IsInvoke() {
		return nil
	}
	r := singleReturn(sc)
	if r == nil {
		return nil
	}
	res := retResults(r)
	if idx >= len(res) {
		return nil
	}
	return res[idx]
}

// viaHelper applies a value pattern to v and, when that fails, to what v
// stands for through helper calls / helper parameters (bounded).
func viaHelper(pat func(ssa.Value) bool, v ssa.Value) bool {
	for d := 0; d < 4; d++ {
		if pat(v) {
			return true
		}
		v = through(unconv(v))
		if v == nil {
			return false
		}
	}
	return false
}

// ---------------------------------------------------------------- helper facts

type retClass int

const (
	retUnknown retClass = iota
	retNil
	retNonNil
)

func classifyNil(v ssa.Value) retClass {
	switch x := v.(type) {
	case *ssa.Const:
		if x.Value == nil {
			return retNil
		}
	case *ssa.MakeInterface:
		return retNonNil
	case *ssa.Call:
		if sc := x.Call.StaticCallee(); sc != nil && sc.Pkg != nil {
			switch sc.Pkg.Pkg.Path() + "." + sc.Name() {
			case "fmt.Errorf", "errors.New":
				return retNonNil
			}
		}
	case *ssa.UnOp:
		if x.Op == token.MUL {
			if _, isGlobal := x.X.(*ssa.Global); isGlobal {
				return retNonNil // package-level error variables are never nil
			}
		}
	case *ssa.Alloc, *ssa.MakeSlice, *ssa.MakeMap, *ssa.MakeChan, *ssa.MakeClosure:
		return retNonNil
	}
	return retUnknown
}

// helperCondFacts: what the outcome (cond == taken) tells about the inside of
// a helper whose result cond tests.
func helperCondFacts(cond ssa.Value, taken bool, depth int, busy map[*ssa.BasicBlock]bool) []condFact {
	p := curProg
	if p == nil || depth > 2 {
		return nil
	}
	var call *ssa.Call
	idx := 0
	wantNil, nilTest := false, false
	target := cond
	if b, ok := cond.(*ssa.BinOp); ok && (b.Op == token.EQL || b.Op == token.NEQ) {
		var other ssa.Value
		if isNilConst(b.Y) {
			other = b.X
		} else if isNilConst(b.X) {
			other = b.Y
		}
		if other == nil {
			return nil
		}
		nilTest = true
		wantNil = (b.Op == token.EQL) == taken
		target = other
	}
	switch x := target.(type) {
	case *ssa.Call:
		call = x
	case *ssa.Extract:
		if c, ok := x.Tuple.(*ssa.Call); ok {
			call, idx = c, x.Index
		}
	}
	if call == nil || call.Call.IsInvoke() {
		return nil
	}
	sc := call.Call.StaticCallee()
	if sc == nil || sc.Blocks == nil || !p.inPkg(sc) {
		return nil
	}
	if !nilTest {
		if bt, ok := call.Type().Underlying().(*types.Basic); !ok || bt.Kind() != types.Bool {
			if _, isTuple := call.Type().(*types.Tuple); !isTuple {
				return nil
			}
		}
	}
	var common []condFact
	first := true
	for _, r := range allReturns(sc) {
		res := retResults(r)
		if idx >= len(res) {
			return nil
		}
		v := res[idx]
		var extra []condFact
		if nilTest {
			cl := classifyNil(v)
			if (cl == retNil && !wantNil) || (cl == retNonNil && wantNil) {
				continue // this return cannot have produced the tested outcome
			}
			if cl == retUnknown {
				// the returned value is itself tested: v ==/!= nil
				extra = append(extra, helperCondFacts(&ssa.BinOp{Op: token.EQL, X: v, Y: nilConstOf(v)}, wantNil, depth+1, busy)...)
			}
		} else {
			if k, ok := v.(*ssa.Const); ok && k.Value != nil && k.Value.Kind() == constant.Bool {
				if constant.BoolVal(k.Value) != taken {
					continue
				}
			} else {
				c, t := normCond(v, taken)
				extra = append(extra, condFact{c, t})
				extra = append(extra, helperCondFacts(c, t, depth+1, busy)...)
			}
		}
		facts := append(domFacts(r.Block(), depth+1, busy), extra...)
		if first {
			common, first = facts, false
			continue
		}
		var keep []condFact
		for _, f := range common {
			for _, g := range facts {
				if f == g {
					keep = append(keep, f)
					break
				}
			}
		}
		common = keep
	}
	return common
}

func nilConstOf(v ssa.Value) ssa.Value { return ssa.NewConst(nil, v.Type()) }

// callerFacts: facts common to every call site of the private helper that owns b.
func callerFacts(b *ssa.BasicBlock, depth int, busy map[*ssa.BasicBlock]bool) []condFact {
	p := curProg
	if p == nil || depth > 2 {
		return nil
	}
	fn := b.Parent()
	if fn == nil || !p.PrivateHelper(fn) {
		return nil
	}
	var common []condFact
	first := true
	for _, cs := range p.CallSitesOf(fn) {
		if _, isDefer := cs.Instr.(*ssa.Defer); isDefer {
			return nil
		}
		facts := domFacts(cs.Instr.Block(), depth+1, busy)
		if first {
			common, first = facts, false
			continue
		}
		var keep []condFact
		for _, f := range common {
			for _, g := range facts {
				if f == g {
					keep = append(keep, f)
					break
				}
			}
		}
		common = keep
	}
	return common
}

// helperAlwaysPasses: in is a call (or defer) of an in-package function every
// path through which passes an instruction satisfying target (depth-bounded).
func helperAlwaysPasses(in ssa.Instruction, target func(ssa.Instruction) bool, depth int) bool {
	p := curProg
	if p == nil || depth > 2 {
		return false
	}
	ci, ok := in.(ssa.CallInstruction)
	if !ok {
		return false
	}
	if _, isGo := in.(*ssa.Go); isGo {
		return false
	}
	sc := ci.Common().StaticCallee()
	if sc == nil || sc.Blocks == nil || !p.inPkg(sc) {
		return false
	}
	return entryMustPass(sc, func(x ssa.Instruction) bool {
		return target(x) || helperAlwaysPasses(x, target, depth+1)
	})
}

// crossDominates: dominance across a helper boundary. If b lies in a private
// helper, a dominates b when a dominates every call site of that helper; if a
// lies in a helper that always executes a, a dominates b when the call does.
func crossDominates(a, b ssa.Instruction, depth int) bool {
	p := curProg
	if p == nil || depth > 3 || a.Parent() == nil || b.Parent() == nil {
		return false
	}
	if a.Parent() == b.Parent() {
		return InstrDominates(a, b)
	}
	// b inside a (nested) private helper or closure called from a's side
	if fb := b.Parent(); p.PrivateHelper(fb) {
		sites := p.CallSitesOf(fb)
		if len(sites) > 0 {
			all := true
			for _, cs := range sites {
				if !crossDominates(a, cs.Instr, depth+1) {
					all = false
					break
				}
			}
			if all {
				return true
			}
		}
	}
	// a inside a helper that is called before b and always executes a
	if fa := a.Parent(); p.PrivateHelper(fa) {
		if entryMustPass(fa, func(x ssa.Instruction) bool { return x == a }) {
			for _, cs := range p.CallSitesOf(fa) {
				if _, isDefer := cs.Instr.(*ssa.Defer); isDefer {
					continue
				}
				if crossDominates(cs.Instr, b, depth+1) {
					return true
				}
			}
		}
	}
	return false
}

// mayBeGlobal: v may hold the value of package-level variable pkg.name
// (directly, through φ, or as the result of an in-package helper).
func mayBeGlobal(v ssa.Value, pkg, name string, d int, seen map[ssa.Value]bool) bool {
	if v == nil || d > 8 || seen[v] {
		return false
	}
	seen[v] = true
	switch x := v.(type) {
	case *ssa.UnOp:
		if g, ok := x.X.(*ssa.Global); ok && x.Op == token.MUL {
			return g.Name() == name && g.Pkg != nil && g.Pkg.Pkg.Path() == pkg
		}
	case *ssa.Phi:
		for _, e := range x.Edges {
			if mayBeGlobal(e, pkg, name, d+1, seen) {
				return true
			}
		}
	case *ssa.ChangeInterface:
		return mayBeGlobal(x.X, pkg, name, d+1, seen)
	case *ssa.MakeInterface:
		return mayBeGlobal(x.X, pkg, name, d+1, seen)
	case *ssa.Extract:
		if call, ok := x.Tuple.(*ssa.Call); ok {
			return callMayReturnGlobal(call, x.Index, pkg, name, d, seen)
		}
	case *ssa.Call:
		return callMayReturnGlobal(x, 0, pkg, name, d, seen)
	}
	return false
}

func callMayReturnGlobal(call *ssa.Call, idx int, pkg, name string, d int, seen map[ssa.Value]bool) bool {
	sc := call.Call.StaticCallee()
	if sc == nil || sc.Blocks == nil || curProg == nil || !curProg.inPkg(sc) {
		return false
	}
	for _, r := range allReturns(sc) {
		res := retResults(r)
		if idx < len(res) && mayBeGlobal(res[idx], pkg, name, d+1, seen) {
			return true
		}
	}
	return false
}

// helperReturns: the values an in-package static callee can return at result idx (nil if not such a call).
func helperReturns(call *ssa.Call, idx int) []ssa.Value {
	if curProg == nil || call.Call.IsInvoke() {
		return nil
	}
	sc := call.Call.StaticCallee()
	if sc == nil || sc.Blocks == nil || !curProg.inPkg(sc) {
		return nil
	}
	var out []ssa.Value
	for _, r := range allReturns(sc) {
		res := retResults(r)
		if idx < len(res) {
			out = append(out, res[idx])
		}
	}
	return out
}

// callsInDeep: call instructions to callee in fn or in in-package functions
// statically called from fn (depth-bounded) — tolerates extracting the code
// around the call into a helper shared by several callers.
func callsInDeep(fn, callee *ssa.Function, depth int) []ssa.CallInstruction {
	seen := map[*ssa.Function]bool{}
	var out []ssa.CallInstruction
	var rec func(f *ssa.Function, d int)
	rec = func(f *ssa.Function, d int) {
		if f == nil || seen[f] || f.Blocks == nil {
			return
		}
		seen[f] = true
		out = append(out, callsIn(f, callee)...)
		if d == 0 {
			return
		}
		forEachInstr(f, func(in ssa.Instruction) {
			if ci, ok := in.(ssa.CallInstruction); ok {
				if _, isGo := in.(*ssa.Go); isGo {
					return
				}
				if sc := ci.Common().StaticCallee(); sc != nil && sc != callee && curProg != nil && curProg.inPkg(sc) {
					rec(sc, d-1)
				}
			}
		})
	}
	rec(fn, depth)
	return out
}

// ------------------------------------------------------- serial-number predicates
//
// The sna16*/sna32* helpers order two serial numbers a, b into one of four
// situations: a before b, equal, a after b, or exactly half the number space
// apart ("antipode", where GT holds in both directions and LT in neither).
// A required fact such as sna32LT(x, y)==true is matched semantically: any
// dominating sna test on the same two operands (in either order, through any
// of the helpers, on either outcome) whose set of situations is contained in
// the required set establishes it — so !sna32LT(a,b) and sna32GTE(a,b) are
// interchangeable, which they are in pion/sctp's definitions.

const (
	snaBefore = 1 << iota
	snaEqual
	snaAfter
	snaAntipode
	snaAll = snaBefore | snaEqual | snaAfter | snaAntipode
)

func snaHelper(fn *ssa.Function) (width string, rel string, ok bool) {
	if fn == nil {
		return "", "", false
	}
	n := fn.Name()
	for _, w := range []string{"sna16", "sna32"} {
		if len(n) > len(w) && n[:len(w)] == w {
			switch n[len(w):] {
			case "LT", "LTE", "GT", "GTE", "EQ":
				return w, n[len(w):], true
			}
		}
	}
	return "", "", false
}

func snaSet(rel string, taken bool) int {
	var s int
	switch rel {
	case "LT":
		s = snaBefore
	case "LTE":
		s = snaBefore | snaEqual
	case "GT":
		s = snaAfter | snaAntipode
	case "GTE":
		s = snaAfter | snaAntipode | snaEqual
	case "EQ":
		s = snaEqual
	}
	if !taken {
		s = snaAll &^ s
	}
	return s
}

func snaMirror(s int) int {
	m := s & (snaEqual | snaAntipode)
	if s&snaBefore != 0 {
		m |= snaAfter
	}
	if s&snaAfter != 0 {
		m |= snaBefore
	}
	return m
}

func snaCond(fn *ssa.Function, want bool, argPats []VPat) CondPat {
	width, rel, _ := snaHelper(fn)
	wantSet := snaSet(rel, want)
	pat := func(i int, v ssa.Value) bool {
		if i >= len(argPats) || argPats[i] == nil {
			return true
		}
		return argPats[i](v)
	}
	return func(c ssa.Value, taken bool) bool {
		call, ok := c.(*ssa.Call)
		if !ok {
			return false
		}
		w, r, ok := snaHelper(call.Call.StaticCallee())
		if !ok || w != width || len(call.Call.Args) != 2 {
			return false
		}
		have := snaSet(r, taken)
		a, b := call.Call.Args[0], call.Call.Args[1]
		if pat(0, a) && pat(1, b) && have&^wantSet == 0 {
			return true
		}
		if len(argPats) == 2 && argPats[0] != nil && argPats[1] != nil && pat(0, b) && pat(1, a) && snaMirror(have)&^wantSet == 0 {
			return true
		}
		return false
	}
}

// reachesFn: owner is fn, or statically calls it (through in-package callees, depth-bounded).
func reachesFn(owner, fn *ssa.Function, depth int) bool {
	if owner == fn || enclosingNamed(fn) == owner {
		return true
	}
	if depth == 0 || owner == nil || owner.Blocks == nil {
		return false
	}
	found := false
	forEachInstr(owner, func(in ssa.Instruction) {
		if found {
			return
		}
		if ci, ok := in.(ssa.CallInstruction); ok {
			if _, isGo := in.(*ssa.Go); isGo {
				return
			}
			if sc := ci.Common().StaticCallee(); sc != nil && curProg != nil && curProg.inPkg(sc) && reachesFn(sc, fn, depth-1) {
				found = true
			}
		}
	})
	return found
}

// storesInRegion: stores to f in fn and in the private helpers owned by fn.
func (c *RuleCtx) storesInRegion(fn *ssa.Function, f *types.Var) []Access {
	var out []Access
	for _, g := range c.P.Region(fn) {
		out = append(out, c.storesIn(g, f)...)
	}
	return out
}

// localFactsUpTo: the local (non-expanded) dominating facts of in, extended
// along single-call-site private helpers up to (and including) root.
func localFactsUpTo(in ssa.Instruction, root *ssa.Function) []condFact {
	out := DomFacts(in.Block())
	fn := in.Parent()
	for d := 0; d < 4 && fn != nil && fn != root && curProg != nil && curProg.PrivateHelper(fn); d++ {
		sites := curProg.CallSitesOf(fn)
		if len(sites) != 1 {
			break
		}
		out = append(out, DomFacts(sites[0].Instr.Block())...)
		fn = sites[0].Fn
	}
	return out
}

// helperOutcomePasses: cond is (a test on) the result of an in-package helper;
// every path through the helper that ends in a return consistent with the
// outcome (cond == taken) passes an instruction satisfying target.
func helperOutcomePasses(cond ssa.Value, taken bool, target func(ssa.Instruction) bool) bool {
	p := curProg
	if p == nil {
		return false
	}
	var call *ssa.Call
	idx := 0
	nilTest, wantNil := false, false
	tv := cond
	if b, ok := cond.(*ssa.BinOp); ok && (b.Op == token.EQL || b.Op == token.NEQ) && (isNilConst(b.Y) || isNilConst(b.X)) {
		nilTest = true
		wantNil = (b.Op == token.EQL) == taken
		tv = b.X
		if isNilConst(b.X) {
			tv = b.Y
		}
	}
	switch x := tv.(type) {
	case *ssa.Call:
		call = x
	case *ssa.Extract:
		if cl, ok := x.Tuple.(*ssa.Call); ok {
			call, idx = cl, x.Index
		}
	}
	if call == nil || call.Call.IsInvoke() {
		return false
	}
	sc := call.Call.StaticCallee()
	if sc == nil || sc.Blocks == nil || !p.inPkg(sc) {
		return false
	}
	n := 0
	for _, r := range allReturns(sc) {
		res := retResults(r)
		if idx >= len(res) {
			return false
		}
		v := res[idx]
		if nilTest {
			cl := classifyNil(v)
			if (cl == retNil && !wantNil) || (cl == retNonNil && wantNil) {
				continue
			}
		} else if k, ok := v.(*ssa.Const); ok && k.Value != nil && k.Value.Kind() == constant.Bool && constant.BoolVal(k.Value) != taken {
			continue
		}
		n++
		ret := r
		ok, _ := MustPassOpt(sc.Blocks[0], 0, nil, target, PathOpts{ExitOK: true, Fail: func(in ssa.Instruction) bool { return in == ssa.Instruction(ret) }})
		if !ok {
			return false
		}
	}
	return n > 0
}

// valueLeaf: one of the values an expression can take (through φ and helper
// returns) together with the branch outcomes known where it is chosen.
type valueLeaf struct {
	Val   ssa.Value
	Facts []condFact
}

func leavesWithFacts(v ssa.Value) []valueLeaf {
	var out []valueLeaf
	var walk func(v ssa.Value, facts []condFact, d int)
	walk = func(v ssa.Value, facts []condFact, d int) {
		if d > 5 {
			out = append(out, valueLeaf{v, facts})
			return
		}
		switch x := v.(type) {
		case *ssa.Phi:
			for i, e := range x.Edges {
				pred := x.Block().Preds[i]
				f := append(append([]condFact{}, facts...), DomFactsX(pred)...)
				if len(pred.Instrs) > 0 {
					if ifi, ok := pred.Instrs[len(pred.Instrs)-1].(*ssa.If); ok && pred.Succs[0] != pred.Succs[1] {
						cc, tt := normCond(ifi.Cond, pred.Succs[0] == x.Block())
						f = append(f, condFact{cc, tt})
					}
				}
				walk(e, f, d+1)
			}
			return
		case *ssa.Call:
			if _, _, isSna := snaHelper(x.Call.StaticCallee()); isSna {
				break // a serial-number predicate is a leaf in its own right
			}
			if rs := helperReturns(x, 0); rs != nil && singleResult(x) {
				sc := x.Call.StaticCallee()
				for _, r := range allReturns(sc) {
					walk(retResults(r)[0], append(append([]condFact{}, facts...), DomFactsX(r.Block())...), d+1)
				}
				return
			}
		}
		out = append(out, valueLeaf{v, facts})
	}
	walk(v, nil, 0)
	return out
}

func singleResult(call *ssa.Call) bool {
	_, isTuple := call.Type().(*types.Tuple)
	return !isTuple
}

// goTargetsIn: the functions started with `go` inside fn (closures or named).
func goTargetsIn(fn *ssa.Function) []*ssa.Function {
	var out []*ssa.Function
	forEachInstr(fn, func(in ssa.Instruction) {
		g, ok := in.(*ssa.Go)
		if !ok {
			return
		}
		if sc := g.Call.StaticCallee(); sc != nil {
			out = append(out, sc)
			return
		}
		out = append(out, funcValues(g.Call.Value)...)
	})
	return out
}

// forEachInstrDeep visits fn's instructions and those of the in-package functions it
// calls statically (to the given depth), each function once.
func forEachInstrDeep(p *Prog, fn *ssa.Function, depth int, f func(ssa.Instruction)) {
	seen := map[*ssa.Function]bool{}
	var walk func(g *ssa.Function, d int)
	walk = func(g *ssa.Function, d int) {
		if g == nil || g.Blocks == nil || seen[g] {
			return
		}
		seen[g] = true
		forEachInstr(g, func(in ssa.Instruction) {
			f(in)
			if d < depth {
				if ci, ok := in.(ssa.CallInstruction); ok {
					if sc := ci.Common().StaticCallee(); sc != nil && p.inPkg(sc) {
						walk(sc, d+1)
					}
				}
			}
		})
		for _, an := range g.AnonFuncs {
			walk(an, d)
		}
	}
	walk(fn, 0)
}

// fieldKnownAt: path-sensitive, field-keyed boolean knowledge. Walks every path from fn's entry to `at`,
// learning the value of the boolean fields in `track` from branches on loads of them (an If on a load, on its
// negation, and both arms of the short-circuit forms they lower to) and forgetting a field at every instruction
// for which volatile(field, instr) is true (e.g. the lock is released, or the field is stored). Branches that
// contradict what is known on the path are not followed. Returns true iff on every path that reaches `at` the
// field `want` is known to hold value `val`.
func fieldKnownAt(at ssa.Instruction, track []*types.Var, volatile func(f *types.Var, in ssa.Instruction) bool, want *types.Var, val bool) bool {
	fn := at.Parent()
	type know map[*types.Var]bool
	enc := func(k know) string {
		s := ""
		for _, f := range track {
			if v, ok := k[f]; ok {
				s += fmt.Sprintf("%s=%v,", f.Name(), v)
			}
		}
		return s
	}
	fieldOfCond := func(v ssa.Value) (*types.Var, bool, bool) { // field, value-when-cond-true, ok
		neg := false
		for {
			if u, ok := v.(*ssa.UnOp); ok && u.Op == token.NOT {
				neg = !neg
				v = u.X
				continue
			}
			break
		}
		lf, _ := loadedField(v)
		for _, f := range track {
			if lf == f {
				return f, !neg, true
			}
		}
		return nil, false, false
	}
	seen := map[string]bool{}
	result := true
	reached := false
	steps := 0
	var walk func(b *ssa.BasicBlock, i int, k know)
	walk = func(b *ssa.BasicBlock, i int, k know) {
		steps++
		if steps > 100000 || !result {
			result = false
			return
		}
		for ; i < len(b.Instrs); i++ {
			in := b.Instrs[i]
			if in == at {
				reached = true
				if v, ok := k[want]; !ok || v != val {
					result = false
				}
				return
			}
			for _, f := range track {
				if volatile != nil && volatile(f, in) {
					delete(k, f)
				}
			}
			if st, ok := in.(*ssa.Store); ok {
				for _, f := range track {
					if fieldOfAddr(st.Addr) == f {
						if c, isK := st.Val.(*ssa.Const); isK && c.Value != nil {
							k[f] = c.Value.String() == "true"
						} else {
							delete(k, f)
						}
					}
				}
			}
		}
		ifi, _ := b.Instrs[len(b.Instrs)-1].(*ssa.If)
		for si, s := range b.Succs {
			nk := know{}
			for f, v := range k {
				nk[f] = v
			}
			if ifi != nil && b.Succs[0] != b.Succs[1] {
				if f, whenTrue, ok := fieldOfCond(ifi.Cond); ok {
					v := whenTrue
					if si == 1 {
						v = !whenTrue
					}
					if known, has := k[f]; has && known != v {
						continue // contradicts what this path already knows
					}
					nk[f] = v
				}
			}
			key := fmt.Sprintf("%d|%s", s.Index, enc(nk))
			if seen[key] {
				continue
			}
			seen[key] = true
			walk(s, 0, nk)
		}
	}
	walk(fn.Blocks[0], 0, know{})
	return result && reached
}

// pathStatesAt enumerates, path-sensitively, the boolean facts known when `at` is reached from its function's
// entry. classify names a branch condition (key) and says which value the key has on the true edge; branches it
// does not recognise are followed both ways without learning anything. The result is the set of distinct fact
// maps (one per way of reaching `at`); nil if `at` is unreachable or the walk is cut off.
func pathStatesAt(at ssa.Instruction, classify func(cond ssa.Value) (key string, whenTrue bool, ok bool)) []map[string]bool {
	fn := at.Parent()
	enc := func(k map[string]bool) string {
		keys := make([]string, 0, len(k))
		for s, v := range k {
			keys = append(keys, fmt.Sprintf("%s=%v", s, v))
		}
		sort.Strings(keys)
		return strings.Join(keys, ",")
	}
	seen := map[string]bool{}
	var out []map[string]bool
	got := map[string]bool{}
	steps := 0
	cut := false
	var walk func(b *ssa.BasicBlock, k map[string]bool)
	walk = func(b *ssa.BasicBlock, k map[string]bool) {
		steps++
		if steps > 50000 {
			cut = true
			return
		}
		for _, in := range b.Instrs {
			if in == at {
				if e := enc(k); !got[e] {
					got[e] = true
					out = append(out, k)
				}
				return
			}
		}
		ifi, _ := b.Instrs[len(b.Instrs)-1].(*ssa.If)
		for si, s := range b.Succs {
			nk := map[string]bool{}
			for a, v := range k {
				nk[a] = v
			}
			if ifi != nil && b.Succs[0] != b.Succs[1] {
				cond, neg := ifi.Cond, false
				for {
					if u, ok := cond.(*ssa.UnOp); ok && u.Op == token.NOT {
						cond, neg = u.X, !neg
						continue
					}
					break
				}
				if key, whenTrue, ok := classify(cond); ok {
					v := whenTrue != neg
					if si == 1 {
						v = !v
					}
					if known, has := k[key]; has && known != v {
						continue
					}
					nk[key] = v
				}
			}
			id := fmt.Sprintf("%d|%s", s.Index, enc(nk))
			if seen[id] {
				continue
			}
			seen[id] = true
			walk(s, nk)
		}
	}
	walk(fn.Blocks[0], map[string]bool{})
	if cut {
		return nil
	}
	return out
}
