#!/usr/bin/env python3-vt
import json, glob, sys, jsonschema
ok = True
try:
    jsonschema.validate(json.load(open('/verif/MANIFEST.json')), json.load(open('/root/.vp/MANIFEST.schema.json')))
    print('manifest valid')
except Exception as e:
    ok = False; print('MANIFEST INVALID', e)
es = json.load(open('/root/.vp/EVIDENCE.schema.json'))
for f in sorted(glob.glob('/verif/evidence/C??.json')):
    try:
        jsonschema.validate(json.load(open(f)), es)
    except Exception as e:
        ok = False; print('EVIDENCE INVALID', f, str(e)[:300])
print('evidence files checked:', len(glob.glob('/verif/evidence/C??.json')))
sys.exit(0 if ok else 1)
