package sctp

import (
	"testing"

	"github.com/stretchr/testify/require"
)

func f3Inbound(t *testing.T, a *Association, chunks ...chunk) {
	t.Helper()

	raw, err := a.createPacket(chunks).marshal(true)
	require.NoError(t, err)
	require.NoError(t, a.handleInbound(raw))
}

func f3AdvertisedWindow(a *Association) uint32 {
	a.lock.Lock()
	defer a.lock.Unlock()

	return a.createSelectiveAckChunk().advertisedReceiverWindowCredit
}

// f3Pair builds two established associations that talk to each other (no
// read/write loops; the test moves the packets by hand), with user message
// interleaving (I-DATA / I-FORWARD-TSN) negotiated.
func f3Pair(t *testing.T, bufSize uint32) (*Association, *Association) {
	t.Helper()

	mk := func() *Association {
		a := createTestAssociation(t, Config{MaxReceiveBufferSize: bufSize})
		a.lock.Lock()
		a.setState(established)
		a.sourcePort = defaultSCTPSrcDstPort
		a.destinationPort = defaultSCTPSrcDstPort
		a.peerForwardTSN = true
		a.peerInterleaving = true
		a.peerIForwardTSN = true
		a.localInterleaving = true
		require.NoError(t, a.updateInterleavingState())
		a.ackMode = ackModeNoDelay
		a.lock.Unlock()

		return a
	}
	a, b := mk(), mk()
	a.peerVerificationTag = b.myVerificationTag
	b.peerVerificationTag = a.myVerificationTag
	a.payloadQueue.init(b.myNextTSN - 1)
	b.payloadQueue.init(a.myNextTSN - 1)
	a.setRWND(bufSize)
	b.setRWND(bufSize)
	a.ssthresh = bufSize
	b.ssthresh = bufSize

	return a, b
}

// C11 (receiver only, hand-made packets): an unordered I-DATA message is abandoned
// by the sender; the I-FORWARD-TSN that skips it overtakes (network reordering) the
// remaining fragments of that message. The late fragments are accepted and stored
// although their message was already skipped; nothing ever completes or purges
// them, so after the application has read everything the advertised window does not
// return to the full buffer.
func TestF3_LateFragmentsOfSkippedUnorderedIDataAreKeptForever(t *testing.T) {
	const bufSize = 10000
	a := createTestAssociation(t, Config{MaxReceiveBufferSize: bufSize})
	a.lock.Lock()
	a.setState(established)
	a.peerVerificationTag = 1
	a.sourcePort = defaultSCTPSrcDstPort
	a.destinationPort = defaultSCTPSrcDstPort
	a.payloadQueue.init(99)
	a.useInterleaving = true
	a.useIForwardTSN = true
	a.useForwardTSN = false
	a.lock.Unlock()

	// Sender side history: stream 1 sends an unordered, unreliable (rexmit=0)
	// message MID 0 in three fragments TSN 100 (B), 102, 104 (E), interleaved with a
	// reliable message of stream 2 on TSN 101, 103. TSN 100 is lost, the message is
	// abandoned, Advanced.Peer.Ack.Point can only move to 100 (101 is reliable):
	//   I-FORWARD-TSN(newCumTSN=100, {sid=1, U, MID=0})
	// The network delivers that I-FORWARD-TSN before TSN 101..104.
	f3Inbound(t, a, &chunkIForwardTSN{
		newCumulativeTSN: 100,
		streams:          []chunkIForwardTSNStream{{identifier: 1, unordered: true, messageIdentifier: 0}},
	})
	require.Equal(t, uint32(100), a.peerLastTSN())

	idata := func(tsn uint32, sid uint16, unordered bool, mid, fsn uint32, b, e bool, n int) *chunkPayloadData {
		return &chunkPayloadData{
			iData: true, tsn: tsn, streamIdentifier: sid, unordered: unordered,
			messageIdentifier: mid, fragmentSequenceNumber: fsn,
			beginningFragment: b, endingFragment: e,
			payloadType: PayloadTypeWebRTCBinary, userData: make([]byte, n),
		}
	}
	f3Inbound(t, a, idata(101, 2, false, 0, 0, true, false, 500)) // stream 2, reliable, B
	f3Inbound(t, a, idata(102, 1, true, 0, 1, false, false, 500)) // late middle fragment of the skipped message
	f3Inbound(t, a, idata(103, 2, false, 0, 1, false, true, 500)) // stream 2, E
	f3Inbound(t, a, idata(104, 1, true, 0, 2, false, true, 500))  // late last fragment of the skipped message
	// one more complete unordered message on stream 1
	f3Inbound(t, a, idata(105, 1, true, 1, 0, true, true, 500))

	// everything has been received in sequence: the peer has nothing left to
	// (re)transmit or to skip.
	require.Equal(t, uint32(105), a.peerLastTSN())
	require.Zero(t, a.payloadQueue.size())

	// the application reads everything there is to read
	buf := make([]byte, 4096)
	nRead := 0
	a.lock.Lock()
	streams := []*Stream{a.streams[1], a.streams[2]}
	a.lock.Unlock()
	for _, s := range streams {
		require.NotNil(t, s)
		for s.reassemblyQueue.isReadable() {
			n, _, err := s.ReadSCTP(buf)
			require.NoError(t, err)
			nRead += n
		}
	}
	require.Equal(t, 1500, nRead, "stream 2's message (1000) and stream 1's MID 1 (500)")

	adv := f3AdvertisedWindow(a)
	require.Equalf(t, uint32(bufSize), adv,
		"application has read everything but the advertised window is %d of %d: "+
			"%d bytes of the skipped unordered message are still held on stream 1",
		adv, bufSize, streams[0].getNumBytesInReassemblyQueue())
}

// Same defect with the library's own sender producing every packet: sender A and
// receiver B are both real associations; the test only plays the network (one
// packet lost, one packet overtaking four others).
func TestF3_RealSender_ReorderedIForwardTSN(t *testing.T) {
	const bufSize = 20000
	a, b := f3Pair(t, bufSize)

	s1, err := a.OpenStream(1, PayloadTypeWebRTCBinary)
	require.NoError(t, err)
	s1.SetReliabilityParams(true, ReliabilityTypeRexmit, 0) // unordered, no retransmission
	s2, err := a.OpenStream(2, PayloadTypeWebRTCBinary)
	require.NoError(t, err) // ordered, reliable

	_, err = s1.WriteSCTP(make([]byte, 3000), PayloadTypeWebRTCBinary)
	require.NoError(t, err)
	_, err = s2.WriteSCTP(make([]byte, 3000), PayloadTypeWebRTCBinary)
	require.NoError(t, err)
	a.lock.Lock()
	a.setCWND(20000)
	a.lock.Unlock()

	// A sends 6 packets: s1/f0, s2/f0, s1/f1, s2/f1, s1/f2(E), s2/f2(E)  (TSN x..x+5)
	data, _ := a.gatherOutbound()
	require.Len(t, data, 6)

	// packet 0 (first fragment of the unreliable message) is lost, packet 1 arrives
	require.NoError(t, b.handleInbound(data[1]))
	sacks, _ := b.gatherOutbound()
	require.Len(t, sacks, 1)
	require.NoError(t, a.handleInbound(sacks[0]))

	// A answers the gap report with I-FORWARD-TSN(x, {sid 1, U, MID 0})
	fwd, _ := a.gatherOutbound()
	require.Len(t, fwd, 1)
	p := &packet{}
	require.NoError(t, p.unmarshal(true, fwd[0]))
	_, isIFwd := p.chunks[0].(*chunkIForwardTSN)
	require.True(t, isIFwd, "sender emits I-FORWARD-TSN")

	// the I-FORWARD-TSN overtakes packets 2..5
	require.NoError(t, b.handleInbound(fwd[0]))
	for _, raw := range data[2:] {
		require.NoError(t, b.handleInbound(raw))
	}

	// let both sides talk until silent
	for range 5 {
		out, _ := b.gatherOutbound()
		for _, raw := range out {
			require.NoError(t, a.handleInbound(raw))
		}
		out, _ = a.gatherOutbound()
		for _, raw := range out {
			require.NoError(t, b.handleInbound(raw))
		}
	}
	require.Zero(t, a.inflightQueue.size()+a.pendingQueue.size(), "sender has nothing left to send, retransmit or skip")

	// the application reads everything
	buf := make([]byte, 65536)
	b.lock.Lock()
	streams := []*Stream{}
	for _, s := range b.streams {
		streams = append(streams, s)
	}
	b.lock.Unlock()
	for _, s := range streams {
		for s.reassemblyQueue.isReadable() {
			_, _, err := s.ReadSCTP(buf)
			require.NoError(t, err)
		}
	}

	adv := f3AdvertisedWindow(b)
	require.Equalf(t, uint32(bufSize), adv,
		"application has read everything but the advertised window is %d of %d", adv, bufSize)
}
