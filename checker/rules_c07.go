package main

import (
	"fmt"
	"go/token"
	"strings"

	"golang.org/x/tools/go/ssa"
)

func init() {
	register(&Rule{ID: "C07.R1", Props: []string{"C07"}, Engine: "E3",
		Title:   "the advanced peer ack point moves only to the cumulative ack point or over chunks that exist in flight and are abandoned",
		MinInst: 8,
		Run: func(c *RuleCtx) {
			adv := c.field("Association", "advancedPeerTSNAckPoint")
			cum := c.field("Association", "cumulativeTSNAckPoint")
			get := c.Fn("payloadQueue.get")
			ab := c.Fn("chunkPayloadData.abandoned")
			lt := c.Fn("sna32LT")
			c.WritersWithin("adv", adv, "Association.finishAcknowledgement", "Association.onRetransmissionTimeout", "createAssociationFromConfigWithTsn")
			ks := keyer{}
			nScan := 0
			for _, a := range c.P.Writes(adv) {
				fn := c.P.FuncName(a.Fn)
				if fn == "createAssociationFromConfigWithTsn" {
					continue
				}
				if IsLoadOf(cum)(a.Val) {
					c.Dom(ks.key("adv-catch-up@"+fn), a.Instr, CallCond(lt, true, IsLoadOf(adv), IsLoadOf(cum)), "sna32LT(advancedPeerTSNAckPoint, cumulativeTSNAckPoint)")
					continue
				}
				nScan++
				// value i must be the argument of a successful inflightQueue.get(i) whose chunk is abandoned
				okGet, okAb := false, false
				for _, f := range DomFacts(a.Instr.Block()) {
					if ex, ok := f.Cond.(*ssa.Extract); ok && ex.Index == 1 && f.Taken {
						if call, ok := isCallTo(ex.Tuple, get); ok && sameVal(call.Call.Args[1], a.Val) {
							okGet = true
							// abandoned() on the chunk returned by that get
							for _, g := range DomFacts(a.Instr.Block()) {
								if ac, ok := isCallTo(g.Cond, ab); ok && g.Taken {
									if ex0, ok := ac.Call.Args[0].(*ssa.Extract); ok && ex0.Tuple == ex.Tuple && ex0.Index == 0 {
										okAb = true
									}
								}
							}
						}
					}
				}
				c.Check(okGet && okAb, ks.key("adv-over-abandoned@"+fn), c.Pos(a.Instr), "advance to i only if inflightQueue.get(i) exists and that chunk is abandoned()",
					fmt.Sprintf("the skip point can move over a chunk that is not abandoned (exists-guard=%v abandoned-guard=%v)", okGet, okAb))
				// scan starts at advanced+1 and steps by 1
				phi, isPhi := unconv(a.Val).(*ssa.Phi)
				okStart := BinV(token.ADD, IsLoadOf(adv), IsConstInt(1))(a.Val) // recomputed from the field on every iteration
				if isPhi {
					for _, e := range phi.Edges {
						if BinV(token.ADD, IsLoadOf(adv), IsConstInt(1))(e) {
							okStart = true
						}
					}
				}
				c.Check(okStart, ks.key("adv-scan-start@"+fn), c.Pos(a.Instr), "scan starts at advancedPeerTSNAckPoint+1", "scan does not start right after the current skip point")
			}
			// both loss-recovery entry points reach a scan (inline or through a shared helper)
			for _, owner := range []string{"Association.finishAcknowledgement", "Association.onRetransmissionTimeout"} {
				reached := false
				for _, a := range c.P.Writes(adv) {
					if !IsLoadOf(cum)(a.Val) && c.P.FuncName(a.Fn) != "createAssociationFromConfigWithTsn" && reachesFn(c.Fn(owner), a.Fn, 2) {
						reached = true
					}
				}
				c.Check(reached, "adv-scan-reached@"+owner, c.P.Pos(c.Fn(owner).Pos()), "the skip-point scan is reached from here", "no skip-point scan reachable from "+owner)
			}
			c.Check(nScan >= 1, "adv-scan-sites", "", fmt.Sprintf("%d scan site(s)", nScan), "no scan site")
		}})

	register(&Rule{ID: "C07.R2", Props: []string{"C07"}, Engine: "E2-dataflow",
		Title:   "FORWARD-TSN / I-FORWARD-TSN announce exactly the skip point and describe exactly the chunks between the cumulative ack point and it",
		MinInst: 6,
		Run: func(c *RuleCtx) {
			adv := c.field("Association", "advancedPeerTSNAckPoint")
			cum := c.field("Association", "cumulativeTSNAckPoint")
			lte := c.Fn("sna32LTE")
			for _, b := range []struct{ fn, typ string }{{"Association.createForwardTSN", "chunkForwardTSN"}, {"Association.createIForwardTSN", "chunkIForwardTSN"}} {
				fn := c.Fn(b.fn)
				st := c.storesIn(fn, c.field(b.typ, "newCumulativeTSN"))
				c.Check(len(st) == 1 && IsLoadOf(adv)(st[0].Val), "fwd-point@"+b.fn, c.P.Pos(fn.Pos()), "newCumulativeTSN <- advancedPeerTSNAckPoint", "newCumulativeTSN is not the skip point")
				found := false
				forEachInstr(fn, func(in ssa.Instruction) {
					ifi, ok := in.(*ssa.If)
					if !ok {
						return
					}
					call, ok := isCallTo(ifi.Cond, lte)
					if !ok || !IsLoadOf(adv)(call.Call.Args[1]) {
						return
					}
					phi, ok := call.Call.Args[0].(*ssa.Phi)
					if !ok {
						return
					}
					for _, e := range phi.Edges {
						if BinV(token.ADD, IsLoadOf(cum), IsConstInt(1))(e) {
							found = true
						}
					}
				})
				c.Check(found, "fwd-scan@"+b.fn, c.P.Pos(fn.Pos()), "scan i = cumulativeTSNAckPoint+1 while sna32LTE(i, advancedPeerTSNAckPoint)", "scan range is not (cumulativeTSNAckPoint, advancedPeerTSNAckPoint]")
			}
			// the writer emits only when advanced > cum and picks the builder matching the negotiated variant
			gf := c.Fn("Association.gatherOutboundForwardTSNPackets")
			gt := c.Fn("sna32GT")
			uI, uF := c.field("Association", "useIForwardTSN"), c.field("Association", "useForwardTSN")
			for _, cc := range callsIn(gf, c.Fn("Association.createIForwardTSN")) {
				c.Dom("emit-iforward-if-negotiated", cc, BoolCond(IsLoadOf(uI), true), "useIForwardTSN")
				c.Dom("emit-iforward-if-ahead", cc, CallCond(gt, true, IsLoadOf(adv), IsLoadOf(cum)), "sna32GT(advanced, cum)")
			}
			for _, cc := range callsIn(gf, c.Fn("Association.createForwardTSN")) {
				c.Dom("emit-forward-if-negotiated", cc, BoolCond(IsLoadOf(uF), true), "useForwardTSN")
				c.Dom("emit-forward-not-iforward", cc, BoolCond(IsLoadOf(uI), false), "!useIForwardTSN")
				c.Dom("emit-forward-if-ahead", cc, CallCond(gt, true, IsLoadOf(adv), IsLoadOf(cum)), "sna32GT(advanced, cum)")
			}
		}})

	register(&Rule{ID: "C07.R3", Props: []string{"C07"}, Engine: "E3",
		Title:   "a stream sequence number is meaningful only on an ordered chunk: every read of chunk.streamSequenceNumber outside codecs and logging is dominated by chunk.unordered == false",
		MinInst: 3,
		Run: func(c *RuleCtx) {
			ssn := c.field("chunkPayloadData", "streamSequenceNumber")
			un := c.field("chunkPayloadData", "unordered")
			codec := map[string]bool{"chunkPayloadData.marshal": true, "chunkPayloadData.unmarshal": true, "chunkPayloadData.String": true}
			ks := keyer{}
			for _, a := range c.P.Reads(ssn) {
				fn := c.P.FuncName(a.Fn)
				if codec[fn] {
					continue
				}
				v, ok := a.Instr.(ssa.Value)
				if !ok {
					continue
				}
				if onlyLogged(v) {
					c.Ok(ks.key("ssn-read-logging@"+fn), c.Pos(a.Instr), "value only formatted into a log message")
					continue
				}
				var base ssa.Value
				if fa, ok := a.FA.(*ssa.FieldAddr); ok {
					base = fa.X
				}
				ok2 := DominatedByExt(a.Instr, BoolCond(isFieldLoadOn(un, base), false))
				c.Check(ok2, ks.key("ssn-read@"+fn), c.Pos(a.Instr), "read dominated by !chunk.unordered",
					"SSN of a possibly unordered chunk is used: for U-flagged messages the field holds the stream's next ordered SSN, so a FORWARD-TSN built from it skips an ordered message that was never abandoned")
			}
		}})

	register(&Rule{ID: "C07.R4", Props: []string{"C07", "C11"}, Engine: "E2",
		Title:   "the receive path does not depend on the local send-side configuration of a stream (unordered / reliability parameters are read only when sending)",
		MinInst: 4,
		Run: func(c *RuleCtx) {
			for _, f := range []string{"unordered", "reliabilityType", "reliabilityValue"} {
				c.ReadersWithin("send-config", c.field("Stream", f), "Stream.packetize", "Association.checkPartialReliabilityStatus")
			}
		}})

	register(&Rule{ID: "C07.R5", Props: []string{"C07", "C11"}, Engine: "E3",
		Title:   "a forward-TSN purge drops only incomplete sets at or below the skip point and never moves a cursor backwards",
		MinInst: 8,
		Run: func(c *RuleCtx) {
			sub := c.Fn("reassemblyQueue.subtractNumBytes")
			for _, s := range []struct{ fn, setT, seq, cur, lte string }{
				{"reassemblyQueue.forwardTSNForOrdered", "chunkSet", "ssn", "nextSSN", "sna16LTE"},
				{"reassemblyQueue.forwardTSNForOrderedMID", "chunkSetMID", "mid", "nextMID", "sna32LTE"},
			} {
				fn := c.Fn(s.fn)
				lte := c.Fn(s.lte)
				seq := c.field(s.setT, s.seq)
				cur := c.field("reassemblyQueue", s.cur)
				complete := c.Fn(s.setT + ".isComplete")
				for _, sc := range callsIn(fn, sub) {
					c.Dom("purge-at-or-below@"+s.fn, sc, CallCond(lte, true, IsLoadOf(seq), IsParam(fn, 1)), s.lte+"(set."+s.seq+", last)")
					c.Dom("purge-incomplete-only@"+s.fn, sc, CallCond(complete, false), "set.isComplete()==false")
				}
				for _, a := range c.storesIn(fn, cur) {
					c.Dom("cursor-forward-only@"+s.fn, a.Instr, CallCond(lte, true, IsLoadOf(cur), IsParam(fn, 1)), s.lte+"(next, last)")
					c.Check(BinV(token.ADD, IsParam(fn, 1), IsConstInt(1))(a.Val), "cursor-value@"+s.fn, c.Pos(a.Instr), "cursor <- last+1", "cursor not set to last+1")
				}
			}
			un := c.Fn("reassemblyQueue.forwardTSNForUnordered")
			tsn := c.field("chunkPayloadData", "tsn")
			// lastIdx advances only while !sna32GT(c.tsn, newCumulativeTSN)
			okStop := false
			forEachInstr(un, func(in ssa.Instruction) {
				ifi, ok := in.(*ssa.If)
				if !ok {
					return
				}
				// any serial-number comparison between a chunk's tsn and the new cumulative TSN bounds the scan
				if call, ok := ifi.Cond.(*ssa.Call); ok && len(call.Call.Args) == 2 {
					if w, _, isSna := snaHelper(call.Call.StaticCallee()); isSna && w == "sna32" {
						a0, a1 := call.Call.Args[0], call.Call.Args[1]
						if (IsLoadOf(tsn)(a0) && IsParam(un, 1)(a1)) || (IsLoadOf(tsn)(a1) && IsParam(un, 1)(a0)) {
							okStop = true
						}
					}
				}
			})
			c.Check(okStop, "unordered-purge-stops", c.P.Pos(un.Pos()), "unordered purge stops at the first chunk with sna32GT(tsn, newCumulativeTSN)", "unordered purge is not bounded by the new cumulative TSN")
			um := c.Fn("reassemblyQueue.forwardTSNForUnorderedMID")
			for _, sc := range callsIn(um, sub) {
				c.Dom("purge-at-or-below@"+c.P.FuncName(um), sc, CallCond(c.Fn("sna32LTE"), true, nil, IsParam(um, 1)), "sna32LTE(mid, last)")
			}
		}})

	register(&Rule{ID: "C07.R6", Props: []string{"C07"}, Engine: "E3",
		Title:   "the FORWARD-TSN flag is raised on SACK and on T3 exactly when the skip point is ahead of the cumulative ack point, after the skip point was advanced",
		MinInst: 4,
		Run: func(c *RuleCtx) {
			adv := c.field("Association", "advancedPeerTSNAckPoint")
			cum := c.field("Association", "cumulativeTSNAckPoint")
			will := c.field("Association", "willSendForwardTSN")
			gt := c.Fn("sna32GT")
			ks := keyer{}
			n := 0
			for _, a := range c.P.Writes(will) {
				if !IsConstBool(true)(a.Val) {
					continue
				}
				n++
				fn := c.P.FuncName(a.Fn)
				c.Dom(ks.key("flag-when-ahead@"+fn), a.Instr, CallCond(gt, true, IsLoadOf(adv), IsLoadOf(cum)), "sna32GT(advanced, cum)")
				// some store to adv in the same function can reach it (the scan precedes the test)
				pre := false
				for _, s := range c.storesIn(a.Fn, adv) {
					if CanReach(s.Instr, a.Instr) {
						pre = true
					}
				}
				c.Check(pre, ks.key("flag-after-scan@"+fn), c.Pos(a.Instr), "the skip-point scan precedes the flag", "flag raised without first advancing the skip point")
			}
			for _, owner := range []string{"Association.finishAcknowledgement", "Association.onRetransmissionTimeout"} {
				reached := false
				for _, a := range c.P.Writes(will) {
					if IsConstBool(true)(a.Val) && reachesFn(c.Fn(owner), a.Fn, 2) {
						reached = true
					}
				}
				c.Check(reached, "flag-reached@"+owner, c.P.Pos(c.Fn(owner).Pos()), "the FORWARD-TSN flag can be raised from here", "the FORWARD-TSN flag is not raised on this loss-recovery path")
			}
			c.Check(n >= 1, "flag-sites", "", fmt.Sprintf("%d site(s)", n), "no site raises the flag")
			// the SACK-side and T3-side blocks are entered iff partial reliability is enabled
			pre := c.Fn("Association.partialReliabilityEnabled")
			uF, uI := c.field("Association", "useForwardTSN"), c.field("Association", "useIForwardTSN")
			okP := false
			for _, r := range allReturns(pre) {
				if phi, ok := r.Results[0].(*ssa.Phi); ok {
					hasI := false
					for _, e := range phi.Edges {
						if IsLoadOf(uI)(e) {
							hasI = true
						}
					}
					okP = hasI
				}
			}
			_ = uF
			c.Check(okP, "pr-enabled", c.P.Pos(pre.Pos()), "partialReliabilityEnabled() = useForwardTSN || useIForwardTSN", "partialReliabilityEnabled changed shape")
		}})
}

// onlyLogged: every use of v ends in an interface conversion (formatting argument).
func onlyLogged(v ssa.Value) bool {
	refs := v.Referrers()
	if refs == nil || len(*refs) == 0 {
		return false
	}
	for _, r := range *refs {
		switch r.(type) {
		case *ssa.MakeInterface, *ssa.DebugRef:
		default:
			return false
		}
	}
	return true
}

var _ = strings.Join
