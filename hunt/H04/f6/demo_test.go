package sctp

import (
	"errors"
	"io"
	"testing"
	"time"

	"github.com/stretchr/testify/require"
)

// C14 ("several streams closing at once", "all amounts of queued data at close
// time"): all close markers that are popped from the pending queue in one pass
// are put into ONE Outgoing SSN Reset Request. With enough streams the RECONFIG
// packet exceeds the 8192-byte inbound buffer of the peer (receiveMTU), is
// truncated on read, fails to parse and is dropped - on every retransmission.
// None of the closed streams ever delivers end-of-file.
func TestHunt6TooManyStreamsInOneResetRequest(t *testing.T) {
	conn1, conn2 := createUDPConnPair()
	a1, a2, err := createAssociationPairWithConfig(conn1, conn2, Config{MaxReceiveBufferSize: 4000})
	require.NoError(t, err)
	defer func() { _ = a2.Close() }()
	defer func() { _ = a1.Close() }()

	s1, err := a1.OpenStream(1, PayloadTypeWebRTCBinary)
	require.NoError(t, err)
	_, err = s1.Write([]byte("hello"))
	require.NoError(t, err)
	s2, err := a2.AcceptStream()
	require.NoError(t, err)
	data := make([]byte, 4000)
	n, err := s2.Read(data)
	require.NoError(t, err)
	require.Equal(t, "hello", string(data[:n]))

	// Fill the peer's window; the second message stays in the pending queue.
	_, err = s1.Write(data)
	require.NoError(t, err)
	_, err = s1.Write(data)
	require.NoError(t, err)
	time.Sleep(100 * time.Millisecond)

	// Close stream 1 and many other (idle) streams while data is still queued.
	const nStreams = 4200
	require.NoError(t, s1.Close())
	for i := 0; i < nStreams; i++ {
		s, oerr := a1.OpenStream(uint16(100+i), PayloadTypeWebRTCBinary)
		require.NoError(t, oerr)
		require.NoError(t, s.Close())
	}

	// The reader drains stream 1 and must then see EOF.
	got := 0
	var rerr error
	require.NoError(t, s2.SetReadDeadline(time.Now().Add(6*time.Second)))
	for {
		_, rerr = s2.Read(data)
		if rerr != nil {
			break
		}
		got++
	}
	require.Equal(t, 2, got)
	require.Truef(t, errors.Is(rerr, io.EOF), "stream 1 was closed by its writer, reader got: %v", rerr)
}
