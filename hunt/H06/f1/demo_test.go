// SPDX-FileCopyrightText: 2026 The Pion community <https://pion.ly>
// SPDX-License-Identifier: MIT

package sctp

import (
	"testing"
	"time"

	"github.com/pion/logging"
	"github.com/pion/transport/v4/test"
	"github.com/stretchr/testify/assert"
	"github.com/stretchr/testify/require"
)

// A client that never enabled anything receives, while in COOKIE-WAIT, an INIT ACK
// that is rejected (no State Cookie) but that carries a Zero Checksum Acceptable
// parameter. The real server (zero checksum NOT enabled) then answers with a proper
// INIT ACK without that parameter. The handshake completes, but the client keeps
// sendZeroChecksum=true from the rejected chunk and sends zero checksums to a peer
// that never declared them acceptable: every packet except COOKIE ECHO is dropped
// by the server.
func TestHunt1_RejectedInitAckLeavesZeroChecksumOn(t *testing.T) {
	lim := test.TimeOut(10 * time.Second)
	defer lim.Stop()

	loggerFactory := logging.NewDefaultLoggerFactory()
	br := test.NewBridge()

	a0 := createTestAssociation(t, Config{Name: "client", NetConn: br.GetConn0(), LoggerFactory: loggerFactory})
	a1 := createTestAssociation(t, Config{Name: "server", NetConn: br.GetConn1(), LoggerFactory: loggerFactory})

	done0 := make(chan error, 1)
	done1 := make(chan error, 1)
	go func() { done0 <- <-a0.handshakeCompletedCh }()
	go func() { done1 <- <-a1.handshakeCompletedCh }()

	a0.initClient()
	a1.initServer()

	// The INIT ACK that will be rejected: no cookie, but "zero checksum acceptable".
	bogus := &packet{
		sourcePort:      defaultSCTPSrcDstPort,
		destinationPort: defaultSCTPSrcDstPort,
		verificationTag: a0.myVerificationTag,
		chunks: []chunk{&chunkInitAck{
			chunkInitCommon: chunkInitCommon{
				initiateTag:                    12345,
				advertisedReceiverWindowCredit: 100000,
				numOutboundStreams:             10,
				numInboundStreams:              10,
				initialTSN:                     777,
				params: []param{
					&paramZeroChecksumAcceptable{edmid: dtlsErrorDetectionMethod},
				},
			},
		}},
	}
	raw, err := bogus.marshal(true)
	require.NoError(t, err)

	// Deliver it to the client before anything else (the client's INIT is still queued
	// in the bridge, so the server has not answered yet).
	require.NoError(t, a0.handleInbound(raw))
	require.Equal(t, cookieWait, a0.getState(), "INIT ACK without a cookie must be rejected")

	// Now let the real handshake run.
	var err0, err1 error
	got0, got1 := false, false
	for !got0 || !got1 {
		br.Process()
		select {
		case err0 = <-done0:
			got0 = true
		case err1 = <-done1:
			got1 = true
		default:
		}
	}
	require.NoError(t, err0)
	require.NoError(t, err1)

	m0, ok0 := a0.Metadata()
	m1, ok1 := a1.Metadata()
	require.True(t, ok0)
	require.True(t, ok1)

	// Neither side enabled zero checksum: the server never declared it acceptable.
	assert.False(t, m1.ZeroChecksumReceivingEnabled, "server does not accept zero checksums")
	assert.False(t, m0.ZeroChecksumSendingEnabled,
		"client must not send zero checksums: the peer it is established with never declared them acceptable")

	// Consequence: nothing the client sends reaches the server application.
	s0, err := a0.OpenStream(1, PayloadTypeWebRTCBinary)
	require.NoError(t, err)
	_, err = s0.WriteSCTP([]byte("hello"), PayloadTypeWebRTCBinary)
	require.NoError(t, err)

	accepted := make(chan *Stream, 1)
	go func() {
		s, errAccept := a1.AcceptStream()
		if errAccept == nil {
			accepted <- s
		}
	}()

	deadline := time.Now().Add(1500 * time.Millisecond)
	delivered := false
	for time.Now().Before(deadline) && !delivered {
		br.Process()
		select {
		case <-accepted:
			delivered = true
		default:
			time.Sleep(10 * time.Millisecond)
		}
	}
	assert.True(t, delivered, "DATA sent by the client never reaches the server (dropped: checksum mismatch)")

	closeAssociationPair(br, a0, a1)
}

// Same root cause, second manifestation ("both as clients"): the client has already
// learnt the peer's tag and initial TSN from the peer's INIT. An INIT ACK that is
// rejected because of a port mismatch nevertheless overwrites both, and the
// association then becomes ESTABLISHED (peer's COOKIE ECHO) with the wrong values.
func TestHunt1_RejectedInitAckOverwritesPeerTagAndTSN(t *testing.T) {
	lim := test.TimeOut(10 * time.Second)
	defer lim.Stop()

	conn, peerConn := pipeDump(t)
	defer func() { _ = peerConn.Close() }()
	a0 := createTestAssociation(t, Config{Name: "client", NetConn: conn, LoggerFactory: logging.NewDefaultLoggerFactory()})
	go func() { <-a0.handshakeCompletedCh }()
	a0.initClient()
	defer func() { _ = a0.close() }()

	const peerTag, peerTSN = uint32(0x0B0B0B0B), uint32(1000)

	// The peer (also started as a client) sends its INIT.
	peerInit := &chunkInit{}
	peerInit.initiateTag = peerTag
	peerInit.initialTSN = peerTSN
	peerInit.numInboundStreams = 100
	peerInit.numOutboundStreams = 100
	peerInit.advertisedReceiverWindowCredit = 100000
	setSupportedExtensions(&peerInit.chunkInitCommon, true)
	raw, err := (&packet{
		sourcePort: defaultSCTPSrcDstPort, destinationPort: defaultSCTPSrcDstPort,
		chunks: []chunk{peerInit},
	}).marshal(true)
	require.NoError(t, err)
	require.NoError(t, a0.handleInbound(raw))
	require.Equal(t, peerTag, a0.peerVerificationTag)
	require.Equal(t, peerTSN-1, a0.peerLastTSN())

	// An INIT ACK for somebody else's ports: rejected ("port mismatch").
	stray := &chunkInitAck{}
	stray.initiateTag = 0xDEADBEEF
	stray.initialTSN = 5
	stray.numInboundStreams = 1
	stray.numOutboundStreams = 1
	stray.advertisedReceiverWindowCredit = 1500
	stray.params = []param{&paramStateCookie{cookie: []byte("0123456789abcdef0123456789abcdef")}}
	raw, err = (&packet{
		sourcePort: 6000, destinationPort: 6001, verificationTag: a0.myVerificationTag,
		chunks: []chunk{stray},
	}).marshal(true)
	require.NoError(t, err)
	require.NoError(t, a0.handleInbound(raw))
	require.Equal(t, cookieWait, a0.getState(), "the stray INIT ACK must be rejected")

	assert.Equal(t, peerTag, a0.peerVerificationTag, "a rejected INIT ACK changed the peer verification tag")
	assert.Equal(t, peerTSN-1, a0.peerLastTSN(), "a rejected INIT ACK changed the peer's initial TSN")

	// The peer's COOKIE ECHO (it got our INIT ACK) now establishes the association.
	a0.lock.RLock()
	cookie := a0.myCookie.cookie
	a0.lock.RUnlock()
	raw, err = (&packet{
		sourcePort: defaultSCTPSrcDstPort, destinationPort: defaultSCTPSrcDstPort,
		verificationTag: a0.myVerificationTag,
		chunks:          []chunk{&chunkCookieEcho{cookie: cookie}},
	}).marshal(true)
	require.NoError(t, err)
	require.NoError(t, a0.handleInbound(raw))
	require.Equal(t, established, a0.getState())
	assert.Equal(t, peerTSN-1, a0.peerLastTSN(),
		"established expecting a first TSN the peer will never use: all its DATA is dropped as duplicate/out of window")
}
