package sctp

import (
	"testing"

	"github.com/stretchr/testify/assert"
	"github.com/stretchr/testify/require"
)

// Finding 3 (C12): chunkHeader.unmarshal validates the chunk padding only when fewer than
// 4 bytes follow the chunk value, i.e. only when the chunk is the LAST one of the packet.
// The very same chunk bytes are therefore rejected when the chunk stands alone / last and
// accepted when another chunk is bundled behind it: bundling changes how a chunk is decoded.
func TestZZHunt3_PaddingCheckDependsOnBundling(t *testing.T) {
	hdr := []byte{0x13, 0x88, 0x13, 0x88, 0, 0, 0, 1, 0, 0, 0, 0} // zero checksum, doChecksum=false below

	// DATA, flags B|E, length 17 (1 byte of user data), followed by 3 padding bytes != 0.
	// (RFC 9260 3.2: "The receiver MUST ignore the padding".)
	data := []byte{
		byte(ctPayloadData), 0x03, 0x00, 17,
		0, 0, 0, 10, // TSN
		0, 1, 0, 0, // SI, SSN
		0, 0, 0, 53, // PPID
		'A', 0xde, 0xad, 0xbe, // user data + non-zero padding
	}
	sack := []byte{byte(ctSack), 0, 0, 16, 0, 0, 0, 9, 0, 1, 0, 0, 0, 0, 0, 0}

	cat := func(parts ...[]byte) []byte {
		var out []byte
		for _, p := range parts {
			out = append(out, p...)
		}

		return out
	}

	decode := func(raw []byte) (*packet, error) {
		p := &packet{}
		err := p.unmarshal(false, raw)

		return p, err
	}

	_, errAlone := decode(cat(hdr, data))
	pFirst, errFirst := decode(cat(hdr, data, sack))
	_, errLast := decode(cat(hdr, sack, data))

	t.Logf("DATA alone        : %v", errAlone)
	t.Logf("DATA then SACK    : %v", errFirst)
	t.Logf("SACK then DATA    : %v", errLast)

	// sanity: when accepted, the DATA chunk decodes to the expected values
	if errFirst == nil {
		require.Len(t, pFirst.chunks, 2)
		d, ok := pFirst.chunks[0].(*chunkPayloadData)
		require.True(t, ok)
		require.Equal(t, uint32(10), d.tsn)
		require.Equal(t, []byte("A"), d.userData)
	}

	// The property: the outcome for the DATA chunk must not depend on what it is bundled with.
	assert.Equal(t, errAlone == nil, errFirst == nil,
		"the same DATA chunk is decoded differently alone (err=%v) and with a SACK bundled behind it (err=%v)",
		errAlone, errFirst)
	assert.Equal(t, errLast == nil, errFirst == nil,
		"the same two chunks are decoded differently depending on their order (SACK,DATA err=%v / DATA,SACK err=%v)",
		errLast, errFirst)
}
