package main

import (
	"fmt"
	"go/constant"
	"go/token"
	"go/types"
	"sort"
	"strings"

	"golang.org/x/tools/go/ssa"
)

func lenOf(f *types.Var, base ssa.Value) VPat {
	return func(v ssa.Value) bool {
		call, ok := unconv(v).(*ssa.Call)
		if !ok {
			return false
		}
		b, ok := call.Call.Value.(*ssa.Builtin)
		return ok && b.Name() == "len" && isFieldLoadOn(f, base)(call.Call.Args[0])
	}
}

// isLoopOrLookupCond: loop bounds, ok-results of queue/map lookups, serial-range tests.
func isLoopOrLookupCond(c *RuleCtx, v ssa.Value) bool {
	switch x := v.(type) {
	case *ssa.Extract:
		return true // ok of get/pop/lookup/next
	case *ssa.Call:
		if sc := x.Call.StaticCallee(); sc != nil && isSnaHelper(c.P.FuncName(sc)) {
			return true
		}
	case *ssa.BinOp:
		if _, isPhi := unconv(x.X).(*ssa.Phi); isPhi {
			return true
		}
		if b2, ok := unconv(x.X).(*ssa.BinOp); ok {
			if _, isPhi := unconv(b2.X).(*ssa.Phi); isPhi {
				return true
			}
		}
	case *ssa.Phi:
		return true
	}
	return false
}

func init() {
	register(&Rule{ID: "C15.R1", Props: []string{"C15"}, Engine: "E2",
		Title:   "the stream's buffered amount has exactly three writers: +len(payload) on write, −len on a failed send, −released (floored at 0) on acknowledgement",
		MinInst: 5,
		Run: func(c *RuleCtx) {
			ba := c.field("Stream", "bufferedAmount")
			c.WritersWithin("amount", ba, "Stream.packetize", "Stream.WriteSCTP", "Stream.onBufferReleased")
			pk := c.Fn("Stream.packetize")
			for _, a := range c.storesIn(pk, ba) {
				okV := false
				if b, ok := a.Val.(*ssa.BinOp); ok && b.Op == token.ADD && IsLoadOf(ba)(b.X) {
					if call, ok := unconv(b.Y).(*ssa.Call); ok {
						if bi, ok := call.Call.Value.(*ssa.Builtin); ok && bi.Name() == "len" && call.Call.Args[0] == ssa.Value(pk.Params[1]) {
							okV = true
						}
					}
				}
				c.Check(okV, "grow-by-write-length", c.Pos(a.Instr), "bufferedAmount += len(raw)", "bufferedAmount does not grow by the written length")
			}
			obr := c.Fn("Stream.onBufferReleased")
			nZ, nS := 0, 0
			for _, a := range c.storesIn(obr, ba) {
				if IsConstInt(0)(a.Val) {
					nZ++
					c.Dom("shrink-floor", a.Instr, CmpCond(token.LSS, IsLoadOf(ba), Derives(IsParam(obr, 1))), "bufferedAmount < released")
				} else {
					nS++
					c.Check(BinV(token.SUB, IsLoadOf(ba), Derives(IsParam(obr, 1)))(a.Val), "shrink-by-released", c.Pos(a.Instr), "bufferedAmount -= released", "bufferedAmount not reduced by the released byte count")
				}
			}
			c.Check(nZ == 1 && nS == 1, "shrink-sites", c.P.Pos(obr.Pos()), "one floor and one subtraction", fmt.Sprintf("floor=%d sub=%d", nZ, nS))
		}})

	register(&Rule{ID: "C15.R2", Props: []string{"C15", "C18"}, Engine: "E5b",
		Title:   "roll-back mirrors consumption (2³ table over interleaving × stream unordered × DCEP/other payload type): the sequence counter a failed write gives back is exactly the one packetize consumed, and the buffered amount is given back too",
		MinInst: 4,
		Run: func(c *RuleCtx) {
			pk := c.Fn("Stream.packetize")
			ws := c.Fn("Stream.WriteSCTP")
			spd := c.Fn("Association.sendPayloadData")
			uI := c.field("Association", "useInterleaving")
			su := c.field("Stream", "unordered")
			ba := c.field("Stream", "bufferedAmount")
			counters := []*types.Var{c.field("Stream", "sequenceNumber"), c.field("Stream", "nextOrderedMID"), c.field("Stream", "nextUnorderedMID")}
			b := func(x bool) constant.Value { return constant.MakeBool(x) }
			storedSet := func(o PEOutcome) string {
				var n []string
				for _, f := range counters {
					if o.Stored[f] {
						n = append(n, f.Name())
					}
				}
				sort.Strings(n)
				return strings.Join(n, ",")
			}
			dcepK := c.P.Const("PayloadTypeWebRTCDCEP")
			if dcepK == nil {
				c.Unresolved("const PayloadTypeWebRTCDCEP")
				return
			}
			for m := 0; m < 8; m++ {
				inter, unord, dcep := m&1 != 0, m&2 != 0, m&4 != 0
				key := fmt.Sprintf("rollback:interleaving=%v,unordered=%v", inter, unord)
				ppiV := constant.MakeInt64(51)
				if dcep {
					// a DCEP message is forced ordered whatever the stream is configured to
					key += ",ppi=DCEP"
					ppiV = dcepK.Val()
				}
				// consumption
				// the fragment loop is unrolled 0, 1 and 2 times per path (PEval's loop bound); a message
				// always has at least one fragment, and every path must consume the same counters
				outsP, und := c.P.PEval(pk, PEConfig{Params: map[int]constant.Value{2: ppiV},
					Fields: map[*types.Var]constant.Value{uI: b(inter), su: b(unord)}, LoopBound: 1,
					Opaque: map[*ssa.Function]bool{c.Fn("min32"): true}})
				if und != "" || len(outsP) == 0 {
					c.Fail(key, c.P.Pos(pk.Pos()), fmt.Sprintf("UNDECIDED (packetize): %s, %d paths", und, len(outsP)))
					continue
				}
				consumed := storedSet(outsP[0])
				agree, charged := true, true
				for _, o := range outsP {
					if storedSet(o) != consumed {
						agree = false
						consumed += " / " + storedSet(o)
					}
					if !o.Stored[ba] {
						charged = false
					}
				}
				if !agree {
					c.Fail(key, c.P.Pos(pk.Pos()), "packetize consumes different counters depending on the number of fragments: {"+consumed+"}")
					continue
				}
				if !charged {
					c.Fail(key, c.P.Pos(pk.Pos()), "packetize does not charge bufferedAmount")
					continue
				}
				// the effective per-message flag packetize reports (and WriteSCTP rolls back by)
				effUnord := unord
				effKnown := true
				for _, o := range outsP {
					if len(o.Ret) < 2 || o.Ret[1] == nil || o.Ret[1].Kind() != constant.Bool {
						effKnown = false
					} else {
						effUnord = constant.BoolVal(o.Ret[1])
					}
				}
				if !effKnown {
					c.Fail(key, c.P.Pos(pk.Pos()), "UNDECIDED: the unordered flag packetize returns does not fold to a constant")
					continue
				}
				// roll-back
				outsW, und2 := c.P.PEval(ws, PEConfig{Fields: map[*types.Var]constant.Value{uI: b(inter)},
					Opaque: map[*ssa.Function]bool{pk: true, spd: true, c.Fn("Association.isBlockWrite"): true, c.Fn("Stream.State"): true, c.Fn("Association.MaxMessageSize"): true},
					BindVal: func(v ssa.Value) (constant.Value, bool) {
						switch x := v.(type) {
						case *ssa.Extract:
							if IsCallOf(pk)(x.Tuple) && x.Index == 1 {
								return b(effUnord), true
							}
						case *ssa.Call:
							switch x.Call.StaticCallee() {
							case spd:
								return peNonNil, true
							case c.Fn("Association.isBlockWrite"):
								return b(false), true
							case c.Fn("Stream.State"):
								return constant.MakeInt64(0), true
							}
						case *ssa.BinOp:
							if x.Op == token.GTR {
								if call, ok := unconv(x.X).(*ssa.Call); ok {
									if bi, ok := call.Call.Value.(*ssa.Builtin); ok && bi.Name() == "len" {
										return b(false), true // not too large
									}
								}
							}
						}
						return nil, false
					}})
				if und2 != "" {
					c.Fail(key, c.P.Pos(ws.Pos()), "UNDECIDED (WriteSCTP): "+und2)
					continue
				}
				// only the paths on which the send was attempted (and failed) matter
				var failed []PEOutcome
				for _, o := range outsW {
					if len(o.Called("Association.sendPayloadData")) == 1 {
						failed = append(failed, o)
					}
				}
				if len(failed) == 0 {
					c.Fail(key, c.P.Pos(ws.Pos()), "no path through WriteSCTP attempts the send")
					continue
				}
				returned := storedSet(failed[0])
				okBA := true
				for _, o := range failed {
					if storedSet(o) != returned {
						returned += " / " + storedSet(o)
					}
					if !o.Stored[ba] {
						okBA = false
					}
				}
				c.Check(consumed == returned && okBA, key, c.P.Pos(ws.Pos()), fmt.Sprintf("consumed {%s} = rolled back {%s}; bufferedAmount rolled back", consumed, returned),
					fmt.Sprintf("packetize consumes {%s} but a failed send gives back {%s} (bufferedAmount rolled back: %v): later messages on the stream get a wrong sequence number", consumed, returned, okBA))
			}
		}})

	register(&Rule{ID: "C15.R3", Props: []string{"C15"}, Engine: "E3",
		Title:   "acknowledged bytes are counted once per chunk: both accumulation sites are dominated by !chunk.acked, a cumulatively acked chunk was emptied when it was gap-acked, and markAsAcked sets the flag, adjusts the queue counter and empties the payload",
		MinInst: 5,
		Run: func(c *RuleCtx) {
			psa := c.Fn("Association.processSelectiveAck")
			acked := c.field("chunkPayloadData", "acked")
			ud := c.field("chunkPayloadData", "userData")
			n := 0
			forEachInstr(psa, func(in ssa.Instruction) {
				mu, ok := in.(*ssa.MapUpdate)
				if !ok {
					return
				}
				if _, isMake := mu.Map.(*ssa.MakeMap); !isMake {
					return
				}
				n++
				if !DominatedByExt(in, BoolCond(IsLoadOf(acked), false)) {
					c.Fail("count-once", c.Pos(in), "bytes accumulated for a chunk that may already be acked (double release)")
				}
			})
			c.Check(n >= 2, "count-once", c.P.Pos(psa.Pos()), fmt.Sprintf("all %d per-stream accumulations (cumulative and gap-ack loops) are dominated by !chunk.acked", n), fmt.Sprintf("%d accumulation sites", n))
			// every newly acknowledged chunk is counted: the only chunk-dependent condition guarding an
			// accumulation is !acked (abandoned chunks are popped too and must be released)
			si := c.field("chunkPayloadData", "streamIdentifier")
			ksx := keyer{}
			forEachInstr(psa, func(in ssa.Instruction) {
				mu, ok := in.(*ssa.MapUpdate)
				if !ok {
					return
				}
				if _, isMake := mu.Map.(*ssa.MakeMap); !isMake {
					return
				}
				var extra []string
				for _, f := range DomFacts(in.Block()) {
					lf, _ := loadedField(f.Cond)
					switch {
					case lf != nil && lf.Name() == "acked":
					case isLoopOrLookupCond(c, f.Cond):
					case isErrNilTest(f.Cond):
						// a validation step that failed returns an error before anything is counted: not a per-chunk condition
					default:
						extra = append(extra, fmt.Sprintf("%s=%v", shortValue(c.P, f.Cond), f.Taken))
					}
				}
				c.Check(len(extra) == 0, ksx.key("count-every-acked-chunk"), c.Pos(in), "guarded only by !acked (and loop / lookup conditions)",
					"an additional condition keeps some acknowledged chunks from being released to their stream: "+strings.Join(extra, ", "))
				// key is the chunk's stream identifier
				c.Check(IsLoadOf(si)(mu.Key), ksx.key("count-keyed-by-stream"), c.Pos(in), "accumulated under chunk.streamIdentifier", "bytes accumulated under a key other than the chunk's stream identifier")
			})
			mk := c.Fn("payloadQueue.markAsAcked")
			nb := c.field("payloadQueue", "nBytes")
			okA, okE, okN := false, false, false
			for _, a := range c.storesIn(mk, acked) {
				if IsConstBool(true)(a.Val) {
					okA = true
				}
			}
			for _, a := range c.storesIn(mk, ud) {
				if ms, ok := a.Val.(*ssa.Slice); ok {
					_ = ms
					okE = true
				}
				if _, ok := a.Val.(*ssa.MakeSlice); ok {
					okE = true
				}
				if al, ok := addrRoot(a.Val).(*ssa.Alloc); ok {
					_ = al
					okE = true
				}
			}
			for _, a := range c.storesIn(mk, nb) {
				if b, ok := a.Val.(*ssa.BinOp); ok && b.Op == token.SUB && IsLoadOf(nb)(b.X) {
					okN = true
				}
			}
			c.Check(okA, "markAsAcked-sets-flag", c.P.Pos(mk.Pos()), "acked = true", "markAsAcked does not set acked")
			c.Check(okE, "markAsAcked-empties-payload", c.P.Pos(mk.Pos()), "userData replaced by an empty slice (a later cumulative ack adds 0 bytes)", "markAsAcked keeps the payload: the cumulative ack would count the bytes again")
			c.Check(okN, "markAsAcked-adjusts-queue", c.P.Pos(mk.Pos()), "queue byte counter reduced", "markAsAcked does not reduce the in-flight byte counter")
			// returned count is len(userData) taken before emptying
			// over all returns: the value is len(userData) on the path where the chunk was found, 0 otherwise
			nLen := 0
			getQ := c.Fn("payloadQueue.get")
			notFound := func(v ssa.Value, t bool) bool {
				ex, ok := v.(*ssa.Extract)
				return ok && ex.Index == 1 && IsCallOf(getQ)(ex.Tuple) && !t
			}
			for _, r := range allReturns(mk) {
				for _, lf := range leavesWithFacts(retResults(r)[0]) {
					switch {
					case lenOf(ud, nil)(lf.Val):
						nLen++
					case IsConstInt(0)(lf.Val):
						// 0 is returned only for a TSN that is not in flight
						okNF := false
						for _, f := range append(append([]condFact{}, lf.Facts...), DomFactsX(r.Block())...) {
							if notFound(f.Cond, f.Taken) {
								okNF = true
							}
						}
						if !okNF {
							nLen = -100
						}
					default:
						nLen = -100
					}
				}
			}
			for _, r := range allReturns(mk)[:1] {
				okR := nLen >= 1
				c.Check(okR, "markAsAcked-returns-bytes", c.Pos(r), "returns len(userData) of the chunk (0 only when the TSN is not in flight)", "markAsAcked returns something other than the chunk's payload length for a chunk it found (e.g. 0 for an abandoned chunk: its bytes are never released to the stream)")
			}
		}})

	register(&Rule{ID: "C15.R4", Props: []string{"C15"}, Engine: "E3",
		Title:   "queue byte counters are paired with queue membership (pending push/pop, in-flight push/pop/markAsAcked by len(userData) of the same chunk) and the association figure is pending + in-flight under the read lock",
		MinInst: 7,
		Run: func(c *RuleCtx) {
			ud := c.field("chunkPayloadData", "userData")
			type spec struct {
				fn, ctr string
				op      token.Token
				chunk   func(fn *ssa.Function) ssa.Value
			}
			param1 := func(fn *ssa.Function) ssa.Value { return fn.Params[1] }
			for _, s := range []spec{
				{"pendingQueue.push", "pendingQueue.nBytes", token.ADD, param1},
				{"pendingQueue.pop", "pendingQueue.nBytes", token.SUB, param1},
				{"payloadQueue.pushNoCheck", "payloadQueue.nBytes", token.ADD, param1},
				{"payloadQueue.pop", "payloadQueue.nBytes", token.SUB, nil},
			} {
				fn := c.Fn(s.fn)
				parts := strings.Split(s.ctr, ".")
				ctr := c.field(parts[0], parts[1])
				ok := false
				for _, a := range c.storesIn(fn, ctr) {
					// the adjustment ctr ± len(userData), possibly clamped (if ctr < 0 {ctr = 0} / max(ctr−len, 0))
					for _, b := range binOpsInSlice(a.Val, s.op, 0) {
						if !IsLoadOf(ctr)(b.X) {
							continue
						}
						var base ssa.Value
						if s.chunk != nil {
							base = s.chunk(fn)
						}
						if lenOf(ud, base)(b.Y) {
							ok = true
						}
					}
				}
				c.Check(ok, "paired:"+s.fn, c.P.Pos(fn.Pos()), fmt.Sprintf("nBytes %s= len(chunk.userData)", s.op), "byte counter not adjusted by the chunk's payload length")
			}
			// pending pop adjusts only after the policy pop succeeded
			pp := c.Fn("pendingQueue.pop")
			for _, a := range c.storesIn(pp, c.field("pendingQueue", "nChunks")) {
				c.Dom("pending-pop-after-success", a.Instr, func(v ssa.Value, t bool) bool {
					b, ok := v.(*ssa.BinOp)
					return ok && isNilConst(b.Y) && ((b.Op == token.NEQ && !t) || (b.Op == token.EQL && t))
				}, "policy.pop err == nil")
			}
			// association figure
			bam := c.Fn("Association.BufferedAmount")
			okSum := false
			for _, r := range allReturns(bam) {
				res := retResults(r)
				if b, ok := res[0].(*ssa.BinOp); ok && b.Op == token.ADD {
					x := IsCallOf(c.Fn("pendingQueue.getNumBytes"))
					y := IsCallOf(c.Fn("payloadQueue.getNumBytes"))
					if (x(b.X) && y(b.Y)) || (x(b.Y) && y(b.X)) {
						okSum = true
					}
				}
			}
			c.Check(okSum, "association-figure", c.P.Pos(bam.Pos()), "BufferedAmount() = pending bytes + in-flight bytes", "association-level figure is not pending + in-flight")
			le := c.P.Locks()
			okL := true
			forEachInstr(bam, func(in ssa.Instruction) {
				if call, ok := in.(*ssa.Call); ok && (call.Call.StaticCallee() == c.Fn("pendingQueue.getNumBytes") || call.Call.StaticCallee() == c.Fn("payloadQueue.getNumBytes")) {
					for _, ls := range le.HeldAt(in) {
						if !le.Holds(ls, "Association.lock", false) {
							okL = false
						}
					}
				}
			})
			c.Check(okL, "association-figure-locked", c.P.Pos(bam.Pos()), "both counters are read under Association.lock", "counters read without the association lock")
		}})

	register(&Rule{ID: "C15.R5", Props: []string{"C15", "C20"}, Engine: "E4",
		Title:   "the buffered-amount-low callback runs with no internal lock held, in every calling context",
		MinInst: 2,
		Run: func(c *RuleCtx) {
			le := c.P.Locks()
			cb := c.field("Stream", "onBufferedAmountLow")
			n := 0
			ks := keyer{}
			for _, fn := range c.P.Funcs {
				forEachInstr(fn, func(in ssa.Instruction) {
					ci, ok := in.(ssa.CallInstruction)
					if !ok || ci.Common().IsInvoke() || ci.Common().StaticCallee() != nil {
						return
					}
					if _, isB := ci.Common().Value.(*ssa.Builtin); isB {
						return
					}
					// the callee value derives from a load of Stream.onBufferedAmountLow
					if !Derives(IsLoadOf(cb))(ci.Common().Value) {
						return
					}
					n++
					held := le.HeldAt(in)
					c.Check(len(held) > 0, ks.key("callback-reached@"+c.P.FuncName(fn)), c.Pos(in), fmt.Sprintf("callback site analysed in %d calling context(s)", len(held)), "callback site not reachable in the lock analysis")
					for ctx, ls := range held {
						c.Check(ls == 0, ks.key("callback-lock-free@"+c.P.FuncName(fn)), c.Pos(in), "no internal lock held: "+le.Witness(fn, ctx),
							"user callback invoked while holding "+le.String(ls)+" via "+le.Witness(fn, ctx)+": a callback that calls back into the stream/association deadlocks")
					}
				})
			}
			c.Check(n >= 1, "callback-sites", "", "one invocation site of onBufferedAmountLow", fmt.Sprintf("%d invocation sites", n))
		}})

	register(&Rule{ID: "C15.R6", Props: []string{"C15"}, Engine: "E3",
		Title:   "the callback fires on a downward crossing of the threshold, and every stream with newly acknowledged bytes is notified",
		MinInst: 4,
		Run: func(c *RuleCtx) {
			obr := c.Fn("Stream.onBufferReleased")
			ba := c.field("Stream", "bufferedAmount")
			low := c.field("Stream", "bufferedAmountLow")
			cb := c.field("Stream", "onBufferedAmountLow")
			forEachInstr(obr, func(in ssa.Instruction) {
				ci, ok := in.(ssa.CallInstruction)
				if !ok || ci.Common().StaticCallee() != nil || ci.Common().IsInvoke() {
					return
				}
				if _, isB := ci.Common().Value.(*ssa.Builtin); isB {
					return
				}
				c.Dom("fires-if-set", in, CmpCond(token.NEQ, IsLoadOf(cb), isNilConst), "callback != nil")
				c.Dom("fires-from-above", in, CmpCond(token.GTR, IsLoadOf(ba), IsLoadOf(low)), "amount before > threshold")
				c.Dom("fires-to-at-or-below", in, CmpCond(token.LEQ, IsLoadOf(ba), IsLoadOf(low)), "amount after <= threshold")
				// 'before' is loaded before the subtraction, 'after' after it
				var before, after ssa.Instruction
				for _, f := range DomFacts(in.Block()) {
					if b, ok := f.Cond.(*ssa.BinOp); ok {
						if b.Op == token.GTR && IsLoadOf(ba)(b.X) {
							before = b.X.(ssa.Instruction)
						}
						if b.Op == token.LEQ && IsLoadOf(ba)(b.X) {
							after = b.X.(ssa.Instruction)
						}
					}
				}
				okOrder := before != nil && after != nil
				if okOrder {
					for _, a := range c.storesIn(obr, ba) {
						if !CanReach(before, a.Instr) || !CanReach(a.Instr, after) {
							okOrder = false
						}
					}
				}
				c.Check(okOrder, "crossing-order", c.Pos(in), "the 'before' value is read before and the 'after' value after the update", "crossing test does not compare the amounts before and after the update")
				// nothing else decides: the only conditions on the way to the callback are the three above and nBytesReleased > 0
				var extra []string
				for _, f := range DomFacts(in.Block()) {
					switch {
					case CmpCond(token.NEQ, IsLoadOf(cb), isNilConst)(f.Cond, f.Taken):
					case CmpCond(token.GTR, IsLoadOf(ba), IsLoadOf(low))(f.Cond, f.Taken):
					case CmpCond(token.LEQ, IsLoadOf(ba), IsLoadOf(low))(f.Cond, f.Taken):
					case CmpCond(token.GTR, IsParam(obr, 1), IsConstInt(0))(f.Cond, f.Taken):
					case phiExplainedBy(f.Cond, DomFacts(in.Block())):
					case nilTestOfPhiFrom(f.Cond, f.Taken, IsLoadOf(cb)):
					default:
						extra = append(extra, fmt.Sprintf("%s=%v", shortValue(c.P, f.Cond), f.Taken))
					}
				}
				c.Check(len(extra) == 0, "fires-no-extra-guard", c.Pos(in), "no other condition can suppress a crossing's callback", "additional condition(s) can suppress the callback on a downward crossing: "+strings.Join(extra, ", "))
			})
			pa := c.Fn("Association.processAcknowledgement")
			okAll := false
			// the map of per-stream totals: result 0 of processSelectiveAck, possibly handed to a private helper
			isTotals := func(v ssa.Value) bool {
				for d := 0; d < 3 && v != nil; d++ {
					if ex, ok := v.(*ssa.Extract); ok && IsCallOf(c.Fn("Association.processSelectiveAck"))(ex.Tuple) && ex.Index == 0 {
						return true
					}
					p, ok := v.(*ssa.Parameter)
					if !ok {
						return false
					}
					v = through(p)
				}
				return false
			}
			releaseCalls := callsInDeep(pa, obr, 1)
			for _, oc := range releaseCalls {
				if len(loopBlocks(oc.Block())) > 0 {
					forEachInstr(oc.Parent(), func(in ssa.Instruction) {
						if rg, ok := in.(*ssa.Range); ok && isTotals(rg.X) {
							okAll = true
						}
					})
				}
			}
			c.Check(okAll, "every-stream-notified", c.P.Pos(pa.Pos()), "onBufferReleased is called for every entry of bytesAckedPerStream", "not every stream with acknowledged bytes is notified")
			// each stream is released by its own share: s = a.streams[k], amount = v of the same map iteration
			streamsF := c.field("Association", "streams")
			for _, oc := range releaseCalls {
				amt, isEx := callArg(oc, 1).(*ssa.Extract)
				okShare := false
				if isEx && amt.Index == 2 {
					if nx, isNext := amt.Tuple.(*ssa.Next); isNext {
						if rg, isRg := nx.Iter.(*ssa.Range); isRg {
							if isTotals(rg.X) {
								// receiver: lookup in a.streams with the key of the same Next
								recv := callArg(oc, 0)
								if rex, ok := recv.(*ssa.Extract); ok {
									if lk, ok := rex.Tuple.(*ssa.Lookup); ok && IsLoadOf(streamsF)(lk.X) {
										if kx, ok := lk.Index.(*ssa.Extract); ok && kx.Tuple == ssa.Value(nx) && kx.Index == 1 {
											okShare = true
										}
									}
								}
							}
						}
					}
				}
				c.Check(okShare, "release-own-share", c.Pos(oc), "streams[k].onBufferReleased(v) with k, v from the same bytesAckedPerStream entry",
					"a stream is released by an amount that is not its own entry of bytesAckedPerStream (e.g. the SACK total): per-stream figures stop adding up and the low-threshold callback fires at the wrong time")
			}
		}})
}

// phiExplainedBy: cond is a boolean φ (a && / || chain) all of whose non-constant
// inputs are themselves among the facts (so they are judged individually).
func phiExplainedBy(cond ssa.Value, facts []condFact) bool {
	phi, ok := cond.(*ssa.Phi)
	if !ok {
		return false
	}
	for _, e := range phi.Edges {
		if _, isK := e.(*ssa.Const); isK {
			continue
		}
		found := false
		for _, f := range facts {
			if f.Cond == e {
				found = true
			}
		}
		if !found {
			return false
		}
	}
	return true
}

// nilTestOfPhiFrom: cond is "φ != nil" (taken) where every non-nil input of φ
// matches pat — the value was picked up earlier and is tested later.
func nilTestOfPhiFrom(cond ssa.Value, taken bool, pat VPat) bool {
	b, ok := cond.(*ssa.BinOp)
	if !ok || (b.Op != token.NEQ && b.Op != token.EQL) || (b.Op == token.NEQ) != taken {
		return false
	}
	phi, ok := b.X.(*ssa.Phi)
	if !ok || !isNilConst(b.Y) {
		return false
	}
	n := 0
	for _, e := range phi.Edges {
		if isNilConst(e) {
			continue
		}
		if !pat(e) {
			return false
		}
		n++
	}
	return n > 0
}

// binOpsInSlice: binary operations with operator op in the value's backward
// slice through conversions, φ and the min/max builtins.
func binOpsInSlice(v ssa.Value, op token.Token, d int) []*ssa.BinOp {
	if d > 5 || v == nil {
		return nil
	}
	switch x := unconv(v).(type) {
	case *ssa.BinOp:
		if x.Op == op {
			return []*ssa.BinOp{x}
		}
	case *ssa.Phi:
		var out []*ssa.BinOp
		for _, e := range x.Edges {
			out = append(out, binOpsInSlice(e, op, d+1)...)
		}
		return out
	case *ssa.Call:
		if b, ok := x.Call.Value.(*ssa.Builtin); ok && (b.Name() == "max" || b.Name() == "min") {
			var out []*ssa.BinOp
			for _, a := range x.Call.Args {
				out = append(out, binOpsInSlice(a, op, d+1)...)
			}
			return out
		}
	}
	return nil
}

// isErrNilTest: the condition compares an error value with nil.
func isErrNilTest(v ssa.Value) bool {
	b, ok := v.(*ssa.BinOp)
	if !ok || (b.Op != token.EQL && b.Op != token.NEQ) {
		return false
	}
	return (isNilConst(b.Y) && b.X.Type().String() == "error") || (isNilConst(b.X) && b.Y.Type().String() == "error")
}
