package main

import (
	"fmt"
	"go/token"
	"go/types"

	"golang.org/x/tools/go/ssa"
)

// sideEffectCalls: calls in fn (not logging) that change receive/ack state.
func (c *RuleCtx) effectSites(fn *ssa.Function) []ssa.Instruction {
	e, _ := c.P.States()
	run := e.Run(fn, e.all)
	var out []ssa.Instruction
	for _, ef := range c.P.EffectsOf(run.Reach) {
		if ef.Instr.Parent() == fn {
			out = append(out, ef.Instr)
		}
	}
	// plus direct calls to in-package functions that have effects
	forEachInstr(fn, func(in ssa.Instruction) {
		ci, ok := in.(ssa.CallInstruction)
		if !ok {
			return
		}
		sc := ci.Common().StaticCallee()
		if sc == nil || !c.P.inPkg(sc) || sc.Blocks == nil {
			return
		}
		sub := e.Run(sc, e.all)
		if len(c.P.EffectsOf(sub.Reach)) > 0 {
			out = append(out, in)
		}
	})
	return out
}

func init() {
	register(&Rule{ID: "C17.R2", Props: []string{"C17"}, Engine: "E3+E5",
		Title:   "a chunk of the wrong kind is answered with a protocol-violation ABORT and has no other effect: DATA vs I-DATA against the negotiated mode, FORWARD-TSN with interleaving, I-FORWARD-TSN without it",
		MinInst: 9,
		Run: func(c *RuleCtx) {
			apv := c.Fn("Association.abortProtocolViolation")
			uI := c.field("Association", "useInterleaving")
			uIF := c.field("Association", "useIForwardTSN")
			isI := c.Fn("chunkPayloadData.isIData")
			type tc struct {
				fn     string
				wrong  CondPat // established fact on the wrong-kind edge
				right  CondPat
				findIf func(*ssa.If) (bool, int) // recognise the test, return wrong-kind successor index
				what   string
			}
			cases := []tc{
				{"Association.handleData",
					CmpCond(token.NEQ, IsCallOf(isI), IsLoadOf(uI)), CmpCond(token.EQL, IsCallOf(isI), IsLoadOf(uI)),
					func(i *ssa.If) (bool, int) {
						b, ok := i.Cond.(*ssa.BinOp)
						if ok && b.Op == token.NEQ && IsCallOf(isI)(b.X) && IsLoadOf(uI)(b.Y) {
							return true, 0
						}
						return false, 0
					}, "isIData() != useInterleaving"},
				{"Association.handleForwardTSN", BoolCond(IsLoadOf(uI), true), BoolCond(IsLoadOf(uI), false),
					func(i *ssa.If) (bool, int) { return IsLoadOf(uI)(i.Cond), 0 }, "useInterleaving"},
				{"Association.handleIForwardTSN", BoolCond(IsLoadOf(uIF), false), BoolCond(IsLoadOf(uIF), true),
					func(i *ssa.If) (bool, int) {
						v, t := normCond(i.Cond, true)
						if IsLoadOf(uIF)(v) {
							if t {
								return true, 1
							}
							return true, 0
						}
						return false, 0
					}, "!useIForwardTSN"},
			}
			for _, t := range cases {
				fn := c.Fn(t.fn)
				var test *ssa.If
				wrongIdx := 0
				forEachInstr(fn, func(in ssa.Instruction) {
					if ifi, ok := in.(*ssa.If); ok && test == nil {
						if m, idx := t.findIf(ifi); m {
							test, wrongIdx = ifi, idx
						}
					}
				})
				viaHelperOutcome := false
				if test == nil {
					// the test may live in a helper: an If on a helper's result one outcome of which implies the
					// wrong-kind fact and the other the right-kind fact
					forEachInstr(fn, func(in ssa.Instruction) {
						ifi, ok := in.(*ssa.If)
						if !ok || test != nil {
							return
						}
						for idx := 0; idx < 2; idx++ {
							cw, tw := normCond(ifi.Cond, idx == 0)
							cr, tr := normCond(ifi.Cond, idx != 0)
							impliesW, impliesR := false, false
							for _, f := range helperCondFacts(cw, tw, 0, map[*ssa.BasicBlock]bool{}) {
								if t.wrong(f.Cond, f.Taken) {
									impliesW = true
								}
							}
							for _, f := range helperCondFacts(cr, tr, 0, map[*ssa.BasicBlock]bool{}) {
								if t.right(f.Cond, f.Taken) {
									impliesR = true
								}
							}
							if impliesW && impliesR {
								test, wrongIdx, viaHelperOutcome = ifi, idx, true
							}
						}
					})
				}
				if test == nil {
					c.Fail("wrong-kind-test@"+t.fn, c.P.Pos(fn.Pos()), "test '"+t.what+"' not found")
					continue
				}
				ok, bad := MustPassFromBlock(test.Block().Succs[wrongIdx], c.P.CallTargetPred(0, apv), PathOpts{})
				if !ok && viaHelperOutcome {
					cw, tw := normCond(test.Cond, wrongIdx == 0)
					ok = helperOutcomePasses(cw, tw, c.P.CallTargetPred(0, apv))
				}
				c.Check(ok, "wrong-kind-aborts@"+t.fn, c.Pos(test), "wrong kind ⇒ abortProtocolViolation on every path", "a wrong-kind path does not abort: "+c.P.InstrPos(bad))
				// on the wrong-kind edge nothing but the abort (and return) is reachable
				okQuiet := true
				badSite := ""
				wrongStart := test.Block().Succs[wrongIdx]
				for _, s := range c.effectSites(fn) {
					if ci, isCall := s.(ssa.CallInstruction); isCall && ci.Common().StaticCallee() == apv {
						continue
					}
					if s.Block() == wrongStart || CanReach(wrongStart.Instrs[0], s) {
						// reachable from the wrong-kind edge: allowed only if also dominated by the right-kind fact (cannot be)
						if !DominatedByExt(s, t.right) {
							okQuiet = false
							badSite = c.Pos(s)
						}
					}
				}
				c.Check(okQuiet, "wrong-kind-no-effect@"+t.fn, c.Pos(test), "no receive-queue / stream / ack effect is reachable on the wrong-kind edge", "an effect is reachable after a wrong-kind chunk at "+badSite)
				// every effect after the test is on the right-kind side
				n := 0
				for _, s := range c.effectSites(fn) {
					if ci, isCall := s.(ssa.CallInstruction); isCall && ci.Common().StaticCallee() == apv {
						continue
					}
					if !CanReach(test, s) {
						continue
					}
					n++
					if !DominatedByExt(s, t.right) {
						c.Fail("effect-needs-right-kind@"+t.fn, c.Pos(s), "effect not dominated by the right-kind outcome of '"+t.what+"'")
					}
				}
				c.Check(n >= 1, "effects-guarded@"+t.fn, c.Pos(test), fmt.Sprintf("%d effect sites after the test, all on the right-kind side", n), "no effect sites found after the test")
			}
		}})

	register(&Rule{ID: "C17.R3", Props: []string{"C17"}, Engine: "E2+E3",
		Title:   "framing follows the negotiated flag: chunks are built with iData = useInterleaving, encoded as I-DATA iff isIData(), sized with the matching header",
		MinInst: 6,
		Run: func(c *RuleCtx) {
			pk := c.Fn("Stream.packetize")
			uI := c.field("Association", "useInterleaving")
			iD := c.field("chunkPayloadData", "iData")
			st := c.storesIn(pk, iD)
			c.Check(len(st) == 1 && IsLoadOf(uI)(st[0].Val), "chunk-kind-from-negotiation", c.P.Pos(pk.Pos()), "chunk.iData <- association.useInterleaving", "chunk kind not taken from the negotiated flag")
			m := c.Fn("chunkPayloadData.marshal")
			isI := c.Fn("chunkPayloadData.isIData")
			typ := c.field("chunkHeader", "typ")
			ctI, ctD := c.P.Const("ctIData"), c.P.Const("ctPayloadData")
			for _, a := range c.storesIn(m, typ) {
				k, _ := constInt(a.Val)
				switch fmt.Sprint(k) {
				case ctI.Val().String():
					c.Dom("encode-idata-iff", a.Instr, CallCond(isI, true), "isIData()")
				case ctD.Val().String():
					c.Dom("encode-data-iff", a.Instr, CallCond(isI, false), "!isIData()")
				default:
					c.Fail("encode-kind", c.Pos(a.Instr), "unexpected chunk type stored by the DATA encoder")
				}
			}
			cs := c.Fn("chunkPayloadData.chunkSize")
			for _, r := range allReturns(cs) {
				b, ok := r.Results[0].(*ssa.BinOp)
				if !ok {
					continue
				}
				k, _ := constInt(b.X)
				if k == 20 {
					c.Dom("size-idata", r, CallCond(isI, true), "isIData()")
				} else if k == 16 {
					c.Dom("size-data", r, CallCond(isI, false), "!isIData()")
				}
			}
			// isIData = iData || typ == ctIData
			okI := false
			forEachInstr(isI, func(in ssa.Instruction) {
				if v, ok := in.(ssa.Value); ok && IsLoadOf(iD)(v) {
					okI = true
				}
			})
			c.Check(okI, "isIData-reads-flag", c.P.Pos(isI.Pos()), "isIData() consults the chunk's iData flag", "isIData no longer consults iData")
		}})

	register(&Rule{ID: "C17.R4", Props: []string{"C17"}, Engine: "E3",
		Title:   "the pending queue switches between message mode and interleaving mode only while empty",
		MinInst: 3,
		Run: func(c *RuleCtx) {
			si := c.Fn("pendingQueue.setInterleaving")
			nC := c.field("pendingQueue", "nChunks")
			n := 0
			for _, f := range []string{"policy", "interleaving"} {
				for _, a := range c.storesInRegion(si, c.field("pendingQueue", f)) {
					n++
					c.Dom(fmt.Sprintf("switch-when-empty:%s#%d", f, n), a.Instr, CmpCond(token.EQL, IsLoadOf(nC), IsConstInt(0)), "nChunks == 0")
				}
			}
			c.Check(n >= 3, "switch-sites", c.P.Pos(si.Pos()), fmt.Sprintf("%d mode-changing stores", n), "mode-changing stores missing")
			c.WritersWithin("policy", c.field("pendingQueue", "policy"), "pendingQueue.setInterleaving", "newPendingQueue")
			c.CallersWithin("switch", si, "Association.updateInterleavingState")
		}})

	register(&Rule{ID: "C17.R5", Props: []string{"C17"}, Engine: "E1-sibling",
		Title:   "sibling queue policies agree: every pop implementation checks that the chunk it removed is the chunk the caller peeked, and reports an error otherwise",
		MinInst: 4,
		Run: func(c *RuleCtx) {
			for _, fname := range []string{"messagePendingQueuePolicy.popSelected", "messagePendingQueuePolicy.popNewSelection", "roundRobinPendingQueuePolicy.Pop", "weightedFairQueueingPendingQueuePolicy.Pop"} {
				fn := c.Fn(fname)
				ok := false
				// (the comparison may sit in a private helper that pops and checks: popFrom(unordered, expected) error)
				{
					forEachInstrDeep(c.P, fn, 1, func(in ssa.Instruction) {
						ifi, isIf := in.(*ssa.If)
						if !isIf {
							return
						}
						b, isB := ifi.Cond.(*ssa.BinOp)
						if !isB || b.Op != token.NEQ {
							return
						}
						// the removed chunk: a pop() result, possibly handed back by a private helper (popFrom(...) → q.x.pop(), err)
						var leaves []ssa.Value
						var expand func(v ssa.Value, d int)
						expand = func(v ssa.Value, d int) {
							for _, l := range phiLeaves(v) {
								x := unconv(l.Val)
								if d < 3 {
									if ex, isEx := x.(*ssa.Extract); isEx {
										if call, isCall := ex.Tuple.(*ssa.Call); isCall {
											if rs := helperReturns(call, ex.Index); rs != nil {
												for _, r := range rs {
													expand(r, d+1)
												}
												continue
											}
										}
									}
								}
								leaves = append(leaves, x)
							}
						}
						expand(b.X, 0)
						if len(leaves) == 0 {
							return
						}
						for _, l := range leaves {
							if !IsCallOf(c.Fn("pendingBaseQueue.pop"))(l) {
								return
							}
						}
						// true edge returns a non-nil error
						for _, x := range ifi.Block().Succs[0].Instrs {
							if r, isRet := x.(*ssa.Return); isRet {
								res := retResults(r)
								if len(res) == 1 && !isNilConst(res[0]) {
									ok = true
								}
							}
						}
					})
				}
				c.Check(ok, "pop-checks-identity@"+fname, c.P.Pos(fn.Pos()), "popped != requested ⇒ error", "pop does not verify that it removed the peeked chunk")
			}
			// pendingQueue.pop adjusts counters only on success (C15.R4) and movePending… logs the error
		}})

	register(&Rule{ID: "C17.R6", Props: []string{"C17", "C01"}, Engine: "E3",
		Title:   "without interleaving a message stays selected until its last fragment: the selection is dropped only on an ending fragment, taken only on a non-ending one, and peek serves the selected queue first",
		MinInst: 4,
		Run: func(c *RuleCtx) {
			sel := c.field("messagePendingQueuePolicy", "selected")
			ef := c.field("chunkPayloadData", "endingFragment")
			for _, fname := range []string{"messagePendingQueuePolicy.popSelected", "messagePendingQueuePolicy.popNewSelection"} {
				fn := c.Fn(fname)
				for _, a := range c.storesIn(fn, sel) {
					if IsConstBool(false)(a.Val) {
						c.Dom("deselect-on-last-fragment@"+fname, a.Instr, BoolCond(IsLoadOf(ef), true), "popped.endingFragment")
					} else if IsConstBool(true)(a.Val) {
						c.Dom("select-on-unfinished@"+fname, a.Instr, BoolCond(IsLoadOf(ef), false), "!popped.endingFragment")
					}
				}
			}
			c.WritersWithin("selection", sel, "messagePendingQueuePolicy.popSelected", "messagePendingQueuePolicy.popNewSelection")
			pk := c.Fn("messagePendingQueuePolicy.peek")
			// under selected==true peek returns only from the selected queue
			n := 0
			for _, r := range allReturns(pk) {
				if DominatedByExt(r, BoolCond(IsLoadOf(sel), true)) {
					n++
				}
			}
			c.Check(n >= 1, "peek-serves-selection", c.P.Pos(pk.Pos()), "while a message is selected peek returns from its queue (ordered/unordered)", fmt.Sprintf("%d returns under selected", n))
			// a new selection requires a beginning fragment
			pp := c.Fn("messagePendingQueuePolicy.pop")
			bf := c.field("chunkPayloadData", "beginningFragment")
			for _, nc := range callsIn(pp, c.Fn("messagePendingQueuePolicy.popNewSelection")) {
				c.Dom("new-selection-needs-B", nc, BoolCond(IsLoadOf(bf), true), "chunk.beginningFragment")
				c.Dom("new-selection-when-none", nc, BoolCond(IsLoadOf(sel), false), "!selected")
			}
		}})

	register(&Rule{ID: "C17.R7", Props: []string{"C17", "C04"}, Engine: "E3",
		Title:   "the peer's capabilities are recomputed from every INIT / INIT-ACK: each peer flag is unconditionally reset before the parameters are parsed, so a later handshake packet without the extension really turns it off",
		MinInst: 6,
		Run: func(c *RuleCtx) {
			upd := c.Fn("Association.updateInterleavingState")
			for _, hn := range []string{"Association.handleInit", "Association.handleInitAck"} {
				fn := c.Fn(hn)
				calls := callsIn(fn, upd)
				if len(calls) != 1 {
					c.Fail("negotiation-finalised@"+hn, c.P.Pos(fn.Pos()), fmt.Sprintf("%d updateInterleavingState calls", len(calls)))
					continue
				}
				for _, fname := range []string{"peerInterleaving", "peerForwardTSN", "peerIForwardTSN"} {
					f := c.field("Association", fname)
					ok := false
					// a dominating store whose value does not depend on the old flag; callees count if they always store it
					forEachInstr(fn, func(in ssa.Instruction) {
						if !InstrDominates(in, calls[0]) {
							return
						}
						switch x := in.(type) {
						case *ssa.Store:
							if fieldOfAddr(x.Addr) == f && !Derives(IsLoadOf(f))(x.Val) {
								ok = true
							}
						case *ssa.Call:
							if sc := x.Call.StaticCallee(); sc != nil && c.P.inPkg(sc) && sc.Blocks != nil {
								// callee stores f on every path, independent of the old value
								if entryMustPass(sc, func(y ssa.Instruction) bool {
									st, isSt := y.(*ssa.Store)
									return isSt && fieldOfAddr(st.Addr) == f && !Derives(IsLoadOf(f))(st.Val)
								}) {
									ok = true
								}
							}
						}
					})
					c.Check(ok, "peer-flag-reset:"+fname+"@"+hn, c.P.Pos(fn.Pos()), "flag is unconditionally (re)set before negotiation is finalised",
						"flag "+fname+" keeps its value from an earlier handshake packet when this one does not carry the extension: the two sides can end up with different framing")
				}
			}
		}})

	register(&Rule{ID: "C17.R8", Props: []string{"C17"}, Engine: "E3-shape",
		Title:   "scheduler tag arithmetic (a necessary condition of the fairness clauses, which are themselves not decided): WFQ stamps a chunk with max(virtualTime, streamFinish)+len/weight, serves the smallest finish tag and advances virtual time monotonically; round-robin rotates the served stream to the back of the order",
		MinInst: 6,
		Run: func(c *RuleCtx) {
			push := c.Fn("weightedFairQueueingPendingQueuePolicy.Push")
			vt := c.field("weightedFairQueueingPendingQueuePolicy", "virtualTime")
			sf := c.field("weightedFairQueueingPendingQueuePolicy", "streamFinish")
			// start := math.Max(q.virtualTime, q.streamFinish[id])
			var start ssa.Value
			forEachInstr(push, func(in ssa.Instruction) {
				if call, ok := isMathCall(valueOf(in), "Max"); ok {
					a0, a1 := call.Call.Args[0], call.Call.Args[1]
					isFin := func(v ssa.Value) bool {
						lk, ok := v.(*ssa.Lookup)
						return ok && IsLoadOf(sf)(lk.X)
					}
					if (IsLoadOf(vt)(a0) && isFin(a1)) || (IsLoadOf(vt)(a1) && isFin(a0)) {
						start = call
					}
				}
			})
			if start == nil {
				// conditional form: start := virtualTime; if f := streamFinish[id]; f > start { start = f }
				isFin := func(v ssa.Value) bool {
					lk, ok := v.(*ssa.Lookup)
					return ok && IsLoadOf(sf)(lk.X)
				}
				forEachInstr(push, func(in ssa.Instruction) {
					phi, ok := in.(*ssa.Phi)
					if !ok || len(phi.Edges) != 2 {
						return
					}
					for i := 0; i < 2; i++ {
						a, b := phi.Edges[i], phi.Edges[1-i]
						if !IsLoadOf(vt)(a) || !isFin(b) {
							continue
						}
						// the edge carrying the finish tag is taken only when it is the larger
						pred := phi.Block().Preds[1-i]
						facts := DomFacts(pred)
						if len(pred.Instrs) > 0 {
							if ifi, isIf := pred.Instrs[len(pred.Instrs)-1].(*ssa.If); isIf && pred.Succs[0] != pred.Succs[1] {
								cc, tt := normCond(ifi.Cond, pred.Succs[0] == phi.Block())
								facts = append(facts, condFact{cc, tt})
							}
						}
						for _, f := range facts {
							if CmpCond(token.GTR, IsValue(b), IsValue(a))(f.Cond, f.Taken) || CmpCond(token.GEQ, IsValue(b), IsValue(a))(f.Cond, f.Taken) {
								start = phi
							}
						}
					}
				})
			}
			c.Check(start != nil, "wfq-start-tag", c.P.Pos(push.Pos()), "start = max(virtualTime, streamFinish[stream])", "WFQ start tag is not max(virtualTime, streamFinish[stream]): a stream returning from idle keeps stale tags and starves backlogged streams")
			// finish = start + len/weight stored to both maps
			okFin := false
			forEachInstr(push, func(in ssa.Instruction) {
				mu, ok := in.(*ssa.MapUpdate)
				if !ok || !IsLoadOf(sf)(mu.Map) {
					return
				}
				if b, ok := mu.Value.(*ssa.BinOp); ok && b.Op == token.ADD && start != nil && b.X == start {
					if q, ok := b.Y.(*ssa.BinOp); ok && q.Op == token.QUO {
						okFin = true
					}
				}
			})
			c.Check(okFin, "wfq-finish-tag", c.P.Pos(push.Pos()), "streamFinish[stream] = start + len/weight", "WFQ finish tag is not start + len/weight")
			// weight defaults to 1: every value the divisor can take is a non-zero constant or was tested != 0
			okW := false
			forEachInstr(push, func(in ssa.Instruction) {
				q, ok := in.(*ssa.BinOp)
				if !ok || q.Op != token.QUO {
					return
				}
				if bt, isB := q.Type().Underlying().(*types.Basic); !isB || bt.Info()&types.IsFloat == 0 {
					return
				}
				okW = divisorNonZero(q.Y)
			})
			c.Check(okW, "wfq-weight-default", c.P.Pos(push.Pos()), "an unset weight counts as 1", "zero weight is not defaulted (division by zero → +Inf tags)")
			pop := c.Fn("weightedFairQueueingPendingQueuePolicy.Pop")
			okV := false
			for _, a := range c.storesIn(pop, vt) {
				if clockMovesForward(a, vt) {
					okV = true
				}
			}
			c.Check(okV, "wfq-virtual-time-monotone", c.P.Pos(pop.Pos()), "virtualTime = max(virtualTime, finish of the served chunk)", "virtual time can move backwards")
			// every writer of the virtual clock keeps it monotone w.r.t. the stored finish tags:
			// max(virtualTime, …), or a reset to 0 together with fresh tag maps
			ksV := keyer{}
			for _, fn := range c.P.Funcs {
				for _, a := range c.storesIn(fn, vt) {
					okM := false
					if clockMovesForward(a, vt) {
						okM = true
					}
					if k, ok := a.Val.(*ssa.Const); ok && k.Value != nil && k.Value.String() == "0" {
						fresh := false
						for _, b := range c.storesIn(fn, sf) {
							if _, isMk := b.Val.(*ssa.MakeMap); isMk && b.Instr.Block() == a.Instr.Block() {
								fresh = true
							}
						}
						okM = fresh
					}
					c.Check(okM, ksV.key("wfq-clock-writer@"+c.P.FuncName(fn)), c.Pos(a.Instr), "virtual time only moves forward, or is reset together with the per-stream finish tags",
						"the virtual clock is set back while per-stream finish tags are kept: a stream that was active before starts behind a fresh one by its whole earlier service and is starved")
				}
			}
			peek := c.Fn("weightedFairQueueingPendingQueuePolicy.Peek")
			okMin := false
			// the rank of a stream is the finish tag of its HEAD chunk: chunkFinish[streamQueue.get(0)]
			cf := c.field("weightedFairQueueingPendingQueuePolicy", "chunkFinish")
			getFn := c.Fn("pendingBaseQueue.get")
			forEachInstr(peek, func(in ssa.Instruction) {
				if b, ok := in.(*ssa.BinOp); ok && b.Op == token.LSS {
					if lk, isLk := unconv(b.X).(*ssa.Lookup); isLk && IsLoadOf(cf)(lk.X) {
						if call, isCall := isCallTo(unconv(lk.Index), getFn); isCall && IsConstInt(0)(call.Call.Args[1]) {
							okMin = true
						}
					}
				}
			})
			c.Check(okMin, "wfq-serves-min-finish", c.P.Pos(peek.Pos()), "Peek selects the smallest finish tag among the streams' head chunks", "Peek does not rank streams by the finish tag of their head chunk (chunkFinish[queue.get(0)]): with a backlog deeper than one chunk a stream is served until it drains")
			// round robin
			rr := c.Fn("roundRobinPendingQueuePolicy.Pop")
			so := c.field("roundRobinPendingQueuePolicy", "streamOrder")
			nFront, nBack := 0, 0
			for _, a := range c.storesIn(rr, so) {
				if sl, ok := a.Val.(*ssa.Slice); ok && sl.Low != nil && IsConstInt(1)(sl.Low) {
					nFront++
				}
				if call, ok := a.Val.(*ssa.Call); ok {
					if b, ok := call.Call.Value.(*ssa.Builtin); ok && b.Name() == "append" {
						nBack++
						sz := IsCallOf(c.Fn("pendingBaseQueue.size"))
						okB := DominatedByExt(a.Instr, CmpCond(token.GTR, sz, IsConstInt(0))) || DominatedByExt(a.Instr, CmpCond(token.NEQ, sz, IsConstInt(0))) || DominatedByExt(a.Instr, CmpCond(token.GEQ, sz, IsConstInt(1)))
						c.Check(okB, "rr-requeue-if-backlogged", c.Pos(a.Instr), "dominated by stream still has queued chunks", "the served stream re-enters the order although it has nothing queued ("+c.describeConds(a.Instr)+")")
					}
				}
			}
			c.Check(nFront == 1 && nBack == 1, "rr-rotates", c.P.Pos(rr.Pos()), "served stream leaves the front and re-enters at the back", fmt.Sprintf("rotation changed: front=%d back=%d", nFront, nBack))
			sel := c.field("roundRobinPendingQueuePolicy", "streamSelected")
			okClr := false
			for _, a := range c.storesIn(rr, sel) {
				if IsConstBool(false)(a.Val) {
					okClr = true
				}
			}
			c.Check(okClr, "rr-one-chunk-per-turn", c.P.Pos(rr.Pos()), "the selection is dropped after every chunk", "a stream keeps the turn for more than one chunk")
		}})
}

func valueOf(in ssa.Instruction) ssa.Value {
	if v, ok := in.(ssa.Value); ok {
		return v
	}
	return nil
}

// divisorNonZero: every value v can take (through φ and helper returns) is a
// non-zero constant, or a value whose "== 0" test is known false where it is chosen.
func divisorNonZero(v ssa.Value) bool {
	type leaf struct {
		val   ssa.Value
		facts []condFact
	}
	var leaves []leaf
	var walk func(v ssa.Value, facts []condFact, d int) bool
	walk = func(v ssa.Value, facts []condFact, d int) bool {
		if d > 4 {
			return false
		}
		switch x := v.(type) {
		case *ssa.Phi:
			for i, e := range x.Edges {
				pred := x.Block().Preds[i]
				f := append(append([]condFact{}, facts...), DomFactsX(pred)...)
				if len(pred.Instrs) > 0 {
					if ifi, ok := pred.Instrs[len(pred.Instrs)-1].(*ssa.If); ok && pred.Succs[0] != pred.Succs[1] {
						cc, tt := normCond(ifi.Cond, pred.Succs[0] == x.Block())
						f = append(f, condFact{cc, tt})
					}
				}
				if !walk(e, f, d+1) {
					return false
				}
			}
			return true
		case *ssa.Call:
			if sc := x.Call.StaticCallee(); sc != nil && curProg != nil && curProg.inPkg(sc) && sc.Blocks != nil && !x.Call.IsInvoke() {
				for _, r := range allReturns(sc) {
					res := retResults(r)
					if len(res) != 1 {
						return false
					}
					if !walk(res[0], append(append([]condFact{}, facts...), DomFactsX(r.Block())...), d+1) {
						return false
					}
				}
				return true
			}
		}
		leaves = append(leaves, leaf{v, facts})
		return true
	}
	if !walk(v, nil, 0) {
		return false
	}
	for _, l := range leaves {
		if k, ok := l.val.(*ssa.Const); ok && k.Value != nil {
			if k.Value.String() != "0" {
				continue
			}
			return false
		}
		guarded := false
		for _, f := range l.facts {
			if CmpCond(token.NEQ, SameExpr(l.val), func(z ssa.Value) bool {
				k, ok := z.(*ssa.Const)
				return ok && k.Value != nil && k.Value.String() == "0"
			})(f.Cond, f.Taken) {
				guarded = true
			}
		}
		if !guarded {
			return false
		}
	}
	return len(leaves) > 0
}

// clockMovesForward: the stored value is max(clock, x) — math.Max, the builtin, or
// a store of x taken only when x > clock (or x >= clock).
func clockMovesForward(a Access, vt *types.Var) bool {
	if call, ok := isMathCall(a.Val, "Max"); ok && (IsLoadOf(vt)(call.Call.Args[0]) || IsLoadOf(vt)(call.Call.Args[1])) {
		return true
	}
	if call, ok := unconv(a.Val).(*ssa.Call); ok {
		if b, isB := call.Call.Value.(*ssa.Builtin); isB && b.Name() == "max" {
			for _, x := range call.Call.Args {
				if IsLoadOf(vt)(x) {
					return true
				}
			}
		}
	}
	v := a.Val
	return DominatedByExt(a.Instr, CmpCond(token.GTR, SameExpr(v), IsLoadOf(vt))) || DominatedByExt(a.Instr, CmpCond(token.GEQ, SameExpr(v), IsLoadOf(vt)))
}
