package sctp

import (
	"testing"

	"github.com/pion/transport/v4/test"
	"github.com/stretchr/testify/require"
)

// A bidirectional reliable ordered stream. The opener chose
// PayloadTypeWebRTCBinary as the stream's payload protocol identifier
// (OpenStream argument) and writes with Stream.Write, i.e. every message is
// accepted with PPI = WebRTC Binary. After the peer sends one message in the
// other direction, the next Write is delivered with a different PPI.
func TestHunt4InboundDataResetsDefaultPPIOfWrite(t *testing.T) {
	br := test.NewBridge()
	a0, a1, err := createNewAssociationPair(br, ackModeNoDelay, 0)
	require.NoError(t, err)
	defer closeAssociationPair(br, a0, a1)

	s0, err := a0.OpenStream(5, PayloadTypeWebRTCBinary)
	require.NoError(t, err)

	buf := make([]byte, 64)

	// message 1: a0 -> a1, written with the stream's default PPI
	_, err = s0.Write([]byte("one"))
	require.NoError(t, err)
	flushBuffers(br, a0, a1)
	s1, err := a1.AcceptStream()
	require.NoError(t, err)
	n, ppi, err := s1.ReadSCTP(buf)
	require.NoError(t, err)
	require.Equal(t, "one", string(buf[:n]))
	require.Equal(t, PayloadTypeWebRTCBinary, ppi)

	// the peer answers on the same stream
	_, err = s1.WriteSCTP([]byte("reply"), PayloadTypeWebRTCString)
	require.NoError(t, err)
	flushBuffers(br, a0, a1)
	n, ppi, err = s0.ReadSCTP(buf)
	require.NoError(t, err)
	require.Equal(t, "reply", string(buf[:n]))
	require.Equal(t, PayloadTypeWebRTCString, ppi)

	// message 2: a0 -> a1, written exactly like message 1
	_, err = s0.Write([]byte("two"))
	require.NoError(t, err)
	flushBuffers(br, a0, a1)
	n, ppi, err = s1.ReadSCTP(buf)
	require.NoError(t, err)
	require.Equal(t, "two", string(buf[:n]))
	require.Equal(t, PayloadTypeWebRTCBinary, ppi,
		"message written with the stream's PPI (WebRTC Binary) must be delivered with that PPI")
}
