package sctp

import (
	"testing"
	"time"

	"github.com/pion/transport/v4/test"
	"github.com/stretchr/testify/require"
)

// A packet whose common header does not belong to the association (wrong
// Verification Tag, wrong port pair) is semantically invalid and has to be
// dropped. The library never compares the tag (Association.myVerificationTag
// is only ever written into the INIT / INIT ACK) nor the ports: a 16-byte
// ABORT with an arbitrary tag tears the association down, DATA with an
// arbitrary tag is delivered to the application.
func TestZZHunt2WrongVerificationTagIsAccepted(t *testing.T) {
	br := test.NewBridge()
	a0, a1, err := createNewAssociationPair(br, ackModeNoDelay, 0)
	require.NoError(t, err)
	defer closeAssociationPair(br, a0, a1)

	s0, s1, err := establishSessionPair(br, a0, a1, 1)
	require.NoError(t, err)
	_ = s0

	a1.lock.RLock()
	wrongTag := a1.myVerificationTag ^ 0x5a5a5a5a
	require.NotEqual(t, a1.myVerificationTag, wrongTag)
	require.NotZero(t, wrongTag)
	nextTSN := a1.peerLastTSN() + 1
	a1.lock.RUnlock()

	// 1. DATA with a foreign tag and foreign ports is delivered.
	data := &packet{
		sourcePort:      1111,
		destinationPort: 2222,
		verificationTag: wrongTag,
		chunks: []chunk{&chunkPayloadData{
			tsn: nextTSN, streamIdentifier: 1, streamSequenceNumber: 1,
			beginningFragment: true, endingFragment: true,
			payloadType: PayloadTypeWebRTCBinary, userData: []byte("forged"),
		}},
	}
	raw, err := data.marshal(true)
	require.NoError(t, err)
	require.NoError(t, a1.handleInbound(raw))

	delivered := s1.reassemblyQueue.isReadable()

	// 2. ABORT with a foreign tag (T bit clear) closes the association.
	abort := &packet{
		sourcePort:      1111,
		destinationPort: 2222,
		verificationTag: wrongTag,
		chunks:          []chunk{&chunkAbort{}},
	}
	raw, err = abort.marshal(true)
	require.NoError(t, err)
	_ = a1.handleInbound(raw)
	time.Sleep(20 * time.Millisecond)

	stateAfter := a1.getState()
	t.Logf("forged DATA delivered=%v, state after forged ABORT=%s",
		delivered, getAssociationStateString(stateAfter))

	require.False(t, delivered, "DATA carrying a foreign verification tag was delivered to the stream")
	require.Equal(t, established, stateAfter, "ABORT carrying a foreign verification tag closed the association")
}
