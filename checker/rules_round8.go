package main

import (
	"fmt"
	"go/constant"
	"go/token"
	"go/types"
	"strings"

	"golang.org/x/tools/go/ssa"
)

// creatingFns: functions of the package that (transitively) insert into Association.streams.
func creatingFns(c *RuleCtx) map[*ssa.Function]bool {
	streamsF := c.field("Association", "streams")
	direct := map[*ssa.Function]bool{}
	for _, fn := range c.P.Funcs {
		forEachInstr(fn, func(in ssa.Instruction) {
			if mu, ok := in.(*ssa.MapUpdate); ok && IsLoadOf(streamsF)(mu.Map) {
				direct[enclosingNamed(fn)] = true
				direct[fn] = true
			}
		})
	}
	out := map[*ssa.Function]bool{}
	for _, fn := range c.P.Funcs {
		for g := range c.P.TransitiveCallees(fn) {
			if direct[g] {
				out[fn] = true
			}
		}
	}
	return out
}

func init() {
	register(&Rule{ID: "C07.R12", Props: []string{"C07"}, Engine: "E2-dataflow",
		Title:   "a skip is recorded even when the abandoned message was the first one on its stream: in handleForwardTSN / handleIForwardTSN the Stream that receives the ordered skip (handleForwardTSNForOrdered / …OrderedMID) is not obtained by a bare lookup in Association.streams — on the path where the stream does not exist yet it is created (a function that inserts into Association.streams), otherwise the skip is dropped, the stream is later created with its cursor at 0 and every following ordered message waits for the abandoned one forever",
		MinInst: 2,
		Run: func(c *RuleCtx) {
			creators := creatingFns(c)
			for _, w := range [][2]string{
				{"Association.handleForwardTSN", "Stream.handleForwardTSNForOrdered"},
				{"Association.handleIForwardTSN", "Stream.handleForwardTSNForOrderedMID"},
			} {
				h, wr := c.Fn(w[0]), c.Fn(w[1])
				calls := callsInDeep(h, wr, 2)
				c.Check(len(calls) >= 1, "ordered-skip-dispatched@"+w[0], c.P.Pos(h.Pos()), "the ordered skip is dispatched", "no call of "+w[1]+" from the handler")
				ks := keyer{}
				for _, call := range calls {
					ci := call.(ssa.Instruction)
					ok := false
					var walk func(v ssa.Value, d int)
					walk = func(v ssa.Value, d int) {
						if d > 6 || v == nil {
							return
						}
						for _, lf := range phiLeaves(v) {
							x := unconv(lf.Val)
							if ex, isEx := x.(*ssa.Extract); isEx {
								x = ex.Tuple
							}
							switch y := x.(type) {
							case *ssa.Call:
								if sc := y.Call.StaticCallee(); sc != nil && creators[sc] {
									ok = true
								}
							case *ssa.Parameter:
								if a := through(y); a != nil {
									walk(a, d+1)
								}
							}
						}
					}
					walk(callArg(call, 0), 0)
					if !ok {
						// "create if missing, then look it up": a creating call that can reach the dispatch
						for _, g := range c.P.Region(h) {
							forEachInstr(g, func(in ssa.Instruction) {
								cc, isCall := in.(ssa.CallInstruction)
								if !isCall {
									return
								}
								if sc := cc.Common().StaticCallee(); sc != nil && creators[sc] && (g != ci.Parent() || CanReach(in, ci)) {
									ok = true
								}
							})
						}
					}
					c.Check(ok, ks.key("skip-creates-missing-stream@"+w[0]), c.Pos(ci), "the stream is created when it does not exist yet, then told to skip",
						"the skip is applied only to a stream that already exists (bare lookup in Association.streams): if the abandoned message was the first one the peer sent on that stream the skip is lost, the stream is created later with its delivery cursor at the abandoned message and nothing after it is ever delivered")
				}
			}
		}})

	register(&Rule{ID: "C07.R13", Props: []string{"C07"}, Engine: "E3-path",
		Title:   "the Stream-level forward-TSN wrappers always reach the reassembly queue: every path through Stream.handleForwardTSNFor{Ordered,Unordered,OrderedMID,UnorderedMID} calls the same-named reassemblyQueue purge (which also advances the delivery cursor) — no shortcut such as 'nothing buffered, nothing to do', because a skipped message that never arrived leaves nothing buffered and still has to move the cursor",
		MinInst: 4,
		Run: func(c *RuleCtx) {
			for _, suf := range []string{"Ordered", "Unordered", "OrderedMID", "UnorderedMID"} {
				wr := c.Fn("Stream.handleForwardTSNFor" + suf)
				target := c.Fn("reassemblyQueue.forwardTSNFor" + suf)
				direct := func(in ssa.Instruction) bool {
					ci, ok := in.(ssa.CallInstruction)
					return ok && ci.Common().StaticCallee() == target
				}
				// also: helper(func(r){ r.forwardTSNFor<suf>(x) }) where the helper always calls the callback it is given
				pred := func(in ssa.Instruction) bool {
					if direct(in) {
						return true
					}
					ci, ok := in.(ssa.CallInstruction)
					if !ok {
						return false
					}
					if _, isGo := in.(*ssa.Go); isGo {
						return false
					}
					hlp := ci.Common().StaticCallee()
					if hlp == nil || hlp.Blocks == nil || !c.P.inPkg(hlp) {
						return false
					}
					for ai, a := range ci.Common().Args {
						mc, isMc := a.(*ssa.MakeClosure)
						if !isMc || ai >= len(hlp.Params) {
							continue
						}
						cb, _ := mc.Fn.(*ssa.Function)
						if cb == nil || cb.Blocks == nil || !entryMustPass(cb, direct) {
							continue
						}
						param := hlp.Params[ai]
						if entryMustPass(hlp, func(y ssa.Instruction) bool {
							cj, isCall := y.(ssa.CallInstruction)
							if _, isGo := y.(*ssa.Go); isGo {
								return false
							}
							return isCall && !cj.Common().IsInvoke() && cj.Common().Value == ssa.Value(param)
						}) {
							return true
						}
					}
					return false
				}
				ok, bad := MustPassFromBlock(wr.Blocks[0], pred, PathOpts{})
				where := ""
				if bad != nil {
					where = c.Pos(bad)
				}
				c.Check(ok, "wrapper-always-purges:"+suf, c.P.Pos(wr.Pos()), "every path calls reassemblyQueue.forwardTSNFor"+suf, "a path through the wrapper returns without telling the reassembly queue about the skip (exit "+where+"): the delivery cursor stays at the abandoned message")
			}
		}})

	register(&Rule{ID: "C01.R12", Props: []string{"C01", "C02", "C08", "C17"}, Engine: "E3-path+sibling",
		Title:   "round-robin membership stays consistent between Push and Pop: either every successful Pop that drains a stream's queue removes that queue from streamQueues (delete, or nil entry), or Push re-enters a stream whose queue exists but is empty (size()==0 in its join condition). If neither holds a stream that drained while another was still waiting is never scheduled again: its later chunks are accepted, counted as pending and never sent",
		MinInst: 2,
		Run: func(c *RuleCtx) {
			pop, push := c.Fn("roundRobinPendingQueuePolicy.Pop"), c.Fn("roundRobinPendingQueuePolicy.Push")
			so := c.field("roundRobinPendingQueuePolicy", "streamOrder")
			sq := c.field("roundRobinPendingQueuePolicy", "streamQueues")
			size := c.Fn("pendingBaseQueue.size")
			isAppend := func(v ssa.Value) bool {
				for _, lf := range phiLeaves(v) {
					call, ok := unconv(lf.Val).(*ssa.Call)
					if !ok {
						continue
					}
					if b, ok := call.Call.Value.(*ssa.Builtin); ok && b.Name() == "append" {
						return true
					}
				}
				return false
			}
			target := func(in ssa.Instruction) bool {
				switch x := in.(type) {
				case *ssa.Store:
					return fieldOfAddr(x.Addr) == so && isAppend(x.Val) // still has data: stays in the rotation
				case *ssa.Call:
					if b, ok := x.Call.Value.(*ssa.Builtin); ok && b.Name() == "delete" && IsLoadOf(sq)(x.Call.Args[0]) {
						return true
					}
				case *ssa.MapUpdate:
					if IsLoadOf(sq)(x.Map) {
						if k, ok := x.Value.(*ssa.Const); ok && k.Value == nil {
							return true
						}
					}
				}
				return false
			}
			errReturn := func(in ssa.Instruction) bool {
				r, ok := in.(*ssa.Return)
				if !ok || len(r.Results) == 0 {
					return false
				}
				// (phiLeaves drops nil constants: a plain "return nil" has no leaves)
				return len(phiLeaves(retResults(r)[len(retResults(r))-1])) > 0
			}
			popOK, bad := MustPassFromBlock(pop.Blocks[0], target, PathOpts{Stop: errReturn})
			// Push: the join condition covers "queue exists but is empty"
			pushOK := false
			nJoin := 0
			for _, g := range c.P.Region(push) {
				for _, a := range c.storesIn(g, so) {
					if !isAppend(a.Val) {
						continue
					}
					nJoin++
					for _, f := range DomFactsX(a.Instr.Block()) {
						if CmpCond(token.EQL, IsCallOf(size), IsConstInt(0))(f.Cond, f.Taken) {
							pushOK = true
						}
						if phi, isPhi := f.Cond.(*ssa.Phi); isPhi && f.Taken {
							for _, e := range phi.Edges {
								if b, isB := e.(*ssa.BinOp); isB && b.Op == token.EQL && (IsCallOf(size)(b.X) && IsConstInt(0)(b.Y)) {
									pushOK = true
								}
							}
						}
					}
				}
			}
			c.Check(nJoin >= 1, "rr-join-site", c.P.Pos(push.Pos()), "Push appends the stream to the service order", "no append to streamOrder in Push")
			where := ""
			if bad != nil {
				where = c.Pos(bad)
			}
			c.Check(popOK || pushOK, "rr-drained-stream-can-rejoin", c.P.Pos(pop.Pos()), fmt.Sprintf("Pop removes a drained queue on every path: %v; Push re-enters an empty queue: %v", popOK, pushOK),
				"a drained stream's queue can stay in streamQueues (Pop exit "+where+" neither re-appends the stream nor removes its queue) and Push joins the rotation only when there is no queue: a stream that drained while another was waiting is never served again")
		}})

	register(&Rule{ID: "C05.R11", Props: []string{"C05"}, Engine: "E2-dataflow",
		Title:   "the gap report is computed from the current state: receivePayloadQueue.getGapAckBlocks does not return a slice kept in a field of the queue from an earlier call unless that reuse is conditioned on the cumulative TSN being unchanged (gap blocks are offsets from the cumulative TSN: a remembered report becomes wrong as soon as the cumulative point moves, naming TSNs that never arrived)",
		MinInst: 1,
		Run: func(c *RuleCtx) {
			fn := c.Fn("receivePayloadQueue.getGapAckBlocks")
			cum := c.field("receivePayloadQueue", "cumulativeTSN")
			n := 0
			ks := keyer{}
			for _, g := range c.P.Region(fn) {
				if enclosingNamed(g) != fn && g != fn {
					continue
				}
				for _, r := range allReturns(g) {
					if g != fn || len(retResults(r)) == 0 {
						continue
					}
					for _, lf := range leavesWithFacts(retResults(r)[0]) {
						n++
						u, ok := unconv(lf.Val).(*ssa.UnOp)
						if !ok || u.Op != token.MUL {
							continue
						}
						f := fieldOfAddr(u.X)
						if f == nil || !strings.HasSuffix(typeShort(c.recvStructOf(f)), "receivePayloadQueue") {
							continue
						}
						// a value kept in the queue: fresh if stored earlier in this very call
						fresh := false
						for _, a := range c.storesIn(g, f) {
							if InstrDominates(a.Instr, u) {
								fresh = true
							}
						}
						if fresh {
							continue
						}
						keyed := false
						facts := append(append([]condFact{}, lf.Facts...), DomFactsX(u.Block())...)
						facts = append(facts, DomFactsX(r.Block())...)
						for _, ft := range facts {
							if b, isB := ft.Cond.(*ssa.BinOp); isB && ((b.Op == token.EQL && ft.Taken) || (b.Op == token.NEQ && !ft.Taken)) {
								if IsLoadOf(cum)(b.X) || IsLoadOf(cum)(b.Y) {
									keyed = true
								}
							}
						}
						c.Check(keyed, ks.key("remembered-gap-report-keyed-on-cumulative-tsn"), c.Pos(r), "a remembered report is reused only while cumulativeTSN is unchanged",
							"getGapAckBlocks returns '"+f.Name()+"' remembered from an earlier call without checking that cumulativeTSN is unchanged: after the cumulative point moves the offsets name TSNs that were never received")
					}
				}
			}
			c.Check(n >= 1, "gap-report-results", c.P.Pos(fn.Pos()), fmt.Sprintf("%d returned value(s) analysed", n), "no returned value found")
		}})

	register(&Rule{ID: "C04.R13", Props: []string{"C04"}, Engine: "E2-dataflow",
		Title:   "what the peer's Supported Extensions list says is reported flag by flag: in getSupportedExtensions / supportedExtensionsFromChunkTypes a flag of supportedExtensions is only ever set (true) or accumulated from the same flag — never cleared or derived from another flag; the capability reported for FORWARD-TSN must not depend on whether I-DATA/I-FORWARD-TSN is also listed, because the consumer picks the variant from the negotiated result and both ends must pick the same one",
		MinInst: 6,
		Run: func(c *RuleCtx) {
			n := 0
			ks := keyer{}
			for _, root := range []string{"getSupportedExtensions", "supportedExtensionsFromChunkTypes"} {
				for _, g := range c.P.Region(c.Fn(root)) {
					for _, name := range []string{"forwardTSN", "interleaving", "iForwardTSN"} {
						f := c.field("supportedExtensions", name)
						for _, a := range c.storesIn(g, f) {
							n++
							ok := true
							why := ""
							for _, lf := range phiLeaves(a.Val) {
								v := unconv(lf.Val)
								if k, isK := v.(*ssa.Const); isK {
									if k.Value != nil && k.Value.String() == "true" {
										continue
									}
									ok, why = false, "the constant false"
									continue
								}
								if lfld, _ := loadedOrField(v); lfld == f {
									continue
								}
								ok, why = false, shortValue(c.P, v)
							}
							c.Check(ok, ks.key("flag-only-accumulates:"+name+"@"+c.P.FuncName(enclosingNamed(g))), c.Pos(a.Instr), "set to true or accumulated from the same flag",
								"supportedExtensions."+name+" is assigned "+why+": the reported capability no longer says what the peer listed, and the side that did not negotiate interleaving ends up without any forward-TSN variant while its peer uses one")
						}
					}
				}
			}
			c.Check(n >= 6, "flag-stores", "", fmt.Sprintf("%d stores analysed", n), "fewer flag stores than reviewed")
		}})

	register(&Rule{ID: "C15.R10", Props: []string{"C15", "C18"}, Engine: "E3-path",
		Title:   "an error from sendPayloadData means nothing was queued: once a chunk has been pushed into the pending queue no return of sendPayloadData (or of a helper it delegates the push to) can carry a non-nil error — WriteSCTP rolls the stream's buffered amount and sequence number back on error, so an error after queueing makes the stream's figure smaller than what is really pending and hands the same sequence number to two messages",
		MinInst: 1,
		Run: func(c *RuleCtx) {
			root := c.Fn("Association.sendPayloadData")
			pq := c.field("Association", "pendingQueue")
			n := 0
			ks := keyer{}
			region := c.P.Region(root)
			hasPush := map[*ssa.Function]bool{}
			for _, g := range region {
				if len(callsOnField(g, pq, "push")) > 0 {
					hasPush[g] = true
				}
			}
			for _, g := range region {
				var points []ssa.Instruction
				forEachInstr(g, func(in ssa.Instruction) {
					ci, ok := in.(ssa.CallInstruction)
					if !ok {
						return
					}
					if sc := ci.Common().StaticCallee(); sc != nil && sc != g && hasPush[sc] {
						points = append(points, in)
					}
				})
				for _, pc := range callsOnField(g, pq, "push") {
					points = append(points, pc.(ssa.Instruction))
				}
				for _, pt := range points {
					n++
					for _, r := range allReturns(g) {
						if !CanReach(pt, r) {
							continue
						}
						res := retResults(r)
						if len(res) == 0 {
							continue
						}
						last := res[len(res)-1]
						if !types.Identical(last.Type(), types.Universe.Lookup("error").Type()) {
							continue
						}
						ok := true
						for _, lf := range phiLeaves(last) {
							if !isNilConst(lf.Val) {
								ok = false
							}
						}
						// (phiLeaves drops nil constants: an all-nil result has no leaves)
						c.Check(ok, ks.key("no-error-after-queueing@"+c.P.FuncName(enclosingNamed(g))), c.Pos(r), "returns nil once chunks are queued",
							"a return reachable after pendingQueue.push can carry an error: the caller rolls back its byte count and sequence number although the message is queued and will be sent")
					}
				}
			}
			c.Check(n >= 1, "queueing-points", c.P.Pos(root.Pos()), fmt.Sprintf("%d queueing point(s)", n), "no pendingQueue.push found under sendPayloadData")
		}})

	register(&Rule{ID: "C19.R17", Props: []string{"C19"}, Engine: "E3",
		Title:   "a T1 timer is started exactly where its handshake step is taken: every start of Association.t1Init sits in the function that enters COOKIE-WAIT (setState(cookieWait) before or after it on every path), every start of Association.t1Cookie in the one that enters COOKIE-ECHOED — a start anywhere else (e.g. on reception of a colliding INIT) resets the timer's expiry count and back-off, so the bounded number of INIT / COOKIE-ECHO transmissions and the failure report after it no longer hold",
		MinInst: 2,
		Run: func(c *RuleCtx) {
			setState := c.Fn("Association.setState")
			start := c.Fn("rtxTimer.start")
			ks := keyer{}
			n := 0
			for _, w := range [][2]string{{"t1Init", "cookieWait"}, {"t1Cookie", "cookieEchoed"}} {
				f := c.field("Association", w[0])
				k := c.P.Const(w[1])
				if k == nil {
					panic(unresolved{"const " + w[1]})
				}
				want, _ := constantInt64(k)
				for _, g := range c.P.Funcs {
					for _, cs := range callsIn(g, start) {
						if !mayBeTimerField(callArg(cs, 0), f, 0) {
							continue
						}
						n++
						site := cs.(ssa.Instruction)
						// the enclosing step: g itself, or (private helper) its single caller
						ok := false
						cur, at := g, site
						for d := 0; d < 3 && !ok; d++ {
							for _, sc := range callsIn(cur, setState) {
								if v, isK := constInt(callArg(sc, 1)); isK && v == want {
									si := sc.(ssa.Instruction)
									if InstrDominates(si, at) || InstrDominates(at, si) {
										ok = true
									}
								}
							}
							if ok || !c.P.PrivateHelper(cur) {
								break
							}
							sites := c.P.CallSitesOf(cur)
							if len(sites) != 1 {
								break
							}
							at = sites[0].Instr.(ssa.Instruction)
							cur = at.Parent()
						}
						c.Check(ok, ks.key("t1-start-with-its-step:"+w[0]+"@"+c.P.FuncName(enclosingNamed(g))), c.Pos(site), "started together with setState("+w[1]+")",
							w[0]+" is (re)started outside the step that enters "+w[1]+": the restart clears the expiry count, so the handshake is retransmitted without bound and its failure is never reported")
					}
				}
			}
			c.Check(n >= 2, "t1-start-sites", "", fmt.Sprintf("%d start site(s)", n), "T1 start sites not found")
		}})

	register(&Rule{ID: "C18.R15", Props: []string{"C18", "C09"}, Engine: "E3-path",
		Title:   "unregistering a stream always installs the terminal read error: every path through Association.unregisterStream stores its error argument into Stream.readErr — readErr also holds the transient ErrReadDeadlineExceeded, and a conditional store (\"keep the first error\") lets an expired deadline mask the close: later reads keep reporting a timeout, and after the deadline is cleared they block forever on a dead association",
		MinInst: 1,
		Run: func(c *RuleCtx) {
			fn := c.Fn("Association.unregisterStream")
			re := c.field("Stream", "readErr")
			target := func(in ssa.Instruction) bool {
				st, ok := in.(*ssa.Store)
				if !ok || fieldOfAddr(st.Addr) != re {
					return false
				}
				// the error argument itself (or, in a private helper of unregisterStream, the parameter it was handed as)
				p, isP := unconv(st.Val).(*ssa.Parameter)
				if !isP {
					return false
				}
				if p.Parent() == fn {
					return true
				}
				q, isQ := resolveParam(p).(*ssa.Parameter)
				return isQ && q.Parent() == fn
			}
			ok, bad := MustPassFromBlock(fn.Blocks[0], target, PathOpts{})
			where := ""
			if bad != nil {
				where = c.Pos(bad)
			}
			c.Check(ok, "terminal-error-always-installed", c.P.Pos(fn.Pos()), "readErr = err on every path", "a path through unregisterStream leaves readErr as it was (exit "+where+"): a transient deadline error already parked there hides the termination from the reader")
		}})

	register(&Rule{ID: "C17.R14", Props: []string{"C17"}, Engine: "E2-dataflow",
		Title:   "the scheduler is charged user bytes: chunkPayloadData.UserDataLen returns exactly len(userData) (the weighted-fair scheduler divides this figure by the stream weight; padding or header bytes added here skew the shares of streams whose chunk sizes differ modulo 4 without bound)",
		MinInst: 1,
		Run: func(c *RuleCtx) {
			fn := c.Fn("chunkPayloadData.UserDataLen")
			ud := c.field("chunkPayloadData", "userData")
			n := 0
			ks := keyer{}
			for _, r := range allReturns(fn) {
				for _, lf := range leavesWithFacts(retResults(r)[0]) {
					n++
					ok := false
					if call, isCall := unconv(lf.Val).(*ssa.Call); isCall {
						if b, isB := call.Call.Value.(*ssa.Builtin); isB && b.Name() == "len" && IsLoadOf(ud)(call.Call.Args[0]) {
							ok = true
						}
					}
					c.Check(ok, ks.key("cost-is-user-bytes"), c.Pos(r), "len(p.userData)", "UserDataLen returns "+shortValue(c.P, lf.Val)+" instead of the user data length: the fair-queueing cost is not measured in user bytes")
				}
			}
			c.Check(n >= 1, "cost-results", c.P.Pos(fn.Pos()), fmt.Sprintf("%d returned value(s)", n), "no returned value")
		}})

	register(&Rule{ID: "C14.R14", Props: []string{"C14", "C01"}, Engine: "E3",
		Title:   "the default pending queue serves unordered chunks strictly first: messagePendingQueuePolicy.peek returns the head of the ordered queue only while a message is in progress (selected) or when the unordered queue has no head — the end-of-stream marker of a closing stream is an ordered chunk, and this strict priority is what keeps it behind that stream's own queued unordered data (if it overtakes them the reset covers only what was sent so far and the peer sees EOF early)",
		MinInst: 1,
		Run: func(c *RuleCtx) {
			fn := c.Fn("messagePendingQueuePolicy.peek")
			get := c.Fn("pendingBaseQueue.get")
			size := c.Fn("pendingBaseQueue.size")
			oq, uq := c.field("messagePendingQueuePolicy", "orderedQueue"), c.field("messagePendingQueuePolicy", "unorderedQueue")
			sel := c.field("messagePendingQueuePolicy", "selected")
			onQueue := func(v ssa.Value, callee *ssa.Function, q *types.Var) bool {
				call, ok := unconv(v).(*ssa.Call)
				return ok && call.Call.StaticCallee() == callee && len(call.Call.Args) > 0 && IsLoadOf(q)(call.Call.Args[0])
			}
			n := 0
			ks := keyer{}
			for _, g := range c.P.Region(fn) {
				for _, r := range allReturns(g) {
					if len(retResults(r)) == 0 {
						continue
					}
					for _, lf := range phiLeaves(retResults(r)[0]) {
						if !onQueue(lf.Val, get, oq) {
							continue
						}
						n++
						b := r.Block()
						if lf.From != nil {
							b = lf.From
						}
						facts := DomFactsX(b)
						if call, isCall := unconv(lf.Val).(*ssa.Call); isCall && call.Block() != b {
							facts = append(facts, DomFactsX(call.Block())...)
						}
						ok := false
						for _, ft := range facts {
							if BoolCond(IsLoadOf(sel), true)(ft.Cond, ft.Taken) {
								ok = true
							}
							if bo, isB := ft.Cond.(*ssa.BinOp); isB {
								isNilCmp := (onQueue(bo.X, get, uq) && isNilConst(bo.Y)) || (onQueue(bo.Y, get, uq) && isNilConst(bo.X))
								if isNilCmp && ((bo.Op == token.EQL && ft.Taken) || (bo.Op == token.NEQ && !ft.Taken)) {
									ok = true
								}
								isZero := (onQueue(bo.X, size, uq) && IsConstInt(0)(bo.Y)) || (onQueue(bo.Y, size, uq) && IsConstInt(0)(bo.X))
								if isZero && ((bo.Op == token.EQL && ft.Taken) || (bo.Op == token.NEQ && !ft.Taken) || (bo.Op == token.GTR && !ft.Taken)) {
									ok = true
								}
							}
						}
						c.Check(ok, ks.key("ordered-head-only-when-no-unordered"), c.Pos(r), "ordered head served only when selected or the unordered queue is empty",
							"peek can return the head of the ordered queue while an unordered chunk is waiting and no message is in progress: an ordered end-of-stream marker overtakes the closing stream's own unordered data")
					}
				}
			}
			c.Check(n >= 1, "ordered-head-results", c.P.Pos(fn.Pos()), fmt.Sprintf("%d return(s) of the ordered head", n), "peek never returns the ordered head")
		}})

	register(&Rule{ID: "C13.R10", Props: []string{"C13"}, Engine: "E2-dataflow",
		Title:   "the peer's error-detection method is what the peer wrote: every store to paramZeroChecksumAcceptable.edmid under its unmarshal is a big-endian 32-bit read of the parameter's own bytes — a defaulted identifier (e.g. for a value-less parameter) makes the endpoint send zero checksums to a peer that never declared the DTLS method acceptable",
		MinInst: 1,
		Run: func(c *RuleCtx) {
			fn := c.Fn("paramZeroChecksumAcceptable.unmarshal")
			ed := c.field("paramZeroChecksumAcceptable", "edmid")
			n := 0
			ks := keyer{}
			for _, g := range c.P.Region(fn) {
				for _, a := range c.storesIn(g, ed) {
					n++
					ok := true
					for _, lf := range phiLeaves(a.Val) {
						call, isCall := unconv(lf.Val).(*ssa.Call)
						if !isCall {
							ok = false
							continue
						}
						if name, endian, isBin := binaryCall(&call.Call); !isBin || name != "Uint32" || endian != "BE" {
							ok = false
						}
					}
					c.Check(ok, ks.key("edmid-from-wire"), c.Pos(a.Instr), "edmid = binary.BigEndian.Uint32(own bytes)", "edmid is assigned something other than the 32-bit value read from the parameter: acceptance of zero checksums is inferred although the peer did not state the method")
				}
			}
			c.Check(n >= 1, "edmid-stores", c.P.Pos(fn.Pos()), fmt.Sprintf("%d store(s)", n), "edmid is never decoded")
		}})

	register(&Rule{ID: "C12.R14", Props: []string{"C12", "C04"}, Engine: "E2-sibling",
		Title:   "the INIT parameter loop admits every parameter its header decoder admits: the smallest number of remaining bytes for which chunkInitCommon.unmarshal still parses a parameter is not larger than the smallest length paramHeader.unmarshal accepts (a value-less parameter such as Forward-TSN-Supported is exactly one header long; a strict comparison drops it when it is the last parameter, so the chunk does not decode to what it was built from and the peer's capability is not seen)",
		MinInst: 1,
		Run: func(c *RuleCtx) {
			fn := c.Fn("chunkInitCommon.unmarshal")
			ph := c.Fn("paramHeader.unmarshal")
			// smallest len(raw) the header decoder accepts: the constant K of its "len(raw) < K → error" guard
			hdrMin := int64(-1)
			forEachInstr(ph, func(in ssa.Instruction) {
				ifi, ok := in.(*ssa.If)
				if !ok {
					return
				}
				b, ok := ifi.Cond.(*ssa.BinOp)
				if !ok || b.Op != token.LSS {
					return
				}
				call, isCall := unconv(b.X).(*ssa.Call)
				if !isCall {
					return
				}
				if bi, isB := call.Call.Value.(*ssa.Builtin); !isB || bi.Name() != "len" || unconv(call.Call.Args[0]) != ssa.Value(ph.Params[1]) {
					return
				}
				if k, isK := constInt(b.Y); isK && (hdrMin < 0 || k < hdrMin) {
					hdrMin = k
				}
			})
			if hdrMin < 0 {
				c.Fail("header-minimum", c.P.Pos(ph.Pos()), "UNDECIDED: no 'len(raw) < K' guard found in paramHeader.unmarshal")
				return
			}
			// in the loop: the guards that dominate the header decode and compare a non-constant with a constant
			n := 0
			ks := keyer{}
			for _, g := range c.P.Region(fn) {
				for _, call := range callsIn(g, ph) {
					loopMin := int64(1) // "remaining > 0"
					for _, ft := range DomFactsX(call.(ssa.Instruction).Block()) {
						b, ok := ft.Cond.(*ssa.BinOp)
						if !ok {
							continue
						}
						op, x, y := b.Op, b.X, b.Y
						if _, isK := constInt(x); isK {
							op, x, y = swapOp(op), y, x
						}
						k, isK := constInt(y)
						if !isK {
							continue
						}
						if _, xk := constInt(x); xk {
							continue
						}
						if !ft.Taken {
							op = invertOp(op)
						}
						var m int64 = -1
						switch op {
						case token.GTR:
							m = k + 1
						case token.GEQ:
							m = k
						}
						if m > loopMin {
							loopMin = m
						}
					}
					n++
					c.Check(loopMin <= hdrMin, ks.key("loop-admits-header-only-parameter@"+c.P.FuncName(enclosingNamed(g))), c.Pos(call.(ssa.Instruction)),
						fmt.Sprintf("a parameter is parsed whenever ≥ %d bytes remain (header decoder needs %d)", loopMin, hdrMin),
						fmt.Sprintf("a parameter is parsed only when ≥ %d bytes remain although a complete parameter can be %d bytes long: a value-less parameter at the end of an INIT / INIT-ACK is silently dropped", loopMin, hdrMin))
				}
			}
			c.Check(n >= 1, "param-loop-sites", c.P.Pos(fn.Pos()), fmt.Sprintf("%d header decode site(s) in the INIT parameter loop", n), "no paramHeader.unmarshal call under chunkInitCommon.unmarshal")
		}})

	register(&Rule{ID: "C04.R14", Props: []string{"C04", "C03"}, Engine: "E3-path",
		Title:   "the client never waits for the handshake without a T1 timer: in handleInitAck every path that stops T1-init goes on to start T1-cookie before the handler returns — an INIT ACK that is rejected after T1-init was stopped (no State Cookie, negotiation error) leaves the association in COOKIE-WAIT with nothing armed: the INIT is never retransmitted, the retry budget never runs out and the connect call never returns",
		MinInst: 1,
		Run: func(c *RuleCtx) {
			fn := c.Fn("Association.handleInitAck")
			stop, start := c.Fn("rtxTimer.stop"), c.Fn("rtxTimer.start")
			t1i, t1c := c.field("Association", "t1Init"), c.field("Association", "t1Cookie")
			isStart := func(in ssa.Instruction) bool {
				ci, ok := in.(ssa.CallInstruction)
				return ok && ci.Common().StaticCallee() == start && mayBeTimerField(callArg(ci, 0), t1c, 0)
			}
			n := 0
			ks := keyer{}
			for _, g := range c.P.Region(fn) {
				for _, cs := range callsIn(g, stop) {
					if !mayBeTimerField(callArg(cs, 0), t1i, 0) {
						continue
					}
					n++
					ok, bad := MustPass(cs.(ssa.Instruction), isStart, nil)
					if !ok && g != fn {
						// stopped in a helper: judge from the helper's call site in the handler
						for _, site := range c.P.CallSitesOf(g) {
							if site.Instr.Parent() == fn {
								ok, bad = MustPass(site.Instr.(ssa.Instruction), isStart, nil)
							}
						}
					}
					where := ""
					if bad != nil {
						where = c.Pos(bad)
					}
					c.Check(ok, ks.key("t1-init-stopped-only-when-t1-cookie-starts"), c.Pos(cs.(ssa.Instruction)), "every path from the stop of T1-init reaches the start of T1-cookie",
						"T1-init is stopped and a path leaves handleInitAck without starting T1-cookie (exit "+where+"): the client stays in COOKIE-WAIT with no timer, its INIT is never retransmitted and the connect call never fails")
				}
			}
			c.Check(n >= 1, "t1-init-stop-sites", c.P.Pos(fn.Pos()), fmt.Sprintf("%d stop site(s) of T1-init under handleInitAck", n), "handleInitAck never stops T1-init")
		}})
}

// mayBeTimerField: v (a *rtxTimer) may be the timer kept in field f — directly, through a φ, through a private
// helper's parameter, or through an element of a local array/slice literal that was filled from the field.
func mayBeTimerField(v ssa.Value, f *types.Var, d int) bool {
	if d > 5 || v == nil {
		return false
	}
	v = unconv(v)
	switch x := v.(type) {
	case *ssa.Phi:
		for _, e := range x.Edges {
			if mayBeTimerField(e, f, d+1) {
				return true
			}
		}
	case *ssa.Parameter:
		if curProg == nil || x.Parent() == nil {
			return false
		}
		for i, q := range x.Parent().Params {
			if q != x {
				continue
			}
			for _, cs := range curProg.CallSitesOf(x.Parent()) {
				if i < len(cs.Instr.Common().Args) && mayBeTimerField(cs.Instr.Common().Args[i], f, d+1) {
					return true
				}
			}
		}
	case *ssa.UnOp:
		if x.Op != token.MUL {
			return false
		}
		if lf, _ := loadedField(x); lf == f {
			return true
		}
		ia, ok := x.X.(*ssa.IndexAddr)
		if !ok {
			return false
		}
		base := ia.X
		if sl, isSl := base.(*ssa.Slice); isSl {
			base = sl.X
		}
		al, ok := base.(*ssa.Alloc)
		if !ok {
			return false
		}
		found := false
		forEachInstr(al.Parent(), func(in ssa.Instruction) {
			st, isSt := in.(*ssa.Store)
			if !isSt {
				return
			}
			if ja, isIA := st.Addr.(*ssa.IndexAddr); isIA && ja.X == ssa.Value(al) && mayBeTimerField(st.Val, f, d+1) {
				found = true
			}
		})
		return found
	}
	return false
}

// constantInt64: integer value of a typed constant.
func constantInt64(k *types.Const) (int64, bool) {
	return constant.Int64Val(constant.ToInt(k.Val()))
}

// loadedOrField: v is a load of a struct field (through a pointer) or a Field of a struct value.
func loadedOrField(v ssa.Value) (*types.Var, ssa.Value) {
	switch x := v.(type) {
	case *ssa.Field:
		return fieldOf(x.X.Type(), x.Field), x.X
	case *ssa.UnOp:
		return loadedField(x)
	}
	return nil, nil
}

// recvStructOf: the struct type that declares field f.
func (c *RuleCtx) recvStructOf(f *types.Var) types.Type {
	scope := c.P.Types.Scope()
	for _, n := range scope.Names() {
		tn, ok := scope.Lookup(n).(*types.TypeName)
		if !ok {
			continue
		}
		st, ok := tn.Type().Underlying().(*types.Struct)
		if !ok {
			continue
		}
		for i := 0; i < st.NumFields(); i++ {
			if st.Field(i) == f {
				return tn.Type()
			}
		}
	}
	return types.Typ[types.Invalid]
}
