package main

import (
	"fmt"
	"go/token"

	"golang.org/x/tools/go/ssa"
)

// sideEffectCalls: calls in fn (not logging) that change receive/ack state.
func (c *RuleCtx) effectSites(fn *ssa.Function) []ssa.Instruction {
	e, _ := c.P.States()
	run := e.Run(fn, e.all)
	var out []ssa.Instruction
	for _, ef := range c.P.EffectsOf(run.Reach) {
		if ef.Instr.Parent() == fn {
			out = append(out, ef.Instr)
		}
	}
	// plus direct calls to in-package functions that have effects
	forEachInstr(fn, func(in ssa.Instruction) {
		ci, ok := in.(ssa.CallInstruction)
		if !ok {
			return
		}
		sc := ci.Common().StaticCallee()
		if sc == nil || !c.P.inPkg(sc) || sc.Blocks == nil {
			return
		}
		sub := e.Run(sc, e.all)
		if len(c.P.EffectsOf(sub.Reach)) > 0 {
			out = append(out, in)
		}
	})
	return out
}

func init() {
	register(&Rule{ID: "C17.R2", Props: []string{"C17"}, Engine: "E3+E5",
		Title:   "a chunk of the wrong kind is answered with a protocol-violation ABORT and has no other effect: DATA vs I-DATA against the negotiated mode, FORWARD-TSN with interleaving, I-FORWARD-TSN without it",
		MinInst: 9,
		Run: func(c *RuleCtx) {
			apv := c.Fn("Association.abortProtocolViolation")
			uI := c.field("Association", "useInterleaving")
			uIF := c.field("Association", "useIForwardTSN")
			isI := c.Fn("chunkPayloadData.isIData")
			type tc struct {
				fn      string
				wrong   CondPat // established fact on the wrong-kind edge
				right   CondPat
				findIf  func(*ssa.If) (bool, int) // recognise the test, return wrong-kind successor index
				what    string
			}
			cases := []tc{
				{"Association.handleData",
					CmpCond(token.NEQ, IsCallOf(isI), IsLoadOf(uI)), CmpCond(token.EQL, IsCallOf(isI), IsLoadOf(uI)),
					func(i *ssa.If) (bool, int) {
						b, ok := i.Cond.(*ssa.BinOp)
						if ok && b.Op == token.NEQ && IsCallOf(isI)(b.X) && IsLoadOf(uI)(b.Y) {
							return true, 0
						}
						return false, 0
					}, "isIData() != useInterleaving"},
				{"Association.handleForwardTSN", BoolCond(IsLoadOf(uI), true), BoolCond(IsLoadOf(uI), false),
					func(i *ssa.If) (bool, int) { return IsLoadOf(uI)(i.Cond), 0 }, "useInterleaving"},
				{"Association.handleIForwardTSN", BoolCond(IsLoadOf(uIF), false), BoolCond(IsLoadOf(uIF), true),
					func(i *ssa.If) (bool, int) {
						v, t := normCond(i.Cond, true)
						if IsLoadOf(uIF)(v) {
							if t {
								return true, 1
							}
							return true, 0
						}
						return false, 0
					}, "!useIForwardTSN"},
			}
			for _, t := range cases {
				fn := c.Fn(t.fn)
				var test *ssa.If
				wrongIdx := 0
				forEachInstr(fn, func(in ssa.Instruction) {
					if ifi, ok := in.(*ssa.If); ok && test == nil {
						if m, idx := t.findIf(ifi); m {
							test, wrongIdx = ifi, idx
						}
					}
				})
				if test == nil {
					c.Fail("wrong-kind-test@"+t.fn, c.P.Pos(fn.Pos()), "test '"+t.what+"' not found")
					continue
				}
				ok, bad := MustPassFromBlock(test.Block().Succs[wrongIdx], c.P.CallTargetPred(0, apv), PathOpts{})
				c.Check(ok, "wrong-kind-aborts@"+t.fn, c.Pos(test), "wrong kind ⇒ abortProtocolViolation on every path", "a wrong-kind path does not abort: "+c.P.InstrPos(bad))
				// on the wrong-kind edge nothing but the abort (and return) is reachable
				okQuiet := true
				badSite := ""
				wrongStart := test.Block().Succs[wrongIdx]
				for _, s := range c.effectSites(fn) {
					if ci, isCall := s.(ssa.CallInstruction); isCall && ci.Common().StaticCallee() == apv {
						continue
					}
					if s.Block() == wrongStart || CanReach(wrongStart.Instrs[0], s) {
						// reachable from the wrong-kind edge: allowed only if also dominated by the right-kind fact (cannot be)
						if !DominatedByExt(s, t.right) {
							okQuiet = false
							badSite = c.Pos(s)
						}
					}
				}
				c.Check(okQuiet, "wrong-kind-no-effect@"+t.fn, c.Pos(test), "no receive-queue / stream / ack effect is reachable on the wrong-kind edge", "an effect is reachable after a wrong-kind chunk at "+badSite)
				// every effect after the test is on the right-kind side
				n := 0
				for _, s := range c.effectSites(fn) {
					if ci, isCall := s.(ssa.CallInstruction); isCall && ci.Common().StaticCallee() == apv {
						continue
					}
					if !CanReach(test, s) {
						continue
					}
					n++
					if !DominatedByExt(s, t.right) {
						c.Fail("effect-needs-right-kind@"+t.fn, c.Pos(s), "effect not dominated by the right-kind outcome of '"+t.what+"'")
					}
				}
				c.Check(n >= 1, "effects-guarded@"+t.fn, c.Pos(test), fmt.Sprintf("%d effect sites after the test, all on the right-kind side", n), "no effect sites found after the test")
			}
		}})

	register(&Rule{ID: "C17.R3", Props: []string{"C17"}, Engine: "E2+E3",
		Title:   "framing follows the negotiated flag: chunks are built with iData = useInterleaving, encoded as I-DATA iff isIData(), sized with the matching header",
		MinInst: 6,
		Run: func(c *RuleCtx) {
			pk := c.Fn("Stream.packetize")
			uI := c.field("Association", "useInterleaving")
			iD := c.field("chunkPayloadData", "iData")
			st := c.storesIn(pk, iD)
			c.Check(len(st) == 1 && IsLoadOf(uI)(st[0].Val), "chunk-kind-from-negotiation", c.P.Pos(pk.Pos()), "chunk.iData <- association.useInterleaving", "chunk kind not taken from the negotiated flag")
			m := c.Fn("chunkPayloadData.marshal")
			isI := c.Fn("chunkPayloadData.isIData")
			typ := c.field("chunkHeader", "typ")
			ctI, ctD := c.P.Const("ctIData"), c.P.Const("ctPayloadData")
			for _, a := range c.storesIn(m, typ) {
				k, _ := constInt(a.Val)
				switch fmt.Sprint(k) {
				case ctI.Val().String():
					c.Dom("encode-idata-iff", a.Instr, CallCond(isI, true), "isIData()")
				case ctD.Val().String():
					c.Dom("encode-data-iff", a.Instr, CallCond(isI, false), "!isIData()")
				default:
					c.Fail("encode-kind", c.Pos(a.Instr), "unexpected chunk type stored by the DATA encoder")
				}
			}
			cs := c.Fn("chunkPayloadData.chunkSize")
			for _, r := range allReturns(cs) {
				b, ok := r.Results[0].(*ssa.BinOp)
				if !ok {
					continue
				}
				k, _ := constInt(b.X)
				if k == 20 {
					c.Dom("size-idata", r, CallCond(isI, true), "isIData()")
				} else if k == 16 {
					c.Dom("size-data", r, CallCond(isI, false), "!isIData()")
				}
			}
			// isIData = iData || typ == ctIData
			okI := false
			forEachInstr(isI, func(in ssa.Instruction) {
				if v, ok := in.(ssa.Value); ok && IsLoadOf(iD)(v) {
					okI = true
				}
			})
			c.Check(okI, "isIData-reads-flag", c.P.Pos(isI.Pos()), "isIData() consults the chunk's iData flag", "isIData no longer consults iData")
		}})

	register(&Rule{ID: "C17.R4", Props: []string{"C17"}, Engine: "E3",
		Title:   "the pending queue switches between message mode and interleaving mode only while empty",
		MinInst: 3,
		Run: func(c *RuleCtx) {
			si := c.Fn("pendingQueue.setInterleaving")
			nC := c.field("pendingQueue", "nChunks")
			n := 0
			for _, f := range []string{"policy", "interleaving"} {
				for _, a := range c.storesIn(si, c.field("pendingQueue", f)) {
					n++
					c.Dom(fmt.Sprintf("switch-when-empty:%s#%d", f, n), a.Instr, CmpCond(token.EQL, IsLoadOf(nC), IsConstInt(0)), "nChunks == 0")
				}
			}
			c.Check(n >= 3, "switch-sites", c.P.Pos(si.Pos()), fmt.Sprintf("%d mode-changing stores", n), "mode-changing stores missing")
			c.WritersWithin("policy", c.field("pendingQueue", "policy"), "pendingQueue.setInterleaving", "newPendingQueue")
			c.CallersWithin("switch", si, "Association.updateInterleavingState")
		}})

	register(&Rule{ID: "C17.R5", Props: []string{"C17"}, Engine: "E1-sibling",
		Title:   "sibling queue policies agree: every pop implementation checks that the chunk it removed is the chunk the caller peeked, and reports an error otherwise",
		MinInst: 4,
		Run: func(c *RuleCtx) {
			for _, fname := range []string{"messagePendingQueuePolicy.popSelected", "messagePendingQueuePolicy.popNewSelection", "roundRobinPendingQueuePolicy.Pop", "weightedFairQueueingPendingQueuePolicy.Pop"} {
				fn := c.Fn(fname)
				ok := false
				forEachInstr(fn, func(in ssa.Instruction) {
					ifi, isIf := in.(*ssa.If)
					if !isIf {
						return
					}
					b, isB := ifi.Cond.(*ssa.BinOp)
					if !isB || b.Op != token.NEQ {
						return
					}
					leaves := phiLeaves(b.X)
					if len(leaves) == 0 {
						return
					}
					for _, l := range leaves {
						if !IsCallOf(c.Fn("pendingBaseQueue.pop"))(l.Val) {
							return
						}
					}
					// true edge returns a non-nil error
					for _, x := range ifi.Block().Succs[0].Instrs {
						if r, isRet := x.(*ssa.Return); isRet {
							res := retResults(r)
							if len(res) == 1 && !isNilConst(res[0]) {
								ok = true
							}
						}
					}
				})
				c.Check(ok, "pop-checks-identity@"+fname, c.P.Pos(fn.Pos()), "popped != requested ⇒ error", "pop does not verify that it removed the peeked chunk")
			}
			// pendingQueue.pop adjusts counters only on success (C15.R4) and movePending… logs the error
		}})

	register(&Rule{ID: "C17.R6", Props: []string{"C17", "C01"}, Engine: "E3",
		Title:   "without interleaving a message stays selected until its last fragment: the selection is dropped only on an ending fragment, taken only on a non-ending one, and peek serves the selected queue first",
		MinInst: 4,
		Run: func(c *RuleCtx) {
			sel := c.field("messagePendingQueuePolicy", "selected")
			ef := c.field("chunkPayloadData", "endingFragment")
			for _, fname := range []string{"messagePendingQueuePolicy.popSelected", "messagePendingQueuePolicy.popNewSelection"} {
				fn := c.Fn(fname)
				for _, a := range c.storesIn(fn, sel) {
					if IsConstBool(false)(a.Val) {
						c.Dom("deselect-on-last-fragment@"+fname, a.Instr, BoolCond(IsLoadOf(ef), true), "popped.endingFragment")
					} else if IsConstBool(true)(a.Val) {
						c.Dom("select-on-unfinished@"+fname, a.Instr, BoolCond(IsLoadOf(ef), false), "!popped.endingFragment")
					}
				}
			}
			c.WritersWithin("selection", sel, "messagePendingQueuePolicy.popSelected", "messagePendingQueuePolicy.popNewSelection")
			pk := c.Fn("messagePendingQueuePolicy.peek")
			// under selected==true peek returns only from the selected queue
			n := 0
			for _, r := range allReturns(pk) {
				if DominatedByExt(r, BoolCond(IsLoadOf(sel), true)) {
					n++
				}
			}
			c.Check(n == 2, "peek-serves-selection", c.P.Pos(pk.Pos()), "while a message is selected peek returns from its queue (ordered/unordered)", fmt.Sprintf("%d returns under selected", n))
			// a new selection requires a beginning fragment
			pp := c.Fn("messagePendingQueuePolicy.pop")
			bf := c.field("chunkPayloadData", "beginningFragment")
			for _, nc := range callsIn(pp, c.Fn("messagePendingQueuePolicy.popNewSelection")) {
				c.Dom("new-selection-needs-B", nc, BoolCond(IsLoadOf(bf), true), "chunk.beginningFragment")
				c.Dom("new-selection-when-none", nc, BoolCond(IsLoadOf(sel), false), "!selected")
			}
		}})
}
