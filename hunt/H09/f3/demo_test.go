package sctp

import (
	"bytes"
	"testing"
	"time"

	"github.com/pion/logging"
	"github.com/pion/transport/v4/test"
	"github.com/stretchr/testify/require"
)

func hunt3Pair(t *testing.T, br *test.Bridge, mtu uint32) (*Association, *Association) {
	t.Helper()
	lf := logging.NewDefaultLoggerFactory()
	type res struct {
		a   *Association
		err error
	}
	c0, c1 := make(chan res, 1), make(chan res, 1)
	go func() {
		a, err := ClientWithOptions(WithName("a0"), WithNetConn(br.GetConn0()), WithLoggerFactory(lf), WithMTU(mtu))
		c0 <- res{a, err}
	}()
	go func() {
		a, err := ServerWithOptions(WithName("a1"), WithNetConn(br.GetConn1()), WithLoggerFactory(lf), WithMTU(mtu))
		c1 <- res{a, err}
	}()
	var a0, a1 *Association
	for i := 0; i < 200 && (a0 == nil || a1 == nil); i++ {
		br.Tick()
		select {
		case r := <-c0:
			require.NoError(t, r.err)
			a0 = r.a
		case r := <-c1:
			require.NoError(t, r.err)
			a1 = r.a
		default:
			time.Sleep(5 * time.Millisecond)
		}
	}
	require.NotNil(t, a0)
	require.NotNil(t, a1)
	a0.ackMode, a1.ackMode = ackModeNoDelay, ackModeNoDelay
	return a0, a1
}

// Both sides configured with the accepted option WithMTU(9000) (jumbo frames).
// One 12000-byte message on a reliable ordered stream, no loss.
func TestHunt3MTUAboveInboundBufferNeverDelivered(t *testing.T) {
	br := test.NewBridge()
	a0, a1 := hunt3Pair(t, br, 9000)
	defer closeAssociationPair(br, a0, a1)

	s0, s1, err := establishSessionPair(br, a0, a1, 1)
	require.NoError(t, err)

	msg := bytes.Repeat([]byte{0x5a}, 12000)
	n, err := s0.WriteSCTP(msg, PayloadTypeWebRTCBinary)
	require.NoError(t, err)
	require.Equal(t, len(msg), n)

	got := make(chan []byte, 1)
	go func() {
		buf := make([]byte, 65536)
		n, _, rerr := s1.ReadSCTP(buf)
		if rerr == nil {
			got <- buf[:n]
		}
	}()
	deadline := time.Now().Add(5 * time.Second)
	for time.Now().Before(deadline) {
		br.Tick()
		select {
		case b := <-got:
			require.Equal(t, msg, b)
			return
		default:
		}
		time.Sleep(200 * time.Microsecond)
	}
	t.Fatalf("12000-byte message never delivered with MTU=9000: sender inflight=%d pending=%d t3 timeouts=%d",
		a0.inflightQueue.size(), a0.pendingQueue.size(), a0.stats.getNumT3Timeouts())
}
