package sctp

import (
	"errors"
	"testing"
	"time"

	"github.com/stretchr/testify/require"
)

// Two goroutines block in ReadSCTP; one arriving chunk makes two ordered
// messages readable at once. Both readers must get a message.
func TestZZTwoReadersTwoMessages(t *testing.T) {
	a := createTestAssociation(t, Config{})
	a.lock.Lock()
	a.useInterleaving = false
	a.setState(established)
	a.payloadQueue.init(99)
	s := a.createStream(1, false)
	a.lock.Unlock()

	results := make(chan string, 2)
	for i := 0; i < 2; i++ {
		go func() {
			buf := make([]byte, 16)
			n, _, err := s.ReadSCTP(buf)
			if err != nil {
				results <- "err:" + err.Error()

				return
			}
			results <- string(buf[:n])
		}()
	}
	time.Sleep(50 * time.Millisecond)

	mk := func(tsn uint32, ssn uint16, data string) *chunkPayloadData {
		return &chunkPayloadData{
			tsn: tsn, streamIdentifier: 1, streamSequenceNumber: ssn,
			beginningFragment: true, endingFragment: true, userData: []byte(data),
			payloadType: PayloadTypeWebRTCBinary,
		}
	}
	a.lock.Lock()
	a.handleData(mk(101, 1, "B")) // SSN 1 first: complete but not yet deliverable
	a.handleData(mk(100, 0, "A")) // SSN 0: now both are deliverable
	a.lock.Unlock()

	got := map[string]bool{}
	for i := 0; i < 2; i++ {
		select {
		case r := <-results:
			got[r] = true
		case <-time.After(2 * time.Second):
			s.lock.Lock()
			readable := s.reassemblyQueue.isReadable()
			s.lock.Unlock()
			a.lock.Lock()
			a.unregisterStream(s, errors.New("cleanup"))
			a.lock.Unlock()
			t.Fatalf("only %d of 2 blocked readers returned (%v); queue still readable=%v", i, got, readable)
		}
	}
	require.True(t, got["A"] && got["B"], "%v", got)
}
