package sctp

import "testing"

func TestZZSNAExhaustive(t *testing.T) {
	for a := 0; a < 65536; a++ {
		for d := 0; d < 65536; d++ {
			i1 := uint16(a)
			i2 := uint16(a + d)
			lt, gt, eq := sna16LT(i1, i2), sna16GT(i1, i2), sna16EQ(i1, i2)
			lte, gte := sna16LTE(i1, i2), sna16GTE(i1, i2)
			if d == 0 {
				if lt || gt || !eq || !lte || !gte {
					t.Fatalf("eq %d %d", i1, i2)
				}
			} else if d < 32768 {
				if !lt || gt || eq || !lte || gte {
					t.Fatalf("lt %d %d", i1, i2)
				}
			} else if d > 32768 {
				if lt || !gt || eq || lte || !gte {
					t.Fatalf("gt %d %d", i1, i2)
				}
			}
		}
	}
	bases := []uint32{0, 1, 0x7fffffff, 0x80000000, 0x80000001, 0xffffffff, 0xfffffffe, 12345, 0xdeadbeef}
	for d := uint64(0); d < 1<<32; d += 1 {
		if d > 70000 && d < (1<<31)-70000 || d > (1<<31)+70000 && d < (1<<32)-70000 {
			d += 9973
		}
		for _, b := range bases {
			i1 := b
			i2 := b + uint32(d)
			lt, gt, eq := sna32LT(i1, i2), sna32GT(i1, i2), sna32EQ(i1, i2)
			lte, gte := sna32LTE(i1, i2), sna32GTE(i1, i2)
			dd := uint32(d)
			switch {
			case dd == 0:
				if lt || gt || !eq || !lte || !gte {
					t.Fatalf("eq %d %d", i1, i2)
				}
			case dd < 1<<31:
				if !lt || gt || eq || !lte || gte {
					t.Fatalf("lt %d %d", i1, i2)
				}
			case dd > 1<<31:
				if lt || !gt || eq || lte || !gte {
					t.Fatalf("gt %d %d", i1, i2)
				}
			}
		}
	}
}
