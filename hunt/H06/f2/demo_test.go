// SPDX-FileCopyrightText: 2026 The Pion community <https://pion.ly>
// SPDX-License-Identifier: MIT

package sctp

import (
	"testing"
	"time"

	"github.com/pion/logging"
	"github.com/pion/transport/v4/test"
	"github.com/stretchr/testify/assert"
	"github.com/stretchr/testify/require"
)

// Side A generates its out-of-band token with zero checksum enabled, so the token
// (an INIT chunk) carries "Zero Checksum Acceptable". Both sides then start from the
// exchanged tokens. B honours A's declaration and sends zero checksums; A, although
// it is started from the very token that made the declaration, does not accept them
// (the local token is used for interleaving but not for zero checksum), so every
// packet B sends is dropped by A.
func TestHunt2_SNAPZeroChecksumDeclaredInTokenNotAccepted(t *testing.T) {
	lim := test.TimeOut(10 * time.Second)
	defer lim.Stop()

	loggerFactory := logging.NewDefaultLoggerFactory()
	br := test.NewBridge()

	tokenA, err := GenerateOutOfBandToken(WithEnableZeroChecksum(true))
	require.NoError(t, err)
	tokenB, err := GenerateOutOfBandToken()
	require.NoError(t, err)

	assocA, err := ClientWithOptions(
		WithName("a"), WithNetConn(br.GetConn0()), WithLoggerFactory(loggerFactory),
		WithSNAP(tokenA, tokenB))
	require.NoError(t, err)
	assocB, err := ClientWithOptions(
		WithName("b"), WithNetConn(br.GetConn1()), WithLoggerFactory(loggerFactory),
		WithSNAP(tokenB, tokenA))
	require.NoError(t, err)
	defer closeAssociationPair(br, assocA, assocB)

	mA, okA := assocA.Metadata()
	mB, okB := assocB.Metadata()
	require.True(t, okA)
	require.True(t, okB)

	// B sends zero checksums because A's token declared them acceptable ...
	require.True(t, mB.ZeroChecksumSendingEnabled, "B honours the declaration in A's token")
	// ... so A, whose own token made that declaration, has to accept them.
	assert.Equal(t, mB.ZeroChecksumSendingEnabled, mA.ZeroChecksumReceivingEnabled,
		"the two sides disagree about zero checksum on the B->A direction")

	// Consequence: nothing B sends is ever received by A.
	sB, err := assocB.OpenStream(1, PayloadTypeWebRTCBinary)
	require.NoError(t, err)
	_, err = sB.WriteSCTP([]byte("hello"), PayloadTypeWebRTCBinary)
	require.NoError(t, err)

	accepted := make(chan *Stream, 1)
	go func() {
		s, errAccept := assocA.AcceptStream()
		if errAccept == nil {
			accepted <- s
		}
	}()

	deadline := time.Now().Add(1500 * time.Millisecond)
	delivered := false
	for time.Now().Before(deadline) && !delivered {
		br.Process()
		select {
		case <-accepted:
			delivered = true
		default:
			time.Sleep(10 * time.Millisecond)
		}
	}
	assert.True(t, delivered, "DATA sent by B never reaches A (dropped: checksum mismatch)")
}
