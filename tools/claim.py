#!/usr/bin/env python3
"""usage: claim.py Cxx 'level text' 'technique' ['note']   |   claim.py Cxx --na 'reason'"""
import json, sys
p='/verif/tools/claims.json'; P=json.load(open(p))
pid=sys.argv[1]
if sys.argv[2]=='--na':
    P[pid]={"claimed":False,"reason":sys.argv[3]}
else:
    P[pid]={"claimed":True,"text":sys.argv[2],"technique":sys.argv[3],
            "note":sys.argv[4] if len(sys.argv)>4 else "trusted: go/types, go/ssa, the checker's call graph construction and rule tables; rules are necessary conditions only"}
json.dump(P,open(p,'w'),indent=1)
