package sctp

import (
	"bytes"
	"context"
	"errors"
	"io"
	"testing"
	"time"

	"github.com/pion/logging"
	"github.com/pion/transport/v4/test"
	"github.com/stretchr/testify/require"
)

// A blocking Write that is waiting for the association to become writable
// overlaps with Stream.Close(). The Write reports success, yet the message is
// never delivered: it is sent after the outgoing stream reset.
func TestZZBlockedWriteOverlapsStreamClose(t *testing.T) {
	br := test.NewBridge()
	lf := logging.NewDefaultLoggerFactory()

	type res struct {
		a   *Association
		err error
	}
	c0, c1 := make(chan res, 1), make(chan res, 1)
	go func() {
		a, err := ClientWithOptions(Config{Name: "a0", NetConn: br.GetConn0(), LoggerFactory: lf, BlockWrite: true})
		c0 <- res{a, err}
	}()
	go func() {
		a, err := ServerWithOptions(Config{Name: "a1", NetConn: br.GetConn1(), LoggerFactory: lf})
		c1 <- res{a, err}
	}()
	var a0, a1 *Association
	for i := 0; i < 200 && (a0 == nil || a1 == nil); i++ {
		time.Sleep(5 * time.Millisecond)
		br.Tick()
		select {
		case r := <-c0:
			require.NoError(t, r.err)
			a0 = r.a
		case r := <-c1:
			require.NoError(t, r.err)
			a1 = r.a
		default:
		}
	}
	require.NotNil(t, a0)
	require.NotNil(t, a1)

	stopTick := make(chan struct{})
	tickDone := make(chan struct{})
	startTicker := func() {
		stopTick = make(chan struct{})
		tickDone = make(chan struct{})
		go func() {
			defer close(tickDone)
			for {
				select {
				case <-stopTick:
					return
				default:
				}
				br.Tick()
				time.Sleep(time.Millisecond)
			}
		}()
	}
	pause := func() { close(stopTick); <-tickDone }

	startTicker()
	s0, err := a0.OpenStream(1, PayloadTypeWebRTCBinary)
	require.NoError(t, err)
	_, err = s0.Write([]byte("hello"))
	require.NoError(t, err)
	s1, err := a1.AcceptStream()
	require.NoError(t, err)
	buf := make([]byte, 70000)
	n, err := s1.Read(buf)
	require.NoError(t, err)
	require.Equal(t, "hello", string(buf[:n]))
	time.Sleep(50 * time.Millisecond)
	pause() // freeze the network

	msgA := bytes.Repeat([]byte{'A'}, 30000)
	msgB := bytes.Repeat([]byte{'B'}, 100)

	_, err = s0.Write(msgA) // queued; association now "write pending"
	require.NoError(t, err)

	writeB := make(chan error, 1)
	go func() {
		_, werr := s0.Write(msgB) // blocks until A has left the pending queue
		writeB <- werr
	}()
	time.Sleep(100 * time.Millisecond)
	select {
	case <-writeB:
		t.Fatal("setup: Write(B) should be blocked")
	default:
	}

	require.NoError(t, s0.Close()) // overlaps with the blocked Write(B)

	startTicker() // network resumes
	defer func() {
		pause()
		closeAssociationPair(br, a0, a1)
	}()

	var errB error
	select {
	case errB = <-writeB:
	case <-time.After(5 * time.Second):
		t.Fatal("Write(B) never returned")
	}
	t.Logf("Write(B) returned err=%v", errB)

	// Drain s1 until EOF (the stream reset).
	var got [][]byte
	for {
		_ = s1.SetReadDeadline(time.Now().Add(3 * time.Second))
		n, rerr := s1.Read(buf)
		if rerr != nil {
			t.Logf("s1 read ended with: %v", rerr)
			require.True(t, errors.Is(rerr, io.EOF), "expected EOF, got %v", rerr)

			break
		}
		got = append(got, append([]byte{}, buf[:n]...))
	}
	require.GreaterOrEqual(t, len(got), 1)
	require.Equal(t, msgA, got[0])

	if errB != nil {
		return // a failed Write may legitimately be undelivered
	}

	deliveredB := len(got) >= 2 && bytes.Equal(got[1], msgB)
	if !deliveredB {
		// maybe it shows up on a re-created stream with the same id?
		acc := make(chan *Stream, 1)
		go func() {
			s, aerr := a1.AcceptStream()
			if aerr == nil {
				acc <- s
			}
		}()
		select {
		case s := <-acc:
			t.Logf("peer accepted a new (phantom) stream id=%d after the reset", s.StreamIdentifier())
			_ = s.SetReadDeadline(time.Now().Add(2 * time.Second))
			n, rerr := s.Read(buf)
			if rerr == nil && bytes.Equal(buf[:n], msgB) {
				deliveredB = true
			} else {
				t.Logf("read on phantom stream: n=%d err=%v (queued bytes=%d)", n, rerr, s.getNumBytesInReassemblyQueue())
			}
		case <-time.After(2 * time.Second):
		}
	}
	require.True(t, deliveredB, "Write(B) returned nil error but message B was never delivered to the peer")
}

// Same defect without BlockWrite: WriteSCTP checks the stream state first and
// only later (after packetize) queues the chunks; nothing is held in between.
// Writer pre-empted after step 1 (state check + packetize), Close() runs
// completely, writer resumes with step 2.
func TestZZWriteStepsInterleavedWithStreamClose(t *testing.T) {
	c1, c2 := createUDPConnPair()
	a0, a1, err := createAssociationPairWithConfig(c1, c2, Config{})
	require.NoError(t, err)
	defer a0.Close() //nolint:errcheck
	defer a1.Close() //nolint:errcheck

	s0, err := a0.OpenStream(1, PayloadTypeWebRTCBinary)
	require.NoError(t, err)
	_, err = s0.Write([]byte("hello"))
	require.NoError(t, err)
	s1, err := a1.AcceptStream()
	require.NoError(t, err)
	buf := make([]byte, 2000)
	n, err := s1.Read(buf)
	require.NoError(t, err)
	require.Equal(t, "hello", string(buf[:n]))

	// writer: first half of WriteSCTP
	require.Equal(t, StreamStateOpen, s0.State())
	chunks, _ := s0.packetize([]byte("late"), PayloadTypeWebRTCBinary)
	// other goroutine: complete Close()
	require.NoError(t, s0.Close())
	time.Sleep(100 * time.Millisecond) // the write loop sends the RE-CONFIG meanwhile
	// writer: second half of WriteSCTP -> returns nil, i.e. Write reports success
	require.NoError(t, a0.sendPayloadData(context.Background(), chunks))

	var got []string
	for {
		_ = s1.SetReadDeadline(time.Now().Add(3 * time.Second))
		n, rerr := s1.Read(buf)
		if rerr != nil {
			require.True(t, errors.Is(rerr, io.EOF), "expected EOF, got %v", rerr)

			break
		}
		got = append(got, string(buf[:n]))
	}
	if len(got) == 1 && got[0] == "late" {
		return
	}
	acc := make(chan *Stream, 1)
	go func() {
		if s, aerr := a1.AcceptStream(); aerr == nil {
			acc <- s
		}
	}()
	select {
	case s := <-acc:
		_ = s.SetReadDeadline(time.Now().Add(2 * time.Second))
		n, rerr := s.Read(buf)
		t.Fatalf("message written successfully was not delivered before the reset (got %v); instead the peer accepted a "+
			"phantom stream id=%d on which Read gives n=%d err=%v while %d bytes sit undeliverable in its reassembly queue",
			got, s.StreamIdentifier(), n, rerr, s.getNumBytesInReassemblyQueue())
	case <-time.After(2 * time.Second):
		t.Fatalf("message written successfully was never delivered (got %v)", got)
	}
}
