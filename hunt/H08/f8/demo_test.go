package sctp

import (
	"testing"
	"time"

	"github.com/pion/transport/v4/test"
	"github.com/stretchr/testify/assert"
	"github.com/stretchr/testify/require"
)

// Finding 8 (C12, low severity / rarely used configuration): with MaxReceiveBufferSize
// below 1500 the normal handshake emits an INIT whose a_rwnd is < 1500. RFC 9260 3.3.2:
// "an SCTP endpoint MUST NOT indicate less than 1500 bytes in its initial a_rwnd"; the
// library's own chunkInit.check() classifies exactly this INIT as invalid (abort), and
// GenerateOutOfBandToken (SNAP) refuses to produce it - the normal handshake does not.
func TestZZHunt8_InitWithTooSmallRwndEmitted(t *testing.T) {
	lim := test.TimeOut(10 * time.Second)
	defer lim.Stop()

	_, err := GenerateOutOfBandToken(WithMaxReceiveBufferSize(1000))
	require.ErrorIs(t, err, ErrInitAdvertisedReceiver1500, "SNAP path validates the INIT it builds")

	br := test.NewBridge()
	emitted := make(chan []byte, 16)
	br.Filter(0, func(raw []byte) bool {
		select {
		case emitted <- append([]byte{}, raw...):
		default:
		}

		return true
	})

	a, err := createClientAssociation(Config{NetConn: br.GetConn0(), MaxReceiveBufferSize: 1000})
	require.NoError(t, err)
	a.initClient()
	defer func() {
		done := make(chan struct{})
		go func() { _ = a.Close(); close(done) }()
		for {
			select {
			case <-done:
				return
			default:
				br.Tick()
				time.Sleep(5 * time.Millisecond)
			}
		}
	}()

	var raw []byte
	for raw == nil {
		br.Tick()
		select {
		case raw = <-emitted:
		default:
			time.Sleep(5 * time.Millisecond)
		}
	}

	p := &packet{}
	require.NoError(t, p.unmarshal(true, raw))
	init, ok := p.chunks[0].(*chunkInit)
	require.True(t, ok)
	t.Logf("emitted INIT a_rwnd=%d", init.advertisedReceiverWindowCredit)
	_, cerr := init.check()
	assert.NoError(t, cerr, "the INIT emitted by the client is rejected by the library's own INIT validation")
	assert.GreaterOrEqual(t, init.advertisedReceiverWindowCredit, uint32(1500))
}
