package main

import (
	"fmt"
	"go/token"
	"go/types"

	"golang.org/x/tools/go/ssa"
)

// minContinue: for a loop-header branch on (X op K) with K constant, the
// smallest value of X for which the loop body is entered.
func minContinue(ifi *ssa.If, bodySucc int) (x ssa.Value, min int64, ok bool) {
	b, isB := ifi.Cond.(*ssa.BinOp)
	if !isB {
		return nil, 0, false
	}
	op := b.Op
	x = b.X
	k, isK := constInt(b.Y)
	if !isK {
		if k2, isK2 := constInt(b.X); isK2 {
			k, x, op = k2, b.Y, swapOp(op)
		} else {
			return nil, 0, false
		}
	}
	if bodySucc == 1 {
		op = invertOp(op)
	}
	switch op {
	case token.GEQ:
		return x, k, true
	case token.GTR:
		return x, k + 1, true
	}
	return nil, 0, false
}

func init() {
	register(&Rule{ID: "C12.R10", Props: []string{"C12", "C03"}, Engine: "E3-sibling",
		Title:   "error-cause list decoders (ABORT and ERROR agree): the loop over causes continues exactly while at least one cause header (errorCauseHeaderLength bytes) remains, so a trailing cause with an empty value — which the endpoint itself emits — is decoded, not silently dropped",
		MinInst: 2,
		Run: func(c *RuleCtx) {
			hl := c.P.Const("errorCauseHeaderLength")
			if hl == nil {
				c.Unresolved("errorCauseHeaderLength")
				return
			}
			var want int64
			fmt.Sscan(hl.Val().String(), &want)
			bec := c.Fn("buildErrorCause")
			for _, name := range []string{"chunkAbort.unmarshal", "chunkError.unmarshal"} {
				fn := c.Fn(name)
				found := false
				for _, call := range callsIn(fn, bec) {
					lp := loopBlocks(call.Block())
					if len(lp) == 0 {
						continue
					}
					// the loop's exit test
					for blk := range lp {
						ifi, ok := blk.Instrs[len(blk.Instrs)-1].(*ssa.If)
						if !ok {
							continue
						}
						body := -1
						if lp[blk.Succs[0]] && !lp[blk.Succs[1]] {
							body = 0
						} else if lp[blk.Succs[1]] && !lp[blk.Succs[0]] {
							body = 1
						}
						if body < 0 {
							continue
						}
						x, min, ok := minContinue(ifi, body)
						if !ok {
							continue
						}
						if sub, isSub := unconv(x).(*ssa.BinOp); !isSub || sub.Op != token.SUB {
							continue
						}
						found = true
						c.Check(min == want, "cause-loop-bound:"+name, c.Pos(ifi), fmt.Sprintf("loop continues while remaining ≥ %d = errorCauseHeaderLength", min),
							fmt.Sprintf("loop continues only while remaining ≥ %d, but a cause header is %d bytes: a trailing header-only cause is dropped (or a partial header is parsed)", min, want))
					}
				}
				if !found {
					c.Fail("cause-loop-bound:"+name, c.P.Pos(fn.Pos()), "no 'remaining ≥ constant' loop around buildErrorCause found")
				}
			}
		}})
}

func init() {
	register(&Rule{ID: "C12.R11", Props: []string{"C12", "C14"}, Engine: "E1-sibling",
		Title:   "RE-CONFIG framing agrees between encoder and decoder: parameter A is written first and padded to 4 bytes exactly when a parameter B follows, B is appended after the padding; the decoder looks for B at length(A)+padding(length(A)) and stores the first/second parsed parameter into paramA/paramB respectively",
		MinInst: 6,
		Run: func(c *RuleCtx) {
			enc, dec := c.Fn("chunkReconfig.marshal"), c.Fn("chunkReconfig.unmarshal")
			pA, pB := c.field("chunkReconfig", "paramA"), c.field("chunkReconfig", "paramB")
			getPad, padB, build := c.Fn("getPadding"), c.Fn("padByte"), c.Fn("buildParam")
			isMarshalOf := func(v ssa.Value, f *types.Var) bool {
				ex, ok := v.(*ssa.Extract)
				if !ok || ex.Index != 0 {
					return false
				}
				call, ok := ex.Tuple.(*ssa.Call)
				return ok && call.Call.IsInvoke() && call.Call.Method.Name() == "marshal" && IsLoadOf(f)(call.Call.Value)
			}
			// encoder
			var appendB *ssa.Call
			forEachInstr(enc, func(in ssa.Instruction) {
				if call, ok := in.(*ssa.Call); ok {
					if b, ok := call.Call.Value.(*ssa.Builtin); ok && b.Name() == "append" && len(call.Call.Args) == 2 && isMarshalOf(call.Call.Args[1], pB) {
						appendB = call
					}
				}
			})
			c.Check(appendB != nil, "enc-B-appended", c.P.Pos(enc.Pos()), "paramB.marshal() is appended", "encoder does not append parameter B's bytes")
			if appendB != nil {
				base, ok := appendB.Call.Args[0].(*ssa.Call)
				okPad := ok && base.Call.StaticCallee() == padB && isMarshalOf(base.Call.Args[0], pA)
				if okPad {
					g, ok := base.Call.Args[1].(*ssa.Call)
					okPad = ok && g.Call.StaticCallee() == getPad
					if okPad {
						l, ok := unconv(g.Call.Args[0]).(*ssa.Call)
						okPad = ok && isMarshalOf(l.Call.Args[0], pA)
					}
				}
				c.Check(okPad, "enc-A-then-pad-then-B", c.Pos(appendB), "append(padByte(A, getPadding(len(A))), B…)", "parameter B is not appended to parameter A padded to a 4-byte boundary (wrong order, or padding computed from something else)")
				c.Dom("enc-pad-iff-B", appendB, CmpCond(token.NEQ, IsLoadOf(pB), isNilConst), "paramB != nil")
			}
			// what reaches chunkHeader.raw when there is no B is A unpadded: the φ at the merge has A's bytes on the other edge
			rawF := c.field("chunkHeader", "raw")
			okRaw := false
			for _, a := range c.storesIn(enc, rawF) {
				if phi, ok := a.Val.(*ssa.Phi); ok {
					hasA, hasAB := false, false
					for _, e := range phi.Edges {
						if isMarshalOf(e, pA) {
							hasA = true
						}
						if e == ssa.Value(appendB) {
							hasAB = true
						}
					}
					okRaw = hasA && hasAB
				}
			}
			c.Check(okRaw, "enc-value", c.P.Pos(enc.Pos()), "chunk value = A, or A‖pad‖B", "chunk value is not A (alone, unpadded) or A‖pad‖B")
			// decoder
			// parameter-parse sites: calls to buildParam, or to a wrapper that forwards its byte-slice parameter to buildParam
			type psite struct {
				call ssa.CallInstruction
				raw  ssa.Value
			}
			var sites []psite
			forEachInstr(dec, func(in ssa.Instruction) {
				ci, ok := in.(ssa.CallInstruction)
				if !ok {
					return
				}
				sc := ci.Common().StaticCallee()
				if sc == nil {
					return
				}
				if sc == build {
					sites = append(sites, psite{ci, ci.Common().Args[1]})
					return
				}
				if c.P.inPkg(sc) && sc.Blocks != nil {
					for _, inner := range callsIn(sc, build) {
						for pi, p := range sc.Params {
							if unconv(inner.Common().Args[1]) == ssa.Value(p) && pi < len(ci.Common().Args) {
								sites = append(sites, psite{ci, ci.Common().Args[pi]})
							}
						}
					}
				}
			})
			var calls []ssa.CallInstruction
			rawOf := map[ssa.CallInstruction]ssa.Value{}
			for _, ps := range sites {
				calls = append(calls, ps.call)
				rawOf[ps.call] = ps.raw
			}
			c.Check(len(calls) == 2, "dec-two-params", c.P.Pos(dec.Pos()), "two parameter-parse sites (A, optional B)", fmt.Sprintf("%d parameter-parse sites", len(calls)))
			for _, a := range c.storesIn(dec, pA) {
				ex, ok := a.Val.(*ssa.Extract)
				okA := ok && len(calls) == 2 && ex.Tuple == calls[0].(ssa.Value)
				if okA {
					_, sliced := rawOf[calls[0]].(*ssa.Slice)
					okA = !sliced
				}
				c.Check(okA, "dec-A-is-first", c.Pos(a.Instr), "paramA = parameter parsed at offset 0", "paramA is not the parameter parsed at the start of the chunk value")
			}
			for _, a := range c.storesIn(dec, pB) {
				ex, ok := a.Val.(*ssa.Extract)
				okB := false
				if ok && len(calls) == 2 && ex.Tuple == calls[1].(ssa.Value) {
					if sl, ok := rawOf[calls[1]].(*ssa.Slice); ok && sl.Low != nil {
						if sum, ok := unconv(sl.Low).(*ssa.BinOp); ok && sum.Op == token.ADD {
							isLenA := func(v ssa.Value) bool {
								call, ok := v.(*ssa.Call)
								return ok && call.Call.IsInvoke() && call.Call.Method.Name() == "length"
							}
							isPadLenA := func(v ssa.Value) bool {
								call, ok := v.(*ssa.Call)
								return ok && call.Call.StaticCallee() == getPad && isLenA(call.Call.Args[0])
							}
							okB = (isLenA(sum.X) && isPadLenA(sum.Y)) || (isLenA(sum.Y) && isPadLenA(sum.X))
						}
					}
				}
				c.Check(okB, "dec-B-after-padded-A", c.Pos(a.Instr), "paramB parsed at length(A)+getPadding(length(A))", "paramB is not parsed at length(A)+padding(length(A))")
			}
		}})
}
