package sctp

import (
	"sync"
	"testing"
	"time"

	"github.com/pion/transport/v4/test"
	"github.com/stretchr/testify/assert"
	"github.com/stretchr/testify/require"
)

// C06: under a retransmission limit N a chunk is put on the wire at most N+1 times.
// With N=0 and a message that is fragmented into more chunks than the congestion
// window admits at once, the first fragments are retransmitted although the
// limit is exhausted after the first transmission.
func TestHunt1RexmitLimitFragmentedBeyondCwnd(t *testing.T) {
	lim := test.TimeOut(time.Second * 20)
	defer lim.Stop()

	const si uint16 = 1
	br := test.NewBridge()

	a0, a1, err := createNewAssociationPair(br, ackModeNoDelay, 0)
	require.NoError(t, err)

	s0, s1, err := establishSessionPair(br, a0, a1, si)
	require.NoError(t, err)
	_ = s1

	s0.SetReliabilityParams(false, ReliabilityTypeRexmit, 0) // N = 0: one transmission only

	var mu sync.Mutex
	wire := map[uint32]int{} // tsn -> number of times put on the wire by a0
	dropped := false
	var droppedTSN uint32
	br.Filter(0, func(raw []byte) bool {
		p := &packet{}
		if err := p.unmarshal(true, raw); err != nil {
			return true
		}
		mu.Lock()
		defer mu.Unlock()
		keep := true
		for _, c := range p.chunks {
			if d, ok := c.(*chunkPayloadData); ok {
				wire[d.tsn]++
				if !dropped && d.beginningFragment && !d.endingFragment {
					// lose the first transmission of the first fragment
					dropped = true
					droppedTSN = d.tsn
					keep = false
				}
			}
		}

		return keep
	})

	msg := make([]byte, 30000)
	for i := range msg {
		msg[i] = byte(i)
	}
	n, err := s0.WriteSCTP(msg, PayloadTypeWebRTCBinary)
	require.NoError(t, err)
	require.Equal(t, len(msg), n)

	flushBuffers(br, a0, a1)
	br.Process()

	mu.Lock()
	defer mu.Unlock()
	require.True(t, dropped)
	for tsn, cnt := range wire {
		assert.LessOrEqualf(t, cnt, 1,
			"tsn=%d (dropped first fragment tsn=%d) was put on the wire %d times with max retransmits 0",
			tsn, droppedTSN, cnt)
	}

	br.Filter(0, nil)
	closeAssociationPair(br, a0, a1)
}
