package main

import (
	"encoding/json"
	"fmt"
	"io"
	"os"
	"os/exec"
	"path/filepath"
	"runtime"
	"sort"
	"strings"
)

// Sensitivity sweep (thorough tier): the analyser is run on variants of /repo
// that are only *analysed*, never built into a binary or executed:
//  - seeded defects (/verif/seeded/*/patch.diff) that some rule of the property
//    is recorded to report must still be reported by that property's rules;
//  - behaviour-preserving variants (/verif/variants/preserving/*.diff and
//    agents/*/patch.diff) must not add any failing obligation.
// The outcome is recorded in the evidence; it does not change the exit status,
// which speaks about the unchanged tree only.

type sweepResult struct {
	Variant string   `json:"variant"`
	Kind    string   `json:"kind"` // seeded | preserving
	Outcome string   `json:"outcome"`
	Rules   []string `json:"rules,omitempty"`
}

func copyTree(src, dst string) error {
	return filepath.Walk(src, func(path string, info os.FileInfo, err error) error {
		if err != nil {
			return err
		}
		rel, _ := filepath.Rel(src, path)
		if rel == ".git" || strings.HasPrefix(rel, ".git"+string(os.PathSeparator)) {
			if info.IsDir() {
				return filepath.SkipDir
			}
			return nil
		}
		target := filepath.Join(dst, rel)
		if info.IsDir() {
			return os.MkdirAll(target, 0o755)
		}
		if !info.Mode().IsRegular() {
			return nil
		}
		in, err := os.Open(path)
		if err != nil {
			return err
		}
		defer in.Close()
		out, err := os.Create(target)
		if err != nil {
			return err
		}
		defer out.Close()
		_, err = io.Copy(out, in)
		return err
	})
}

// analyseVariant analyses /repo + patch in a scratch copy with a fresh
// sctpverif process (so that many variants can be swept in parallel without
// keeping their programs in memory) and returns the failing obligations.
func analyseVariant(prop, repo, patch string, only map[string]bool) (failed map[string]bool, byRule map[string]bool, note string) {
	tmp, err := os.MkdirTemp("", "sctpverif-variant-")
	if err != nil {
		return nil, nil, "cannot create scratch dir: " + err.Error()
	}
	defer os.RemoveAll(tmp)
	if err := copyTree(repo, tmp); err != nil {
		return nil, nil, "copy failed: " + err.Error()
	}
	cmd := exec.Command("patch", "-p1", "-s", "-f", "-i", patch)
	cmd.Dir = tmp
	if out, err := cmd.CombinedOutput(); err != nil {
		return nil, nil, "patch does not apply to the current tree: " + strings.TrimSpace(string(out))
	}
	self, err := os.Executable()
	if err != nil {
		return nil, nil, "cannot locate the analyser binary: " + err.Error()
	}
	run := exec.Command(self, "check", prop, "--repo", tmp, "--no-evidence", "--tier", "quick")
	run.Env = append(os.Environ(), "VERIF_SWEEP_CHILD=1")
	outB, _ := run.CombinedOutput()
	failed, byRule = map[string]bool{}, map[string]bool{}
	sawSummary := false
	for _, line := range strings.Split(string(outB), "\n") {
		f := strings.Fields(line)
		if len(f) >= 3 && (f[0] == "VIOLATION" || f[0] == "UNRESOLVED") && strings.Contains(f[1], ".R") {
			if only != nil && !only[f[1]] {
				continue
			}
			failed[f[1]+"|"+f[2]] = true
			byRule[f[1]] = true
		}
		if strings.HasPrefix(line, prop+":") {
			sawSummary = true
		}
	}
	if !sawSummary {
		return nil, nil, "variant could not be analysed (does not type-check?)"
	}
	return failed, byRule, ""
}

func runSweep(prop, repo, verif string, rules []*Rule, baseFailed map[string]bool) []sweepResult {
	ruleIDs := map[string]bool{}
	for _, r := range rules {
		ruleIDs[r.ID] = true
	}
	type job struct {
		name, kind, patch string
		only              map[string]bool
	}
	var jobs []job
	metas, _ := filepath.Glob(filepath.Join(verif, "seeded", "*", "meta.json"))
	sort.Strings(metas)
	for _, mp := range metas {
		b, err := os.ReadFile(mp)
		if err != nil {
			continue
		}
		var meta struct {
			Detected []string `json:"detected_by_now"`
		}
		if json.Unmarshal(b, &meta) != nil {
			continue
		}
		mine := map[string]bool{}
		for _, id := range meta.Detected {
			if ruleIDs[id] {
				mine[id] = true
			}
		}
		if len(mine) == 0 {
			continue
		}
		dir := filepath.Dir(mp)
		jobs = append(jobs, job{filepath.Base(dir), "seeded", filepath.Join(dir, "patch.diff"), mine})
	}
	pres, _ := filepath.Glob(filepath.Join(verif, "variants", "preserving", "*.diff"))
	sort.Strings(pres)
	for _, pp := range pres {
		jobs = append(jobs, job{filepath.Base(pp), "preserving", pp, nil})
	}
	apres, _ := filepath.Glob(filepath.Join(verif, "variants", "preserving", "agents", "*", "patch.diff"))
	sort.Strings(apres)
	for _, pp := range apres {
		jobs = append(jobs, job{filepath.Base(filepath.Dir(pp)), "preserving", pp, nil})
	}
	out := make([]sweepResult, len(jobs))
	workers := runtime.NumCPU()
	if workers > 12 {
		workers = 12
	}
	ch := make(chan int)
	done := make(chan bool)
	for w := 0; w < workers; w++ {
		go func() {
			for i := range ch {
				j := jobs[i]
				res := sweepResult{Variant: j.name, Kind: j.kind}
				failed, byRule, note := analyseVariant(prop, repo, j.patch, j.only)
				switch {
				case note != "":
					res.Outcome = "skipped: " + note
				case j.kind == "seeded":
					if len(byRule) > 0 {
						res.Outcome = "reported"
						for id := range byRule {
							res.Rules = append(res.Rules, id)
						}
						sort.Strings(res.Rules)
					} else {
						res.Outcome = "LOST: no rule of " + prop + " reports this seeded defect any more"
					}
				default:
					var extra []string
					for k := range failed {
						if !baseFailed[k] {
							extra = append(extra, k)
						}
					}
					sort.Strings(extra)
					if len(extra) == 0 {
						res.Outcome = "silent"
					} else {
						res.Outcome = fmt.Sprintf("FALSE-ALARM on a behaviour-preserving variant: %s", strings.Join(extra, "; "))
					}
				}
				out[i] = res
			}
			done <- true
		}()
	}
	for i := range jobs {
		ch <- i
	}
	close(ch)
	for w := 0; w < workers; w++ {
		<-done
	}
	return out
}
