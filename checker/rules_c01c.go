package main

import (
	"fmt"
	"go/token"
	"go/types"

	"golang.org/x/tools/go/ssa"
)

// C01.R8 — the generic ring queue behind the in-flight queue is a FIFO.
func init() {
	register(&Rule{ID: "C01.R8", Props: []string{"C01", "C02", "C05"}, Engine: "E3-shape",
		Title:   "the ring queue (in-flight chunks) is a FIFO: push stores at buf[tail] after making room and advances tail by one modulo the capacity, pop returns buf[head] and advances head the same way, At(i) reads buf[(head+i) mod cap], and growing copies the elements in queue order (buf[head:] first, then buf[:tail]) into a buffer of at least twice the count, then sets head=0, tail=count",
		MinInst: 12,
		Run: func(c *RuleCtx) {
			buf, head, tail, count := c.field("queue", "buf"), c.field("queue", "head"), c.field("queue", "tail"), c.field("queue", "count")
			lenBuf := func(v ssa.Value) bool {
				call, ok := unconv(v).(*ssa.Call)
				if !ok {
					return false
				}
				b, ok := call.Call.Value.(*ssa.Builtin)
				return ok && b.Name() == "len" && IsLoadOf(buf)(call.Call.Args[0])
			}
			// v == (f + k) mod len(buf)
			stepMod := func(v ssa.Value, f *types.Var, k int64) bool {
				m, ok := unconv(v).(*ssa.BinOp)
				if !ok || m.Op != token.REM || !lenBuf(m.Y) {
					return false
				}
				return BinV(token.ADD, IsLoadOf(f), IsConstInt(k))(m.X) || BinV(token.ADD, IsConstInt(k), IsLoadOf(f))(m.X)
			}
			one := func(fn *ssa.Function, f *types.Var, key string, pred func(ssa.Value) bool, okMsg, badMsg string) {
				st := c.storesIn(fn, f)
				c.Check(len(st) == 1 && pred(st[0].Val), key, c.P.Pos(fn.Pos()), okMsg, fmt.Sprintf("%s (%d store(s) to %s)", badMsg, len(st), f.Name()))
			}
			push, pop, at, grow := c.Fn("queue.PushBack"), c.Fn("queue.PopFront"), c.Fn("queue.At"), c.Fn("queue.growIfFull")
			// push
			var elemStore *ssa.Store
			forEachInstr(push, func(in ssa.Instruction) {
				if st, ok := in.(*ssa.Store); ok {
					if ia, ok := st.Addr.(*ssa.IndexAddr); ok && IsLoadOf(buf)(ia.X) {
						elemStore = st
					}
				}
			})
			okPush := elemStore != nil && IsLoadOf(tail)(elemStore.Addr.(*ssa.IndexAddr).Index) && elemStore.Val == ssa.Value(push.Params[1])
			c.Check(okPush, "push-at-tail", c.P.Pos(push.Pos()), "buf[tail] = element", "push does not store the element at buf[tail]")
			if elemStore != nil {
				roomFirst := false
				for _, g := range callsIn(push, grow) {
					if InstrDominates(g, elemStore) {
						roomFirst = true
					}
				}
				c.Check(roomFirst, "push-grows-first", c.Pos(elemStore), "growIfFull() precedes the store", "element stored before room is made (overwrites the oldest element when full)")
				// tail is read for the store before it is advanced
				for _, a := range c.storesIn(push, tail) {
					c.Check(InstrDominates(elemStore, a.Instr), "push-store-before-advance", c.Pos(a.Instr), "tail advanced after the element was stored", "tail advanced before the element is stored")
				}
			}
			one(push, tail, "push-advances-tail", func(v ssa.Value) bool { return stepMod(v, tail, 1) }, "tail = (tail+1) mod cap", "tail not advanced by one modulo the capacity")
			one(push, count, "push-counts", BinV(token.ADD, IsLoadOf(count), IsConstInt(1)), "count++", "count not incremented by one")
			// pop
			okPop := false
			for _, r := range allReturns(pop) {
				if u, ok := retResults(r)[0].(*ssa.UnOp); ok && u.Op == token.MUL {
					if ia, ok := u.X.(*ssa.IndexAddr); ok && IsLoadOf(buf)(ia.X) && IsLoadOf(head)(ia.Index) {
						okPop = true
						for _, a := range c.storesIn(pop, head) {
							c.Check(InstrDominates(u, a.Instr), "pop-read-before-advance", c.Pos(a.Instr), "head advanced after the element was read", "head advanced before the element is read")
						}
					}
				}
			}
			c.Check(okPop, "pop-from-head", c.P.Pos(pop.Pos()), "returns buf[head]", "pop does not return buf[head]")
			one(pop, head, "pop-advances-head", func(v ssa.Value) bool { return stepMod(v, head, 1) }, "head = (head+1) mod cap", "head not advanced by one modulo the capacity")
			one(pop, count, "pop-counts", BinV(token.SUB, IsLoadOf(count), IsConstInt(1)), "count--", "count not decremented by one")
			// At
			okAt := false
			for _, r := range allReturns(at) {
				if u, ok := retResults(r)[0].(*ssa.UnOp); ok && u.Op == token.MUL {
					if ia, ok := u.X.(*ssa.IndexAddr); ok && IsLoadOf(buf)(ia.X) {
						if m, ok := unconv(ia.Index).(*ssa.BinOp); ok && m.Op == token.REM && lenBuf(m.Y) {
							okAt = BinV(token.ADD, IsLoadOf(head), IsParam(at, 1))(m.X) || BinV(token.ADD, IsParam(at, 1), IsLoadOf(head))(m.X)
						}
					}
				}
			}
			c.Check(okAt, "at-offset-from-head", c.P.Pos(at.Pos()), "At(i) = buf[(head+i) mod cap]", "At(i) does not index from head modulo the capacity")
			// grow
			okGuard := false
			for _, r := range allReturns(grow) {
				if DominatedByExt(r, func(v ssa.Value, t bool) bool {
					b, ok := v.(*ssa.BinOp)
					return ok && t && b.Op == token.LSS && IsLoadOf(count)(b.X) && lenBuf(b.Y)
				}) {
					okGuard = true
				}
			}
			c.Check(okGuard, "grow-only-when-full", c.P.Pos(grow.Pos()), "returns early iff count < cap", "growIfFull's early return is not 'count < cap'")
			var mk *ssa.MakeSlice
			forEachInstr(grow, func(in ssa.Instruction) {
				if m, ok := in.(*ssa.MakeSlice); ok {
					mk = m
				}
			})
			okCap := false
			if mk != nil {
				if b, ok := unconv(mk.Len).(*ssa.BinOp); ok {
					if k, isK := constInt(b.Y); isK && IsLoadOf(count)(b.X) && ((b.Op == token.SHL && k >= 1) || (b.Op == token.MUL && k >= 2)) {
						okCap = true
					}
					if k, isK := constInt(b.X); isK && IsLoadOf(count)(b.Y) && b.Op == token.MUL && k >= 2 {
						okCap = true
					}
					if b.Op == token.ADD && IsLoadOf(count)(b.X) && IsLoadOf(count)(b.Y) {
						okCap = true
					}
				}
			}
			c.Check(okCap, "grow-doubles", c.P.Pos(grow.Pos()), "new capacity ≥ 2·count", "new buffer is not at least twice the element count")
			// copies: wrapped case = buf[head:] to new[0:], then buf[:tail] to new[n:]
			type cp struct {
				call     *ssa.Call
				dst, src ssa.Value
			}
			var cps []cp
			forEachInstr(grow, func(in ssa.Instruction) {
				if call, ok := in.(*ssa.Call); ok {
					if b, ok := call.Call.Value.(*ssa.Builtin); ok && b.Name() == "copy" {
						cps = append(cps, cp{call, call.Call.Args[0], call.Call.Args[1]})
					}
				}
			})
			var first, second, straight *cp
			for i := range cps {
				s, ok := cps[i].src.(*ssa.Slice)
				if !ok || !IsLoadOf(buf)(s.X) {
					continue
				}
				switch {
				case s.Low != nil && IsLoadOf(head)(s.Low) && s.High == nil:
					first = &cps[i]
				case s.Low == nil && s.High != nil && IsLoadOf(tail)(s.High):
					second = &cps[i]
				case s.Low != nil && IsLoadOf(head)(s.Low) && s.High != nil && IsLoadOf(tail)(s.High):
					straight = &cps[i]
				}
			}
			okWrap := first != nil && second != nil && mk != nil && first.dst == ssa.Value(mk) && InstrDominates(first.call, second.call)
			if okWrap {
				d, ok := second.dst.(*ssa.Slice)
				okWrap = ok && d.X == ssa.Value(mk) && d.Low == ssa.Value(first.call) && d.High == nil
			}
			c.Check(okWrap, "grow-copies-in-queue-order", c.P.Pos(grow.Pos()), "n = copy(new, buf[head:]); copy(new[n:], buf[:tail])", "the wrapped case does not copy buf[head:] then buf[:tail] contiguously: elements are reordered or lost when the queue grows")
			if straight != nil {
				okS := mk != nil && straight.dst == ssa.Value(mk) && DominatedByExt(straight.call, CmpCond(token.GTR, IsLoadOf(tail), IsLoadOf(head)))
				c.Check(okS, "grow-straight-case", c.Pos(straight.call), "copy(new, buf[head:tail]) only when tail > head", "the unwrapped copy is taken when tail ≤ head (a full ring has tail == head: nothing would be copied)")
			}
			one(grow, head, "grow-resets-head", IsConstInt(0), "head = 0", "head not reset to 0 after growing")
			one(grow, tail, "grow-sets-tail", IsLoadOf(count), "tail = count", "tail not set to the element count after growing")
			one(grow, buf, "grow-installs-buffer", func(v ssa.Value) bool { return mk != nil && v == ssa.Value(mk) }, "buf = new buffer", "the new buffer is not installed")
		}})
}

// C01.R10 — the pending queues are FIFOs.
func init() {
	register(&Rule{ID: "C01.R10", Props: []string{"C01", "C17"}, Engine: "E3-shape",
		Title:   "pending chunks keep their order: pendingBaseQueue appends at the tail, pops and peeks the head (queue[0], then queue[1:]), get(i) returns queue[i]; the message policy files a chunk in the unordered queue exactly when chunk.unordered; round-robin appends a stream to the service order exactly when its queue was empty and serves streamOrder[0]",
		MinInst: 8,
		Run: func(c *RuleCtx) {
			qf := c.field("pendingBaseQueue", "queue")
			push, pop, get := c.Fn("pendingBaseQueue.push"), c.Fn("pendingBaseQueue.pop"), c.Fn("pendingBaseQueue.get")
			// push: queue = append(queue, c)
			okPush := false
			for _, a := range c.storesIn(push, qf) {
				if call, ok := a.Val.(*ssa.Call); ok {
					if b, ok := call.Call.Value.(*ssa.Builtin); ok && b.Name() == "append" && IsLoadOf(qf)(call.Call.Args[0]) {
						for _, elems := range appendedElems(push) {
							for _, e := range elems {
								if e == ssa.Value(push.Params[1]) {
									okPush = true
								}
							}
						}
					}
				}
			}
			c.Check(okPush, "pending-push-tail", c.P.Pos(push.Pos()), "queue = append(queue, chunk)", "push does not append the chunk at the tail")
			// pop: returns queue[0]; the remaining queue is queue[1:]
			okHead := false
			for _, r := range allReturns(pop) {
				for _, lf := range leavesWithFacts(retResults(r)[0]) {
					if u, ok := lf.Val.(*ssa.UnOp); ok && u.Op == token.MUL {
						if ia, ok := u.X.(*ssa.IndexAddr); ok && IsLoadOf(qf)(ia.X) && IsConstInt(0)(ia.Index) {
							okHead = true
						}
					}
				}
			}
			c.Check(okHead, "pending-pop-head", c.P.Pos(pop.Pos()), "pop returns queue[0]", "pop does not return the head element")
			okRest := false
			for _, a := range c.storesIn(pop, qf) {
				if sl, ok := a.Val.(*ssa.Slice); ok && IsLoadOf(qf)(sl.X) && sl.Low != nil && IsConstInt(1)(sl.Low) && sl.High == nil {
					okRest = true
				}
			}
			c.Check(okRest, "pending-pop-rest", c.P.Pos(pop.Pos()), "queue = queue[1:] after the pop", "pop does not drop exactly the head element")
			// get(i): queue[i]
			okGet := false
			for _, r := range allReturns(get) {
				for _, lf := range leavesWithFacts(retResults(r)[0]) {
					if u, ok := lf.Val.(*ssa.UnOp); ok && u.Op == token.MUL {
						if ia, ok := u.X.(*ssa.IndexAddr); ok && IsLoadOf(qf)(ia.X) && IsParam(get, 1)(ia.Index) {
							okGet = true
						}
					}
				}
			}
			c.Check(okGet, "pending-get-index", c.P.Pos(get.Pos()), "get(i) returns queue[i]", "get(i) does not return queue[i]")
			// message policy: unordered chunks to the unordered queue, others to the ordered queue
			mp := c.Fn("messagePendingQueuePolicy.push")
			uq, oq := c.field("messagePendingQueuePolicy", "unorderedQueue"), c.field("messagePendingQueuePolicy", "orderedQueue")
			un := c.field("chunkPayloadData", "unordered")
			for _, pc := range callsIn(mp, push) {
				recv := callArg(pc, 0)
				switch {
				case IsLoadOf(uq)(recv):
					c.Dom("message-unordered-queue", pc, BoolCond(IsLoadOf(un), true), "chunk.unordered")
				case IsLoadOf(oq)(recv):
					c.Dom("message-ordered-queue", pc, BoolCond(IsLoadOf(un), false), "!chunk.unordered")
				default:
					c.Fail("message-queue-choice", c.Pos(pc), "push into a queue that is neither the ordered nor the unordered one")
				}
			}
			// round robin: Push appends the stream to the order iff its queue was empty; Peek serves streamOrder[0]
			rrPush, rrPeek := c.Fn("roundRobinPendingQueuePolicy.Push"), c.Fn("roundRobinPendingQueuePolicy.Peek")
			so := c.field("roundRobinPendingQueuePolicy", "streamOrder")
			sel := c.field("roundRobinPendingQueuePolicy", "selectedStream")
			size := c.Fn("pendingBaseQueue.size")
			nApp := 0
			for _, a := range c.storesIn(rrPush, so) {
				nApp++
				// on the edge to the append: "queue nil or size()==0" held before the push
				ok := false
				for _, f := range DomFactsX(a.Instr.Block()) {
					if CmpCond(token.EQL, IsCallOf(size), IsConstInt(0))(f.Cond, f.Taken) || CmpCond(token.EQL, AnyV, isNilConst)(f.Cond, f.Taken) {
						ok = true
					}
					if phi, isPhi := f.Cond.(*ssa.Phi); isPhi && f.Taken {
						for _, e := range phi.Edges {
							if b, isB := e.(*ssa.BinOp); isB && b.Op == token.EQL && (IsCallOf(size)(b.X) || isNilConst(b.Y)) {
								ok = true
							}
							if k, isK := e.(*ssa.Const); isK && k.Value != nil && k.Value.String() == "true" {
								ok = true
							}
						}
					}
				}
				c.Check(ok, "rr-enqueue-when-empty", c.Pos(a.Instr), "a stream enters the service order when its queue was empty", "a stream is appended to the service order regardless of whether it was already waiting (served twice per round) or never")
			}
			c.Check(nApp == 1, "rr-enqueue-site", c.P.Pos(rrPush.Pos()), "one append to the service order in Push", fmt.Sprintf("%d stores to streamOrder in Push", nApp))
			okFront := false
			for _, a := range c.storesIn(rrPeek, sel) {
				if u, ok := a.Val.(*ssa.UnOp); ok && u.Op == token.MUL {
					if ia, ok := u.X.(*ssa.IndexAddr); ok && IsLoadOf(so)(ia.X) && IsConstInt(0)(ia.Index) {
						okFront = true
					}
				}
			}
			c.Check(okFront, "rr-serves-front", c.P.Pos(rrPeek.Pos()), "Peek selects streamOrder[0]", "Peek does not serve the stream at the front of the order")
		}})
}
