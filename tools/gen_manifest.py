#!/usr/bin/env python3
"""Regenerates /verif/MANIFEST.json from the table below (kept in one place so the
claims, the not_applicable list and the commands never drift apart)."""
import json, os, sys
V = os.path.dirname(os.path.dirname(os.path.abspath(__file__)))

# property -> (claimed?, level text, technique, note / reason)
P = json.load(open(os.path.join(V, "tools", "claims.json")))

ENV = "GOFLAGS=-mod=mod GOPROXY=off GOWORK=off"
checks, na = [], []
for pid in sorted(P):
    e = P[pid]
    if e.get("claimed"):
        checks.append({
            "property_id": pid,
            "quick_cmd": f"bin/sctpverif check {pid} --tier quick",
            "thorough_cmd": f"bin/sctpverif check {pid} --tier thorough",
            "evidence_file": f"/verif/evidence/{pid}.json",
            "replay_cmd_template": f"bin/sctpverif check {pid} --tier quick  # violations listed in {{path}}",
            "engine": "sctpverif",
            "level_claimed": {"category": "other", "text": e["text"], "design_ref": f"DESIGN.md §2 {pid}"},
            "level_note": e["note"],
            "technique": e["technique"],
        })
    else:
        na.append({"property_id": pid, "reason": e["reason"]})

m = {
    "version": 1,
    "setup_cmd": f"cd /verif/checker && {ENV} go build -o ../bin/sctpverif .",
    "hooks": {
        "guard": "verif",
        "enable": "none needed: the checker type-checks /repo's working tree with go/packages (default build tags); no instrumentation is compiled into pion/sctp",
        "baseline_off_cmd": "cd /repo && GOFLAGS=-mod=mod go test -json -vet=off -count=1 -timeout 25m ./...",
        "source_commits": [],
        "add_only": True,
    },
    "engines": [{
        "name": "sctpverif",
        "path": "/verif/checker",
        "serves_properties": [c["property_id"] for c in checks],
        "kind_free_text": "repository-specific static analyser (go/packages + go/types + go/ssa): ownership/region rules over a package-local call graph, dominance and must-pass-through on SSA CFGs with flag-correlated facts, class-level lockset analysis, per-association-state specialiser, serial-number taint, codec layout extraction",
    }],
    "checks": checks,
    "notes": "All claims are level 'other': each check decides structural necessary conditions of the property on every path/site/table entry of the current source; none runs pion/sctp. See DESIGN.md.",
    "not_applicable": na,
}
json.dump(m, open(os.path.join(V, "MANIFEST.json"), "w"), indent=1)
print("claimed:", [c["property_id"] for c in checks])
print("not_applicable:", [x["property_id"] for x in na])
