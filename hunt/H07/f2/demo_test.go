package sctp

import (
	"testing"
	"time"

	"github.com/pion/transport/v4/test"
	"github.com/stretchr/testify/assert"
	"github.com/stretchr/testify/require"
)

// nUnreliable partially-reliable (rexmit=0) ordered streams each lose one tiny
// message during a network outage. After the outage a reliable message is
// written. Returns whether the sender drained (BufferedAmount()==0) in time.
func hunt6Scenario(t *testing.T, nUnreliable int) (drained bool, a0Buffered int, fwdPacketLen int, lateDelivered bool) {
	t.Helper()
	br := test.NewBridge()
	a0, a1, err := createNewAssociationPair(br, ackModeNoDelay, 0)
	require.NoError(t, err)
	defer closeAssociationPair(br, a0, a1)

	sR0, sR1, err := establishSessionPair(br, a0, a1, 0)
	require.NoError(t, err)

	// keep accepting streams on the receiver
	go func() {
		for {
			if _, err := a1.AcceptStream(); err != nil {
				return
			}
		}
	}()

	// ---- outage: everything a0 -> a1 is lost ----
	br.Filter(0, func([]byte) bool { return false })
	for i := 1; i <= nUnreliable; i++ {
		s, err := a0.OpenStream(uint16(i), PayloadTypeWebRTCBinary)
		require.NoError(t, err)
		s.SetReliabilityParams(false, ReliabilityTypeRexmit, 0)
		_, err = s.WriteSCTP([]byte{1}, PayloadTypeWebRTCBinary)
		require.NoError(t, err)
	}
	for i := 0; i < 500; i++ {
		a0.lock.RLock()
		pending := a0.pendingQueue.size()
		a0.lock.RUnlock()
		if pending == 0 {
			break
		}
		time.Sleep(10 * time.Millisecond)
	}
	// ---- network heals ----
	br.Filter(0, nil)

	_, err = sR0.WriteSCTP([]byte("reliable"), PayloadTypeWebRTCBinary)
	require.NoError(t, err)
	gotLate := make(chan struct{}, 1)
	go func() {
		buf := make([]byte, 64)
		for {
			n, _, err := sR1.ReadSCTP(buf)
			if err != nil {
				return
			}
			if string(buf[:n]) == "late-reliable" {
				gotLate <- struct{}{}
			}
		}
	}()

	// several T3-rtx periods (1s, 2s) + many round trips
	deadline := time.Now().Add(3500 * time.Millisecond)
	for time.Now().Before(deadline) {
		br.Tick()
		time.Sleep(time.Millisecond)
		if a0.BufferedAmount() == 0 {
			drained = true

			break
		}
	}

	a0.lock.Lock()
	if sna32GT(a0.advancedPeerTSNAckPoint, a0.cumulativeTSNAckPoint) {
		raw, err := a0.marshalPacket(a0.createPacket([]chunk{a0.createForwardTSN()}))
		require.NoError(t, err)
		fwdPacketLen = len(raw)
	}
	a0.lock.Unlock()

	a0Buffered = a0.BufferedAmount()

	// A reliable message written well after the network healed.
	_, err = sR0.WriteSCTP([]byte("late-reliable"), PayloadTypeWebRTCBinary)
	require.NoError(t, err)
	deadline = time.Now().Add(3500 * time.Millisecond)
	for time.Now().Before(deadline) && !lateDelivered {
		br.Tick()
		time.Sleep(time.Millisecond)
		select {
		case <-gotLate:
			lateDelivered = true
		default:
		}
	}

	return drained, a0Buffered, fwdPacketLen, lateDelivered
}

func TestHunt6OversizedForwardTSN(t *testing.T) {
	// control: the very same scenario with fewer streams drains fine.
	drained, buffered, _, late := hunt6Scenario(t, 500)
	require.True(t, drained, "control run must drain (buffered=%d)", buffered)
	require.True(t, late, "control run must deliver the late reliable message")

	drained, buffered, fwdLen, late := hunt6Scenario(t, 2100)
	assert.True(t, late, "a reliable message written after the network healed is never delivered")
	assert.True(t, drained,
		"sender never drains after the network healed: BufferedAmount=%d, FORWARD-TSN packet is %d bytes, peer reads at most %d",
		buffered, fwdLen, receiveMTU)
}
