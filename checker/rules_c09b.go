package main

import (
	"fmt"
	"go/constant"
	"go/token"
	"go/types"
)

// C09.R10 — terminal states of the helper state machines (retransmission and
// ack timers) are absorbing: with state bound to <T>Closed, no method stores
// another value into state, start() reports false and never re-arms the Go timer.
func init() {
	register(&Rule{ID: "C09.R10", Props: []string{"C09", "C19"}, Engine: "E5b",
		Title:   "a closed timer stays closed: specialising every method of rtxTimer/ackTimer on state==closed, no path stores a different state, start() returns false, and timer.Reset is never reached (so nothing fires after Close whatever handler still runs)",
		MinInst: 8,
		Run: func(c *RuleCtx) {
			for _, t := range []struct{ typ, closed string }{{"rtxTimer", "rtxTimerClosed"}, {"ackTimer", "ackTimerClosed"}} {
				st := c.field(t.typ, "state")
				k := c.P.Const(t.closed)
				if st == nil || k == nil {
					c.Unresolved(t.typ + ".state / " + t.closed)
					continue
				}
				closed := k.Val()
				for _, fn := range c.P.Funcs {
					if fn.Signature.Recv() == nil || typeShort(fn.Signature.Recv().Type()) != t.typ && typeShort(fn.Signature.Recv().Type()) != "*"+t.typ {
						continue
					}
					name := c.P.FuncName(fn)
					outs, und := c.P.PEval(fn, PEConfig{Fields: map[*types.Var]constant.Value{st: closed}})
					key := "closed-absorbing:" + name
					if und != "" {
						c.Fail(key, c.P.Pos(fn.Pos()), "UNDECIDED: "+und)
						continue
					}
					bad := ""
					for _, o := range outs {
						if o.Stored[st] {
							if v := o.Stores[st]; v == nil || !constant.Compare(v, token.EQL, closed) {
								bad = fmt.Sprintf("a path stores state=%s while the timer is closed", render(v))
							}
						}
						for _, call := range o.Calls {
							if call.Callee == "time.Reset" {
								bad = "a path re-arms the Go timer while the timer is closed: " + c.Pos(call.Instr)
							}
						}
						if fn.Name() == "start" && (len(o.Ret) != 1 || o.Ret[0] == nil || constant.BoolVal(o.Ret[0])) {
							bad = "start() does not report false on a closed timer"
						}
					}
					c.Check(bad == "" && len(outs) > 0, key, c.P.Pos(fn.Pos()), fmt.Sprintf("%d path(s) with state==closed leave it closed", len(outs)), bad)
				}
			}
		}})
}
