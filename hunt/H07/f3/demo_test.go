package sctp

import (
	"sync/atomic"
	"testing"
	"time"

	"github.com/pion/transport/v4/test"
	"github.com/stretchr/testify/assert"
	"github.com/stretchr/testify/require"
)

// After the peer resets its outgoing side of a stream (half close), the local
// side may keep writing on it. The data is delivered and acknowledged, but the
// writer's Stream never gets its buffered amount released.
func TestHunt1BufferedAmountAfterInboundReset(t *testing.T) {
	br := test.NewBridge()
	a0, a1, err := createNewAssociationPair(br, ackModeNoDelay, 0)
	require.NoError(t, err)
	defer closeAssociationPair(br, a0, a1)

	s0, s1, err := establishSessionPair(br, a0, a1, 1)
	require.NoError(t, err)

	var lowCalls int32
	s0.SetBufferedAmountLowThreshold(0)
	s0.OnBufferedAmountLow(func() { atomic.AddInt32(&lowCalls, 1) })

	// Peer (a1) closes its outgoing side of stream 1 -> a0 performs the inbound reset.
	require.NoError(t, s1.Close())
	flushBuffers(br, a0, a1)
	for i := 0; i < 50; i++ {
		br.Process()
		time.Sleep(10 * time.Millisecond)
	}
	require.Equal(t, StreamStateOpen, s0.State(), "s0 stays writable (half-closed)")

	// a0 keeps writing on the half-closed stream.
	msg := make([]byte, 1000)
	n, err := s0.WriteSCTP(msg, PayloadTypeWebRTCBinary)
	require.NoError(t, err)
	require.Equal(t, len(msg), n)

	flushBuffers(br, a0, a1)
	for i := 0; i < 50; i++ {
		br.Process()
		time.Sleep(10 * time.Millisecond)
	}

	// delivered...
	buf := make([]byte, 2000)
	n, _, err = s1.ReadSCTP(buf)
	require.NoError(t, err)
	require.Equal(t, len(msg), n)

	// ...and fully acknowledged at the association level...
	require.Equal(t, 0, a0.BufferedAmount())

	// ...but the sender's stream still reports the bytes as buffered.
	assert.Equal(t, uint64(0), s0.BufferedAmount(), "stream buffered amount must drain after the data is acked")
	assert.Equal(t, int32(1), atomic.LoadInt32(&lowCalls), "OnBufferedAmountLow must fire once the data is acked")
}

// Variant: the data is already in flight (lost once) when the peer's reset
// request is processed; nothing is written after the reset.
func TestHunt1bBufferedAmountInflightAtInboundReset(t *testing.T) {
	br := test.NewBridge()
	a0, a1, err := createNewAssociationPair(br, ackModeNoDelay, 0)
	require.NoError(t, err)
	defer closeAssociationPair(br, a0, a1)

	s0, s1, err := establishSessionPair(br, a0, a1, 1)
	require.NoError(t, err)

	// a0 -> a1 outage
	br.Filter(0, func([]byte) bool { return false })
	msg := make([]byte, 1000)
	_, err = s0.WriteSCTP(msg, PayloadTypeWebRTCBinary)
	require.NoError(t, err)
	time.Sleep(50 * time.Millisecond)

	// a1 resets its outgoing side; a0 performs the inbound reset while its own data is outstanding.
	require.NoError(t, s1.Close())
	for i := 0; i < 30; i++ {
		br.Process()
		time.Sleep(5 * time.Millisecond)
	}
	require.Equal(t, uint64(1000), s0.BufferedAmount())

	// network heals; T3-rtx (1s) retransmits, data is delivered and acked.
	br.Filter(0, nil)
	deadline := time.Now().Add(4 * time.Second)
	for time.Now().Before(deadline) && a0.BufferedAmount() != 0 {
		br.Tick()
		time.Sleep(time.Millisecond)
	}
	require.Equal(t, 0, a0.BufferedAmount(), "association drained")
	buf := make([]byte, 2000)
	n, _, err := s1.ReadSCTP(buf)
	require.NoError(t, err)
	require.Equal(t, 1000, n)

	assert.Equal(t, uint64(0), s0.BufferedAmount(), "stream buffered amount must drain after the data is acked")
}
