package main

import (
	"fmt"
	"go/token"
	"go/types"
	"sort"
	"strings"

	"golang.org/x/tools/go/ssa"
)

// constCaseOf: the constant k such that instruction in is dominated by "x == k"
// where x satisfies pat.
func constCaseOf(in ssa.Instruction, pat VPat) (int64, bool) {
	for _, f := range DomFacts(in.Block()) {
		b, ok := f.Cond.(*ssa.BinOp)
		if !ok || b.Op != token.EQL || !f.Taken {
			continue
		}
		if k, isK := constInt(b.Y); isK && pat(b.X) {
			return k, true
		}
	}
	return 0, false
}

func (c *RuleCtx) typeTags() (dispatch map[string][]int64, guard map[string]int64, stored map[string][]int64) {
	dispatch, guard, stored = map[string][]int64{}, map[string]int64{}, map[string][]int64{}
	pu := c.Fn("packet.unmarshal")
	forEachInstr(pu, func(in ssa.Instruction) {
		mi, ok := in.(*ssa.MakeInterface)
		if !ok || typeShort(mi.Type()) != "chunk" {
			return
		}
		t := strings.TrimPrefix(typeShort(mi.X.Type()), "*")
		if k, ok := constCaseOf(in, AnyV); ok {
			dispatch[t] = append(dispatch[t], k)
		} else {
			// a multi-value case (case a, b:): every predecessor is the true side of "x == k"
			var ks []int64
			okAll := len(in.Block().Preds) > 0
			for _, p := range in.Block().Preds {
				ifi, isIf := p.Instrs[len(p.Instrs)-1].(*ssa.If)
				if !isIf || p.Succs[0] != in.Block() {
					okAll = false
					break
				}
				b, isB := ifi.Cond.(*ssa.BinOp)
				if !isB || b.Op != token.EQL {
					okAll = false
					break
				}
				k, isK := constInt(b.Y)
				if !isK {
					okAll = false
					break
				}
				ks = append(ks, k)
			}
			if okAll {
				dispatch[t] = append(dispatch[t], ks...)
			}
		}
		sort.Slice(dispatch[t], func(i, j int) bool { return dispatch[t][i] < dispatch[t][j] })
	})
	typF := c.field("chunkHeader", "typ")
	for _, t := range c.implementors("chunk") {
		name := t.Obj().Name()
		if un := c.P.Fn(name + ".unmarshal"); un != nil {
			forEachInstr(un, func(in ssa.Instruction) {
				ifi, ok := in.(*ssa.If)
				if !ok {
					return
				}
				b, ok := ifi.Cond.(*ssa.BinOp)
				if !ok || (b.Op != token.NEQ && b.Op != token.EQL) || !IsLoadOf(typF)(b.X) {
					return
				}
				if k, ok := constInt(b.Y); ok {
					if _, seen := guard[name]; !seen {
						guard[name] = k
					}
				}
			})
		}
		for _, mn := range []string{".marshal", ".Marshal"} {
			if m := c.P.Fn(name + mn); m != nil {
				for _, a := range c.storesIn(m, typF) {
					if k, ok := constInt(a.Val); ok {
						stored[name] = append(stored[name], k)
					}
				}
			}
		}
	}
	return
}

func init() {
	register(&Rule{ID: "C12.R1", Props: []string{"C12", "C19"}, Engine: "E1",
		Title:   "codec methods are the type's own: for every chunk/param/cause type that has fields beyond its header, the methods satisfying marshal/unmarshal/check are declared on the type, not promoted from the embedded header",
		MinInst: 30,
		Run: func(c *RuleCtx) {
			for _, iface := range []string{"chunk", "param", "errorCause"} {
				obj := c.P.Types.Scope().Lookup(iface)
				it := obj.Type().Underlying().(*types.Interface)
				for _, t := range c.implementors(iface) {
					st := t.Underlying().(*types.Struct)
					own := 0
					for i := 0; i < st.NumFields(); i++ {
						if !st.Field(i).Embedded() {
							own++
						}
					}
					if own == 0 || strings.HasSuffix(t.Obj().Name(), "Header") {
						continue
					}
					ms := types.NewMethodSet(types.NewPointer(t))
					for i := 0; i < it.NumMethods(); i++ {
						mname := it.Method(i).Name()
						if mname == "valueLength" || mname == "length" || mname == "String" || mname == "errorCauseCode" {
							continue // header accessors are legitimately shared
						}
						sel := ms.Lookup(c.P.Types, mname)
						if sel == nil {
							continue
						}
						promoted := len(sel.Index()) > 1
						c.Check(!promoted, fmt.Sprintf("own-codec:%s.%s", t.Obj().Name(), mname), c.P.Pos(t.Obj().Pos()),
							"declared on the type", fmt.Sprintf("*%s satisfies %s.%s through its embedded header: the header's %s is used on the wire path and the type's own fields are silently dropped", t.Obj().Name(), iface, mname, mname))
					}
				}
			}
		}})

	register(&Rule{ID: "C12.R2", Props: []string{"C12"}, Engine: "E1",
		Title:   "everything emitted is decodable: every chunk type converted to the chunk interface on a send path is dispatched by packet.unmarshal",
		MinInst: 10,
		Run: func(c *RuleCtx) {
			dispatch, _, _ := c.typeTags()
			ks := keyer{}
			for _, fn := range c.P.Funcs {
				if c.P.FuncName(fn) == "packet.unmarshal" {
					continue
				}
				forEachInstr(fn, func(in ssa.Instruction) {
					mi, ok := in.(*ssa.MakeInterface)
					if !ok || typeShort(mi.Type()) != "chunk" {
						return
					}
					t := strings.TrimPrefix(typeShort(mi.X.Type()), "*")
					_, ok2 := dispatch[t]
					c.Check(ok2, ks.key("emitted-decodable:"+t+"@"+c.P.FuncName(fn)), c.Pos(in), "emitted chunk type is decodable by this package", "emits a chunk type ("+t+") that packet.unmarshal cannot decode")
				})
			}
		}})

	register(&Rule{ID: "C12.R3", Props: []string{"C12", "C03"}, Engine: "E1",
		Title:   "type tags agree: per chunk type the dispatch constant, the decoder's guard constant and the constant stored by the encoder are the same; likewise buildParam / buildErrorCause vs the encoders",
		MinInst: 30,
		Run: func(c *RuleCtx) {
			dispatch, guard, stored := c.typeTags()
			var names []string
			for _, t := range c.implementors("chunk") {
				names = append(names, t.Obj().Name())
			}
			sort.Strings(names)
			for _, n := range names {
				d, g, s := dispatch[n], guard[n], stored[n]
				_, hasG := guard[n]
				if n == "chunkPayloadData" {
					// two tags (DATA, I-DATA): dispatch set == stored set; guard is a switch
					sort.Slice(d, func(i, j int) bool { return d[i] < d[j] })
					sort.Slice(s, func(i, j int) bool { return s[i] < s[j] })
					c.Check(fmt.Sprint(d) == fmt.Sprint(s) && len(d) == 2, "tag:"+n, "", fmt.Sprintf("dispatch %v = stored %v", d, s), fmt.Sprintf("dispatch %v ≠ stored %v", d, s))
					continue
				}
				ok := len(d) == 1 && len(s) >= 1
				for _, x := range s {
					if len(d) != 1 || x != d[0] {
						ok = false
					}
				}
				if hasG && (len(d) != 1 || d[0] != g) {
					ok = false
				}
				note := fmt.Sprintf("dispatch=%v guard=%d stored=%v", d, g, s)
				if !hasG {
					note = fmt.Sprintf("dispatch=%v stored=%v (decoder has no own type guard; dispatch is by type)", d, s)
				}
				c.Check(ok, "tag:"+n, "", note, fmt.Sprintf("chunk type tags disagree: dispatch=%v guard=%v(%v) stored=%v", d, g, hasG, s))
			}
			// params
			bp := c.Fn("buildParam")
			ptyp := c.field("paramHeader", "typ")
			forEachInstr(bp, func(in ssa.Instruction) {
				al, ok := in.(*ssa.Alloc)
				if !ok {
					return
				}
				t := strings.TrimPrefix(typeShort(al.Type()), "*")
				if !strings.HasPrefix(t, "param") {
					return
				}
				k, ok := constCaseOf(in, IsParam(bp, 0))
				if !ok {
					c.Fail("param-tag:"+t, c.Pos(in), "allocation not under a constant case of buildParam")
					return
				}
				m := c.P.Fn(t + ".marshal")
				if m == nil {
					c.Fail("param-tag:"+t, c.Pos(in), "no marshal for "+t)
					return
				}
				var st []int64
				for _, a := range c.storesIn(m, ptyp) {
					if kk, ok := constInt(a.Val); ok {
						st = append(st, kk)
					}
				}
				ok2 := len(st) >= 1
				for _, x := range st {
					if x != k {
						ok2 = false
					}
				}
				c.Check(ok2, "param-tag:"+t, c.Pos(in), fmt.Sprintf("buildParam case %d = encoder typ %v", k, st), fmt.Sprintf("param tag mismatch: buildParam case %d, encoder stores %v", k, st))
			})
			// error causes
			be := c.Fn("buildErrorCause")
			code := c.field("errorCauseHeader", "code")
			forEachInstr(be, func(in ssa.Instruction) {
				al, ok := in.(*ssa.Alloc)
				if !ok {
					return
				}
				t := strings.TrimPrefix(typeShort(al.Type()), "*")
				if !strings.HasPrefix(t, "errorCause") || t == "errorCauseHeader" {
					return
				}
				k, ok := constCaseOf(in, AnyV)
				if !ok {
					c.Fail("cause-tag:"+t, c.Pos(in), "allocation not under a constant case of buildErrorCause")
					return
				}
				m := c.P.Fn(t + ".marshal")
				var st []int64
				if m != nil {
					for _, a := range c.storesIn(m, code) {
						if kk, ok := constInt(a.Val); ok {
							st = append(st, kk)
						}
					}
				}
				// the code may instead be fixed where the cause is constructed
				constructed := 0
				for fnName, sites := range c.allocSites(t) {
					if fnName == "buildErrorCause" {
						continue
					}
					for _, site := range sites {
						constructed++
						fn := site.Parent()
						found := false
						for _, a := range c.storesIn(fn, code) {
							if kk, ok := constInt(a.Val); ok && addrRoot(a.FA) == ssa.Value(site.(*ssa.Alloc)) {
								st = append(st, kk)
								found = true
							}
						}
						if !found && len(st) == 0 {
							st = append(st, -1)
						}
					}
				}
				if len(st) == 0 && constructed == 0 {
					c.Ok("cause-tag:"+t, c.Pos(in), fmt.Sprintf("decoded under case %d; never constructed on a send path", k))
					return
				}
				ok2 := len(st) >= 1
				for _, x := range st {
					if x != k {
						ok2 = false
					}
				}
				c.Check(ok2, "cause-tag:"+t, c.Pos(in), fmt.Sprintf("buildErrorCause case %d = encoder code %v", k, st), fmt.Sprintf("cause code mismatch: case %d, encoder stores %v", k, st))
			})
		}})

	register(&Rule{ID: "C12.R4", Props: []string{"C12"}, Engine: "E1",
		Title:   "encoder and decoder layouts agree: per codec pair the relation field ↔ (offset, width, endianness) extracted from the encoder equals the one extracted from the decoder; flag bits likewise",
		MinInst: 40,
		Run: func(c *RuleCtx) {
			pairs := []struct{ name, enc, dec string }{
				{"packet", "packet.marshal", "packet.unmarshal"},
				{"chunkHeader", "chunkHeader.marshal", "chunkHeader.unmarshal"},
				{"paramHeader", "paramHeader.marshal", "paramHeader.unmarshal"},
				{"errorCauseHeader", "errorCauseHeader.marshal", "errorCauseHeader.unmarshal"},
				{"DATA/I-DATA", "chunkPayloadData.marshal", "chunkPayloadData.unmarshal"},
				{"SACK", "chunkSelectiveAck.marshal", "chunkSelectiveAck.unmarshal"},
				{"INIT-common", "chunkInitCommon.marshal", "chunkInitCommon.unmarshal"},
				{"SHUTDOWN", "chunkShutdown.marshal", "chunkShutdown.unmarshal"},
				{"FORWARD-TSN", "chunkForwardTSN.marshal", "chunkForwardTSN.unmarshal"},
				{"FORWARD-TSN-stream", "chunkForwardTSNStream.marshal", "chunkForwardTSNStream.unmarshal"},
				{"I-FORWARD-TSN", "chunkIForwardTSN.marshal", "chunkIForwardTSN.unmarshal"},
				{"I-FORWARD-TSN-stream", "chunkIForwardTSNStream.marshal", "chunkIForwardTSNStream.unmarshal"},
				{"reset-request", "paramOutgoingResetRequest.marshal", "paramOutgoingResetRequest.unmarshal"},
				{"reconfig-response", "paramReconfigResponse.marshal", "paramReconfigResponse.unmarshal"},
				{"zero-checksum", "paramZeroChecksumAcceptable.marshal", "paramZeroChecksumAcceptable.unmarshal"},
			}
			// fields that only one side handles by design
			oneSided := map[string]string{
				"packet:const(0)":                       "",
				"DATA/I-DATA:const(0)":                  "reserved 16 bits of I-DATA",
				"paramHeader:expr":                      "length is computed from the value",
				"errorCauseHeader:len":                  "length field (both sides, computed on encode)",
				"chunkHeader:expr":                      "length is computed from the value",
				"SACK:len(gapAckBlocks)":                "",
				"reset-request:elem(streamIdentifiers)": "",
			}
			_ = oneSided
			for _, pr := range pairs {
				enc, dec := c.P.Fn(pr.enc), c.P.Fn(pr.dec)
				if enc == nil || dec == nil {
					c.Unresolved("codec pair " + pr.name + " (" + pr.enc + " / " + pr.dec + ")")
					continue
				}
				es, ds := c.P.encLayout(enc), c.P.decLayout(dec)
				em, dm := map[string]wireSlot{}, map[string]wireSlot{}
				norm := func(f string) string {
					f = strings.TrimPrefix(f, "elem.")
					return f
				}
				for _, s := range es {
					if strings.HasPrefix(s.Field, "const(") || s.Field == "expr" {
						continue
					}
					em[norm(s.Field)+s.Cond] = s
				}
				for _, s := range ds {
					dm[norm(s.Field)+s.Cond] = s
				}
				n := 0
				var keys []string
				for k := range em {
					keys = append(keys, k)
				}
				for k := range dm {
					if _, ok := em[k]; !ok {
						keys = append(keys, k)
					}
				}
				sort.Strings(keys)
				for _, k := range keys {
					e, okE := em[k]
					d, okD := dm[k]
					key := "layout:" + pr.name + ":" + k
					switch {
					case okE && okD:
						n++
						same := e.Offset == d.Offset && e.Width == d.Width && e.Endian == d.Endian
						c.Check(same, key, e.Pos, fmt.Sprintf("offset %s width %d %s on both sides", e.Offset, e.Width, e.Endian),
							fmt.Sprintf("encoder writes %s at offset %s/%d/%s (%s) but decoder reads offset %s/%d/%s (%s)", k, e.Offset, e.Width, e.Endian, e.Pos, d.Offset, d.Width, d.Endian, d.Pos))
					case okE && !okD:
						if k == "len" || strings.HasPrefix(k, "len(") {
							// count/length fields: decoder consumes them structurally
							if _, ok := dm[k]; !ok {
								c.Ok(key, e.Pos, "length/count field written by the encoder (decoder consumes it structurally)")
							}
							continue
						}
						c.Fail(key, e.Pos, "field is encoded but never decoded")
					case !okE && okD:
						if k == "len" || strings.HasPrefix(k, "len(") {
							c.Ok(key, d.Pos, "length/count field read by the decoder (computed by the encoder)")
							continue
						}
						c.Fail(key, d.Pos, "field is decoded but never encoded")
					}
				}
				c.Check(n >= 1, "layout:"+pr.name, c.P.Pos(enc.Pos()), fmt.Sprintf("%d field slots compared", n), "no comparable field slots extracted: layout rule would pass vacuously")
			}
			// DATA flag bits
			decBits := c.P.flagBitsDec(c.Fn("chunkPayloadData.unmarshal"))
			// the flag byte of each framing branch is built in marshal itself or by a helper it calls
			encFn := c.Fn("chunkPayloadData.marshal")
			flagsF := c.field("chunkHeader", "flags")
			encBits := map[string][]int64{}
			want := 0
			for _, a := range c.storesIn(encFn, flagsF) {
				want++
				for f, ms := range c.P.flagBitsOfValue(a.Val) {
					// one mask per field per stored flags byte
					if len(ms) >= 1 {
						same := true
						for _, m := range ms {
							if m != ms[0] {
								same = false
							}
						}
						if same {
							encBits[f] = append(encBits[f], ms[0])
						} else {
							encBits[f] = append(encBits[f], ms...)
						}
					}
				}
			}
			for _, f := range []string{"endingFragment", "beginningFragment", "unordered", "immediateSack"} {
				d, okD := decBits[f]
				e := encBits[f]
				ok := okD && len(e) == want && want >= 2
				for _, m := range e {
					if m != d {
						ok = false
					}
				}
				c.Check(ok, "flagbit:"+f, "", fmt.Sprintf("bit mask %d in decoder and in every encoder branch", d), fmt.Sprintf("flag bit mismatch for %s: decoder mask %d(%v) encoder masks %v", f, d, okD, e))
			}
		}})

	register(&Rule{ID: "C12.R5", Props: []string{"C12"}, Engine: "E3",
		Title:   "length and padding: the chunk length field is len(value)+4, every chunk in a packet is padded to 4 bytes, parameters are padded except the last",
		MinInst: 4,
		Run: func(c *RuleCtx) {
			hm := c.Fn("chunkHeader.marshal")
			raw := c.field("chunkHeader", "raw")
			okLen := false
			forEachInstr(hm, func(in ssa.Instruction) {
				call, ok := in.(*ssa.Call)
				if !ok {
					return
				}
				if name, _, ok := binaryCall(&call.Call); ok && name == "PutUint16" && offsetOf(call.Call.Args[1]) == "2" {
					v := unconv(call.Call.Args[2])
					isLenRaw := func(x ssa.Value) bool {
						lc, ok := unconv(x).(*ssa.Call)
						if !ok {
							return false
						}
						bi, ok := lc.Call.Value.(*ssa.Builtin)
						return ok && bi.Name() == "len" && IsLoadOf(raw)(lc.Call.Args[0])
					}
					if b, ok := v.(*ssa.BinOp); ok && b.Op == token.ADD &&
						((IsConstInt(4)(b.Y) && isLenRaw(b.X)) || (IsConstInt(4)(b.X) && isLenRaw(b.Y))) {
						okLen = true
					}
				}
			})
			c.Check(okLen, "chunk-length-field", c.P.Pos(hm.Pos()), "length = len(raw)+chunkHeaderSize at offset 2", "chunk length field is not len(value)+4")
			pm := c.Fn("packet.marshal")
			gp := c.Fn("getPadding")
			calls := callsInDeep(pm, gp, 1)
			okPad := len(calls) == 1 && (len(loopBlocks(calls[0].Block())) > 0 || calls[0].Parent() != pm)
			c.Check(okPad, "packet-pads-every-chunk", c.P.Pos(pm.Pos()), "getPadding applied inside the per-chunk loop", "packet.marshal no longer pads after every chunk")
			// getPadding: (4 - l%4) % 4
			okG := false
			forEachInstr(gp, func(in ssa.Instruction) {
				if b, ok := in.(*ssa.BinOp); ok && b.Op == token.REM && IsConstInt(4)(b.Y) {
					if s, ok := b.X.(*ssa.BinOp); ok && s.Op == token.SUB && IsConstInt(4)(s.X) {
						okG = true
					}
				}
			})
			c.Check(okG, "getPadding-shape", c.P.Pos(gp.Pos()), "(4 - l%4) % 4", "getPadding changed shape")
			// packet.unmarshal advances by header + value + padding
			pu := c.Fn("packet.unmarshal")
			okAdv := len(callsInDeep(pu, gp, 1)) == 1
			c.Check(okAdv, "unmarshal-skips-padding", c.P.Pos(pu.Pos()), "decoder advances past per-chunk padding", "decoder does not account for chunk padding")
			im := c.Fn("chunkInitCommon.marshal")
			for _, pc := range callsIn(im, c.Fn("padByte")) {
				c.Dom("param-padding-except-last", pc, func(v ssa.Value, t bool) bool {
					b, ok := v.(*ssa.BinOp)
					if !ok {
						return false
					}
					eff := b.Op
					if !t {
						eff = invertOp(eff)
					}
					// idx != last, or (idx ranges over 0..last) idx < last / last > idx
					if eff == token.NEQ {
						return true
					}
					isIdx := func(x ssa.Value) bool {
						x = unconv(x)
						if _, isPhi := x.(*ssa.Phi); isPhi {
							return true
						}
						bx, isBx := x.(*ssa.BinOp) // rangeindex + 1
						return isBx && bx.Op == token.ADD
					}
					return (eff == token.LSS && isIdx(b.X)) || (eff == token.GTR && isIdx(b.Y))
				}, "idx != len(params)-1")
			}
		}})

	register(&Rule{ID: "C12.R7", Props: []string{"C12"}, Engine: "E2",
		Title:   "single marshal path: packets are serialised only by marshalPacket, and only gatherOutbound's results reach the transport",
		MinInst: 3,
		Run: func(c *RuleCtx) {
			c.CallersWithin("marshal", c.Fn("packet.marshal"), "Association.marshalPacket", "TryMarshalUnmarshal")
			c.CallersWithin("unmarshal", c.Fn("packet.unmarshal"), "Association.unmarshalPacket", "TryMarshalUnmarshal")
			wl := c.Fn("Association.writeLoop")
			g := c.Fn("Association.gatherOutbound")
			forEachInstr(wl, func(in ssa.Instruction) {
				ci, ok := in.(ssa.CallInstruction)
				if !ok || !ci.Common().IsInvoke() || ci.Common().Method.Name() != "Write" {
					return
				}
				arg := ci.Common().Args[0]
				okSrc := false
				if u, ok := arg.(*ssa.UnOp); ok {
					if ia, ok := u.X.(*ssa.IndexAddr); ok {
						if ex, ok := ia.X.(*ssa.Extract); ok && IsCallOf(g)(ex.Tuple) {
							okSrc = true
						}
					}
				}
				c.Check(okSrc, "write-source", c.Pos(in), "bytes written are elements of gatherOutbound()'s result", "netConn.Write is given bytes that do not come from gatherOutbound")
			})
		}})

	register(&Rule{ID: "C12.R8", Props: []string{"C12", "C19"}, Engine: "E2",
		Title:   "mandatory parameters present at construction: HEARTBEAT / HEARTBEAT-ACK built with exactly one Heartbeat Info; INIT-ACK's parameters start with the state cookie",
		MinInst: 3,
		Run: func(c *RuleCtx) {
			ks := keyer{}
			for _, tn := range []string{"chunkHeartbeat", "chunkHeartbeatAck"} {
				pf := c.field(tn, "params")
				for _, a := range c.P.Writes(pf) {
					fn := c.P.FuncName(a.Fn)
					if strings.HasSuffix(fn, ".unmarshal") {
						continue
					}
					// value = slice of a 1-element array holding a *paramHeartbeatInfo
					ok := false
					if sl, isSl := a.Val.(*ssa.Slice); isSl {
						if al, isAl := sl.X.(*ssa.Alloc); isAl {
							if arr, isArr := al.Type().(*types.Pointer).Elem().(*types.Array); isArr && arr.Len() == 1 {
								for _, r := range *al.Referrers() {
									if ia, isIA := r.(*ssa.IndexAddr); isIA {
										for _, r2 := range *ia.Referrers() {
											if st, isSt := r2.(*ssa.Store); isSt {
												if mi, isMI := st.Val.(*ssa.MakeInterface); isMI && typeShort(mi.X.Type()) == "*paramHeartbeatInfo" {
													ok = true
												}
											}
										}
									}
								}
							}
						}
					}
					c.Check(ok, ks.key("heartbeat-info@"+fn), c.Pos(a.Instr), tn+" built with exactly one *paramHeartbeatInfo", tn+" built without exactly one Heartbeat Info parameter")
				}
			}
			hi := c.Fn("Association.handleInit")
			pf := c.field("chunkInitCommon", "params")
			cookie := c.field("Association", "myCookie")
			st := c.storesIn(hi, pf)
			okC := false
			// the stored list may be built in a local first: literal, then append(s), then stored
			var bases []*ssa.Slice
			var walkB func(v ssa.Value, d int)
			seenB := map[ssa.Value]bool{}
			walkB = func(v ssa.Value, d int) {
				if v == nil || d > 8 || seenB[v] {
					return
				}
				seenB[v] = true
				switch x := v.(type) {
				case *ssa.Slice:
					bases = append(bases, x)
				case *ssa.Phi:
					for _, e := range x.Edges {
						walkB(e, d+1)
					}
				case *ssa.Call:
					if b, isB := x.Call.Value.(*ssa.Builtin); isB && b.Name() == "append" {
						walkB(x.Call.Args[0], d+1)
					}
				case *ssa.UnOp:
					if w := loadedThroughSlot(c.P, x); w != ssa.Value(x) {
						walkB(w, d+1)
					}
				}
			}
			if len(st) > 0 {
				walkB(st[0].Val, 0)
			}
			for _, sl := range bases {
				{
					if al, ok := sl.X.(*ssa.Alloc); ok {
						for _, r := range *al.Referrers() {
							if ia, ok := r.(*ssa.IndexAddr); ok && IsConstInt(0)(ia.Index) {
								for _, r2 := range *ia.Referrers() {
									if s2, ok := r2.(*ssa.Store); ok {
										if mi, ok := s2.Val.(*ssa.MakeInterface); ok && IsLoadOf(cookie)(mi.X) {
											okC = true
										}
									}
								}
							}
						}
					}
				}
			}
			c.Check(okC, "init-ack-cookie-first", c.P.Pos(hi.Pos()), "INIT-ACK params start with the state cookie", "INIT-ACK's first parameter is not the state cookie")
		}})

	register(&Rule{ID: "C12.R9", Props: []string{"C12", "C07"}, Engine: "E1",
		Title:   "I-FORWARD-TSN normalisation merges only entries that agree on every wire field except the merged message identifier (the de-duplication key covers stream identifier and U flag), so decoding and re-encoding keeps ordered and unordered skips apart",
		MinInst: 2,
		Run: func(c *RuleCtx) {
			fn := c.Fn("normalizeIForwardTSNStreams")
			_, st := c.P.NamedStruct("chunkIForwardTSNStream")
			if st == nil {
				panic(unresolved{"struct chunkIForwardTSNStream"})
			}
			want := map[string]bool{}
			for i := 0; i < st.NumFields(); i++ {
				if n := st.Field(i).Name(); n != "messageIdentifier" {
					want[n] = true
				}
			}
			var keyFields map[string]bool
			forEachInstr(fn, func(in ssa.Instruction) {
				mm, ok := in.(*ssa.MakeMap)
				if !ok {
					return
				}
				mt := mm.Type().Underlying().(*types.Map)
				keyFields = map[string]bool{}
				if ks, ok := mt.Key().Underlying().(*types.Struct); ok {
					for i := 0; i < ks.NumFields(); i++ {
						keyFields[ks.Field(i).Name()] = true
					}
				} else {
					keyFields["<"+mt.Key().String()+">"] = true
				}
			})
			c.Check(keyFields != nil && fmt.Sprint(sortedKeys(keyFields)) == fmt.Sprint(sortedKeys(want)), "dedupe-key-fields", c.P.Pos(fn.Pos()),
				fmt.Sprintf("de-duplication key = %v", sortedKeys(want)), fmt.Sprintf("de-duplication key is %v but entries differ on the wire by %v: distinct entries are merged", sortedKeys(keyFields), sortedKeys(want)))
			// the key is filled from the entry's own fields
			okFill := 0
			forEachInstr(fn, func(in ssa.Instruction) {
				st, ok := in.(*ssa.Store)
				if !ok {
					return
				}
				fa, ok := st.Addr.(*ssa.FieldAddr)
				if !ok {
					return
				}
				f := fieldOf(fa.X.Type(), fa.Field)
				if f == nil || !want[f.Name()] {
					return
				}
				if src, _ := loadedField(st.Val); src != nil && src.Name() == f.Name() {
					okFill++
				} else if fv, isF := st.Val.(*ssa.Field); isF {
					if sf := fieldOf(fv.X.Type(), fv.Field); sf != nil && sf.Name() == f.Name() {
						okFill++
					}
				}
			})
			c.Check(okFill >= len(want), "dedupe-key-filled", c.P.Pos(fn.Pos()), "each key field is copied from the same field of the entry", "key fields are not filled from the entry's own fields")
		}})
}
