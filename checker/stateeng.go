package main

import (
	"fmt"
	"go/constant"
	"go/token"
	"go/types"
	"sort"
	"strings"

	"golang.org/x/tools/go/ssa"
)

// E5 — per-association-state specialiser.
//
// For a root function and an entry association state (or set of states) it
// computes, without executing anything, which instructions are reachable when
// every branch whose condition is a function of the association state is
// decided by that state. The abstract value is a set of the 8 state constants.
// a.getState() yields the current set, a.setState(k) replaces it, comparisons
// with state constants and calls of in-package predicates over a state value
// (folded by a small constant evaluator) refine it along branch edges.

type StateSet uint16

type stateEngine struct {
	p          *Prog
	names      []string      // index -> const name
	values     map[int64]int // const value -> index
	stateField *types.Var
	getState   *ssa.Function // (*Association).getState
	setState   *ssa.Function // (*Association).setState
	all        StateSet
	predMemo   map[string]uint8 // bit0: may return false, bit1: may return true
}

var stateConstNames = []string{"closed", "cookieWait", "cookieEchoed", "established", "shutdownAckSent", "shutdownPending", "shutdownReceived", "shutdownSent"}

func (p *Prog) States() (*stateEngine, error) {
	if p.stateEng != nil {
		return p.stateEng, nil
	}
	e := &stateEngine{p: p, values: map[int64]int{}, predMemo: map[string]uint8{}}
	for i, n := range stateConstNames {
		c := p.Const(n)
		if c == nil {
			return nil, fmt.Errorf("state constant %s not found", n)
		}
		v, ok := constant.Int64Val(c.Val())
		if !ok {
			return nil, fmt.Errorf("state constant %s not integer", n)
		}
		if _, dup := e.values[v]; dup {
			return nil, fmt.Errorf("state constants not distinct")
		}
		e.values[v] = i
		e.names = append(e.names, n)
		e.all |= 1 << uint(i)
	}
	e.getState = p.Fn("Association.getState")
	e.setState = p.Fn("Association.setState")
	e.stateField = p.Field("Association", "state")
	if e.getState == nil || e.setState == nil || e.stateField == nil {
		return nil, fmt.Errorf("getState/setState not found")
	}
	p.stateEng = e
	return e, nil
}

func (e *stateEngine) Set(names ...string) StateSet {
	var s StateSet
	for _, n := range names {
		for i, x := range e.names {
			if x == n {
				s |= 1 << uint(i)
			}
		}
	}
	return s
}

func (e *stateEngine) String(s StateSet) string {
	if s == e.all {
		return "{*}"
	}
	var parts []string
	for i, n := range e.names {
		if s&(1<<uint(i)) != 0 {
			parts = append(parts, n)
		}
	}
	return "{" + strings.Join(parts, ",") + "}"
}

func (e *stateEngine) constState(v ssa.Value) (StateSet, bool) {
	c, ok := unconv(v).(*ssa.Const)
	if !ok || c.Value == nil || c.Value.Kind() != constant.Int {
		return 0, false
	}
	x, _ := constant.Int64Val(c.Value)
	if i, ok := e.values[x]; ok {
		return 1 << uint(i), true
	}
	return 0, true // an integer that is no state: empty set
}

// ---------------------------------------------------------------- run state

type stEnv struct {
	cur   StateSet
	vals  map[ssa.Value]StateSet
	alias map[ssa.Value]bool
	// bs: boolean φ-values computed from tests on a state-valued variable
	// (e.g. handshaking := state == closed || state == cookieWait): the sets of
	// states that variable can hold when the boolean is true / false.
	bs map[ssa.Value]boolSets
}

type boolSets struct {
	v    ssa.Value
	t, f StateSet
}

func (a stEnv) clone() stEnv {
	n := stEnv{cur: a.cur, vals: make(map[ssa.Value]StateSet, len(a.vals)), alias: make(map[ssa.Value]bool, len(a.alias))}
	for k, v := range a.vals {
		n.vals[k] = v
	}
	for k, v := range a.alias {
		if v {
			n.alias[k] = true
		}
	}
	if len(a.bs) > 0 {
		n.bs = make(map[ssa.Value]boolSets, len(a.bs))
		for k, v := range a.bs {
			n.bs[k] = v
		}
	}
	return n
}

func joinEnv(a, b stEnv) (stEnv, bool) {
	changed := false
	if a.cur|b.cur != a.cur {
		a.cur |= b.cur
		changed = true
	}
	for k, v := range b.vals {
		if old, ok := a.vals[k]; !ok {
			a.vals[k] = v
			changed = true
		} else if old|v != old {
			a.vals[k] = old | v
			changed = true
		}
	}
	for k := range a.alias {
		if !b.alias[k] {
			if _, known := b.vals[k]; known {
				delete(a.alias, k)
				changed = true
			}
		}
	}
	for k, v := range b.bs {
		old, ok := a.bs[k]
		switch {
		case !ok:
			if a.bs == nil {
				a.bs = map[ssa.Value]boolSets{}
			}
			a.bs[k] = v
			changed = true
		case old.v != v.v:
			if old.t != ^StateSet(0) {
				a.bs[k] = boolSets{old.v, ^StateSet(0), ^StateSet(0)}
				changed = true
			}
		case old.t|v.t != old.t || old.f|v.f != old.f:
			a.bs[k] = boolSets{old.v, old.t | v.t, old.f | v.f}
			changed = true
		}
	}
	return a, changed
}

// StateSite records one reachable instruction and the current-state set there.
type StateRun struct {
	e     *stateEngine
	Reach map[ssa.Instruction]StateSet // instruction -> union of cur at that point
	Funcs map[*ssa.Function]bool
	// Edges: for every If block reached, which successor edges are feasible
	// under the state binding (union over contexts).
	Edges map[*ssa.BasicBlock][2]bool
	// ArgSets: for setState(v) calls with a non-constant state-valued argument,
	// the union of the sets v may hold.
	ArgSets map[ssa.Instruction]StateSet
	memo    map[string]*stMemo
	depth   int
}

type stMemo struct {
	exit StateSet
	done bool
}

// Run analyses root with the given entry state set. bind optionally binds
// uint32 parameters of root (by index) to a state set aliasing the current state.
func (e *stateEngine) Run(root *ssa.Function, entry StateSet, bindParams ...int) *StateRun {
	r := &StateRun{e: e, Reach: map[ssa.Instruction]StateSet{}, Funcs: map[*ssa.Function]bool{}, memo: map[string]*stMemo{}, Edges: map[*ssa.BasicBlock][2]bool{}, ArgSets: map[ssa.Instruction]StateSet{}}
	env := stEnv{cur: entry, vals: map[ssa.Value]StateSet{}, alias: map[ssa.Value]bool{}}
	for _, i := range bindParams {
		if i < len(root.Params) {
			env.vals[root.Params[i]] = entry
			env.alias[root.Params[i]] = true
		}
	}
	r.analyze(root, env)
	return r
}

func (r *StateRun) key(fn *ssa.Function, env stEnv) string {
	var sb strings.Builder
	fmt.Fprintf(&sb, "%p|%d", fn, env.cur)
	for i, p := range fn.Params {
		if v, ok := env.vals[p]; ok {
			fmt.Fprintf(&sb, "|%d=%d,%v", i, v, env.alias[p])
		}
	}
	return sb.String()
}

func (r *StateRun) analyze(fn *ssa.Function, entryEnv stEnv) StateSet {
	if fn == nil || fn.Blocks == nil {
		return entryEnv.cur
	}
	k := r.key(fn, entryEnv)
	if m, ok := r.memo[k]; ok {
		if !m.done {
			return entryEnv.cur
		}
		return m.exit
	}
	m := &stMemo{}
	r.memo[k] = m
	r.Funcs[fn] = true
	r.depth++
	defer func() { r.depth-- }()
	if r.depth > 60 {
		m.exit, m.done = r.e.all, true
		return m.exit
	}

	e := r.e
	ins := make([]*stEnv, len(fn.Blocks))
	start := entryEnv.clone()
	ins[0] = &start
	work := []int{0}
	inWork := map[int]bool{0: true}
	var exit StateSet
	sawExit := false

	for iter := 0; len(work) > 0 && iter < 20000; iter++ {
		bi := work[0]
		work = work[1:]
		delete(inWork, bi)
		b := fn.Blocks[bi]
		env := ins[bi].clone()
		for _, in := range b.Instrs {
			r.Reach[in] |= env.cur
			switch x := in.(type) {
			case *ssa.Phi:
				var s StateSet
				known := false
				allAlias := true
				for _, ed := range x.Edges {
					if v, ok := env.vals[ed]; ok {
						s |= v
						known = true
						if !env.alias[ed] {
							allAlias = false
						}
					} else if cs, ok := e.constState(ed); ok && isUint32(ed.Type()) {
						s |= cs
						known = true
						allAlias = false
					} else {
						known = false
						break
					}
				}
				if known && isUint32(x.Type()) {
					env.vals[x] = s
					if allAlias {
						env.alias[x] = true
					}
				}
			case *ssa.Call:
				r.call(&x.Call, x, &env)
			case *ssa.Store:
				// constructor: &Association{state: closed, …}
				if f := fieldOfAddr(x.Addr); f != nil && f == e.stateField {
					if cs, ok := e.constState(x.Val); ok && cs != 0 {
						env.cur = cs
						for k := range env.alias {
							delete(env.alias, k)
						}
					}
				}
			case *ssa.Defer:
				// analysed for reachability at registration; effect on cur ignored
				tmp := env.clone()
				r.call(&x.Call, x, &tmp)
			case *ssa.Go:
				tmp := env.clone()
				r.call(&x.Call, x, &tmp)
			case *ssa.Return:
				exit |= env.cur
				sawExit = true
			}
		}
		// successors
		last := b.Instrs[len(b.Instrs)-1]
		if ifi, ok := last.(*ssa.If); ok {
			for si, succ := range b.Succs {
				taken := si == 0
				nenv := env.clone()
				if !e.refine(&nenv, ifi.Cond, taken) {
					continue // infeasible under the state binding
				}
				fe := r.Edges[b]
				fe[si] = true
				r.Edges[b] = fe
				e.edgeBools(&nenv, b, succ)
				propagate(ins, succ.Index, nenv, &work, inWork)
			}
		} else {
			for _, succ := range b.Succs {
				nenv := env.clone()
				e.edgeBools(&nenv, b, succ)
				propagate(ins, succ.Index, nenv, &work, inWork)
			}
		}
	}
	if !sawExit {
		exit = entryEnv.cur
	}
	m.exit, m.done = exit, true
	return exit
}

func propagate(ins []*stEnv, idx int, env stEnv, work *[]int, inWork map[int]bool) {
	if ins[idx] == nil {
		ins[idx] = &env
		if !inWork[idx] {
			inWork[idx] = true
			*work = append(*work, idx)
		}
		return
	}
	merged, changed := joinEnv(*ins[idx], env)
	if changed {
		*ins[idx] = merged
		if !inWork[idx] {
			inWork[idx] = true
			*work = append(*work, idx)
		}
	}
}

func isUint32(t types.Type) bool {
	b, ok := t.Underlying().(*types.Basic)
	return ok && b.Kind() == types.Uint32
}

func (r *StateRun) call(cc *ssa.CallCommon, site ssa.Instruction, env *stEnv) {
	e := r.e
	sc := cc.StaticCallee()
	if sc == e.getState {
		if v, ok := site.(ssa.Value); ok {
			env.vals[v] = env.cur
			env.alias[v] = true
		}
		return
	}
	if sc == e.setState {
		var ns StateSet = e.all
		if len(cc.Args) >= 2 {
			if cs, ok := e.constState(cc.Args[1]); ok {
				ns = cs
			} else if v, ok := env.vals[cc.Args[1]]; ok {
				ns = v
				r.ArgSets[site] |= v
			} else {
				r.ArgSets[site] = e.all
			}
		}
		env.cur = ns
		for k := range env.alias {
			delete(env.alias, k)
		}
		// a value equal to the new state aliases it again
		if len(cc.Args) >= 2 {
			if _, ok := env.vals[cc.Args[1]]; ok {
				env.alias[cc.Args[1]] = true
			}
		}
		return
	}
	var callees []*ssa.Function
	if cc.IsInvoke() {
		callees = e.p.calleesOfInstr(site)
	} else if sc != nil {
		if e.p.inPkg(sc) && sc.Blocks != nil {
			callees = []*ssa.Function{sc}
		} else {
			for _, f := range syncFuncArgs(cc) {
				callees = append(callees, f)
			}
			if len(callees) == 0 {
				return
			}
		}
	} else {
		callees = funcValues(cc.Value)
	}
	if len(callees) == 0 {
		return
	}
	var exit StateSet
	for _, c := range callees {
		cenv := stEnv{cur: env.cur, vals: map[ssa.Value]StateSet{}, alias: map[ssa.Value]bool{}}
		if !cc.IsInvoke() && sc == c {
			for i, a := range cc.Args {
				if i >= len(c.Params) {
					break
				}
				if v, ok := env.vals[a]; ok {
					cenv.vals[c.Params[i]] = v
					if env.alias[a] {
						cenv.alias[c.Params[i]] = true
					}
				} else if cs, ok := e.constState(a); ok && isUint32(a.Type()) && isUint32(c.Params[i].Type()) {
					cenv.vals[c.Params[i]] = cs
				}
			}
		}
		exit |= r.analyze(c, cenv)
	}
	if exit != env.cur {
		env.cur = exit
		for k := range env.alias {
			delete(env.alias, k)
		}
	}
}

// refine applies "cond == taken" to env; returns false if infeasible.
func (e *stateEngine) refine(env *stEnv, cond ssa.Value, taken bool) bool {
	c, t := normCond(cond, taken)
	switch x := c.(type) {
	case *ssa.Phi:
		bsx, ok := env.bs[x]
		if !ok {
			return true
		}
		old, known := env.vals[bsx.v]
		if !known {
			return true
		}
		ns := old & bsx.f
		if t {
			ns = old & bsx.t
		}
		if ns == 0 {
			return false
		}
		env.vals[bsx.v] = ns
		if env.alias[bsx.v] {
			env.cur &= ns
			if env.cur == 0 {
				return false
			}
		}
		return true
	case *ssa.BinOp:
		if x.Op != token.EQL && x.Op != token.NEQ {
			return true
		}
		var v ssa.Value
		var cs StateSet
		if s, ok := e.constState(x.Y); ok && isUint32(x.X.Type()) {
			v, cs = x.X, s
		} else if s, ok := e.constState(x.X); ok && isUint32(x.Y.Type()) {
			v, cs = x.Y, s
		} else {
			return true
		}
		old, known := env.vals[v]
		if !known {
			return true
		}
		eq := (x.Op == token.EQL) == t
		var ns StateSet
		if eq {
			ns = old & cs
		} else {
			ns = old &^ cs
		}
		if ns == 0 {
			return false
		}
		env.vals[v] = ns
		if env.alias[v] {
			env.cur &= ns
			if env.cur == 0 {
				return false
			}
		}
		return true
	case *ssa.Call:
		sc := x.Call.StaticCallee()
		if sc == nil || !e.p.inPkg(sc) || sc.Blocks == nil {
			return true
		}
		// predicate over exactly one state-valued argument
		argIx := -1
		for i, a := range x.Call.Args {
			if _, ok := env.vals[a]; ok {
				if argIx >= 0 {
					return true
				}
				argIx = i
			}
		}
		if argIx < 0 {
			return true
		}
		v := x.Call.Args[argIx]
		old := env.vals[v]
		var ns StateSet
		for i := range e.names {
			bit := StateSet(1) << uint(i)
			if old&bit == 0 {
				continue
			}
			res := e.evalPred(sc, argIx, i)
			if (t && res&2 != 0) || (!t && res&1 != 0) {
				ns |= bit
			}
		}
		if ns == 0 {
			return false
		}
		env.vals[v] = ns
		if env.alias[v] {
			env.cur &= ns
			if env.cur == 0 {
				return false
			}
		}
		return true
	}
	return true
}

// evalPred folds fn(…, state_i, …) for the concrete state constant with index
// stateIdx bound to parameter argIx: bit0 = may return false, bit1 = may
// return true. Unknown inputs (field loads, other parameters) fork both ways.
func (e *stateEngine) evalPred(fn *ssa.Function, argIx, stateIdx int) uint8 {
	key := fmt.Sprintf("%p|%d|%d", fn, argIx, stateIdx)
	if r, ok := e.predMemo[key]; ok {
		return r
	}
	e.predMemo[key] = 3
	var val int64
	for v, i := range e.values {
		if i == stateIdx {
			val = v
		}
	}
	env := map[ssa.Value]constant.Value{}
	if argIx < len(fn.Params) {
		env[fn.Params[argIx]] = constant.MakeInt64(val)
	}
	steps := 0
	res := e.interp(fn, env, &steps, 0)
	e.predMemo[key] = res
	return res
}

// interp: nondeterministic constant interpreter for small pure functions
// returning a bool as first result.
func (e *stateEngine) interp(fn *ssa.Function, params map[ssa.Value]constant.Value, steps *int, depth int) uint8 {
	if fn.Blocks == nil || depth > 8 {
		return 3
	}
	type frame struct {
		b    *ssa.BasicBlock
		prev *ssa.BasicBlock
		env  map[ssa.Value]constant.Value
	}
	var result uint8
	stack := []frame{{fn.Blocks[0], nil, params}}
	for len(stack) > 0 {
		f := stack[len(stack)-1]
		stack = stack[:len(stack)-1]
		env := f.env
		get := func(v ssa.Value) constant.Value {
			if c, ok := v.(*ssa.Const); ok {
				return c.Value
			}
			return env[v]
		}
		b, prev := f.b, f.prev
	blockLoop:
		for {
			*steps++
			if *steps > 4000 {
				return 3
			}
			for _, in := range b.Instrs {
				switch x := in.(type) {
				case *ssa.Phi:
					for i, p := range b.Preds {
						if p == prev {
							if c := get(x.Edges[i]); c != nil {
								env[x] = c
							} else {
								delete(env, x)
							}
						}
					}
				case *ssa.BinOp:
					a, bb := get(x.X), get(x.Y)
					if a != nil && bb != nil {
						switch x.Op {
						case token.EQL, token.NEQ, token.LSS, token.LEQ, token.GTR, token.GEQ:
							if a.Kind() == bb.Kind() {
								env[x] = constant.MakeBool(constant.Compare(a, x.Op, bb))
							}
						case token.LAND, token.LOR:
						default:
						}
					}
				case *ssa.UnOp:
					if x.Op == token.NOT {
						if a := get(x.X); a != nil && a.Kind() == constant.Bool {
							env[x] = constant.MakeBool(!constant.BoolVal(a))
						}
					}
				case *ssa.Convert:
					if a := get(x.X); a != nil {
						env[x] = a
					}
				case *ssa.ChangeType:
					if a := get(x.X); a != nil {
						env[x] = a
					}
				case *ssa.Call:
					sc := x.Call.StaticCallee()
					if sc != nil && e.p.inPkg(sc) && sc.Blocks != nil {
						cenv := map[ssa.Value]constant.Value{}
						for i, a := range x.Call.Args {
							if i < len(sc.Params) {
								if c := get(a); c != nil {
									cenv[sc.Params[i]] = c
								}
							}
						}
						r := e.interp(sc, cenv, steps, depth+1)
						if r == 1 {
							env[x] = constant.MakeBool(false)
						} else if r == 2 {
							env[x] = constant.MakeBool(true)
						}
					}
				case *ssa.If:
					c := get(x.Cond)
					if c != nil && c.Kind() == constant.Bool {
						prev = b
						if constant.BoolVal(c) {
							b = b.Succs[0]
						} else {
							b = b.Succs[1]
						}
						continue blockLoop
					}
					// fork
					cp := make(map[ssa.Value]constant.Value, len(env))
					for k, v := range env {
						cp[k] = v
					}
					stack = append(stack, frame{b.Succs[1], b, cp})
					prev = b
					b = b.Succs[0]
					continue blockLoop
				case *ssa.Jump:
					prev = b
					b = b.Succs[0]
					continue blockLoop
				case *ssa.Return:
					if len(x.Results) == 0 {
						return 3
					}
					c := get(x.Results[0])
					if c != nil && c.Kind() == constant.Bool {
						if constant.BoolVal(c) {
							result |= 2
						} else {
							result |= 1
						}
					} else {
						result |= 3
					}
					break blockLoop
				case *ssa.Panic:
					break blockLoop
				}
			}
			break
		}
	}
	if result == 0 {
		return 3
	}
	return result
}

// ---------------------------------------------------------------- effects

// Effect labels an instruction that changes state outside the current frame.
type Effect struct {
	Label string
	Instr ssa.Instruction
}

var pureExternalPkgs = map[string]bool{
	"fmt": true, "errors": true, "strings": true, "bytes": true, "math": true, "math/bits": true,
	"encoding/binary": true, "sort": true, "hash/crc32": true, "strconv": true, "unicode/utf8": true,
}

func addrRoot(v ssa.Value) ssa.Value {
	for {
		switch x := v.(type) {
		case *ssa.FieldAddr:
			v = x.X
		case *ssa.IndexAddr:
			v = x.X
		case *ssa.Slice:
			v = x.X
		case *ssa.ChangeType:
			v = x.X
		case *ssa.Convert:
			v = x.X
		default:
			return v
		}
	}
}

// isFresh: v is (derived from) an allocation made in this function.
func isFresh(v ssa.Value) bool {
	switch x := addrRoot(v).(type) {
	case *ssa.Alloc:
		return true
	case *ssa.MakeSlice, *ssa.MakeMap:
		return true
	case *ssa.Call:
		if b, ok := x.Call.Value.(*ssa.Builtin); ok && (b.Name() == "append") {
			return false
		}
	}
	return false
}

func (p *Prog) storeLabel(addr ssa.Value) string {
	// innermost named field
	v := addr
	for {
		switch x := v.(type) {
		case *ssa.FieldAddr:
			t := x.X.Type()
			if pt, ok := t.Underlying().(*types.Pointer); ok {
				t = pt.Elem()
			}
			f := fieldOf(x.X.Type(), x.Field)
			return "store:" + types.TypeString(t, func(*types.Package) string { return "" }) + "." + f.Name()
		case *ssa.IndexAddr:
			v = x.X
		case *ssa.UnOp:
			if x.Op == token.MUL {
				v = x.X
				continue
			}
			return "store:*"
		default:
			return "store:*"
		}
	}
}

// EffectsOf classifies the reachable instructions of a run.
func (p *Prog) EffectsOf(reach map[ssa.Instruction]StateSet) []Effect {
	var out []Effect
	for in := range reach {
		switch x := in.(type) {
		case *ssa.Store:
			if isFresh(x.Addr) {
				continue
			}
			out = append(out, Effect{p.storeLabel(x.Addr), in})
		case *ssa.MapUpdate:
			if isFresh(x.Map) {
				continue
			}
			lbl := "mapupdate:*"
			if u, ok := x.Map.(*ssa.UnOp); ok {
				lbl = "mapupdate:" + strings.TrimPrefix(p.storeLabel(u.X), "store:")
			}
			out = append(out, Effect{lbl, in})
		case *ssa.Send:
			out = append(out, Effect{"chan-send", in})
		case *ssa.Select:
			for _, st := range x.States {
				if st.Dir == types.SendOnly {
					out = append(out, Effect{"chan-send", in})
				}
			}
		case *ssa.Go:
			out = append(out, Effect{"go", in})
		case ssa.CallInstruction:
			cc := x.Common()
			if b, ok := cc.Value.(*ssa.Builtin); ok {
				switch b.Name() {
				case "close":
					out = append(out, Effect{"chan-close", in})
				case "delete":
					lbl := "mapdelete:*"
					if len(cc.Args) > 0 {
						if u, ok := cc.Args[0].(*ssa.UnOp); ok {
							lbl = "mapdelete:" + strings.TrimPrefix(p.storeLabel(u.X), "store:")
						}
					}
					if len(cc.Args) > 0 && isFresh(cc.Args[0]) {
						continue
					}
					out = append(out, Effect{lbl, in})
				case "copy":
					if len(cc.Args) > 0 && !isFresh(cc.Args[0]) {
						out = append(out, Effect{"copy-into:*", in})
					}
				}
				continue
			}
			if cc.IsInvoke() {
				recvT := cc.Value.Type().String()
				if strings.HasSuffix(recvT, "logging.LeveledLogger") {
					continue
				}
				if len(p.calleesOfInstr(in)) > 0 {
					continue // bodies analysed
				}
				if cc.Method.Name() == "Error" || cc.Method.Name() == "String" {
					continue
				}
				out = append(out, Effect{"invoke:" + recvT + "." + cc.Method.Name(), in})
				continue
			}
			sc := cc.StaticCallee()
			if sc == nil {
				if len(funcValues(cc.Value)) > 0 {
					continue
				}
				out = append(out, Effect{"dyncall", in})
				continue
			}
			if p.inPkg(sc) && sc.Blocks != nil {
				if p.FuncName(sc) == "Association.setState" && len(cc.Args) >= 2 {
					lbl := "setState:?"
					if k, ok := constInt(cc.Args[1]); ok {
						lbl = fmt.Sprintf("setState:%d", k)
						for i, n := range stateConstNames {
							if cst := p.Const(n); cst != nil && cst.Val().String() == fmt.Sprint(k) {
								lbl = "setState:" + stateConstNames[i]
							}
						}
					}
					out = append(out, Effect{lbl, in})
				}
				continue
			}
			path := ""
			if sc.Pkg != nil {
				path = sc.Pkg.Pkg.Path()
			}
			if pureExternalPkgs[path] {
				continue
			}
			name := sc.Name()
			switch path {
			case "sync/atomic":
				if strings.HasPrefix(name, "Load") {
					continue
				}
				lbl := "atomic:*"
				if len(cc.Args) > 0 {
					lbl = "atomic:" + strings.TrimPrefix(p.storeLabel(cc.Args[0]), "store:")
				}
				out = append(out, Effect{lbl, in})
			case "sync":
				recv := ""
				if sc.Signature.Recv() != nil {
					recv = sc.Signature.Recv().Type().String()
				}
				switch {
				case strings.Contains(recv, "Mutex"):
					continue
				case strings.Contains(recv, "Cond"):
					out = append(out, Effect{"cond:" + name, in})
				default:
					out = append(out, Effect{"sync:" + recv + "." + name, in})
				}
			case "time":
				switch name {
				case "Now", "Since", "Until", "Unix", "Sub", "Add", "After", "Before", "IsZero", "Seconds", "Duration", "UnixNano", "Equal":
					continue
				}
				out = append(out, Effect{"time:" + name, in})
			default:
				out = append(out, Effect{"extcall:" + path + "." + name, in})
			}
		}
	}
	sort.Slice(out, func(i, j int) bool {
		if out[i].Label != out[j].Label {
			return out[i].Label < out[j].Label
		}
		return out[i].Instr.Pos() < out[j].Instr.Pos()
	})
	return out
}

// Feasible is a PathOpts.Feasible filter for this run.
func (r *StateRun) Feasible(from *ssa.BasicBlock, succIdx int) bool {
	if len(from.Succs) != 2 {
		return true
	}
	fe, ok := r.Edges[from]
	if !ok {
		// block never reached under the binding
		_, reached := r.Reach[from.Instrs[0]]
		return !reached && false
	}
	return fe[succIdx]
}

// BlockReached reports whether block b is executable under the binding.
func (r *StateRun) BlockReached(b *ssa.BasicBlock) bool {
	_, ok := r.Reach[b.Instrs[0]]
	return ok
}

// PhiConstBool evaluates a bool φ considering only feasible incoming edges.
func (r *StateRun) BoolValue(v ssa.Value) (val bool, known bool) {
	switch x := v.(type) {
	case *ssa.Const:
		if x.Value != nil && x.Value.Kind() == constant.Bool {
			return constant.BoolVal(x.Value), true
		}
	case *ssa.Phi:
		first := true
		var acc bool
		for i, ed := range x.Edges {
			pred := x.Block().Preds[i]
			if !r.BlockReached(pred) {
				continue
			}
			// the edge pred->block must be feasible
			feas := true
			for si, s := range pred.Succs {
				if s == x.Block() && !r.Feasible(pred, si) {
					feas = false
				}
			}
			if !feas {
				continue
			}
			bv, ok := r.BoolValue(ed)
			if !ok {
				return false, false
			}
			if first {
				acc, first = bv, false
			} else if acc != bv {
				return false, false
			}
		}
		if first {
			return false, false
		}
		return acc, true
	}
	return false, false
}

// Transition is one association-state change observed by the specialiser.
type Transition struct {
	From StateSet // current-state set just before the setState call
	To   StateSet
	Site ssa.Instruction
}

// Transitions lists the setState calls reached in a run with the state sets.
func (r *StateRun) Transitions() []Transition {
	var out []Transition
	for in, cur := range r.Reach {
		ci, ok := in.(ssa.CallInstruction)
		if !ok || ci.Common().StaticCallee() != r.e.setState {
			continue
		}
		if _, isDefer := in.(*ssa.Defer); isDefer {
			continue
		}
		to := r.e.all
		if cs, ok := r.e.constState(ci.Common().Args[1]); ok {
			to = cs
		} else if v, ok := r.ArgSets[in]; ok {
			to = v
		}
		out = append(out, Transition{cur, to, in})
	}
	sort.Slice(out, func(i, j int) bool { return out[i].Site.Pos() < out[j].Site.Pos() })
	return out
}

// truthSets: for a boolean value computed from a test on a state-valued
// variable, that variable and the states it can hold (within env) when the
// value is true / false. ok=false if val is not such a test.
func (e *stateEngine) truthSets(env *stEnv, val ssa.Value) (v ssa.Value, t, f StateSet, ok bool) {
	c, pol := normCond(val, true)
	switch x := c.(type) {
	case *ssa.Phi:
		if bsx, has := env.bs[x]; has {
			cur := env.vals[bsx.v]
			t, f = bsx.t&cur, bsx.f&cur
			if !pol {
				t, f = f, t
			}
			return bsx.v, t, f, true
		}
	case *ssa.BinOp, *ssa.Call:
		// find the state-valued operand
		var sv ssa.Value
		switch y := x.(type) {
		case *ssa.BinOp:
			if y.Op != token.EQL && y.Op != token.NEQ {
				return nil, 0, 0, false
			}
			if _, has := env.vals[y.X]; has {
				sv = y.X
			} else if _, has := env.vals[y.Y]; has {
				sv = y.Y
			}
		case *ssa.Call:
			for _, a := range y.Call.Args {
				if _, has := env.vals[a]; has {
					sv = a
				}
			}
		}
		if sv == nil {
			return nil, 0, 0, false
		}
		old := env.vals[sv]
		for _, want := range []bool{true, false} {
			cl := env.clone()
			var set StateSet
			if e.refine(&cl, c, want) {
				set = cl.vals[sv]
			}
			if want == pol {
				t = set
			} else {
				f = set
			}
		}
		_ = old
		return sv, t, f, true
	}
	return nil, 0, 0, false
}

// edgeBools records, for every boolean φ at the head of succ, what the edge
// pred→succ contributes to its truth sets (see stEnv.bs).
func (e *stateEngine) edgeBools(env *stEnv, pred, succ *ssa.BasicBlock) {
	idx := -1
	for i, p := range succ.Preds {
		if p == pred {
			idx = i
			break
		}
	}
	if idx < 0 {
		return
	}
	for _, in := range succ.Instrs {
		phi, ok := in.(*ssa.Phi)
		if !ok {
			break
		}
		if bt, isB := phi.Type().Underlying().(*types.Basic); !isB || bt.Kind() != types.Bool {
			continue
		}
		// which state variable is this boolean about?
		var sv ssa.Value
		for _, ed := range phi.Edges {
			if v, _, _, ok := e.truthSets(env, ed); ok {
				sv = v
				break
			}
		}
		if sv == nil {
			// no edge is a state test in this environment: look at the comparisons syntactically
			for _, ed := range phi.Edges {
				if b, ok := ed.(*ssa.BinOp); ok && (b.Op == token.EQL || b.Op == token.NEQ) {
					if _, has := env.vals[b.X]; has {
						sv = b.X
					} else if _, has := env.vals[b.Y]; has {
						sv = b.Y
					}
				}
			}
		}
		if sv == nil {
			continue
		}
		cur := env.vals[sv]
		ed := phi.Edges[idx]
		var t, f StateSet
		if k, isK := ed.(*ssa.Const); isK && k.Value != nil && k.Value.Kind() == constant.Bool {
			if constant.BoolVal(k.Value) {
				t = cur
			} else {
				f = cur
			}
		} else if v, tt, ff, ok := e.truthSets(env, ed); ok && v == sv {
			t, f = tt, ff
		} else {
			t, f = cur, cur
		}
		if env.bs == nil {
			env.bs = map[ssa.Value]boolSets{}
		}
		env.bs[phi] = boolSets{sv, t, f}
	}
}
