package main

import (
	"go/types"
	"sort"
	"strings"

	"golang.org/x/tools/go/ssa"
)

// cfgSources: names of Config fields loaded in the backward slice of v
// (through φ, conversions, arithmetic and field selections of loaded sub-structs).
func cfgSources(v ssa.Value, d int, out map[string]bool, seen map[ssa.Value]bool) {
	if d > 8 || v == nil || seen[v] {
		return
	}
	seen[v] = true
	switch x := v.(type) {
	case *ssa.Phi:
		for _, e := range x.Edges {
			cfgSources(e, d+1, out, seen)
		}
	case *ssa.Convert:
		cfgSources(x.X, d+1, out, seen)
	case *ssa.ChangeType:
		cfgSources(x.X, d+1, out, seen)
	case *ssa.BinOp:
		cfgSources(x.X, d+1, out, seen)
		cfgSources(x.Y, d+1, out, seen)
	case *ssa.UnOp:
		if f, base := loadedField(x); f != nil {
			if isConfigType(base.Type()) {
				out[f.Name()] = true
				return
			}
			// sub-struct of the config (cfg.rack.x): name the leaf
			if fa, ok := x.X.(*ssa.FieldAddr); ok {
				if inner, ok := fa.X.(*ssa.FieldAddr); ok && isConfigType(inner.X.Type()) {
					out[f.Name()] = true
				}
			}
		}
	}
}

func isConfigType(t interface{ String() string }) bool {
	s := t.String()
	return strings.HasSuffix(s, "sctp.Config") || strings.HasSuffix(s, "sctp.Config)")
}

func normName(s string) string {
	s = strings.ToLower(s)
	s = strings.TrimPrefix(s, "my")
	return s
}

// cfgAlias: reviewed renamings between a Config field and what it initialises.
var cfgAlias = map[string][]string{
	"enablezerochecksum":   {"recvzerochecksum"},
	"enableinterleaving":   {"localinterleaving", "enableinterleavingset"},
	"loggerfactory":        {"log"},
	"maxreceivebuffersize": {"maxtsnoffset", "advertisedreceiverwindowcredit"},
}

func cfgNameOK(dst string, srcs map[string]bool) (bool, []string) {
	var bad []string
	d := normName(dst)
	for s := range srcs {
		n := normName(s)
		ok := n == d
		for _, a := range cfgAlias[n] {
			if a == d {
				ok = true
			}
		}
		if !ok {
			bad = append(bad, s)
		}
	}
	sort.Strings(bad)
	return len(bad) == 0, bad
}

func init() {
	register(&Rule{ID: "C11.R6", Props: []string{"C11", "C10", "C13", "C18", "C19", "C04"}, Engine: "E2-dataflow",
		Title:   "configuration plumbing is name-consistent: wherever a value read from a Config field initialises a Config field, an Association field or a constructor parameter (receive buffer → advertised window and TSN window, MTU → payload size, RTOMax → RTO manager and timers, MinCwnd, FastRtxWnd, zero-checksum and interleaving switches …), source and destination carry the same name (reviewed aliases excepted), so no limit is initialised from another option",
		MinInst: 30,
		Run: func(c *RuleCtx) {
			ks := keyer{}
			// names that denote an option: every Config field (and the reviewed aliases)
			optionNamed := map[string]bool{}
			if cfgT := c.P.Types.Scope().Lookup("Config"); cfgT != nil {
				if st, ok := cfgT.Type().Underlying().(*types.Struct); ok {
					for i := 0; i < st.NumFields(); i++ {
						optionNamed[normName(st.Field(i).Name())] = true
					}
				}
			}
			for _, as := range cfgAlias {
				for _, a := range as {
					optionNamed[a] = true
				}
			}
			for _, fn := range c.P.Funcs {
				name := c.P.FuncName(fn)
				forEachInstr(fn, func(in ssa.Instruction) {
					switch x := in.(type) {
					case *ssa.Store:
						f := fieldOfAddr(x.Addr)
						if f == nil {
							return
						}
						src := map[string]bool{}
						cfgSources(x.Val, 0, src, map[ssa.Value]bool{})
						if len(src) == 0 {
							return
						}
						ok, bad := cfgNameOK(f.Name(), src)
						c.Check(ok, ks.key("cfg-flow:"+f.Name()+"@"+name), c.Pos(in), "initialised from the same-named option", "field "+f.Name()+" is initialised from Config."+strings.Join(bad, ", Config."))
					case ssa.CallInstruction:
						sc := x.Common().StaticCallee()
						if sc == nil || !c.P.inPkg(sc) || sc.Blocks == nil {
							return
						}
						for i, a := range x.Common().Args {
							if i >= len(sc.Params) {
								break
							}
							src := map[string]bool{}
							cfgSources(a, 0, src, map[ssa.Value]bool{})
							if len(src) == 0 {
								continue
							}
							if !optionNamed[normName(sc.Params[i].Name())] {
								continue // a generically named helper parameter (s, v, …) says nothing about which option it expects
							}
							ok, bad := cfgNameOK(sc.Params[i].Name(), src)
							c.Check(ok, ks.key("cfg-arg:"+c.P.FuncName(sc)+"."+sc.Params[i].Name()+"@"+name), c.Pos(in), "parameter receives the same-named option", "parameter "+sc.Params[i].Name()+" of "+c.P.FuncName(sc)+" receives Config."+strings.Join(bad, ", Config."))
						}
					}
				})
			}
		}})
}
