package main

import (
	"fmt"
	"go/token"
	"go/types"
	"strings"

	"golang.org/x/tools/go/ssa"
)

// readsFieldOf: the operand tree of v loads a field of the named struct type.
func readsFieldOf(v ssa.Value, typ string, d int, seen map[ssa.Value]bool) (bool, string) {
	if v == nil || d > 10 || seen[v] {
		return false, ""
	}
	seen[v] = true
	if fa, ok := v.(*ssa.FieldAddr); ok && typeShort(fa.X.Type()) == "*"+typ {
		return true, typ + "." + fieldOf(fa.X.Type(), fa.Field).Name()
	}
	in, ok := v.(ssa.Instruction)
	if !ok {
		return false, ""
	}
	for _, op := range in.Operands(nil) {
		if *op != nil {
			if hit, w := readsFieldOf(*op, typ, d+1, seen); hit {
				return true, w
			}
		}
	}
	return false, ""
}

func inLoop(in ssa.Instruction) bool { return len(loopBlocks(in.Block())) > 0 }

func init() {
	register(&Rule{ID: "C18.R11", Props: []string{"C18", "C01"}, Engine: "E3",
		Title:   "a latched read error never discards inbound data: in Stream.handleData the chunk is handed to the reassembly queue under no condition that reads the stream's own state (readErr, state …) — the association has already recorded the TSN, so a chunk dropped here (e.g. while ErrReadDeadlineExceeded is latched until the next SetReadDeadline) is never retransmitted and the message is lost",
		MinInst: 1,
		Run: func(c *RuleCtx) {
			hd := c.Fn("Stream.handleData")
			push := map[*ssa.Function]bool{c.Fn("reassemblyQueue.pushWithError"): true}
			if f := c.P.Fn("reassemblyQueue.push"); f != nil {
				push[f] = true
			}
			ks := keyer{}
			n := 0
			for _, g := range c.P.Region(hd) {
				forEachInstr(g, func(in ssa.Instruction) {
					ci, ok := in.(ssa.CallInstruction)
					if !ok || !push[ci.Common().StaticCallee()] {
						return
					}
					n++
					var bad []string
					for _, f := range localFactsUpTo(in, hd) {
						if hit, w := readsFieldOf(f.Cond, "Stream", 0, map[ssa.Value]bool{}); hit {
							bad = append(bad, fmt.Sprintf("%s=%v (reads %s)", shortValue(c.P, f.Cond), f.Taken, w))
						}
					}
					c.Check(len(bad) == 0, ks.key("inbound-always-queued"), c.Pos(in), "the chunk is queued whatever the stream's read state", "the chunk reaches the reassembly queue only if "+strings.Join(bad, " ∧ ")+": otherwise it is dropped after its TSN was acknowledged")
				})
			}
			c.Check(n >= 1, "queue-site", c.P.Pos(hd.Pos()), fmt.Sprintf("%d hand-over site(s)", n), "Stream.handleData no longer hands the chunk to the reassembly queue")
		}})

	register(&Rule{ID: "C15.R7", Props: []string{"C15"}, Engine: "E3",
		Title:   "the association-level figure is the sum of the two queues in every state: each value Association.BufferedAmount() can return is pendingQueue bytes + in-flight bytes — no constant, no state-dependent shortcut (data keeps draining and being acknowledged in SHUTDOWN-PENDING/RECEIVED)",
		MinInst: 1,
		Run: func(c *RuleCtx) {
			fn := c.Fn("Association.BufferedAmount")
			pq, iq := c.Fn("pendingQueue.getNumBytes"), c.Fn("payloadQueue.getNumBytes")
			ks := keyer{}
			for _, r := range allReturns(fn) {
				for _, lf := range leavesWithFacts(retResults(r)[0]) {
					hasP := derives(lf.Val, IsCallOf(pq), map[ssa.Value]bool{})
					hasI := derives(lf.Val, IsCallOf(iq), map[ssa.Value]bool{})
					c.Check(hasP && hasI, ks.key("figure-is-sum"), c.Pos(r), "pending bytes + in-flight bytes", "a path returns "+shortValue(c.P, lf.Val)+" instead of pending + in-flight bytes: the association figure no longer matches the streams' amounts")
				}
			}
		}})

	register(&Rule{ID: "C15.R8", Props: []string{"C15", "C14"}, Engine: "E3",
		Title:   "a registered stream is never replaced: a new Stream is created for an identifier (createStream, which stores into Association.streams) only where the lookup of that identifier has just missed — acknowledged bytes are credited through streams[id], so replacing the entry of a stream that still has data outstanding strands its buffered amount",
		MinInst: 1,
		Run: func(c *RuleCtx) {
			cs := c.Fn("Association.createStream")
			sf := c.field("Association", "streams")
			ks := keyer{}
			missFact := func(in ssa.Instruction) bool {
				for _, f := range DomFactsX(in.Block()) {
					// ok == false of a comma-ok lookup in a.streams
					if ex, isEx := f.Cond.(*ssa.Extract); isEx && ex.Index == 1 && !f.Taken {
						if lk, isLk := ex.Tuple.(*ssa.Lookup); isLk && IsLoadOf(sf)(lk.X) {
							return true
						}
					}
					// s == nil of a plain lookup
					if b, isB := f.Cond.(*ssa.BinOp); isB && (b.Op == token.EQL || b.Op == token.NEQ) {
						for _, pair := range [][2]ssa.Value{{b.X, b.Y}, {b.Y, b.X}} {
							if !isNilConst(pair[1]) {
								continue
							}
							v := pair[0]
							if ex, isEx := v.(*ssa.Extract); isEx {
								v = ex.Tuple
							}
							if lk, isLk := v.(*ssa.Lookup); isLk && IsLoadOf(sf)(lk.X) && (b.Op == token.EQL) == f.Taken {
								return true
							}
						}
					}
				}
				return false
			}
			n := 0
			for _, site := range c.P.CallSitesOf(cs) {
				n++
				c.Check(missFact(site.Instr), ks.key("create-only-on-miss@"+c.P.FuncName(site.Fn)), c.Pos(site.Instr), "a stream is created only after the lookup missed", "createStream is reached although an entry for the identifier may exist: the registered stream is replaced while its data is still outstanding ("+c.describeConds(site.Instr)+")")
			}
			// any other store into the registry
			for _, fn := range c.P.Funcs {
				if c.P.OwnedBy(fn, map[*ssa.Function]bool{cs: true}) {
					continue
				}
				forEachInstr(fn, func(in ssa.Instruction) {
					if mu, ok := in.(*ssa.MapUpdate); ok && IsLoadOf(sf)(mu.Map) {
						n++
						c.Check(missFact(in), ks.key("registry-store@"+c.P.FuncName(fn)), c.Pos(in), "stored only after the lookup missed", "a stream is stored into the registry where an entry may already exist")
					}
				})
			}
			c.Check(n >= 1, "create-sites", "", fmt.Sprintf("%d creation site(s)", n), "no creation site found")
		}})

	register(&Rule{ID: "C14.R10", Props: []string{"C14", "C18"}, Engine: "E3",
		Title:   "EOF (or any latched read error) is reported only when the queue had nothing to give: in ReadSCTP the return of readErr is dominated by the outcome of reassemblyQueue.read being neither success nor io.ErrShortBuffer — a message that arrived before the reset stays readable with a larger buffer instead of being hidden behind EOF",
		MinInst: 1,
		Run: func(c *RuleCtx) {
			fn := c.Fn("Stream.ReadSCTP")
			re := c.field("Stream", "readErr")
			ks := keyer{}
			n := 0
			for _, g := range c.P.Region(fn) {
				for _, r := range allReturns(g) {
					rs := retResults(r)
					if len(rs) == 0 || !IsLoadOf(re)(rs[len(rs)-1]) {
						continue
					}
					n++
					ok := false
					for _, f := range append(localFactsUpTo(r, fn), DomFactsX(r.Block())...) {
						switch x := f.Cond.(type) {
						case *ssa.Call:
							sc := x.Call.StaticCallee()
							if sc != nil && sc.Name() == "Is" && len(x.Call.Args) == 2 {
								if isGlobalLoad(x.Call.Args[1], "io", "ErrShortBuffer") && !f.Taken {
									ok = true
								}
							}
						case *ssa.BinOp:
							if x.Op == token.EQL || x.Op == token.NEQ {
								for _, a := range []ssa.Value{x.X, x.Y} {
									if isGlobalLoad(a, "io", "ErrShortBuffer") && (x.Op == token.NEQ) == f.Taken {
										ok = true
									}
								}
							}
						}
					}
					c.Check(ok, ks.key("read-error-after-short-buffer"), c.Pos(r), "readErr is returned only after the short-buffer outcome was ruled out", "ReadSCTP can return the latched read error although reassemblyQueue.read reported io.ErrShortBuffer: a complete message that needs a larger buffer is hidden behind EOF ("+c.describeConds(r)+")")
				}
			}
			c.Check(n >= 1, "read-error-return", c.P.Pos(fn.Pos()), fmt.Sprintf("%d return(s) of readErr", n), "ReadSCTP no longer returns the latched read error")
		}})

	register(&Rule{ID: "C19.R13", Props: []string{"C19", "C02"}, Engine: "E2+E3",
		Title:   "the T3-rtx back-off survives SACKs that acknowledge nothing new at the front: t3RTX.stop() (which start() follows with a cleared back-off) is called only where the earliest outstanding TSN was acknowledged (processSelectiveAck under tsn == cumulativeTSNAckPoint+1; onCumulativeTSNAckPointAdvanced) or on teardown — never unconditionally per SACK, or a stream of gap-only SACKs keeps T3 from ever expiring",
		MinInst: 2,
		Run: func(c *RuleCtx) {
			t3 := c.field("Association", "t3RTX")
			cum := c.field("Association", "cumulativeTSNAckPoint")
			adv := c.Fn("Association.onCumulativeTSNAckPointAdvanced")
			teardown := fnSet(c.fns("Association.closeAllTimers", "Association.close"))
			ks := keyer{}
			n := 0
			for _, fn := range c.P.Funcs {
				for _, ci := range callsOnField(fn, t3, "stop") {
					n++
					in := ci.(ssa.Instruction)
					ok := c.P.OwnedBy(fn, teardown) || c.P.OwnedBy(fn, map[*ssa.Function]bool{adv: true})
					why := "teardown / cumulative point advanced"
					if !ok {
						// the acknowledged TSN is the earliest outstanding one
						ok = DominatedByExt(in, CmpCond(token.EQL, AnyV, BinV(token.ADD, IsLoadOf(cum), IsConstInt(1))))
						why = "the earliest outstanding TSN was acknowledged"
					}
					c.Check(ok, ks.key("t3-stop-only-on-front-progress@"+c.P.FuncName(fn)), c.Pos(in), why, "T3-rtx is stopped (and its back-off cleared by the next start) although nothing at the front of the in-flight queue was acknowledged ("+c.describeConds(in)+")")
				}
			}
			c.Check(n >= 2, "t3-stop-sites", "", fmt.Sprintf("%d stop site(s)", n), fmt.Sprintf("only %d T3 stop sites found", n))
		}})

	register(&Rule{ID: "C17.R11", Props: []string{"C17", "C04"}, Engine: "E3-sibling",
		Title:   "peer capabilities accumulate over all Supported-Extensions parameters on every handshake path: a store to peerForwardTSN / peerInterleaving / peerIForwardTSN that executes inside the parameter loop (directly or through a helper called in the loop) ORs the new value into the old one — an assigning store makes the last parameter win, so the client and server roles of the same endpoint negotiate differently",
		MinInst: 3,
		Run: func(c *RuleCtx) {
			ks := keyer{}
			flags := []*types.Var{c.field("Association", "peerForwardTSN"), c.field("Association", "peerInterleaving"), c.field("Association", "peerIForwardTSN")}
			for _, hn := range []string{"Association.handleInit", "Association.handleInitAck", "Association.initWithOutOfBandTokens"} {
				h := c.Fn(hn)
				type st struct {
					in     *ssa.Store
					f      *types.Var
					looped bool
				}
				var found []st
				var walk func(fn *ssa.Function, looped bool, d int, seen map[*ssa.Function]bool)
				walk = func(fn *ssa.Function, looped bool, d int, seen map[*ssa.Function]bool) {
					if fn == nil || fn.Blocks == nil || d > 3 || seen[fn] {
						return
					}
					seen[fn] = true
					defer delete(seen, fn)
					forEachInstr(fn, func(in ssa.Instruction) {
						switch x := in.(type) {
						case *ssa.Store:
							fv := fieldOfAddr(x.Addr)
							for _, f := range flags {
								if fv == f {
									found = append(found, st{x, f, looped || inLoop(in)})
								}
							}
						case ssa.CallInstruction:
							if sc := x.Common().StaticCallee(); sc != nil && c.P.inPkg(sc) {
								walk(sc, looped || inLoop(in), d+1, seen)
							}
						}
					})
				}
				walk(h, false, 0, map[*ssa.Function]bool{})
				for _, s := range found {
					f := s.f
					if IsConstBool(false)(s.in.Val) {
						continue // the reset before the loop
					}
					if !s.looped {
						c.Ok(ks.key("flag-store:"+f.Name()+"@"+hn), c.Pos(s.in), "stored once, outside the parameter loop")
						continue
					}
					acc := derives(s.in.Val, IsLoadOf(f), map[ssa.Value]bool{}) || IsConstBool(true)(s.in.Val) // "if x { flag = true }" only ever sets
					if !acc {
						for _, lf := range leavesWithFacts(s.in.Val) {
							for _, ff := range lf.Facts {
								if IsLoadOf(f)(ff.Cond) {
									acc = true
								}
							}
						}
					}
					c.Check(acc, ks.key("flag-accumulates:"+f.Name()+"@"+hn), c.Pos(s.in), "ORed into the value collected so far", f.Name()+" is overwritten once per Supported-Extensions parameter on the "+hn+" path: the last parameter wins and capabilities listed earlier are forgotten")
				}
			}
		}})
}

// isGlobalLoad: v is a direct load of the package-level variable pkg.name.
func isGlobalLoad(v ssa.Value, pkg, name string) bool {
	if mi, ok := v.(*ssa.MakeInterface); ok {
		v = mi.X
	}
	u, ok := v.(*ssa.UnOp)
	if !ok || u.Op != token.MUL {
		return false
	}
	g, ok := u.X.(*ssa.Global)
	return ok && g.Name() == name && g.Pkg != nil && g.Pkg.Pkg.Name() == pkg
}
