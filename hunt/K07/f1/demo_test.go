// SPDX-FileCopyrightText: 2026 The Pion community <https://pion.ly>
// SPDX-License-Identifier: MIT

package sctp

import (
	"testing"
	"time"

	"github.com/pion/transport/v4/test"
	"github.com/stretchr/testify/assert"
	"github.com/stretchr/testify/require"
)

// A message larger than the congestion window is written on a stream with a
// retransmission limit of 0. Its first flight (the fragments that fit in the
// initial cwnd) is lost. The sender has given the message up, so those
// fragments are not retransmitted any more, but they stay counted as
// outstanding bytes. After T3 expires cwnd is one MTU and the outstanding
// (never to be retransmitted, never to be acknowledged) bytes already exceed
// it: the remaining fragments can never leave the pending queue, so the
// message never becomes "all in flight", no FORWARD-TSN is ever generated, and
// every later message on every stream - here a reliable ordered one - is
// blocked forever.
func TestHunt1_GivenUpPartiallySentMessageBlocksEverything(t *testing.T) {
	lim := test.TimeOut(time.Second * 20)
	defer lim.Stop()

	br := test.NewBridge()

	a0, a1, err := createNewAssociationPair(br, ackModeNoDelay, 0)
	require.NoError(t, err)

	// stream 1: partially reliable (rexmit 0); stream 2: reliable, ordered
	sU0, _, err := establishSessionPair(br, a0, a1, 1)
	require.NoError(t, err)
	sR0, sR1, err := establishSessionPair(br, a0, a1, 2)
	require.NoError(t, err)

	a0.rtoMgr.setRTO(100.0, true) // lock RTO at 100 ms so T3 fires quickly

	sU0.SetReliabilityParams(false, ReliabilityTypeRexmit, 0)

	// Lose the whole first flight of the big message.
	a0.lock.RLock()
	cwnd := a0.CWND()
	mps := a0.maxPayloadSize
	a0.lock.RUnlock()
	firstFlight := int(cwnd / mps)
	require.GreaterOrEqual(t, firstFlight, 2)
	br.DropNextNWrites(0, firstFlight)

	big := make([]byte, 20*int(mps)) // 20 fragments, well above cwnd
	_, err = sU0.WriteSCTP(big, PayloadTypeWebRTCBinary)
	require.NoError(t, err)

	// A reliable, ordered message on another stream, written afterwards.
	_, err = sR0.WriteSCTP([]byte("reliable"), PayloadTypeWebRTCString)
	require.NoError(t, err)

	// Run the network (lossless from now on) for 5 s = 50 RTOs.
	got := make(chan string, 1)
	go func() {
		buf := make([]byte, 64)
		n, _, rerr := sR1.ReadSCTP(buf)
		if rerr != nil {
			return
		}
		got <- string(buf[:n])
	}()

	deadline := time.Now().Add(5 * time.Second)
	delivered := false
	for time.Now().Before(deadline) && !delivered {
		br.Tick()
		select {
		case m := <-got:
			assert.Equal(t, "reliable", m)
			delivered = true
		default:
			time.Sleep(2 * time.Millisecond)
		}
	}

	a0.lock.RLock()
	t.Logf("sender after 5s: cwnd=%d inflightBytes=%d inflightChunks=%d pendingChunks=%d cumAck=%d advPeerAck=%d t3timeouts=%d",
		a0.CWND(), a0.inflightQueue.getNumBytes(), a0.inflightQueue.size(), a0.pendingQueue.size(),
		a0.cumulativeTSNAckPoint, a0.advancedPeerTSNAckPoint, a0.stats.getNumT3Timeouts())
	a0.lock.RUnlock()

	assert.True(t, delivered,
		"reliable message written after an abandoned message was never delivered (sender is stalled)")

	_ = sR1.SetReadDeadline(time.Now())
	closeAssociationPair(br, a0, a1)
}
