package sctp

import (
	"testing"
	"time"

	"github.com/pion/logging"
	"github.com/pion/transport/v4/test"
	"github.com/stretchr/testify/assert"
	"github.com/stretchr/testify/require"
)

// Abort injected on the server right after the COOKIE-ECHO wire event: the
// server is ESTABLISHED, the client is still in COOKIE-ECHOED (COOKIE-ACK lost).
// The client's blocked connect call returns, but the error does not carry the
// abort cause.
func TestHunt4AbortDuringHandshakeLosesCause(t *testing.T) {
	br := test.NewBridge()
	lf := logging.NewDefaultLoggerFactory()

	// Drop COOKIE-ACK (server -> client).
	br.Filter(1, func(raw []byte) bool {
		return !(len(raw) > int(commonHeaderSize) && chunkType(raw[commonHeaderSize]) == ctCookieAck)
	})

	type res struct {
		a   *Association
		err error
	}
	cliCh := make(chan res, 1)
	srvCh := make(chan res, 1)
	go func() {
		a, err := ClientWithOptions(WithNetConn(br.GetConn0()), WithLoggerFactory(lf), WithName("cli"))
		cliCh <- res{a, err}
	}()
	go func() {
		a, err := ServerWithOptions(WithNetConn(br.GetConn1()), WithLoggerFactory(lf), WithName("srv"))
		srvCh <- res{a, err}
	}()

	var srv *Association
	for i := 0; i < 200 && srv == nil; i++ {
		time.Sleep(5 * time.Millisecond)
		br.Tick()
		select {
		case r := <-srvCh:
			require.NoError(t, r.err)
			srv = r.a
		default:
		}
	}
	require.NotNil(t, srv, "server must be established")
	select {
	case r := <-cliCh:
		require.Failf(t, "client must still be connecting", "%v", r.err)
	default:
	}

	go srv.Abort("boom")

	var cli res
	returned := false
	for i := 0; i < 300 && !returned; i++ {
		time.Sleep(5 * time.Millisecond)
		br.Tick()
		select {
		case cli = <-cliCh:
			returned = true
		default:
		}
	}
	require.True(t, returned, "blocked connect must return after the ABORT")
	require.Error(t, cli.err)
	assert.Contains(t, cli.err.Error(), "boom", "connect error must carry the abort cause")
	_ = br.GetConn0().Close()
	_ = br.GetConn1().Close()
	br.Tick()
}
