package main

// Rename following for function anchors.
//
// Rules name the functions they reason about ("Association.unblockPendingWrites").
// An unexported helper can be renamed without any change of behaviour; the rules
// would then lose their anchor and report UNRESOLVED although nothing about the
// property changed. anchors_ref.json holds, for every function declared on the
// reviewed tree, a fingerprint (receiver, signature, callees, fields touched).
// When a reference name is absent from the analysed tree, the one function that
// (a) has a name unknown to the reference table, (b) the same receiver and
// signature, and (c) a clearly best fingerprint similarity, is taken to be the
// renamed function: it answers to the reference name in Fn() and FuncName(), so
// every rule and table keeps working. No candidate, or an ambiguous one, leaves
// the anchor unresolved exactly as before.

import (
	_ "embed"
	"encoding/json"
	"fmt"
	"go/types"
	"sort"
	"strings"

	"golang.org/x/tools/go/ssa"
)

//go:embed anchors_ref.json
var anchorsRefJSON []byte

type fnPrint struct {
	Recv  string   `json:"recv"`
	Sig   string   `json:"sig"`
	Feats []string `json:"feats"`
}

func (p *Prog) rawFuncName(fn *ssa.Function) string {
	save := p.alias
	p.alias = nil
	defer func() { p.alias = save }()
	return p.FuncName(fn)
}

func (p *Prog) fingerprint(fn *ssa.Function) fnPrint {
	q := func(pk *types.Package) string {
		if pk == p.Types {
			return ""
		}
		return pk.Name()
	}
	fp := fnPrint{}
	if r := fn.Signature.Recv(); r != nil {
		fp.Recv = types.TypeString(r.Type(), q)
	}
	anon := func(t *types.Tuple) *types.Tuple {
		var vs []*types.Var
		for i := 0; i < t.Len(); i++ {
			vs = append(vs, types.NewVar(0, nil, "", t.At(i).Type()))
		}
		return types.NewTuple(vs...)
	}
	fp.Sig = types.TypeString(types.NewSignatureType(nil, nil, nil, anon(fn.Signature.Params()), anon(fn.Signature.Results()), fn.Signature.Variadic()), q)
	set := map[string]bool{}
	var walk func(f *ssa.Function)
	walk = func(f *ssa.Function) {
		for _, b := range f.Blocks {
			for _, in := range b.Instrs {
				switch x := in.(type) {
				case ssa.CallInstruction:
					cc := x.Common()
					if sc := cc.StaticCallee(); sc != nil {
						if p.inPkg(sc) {
							if sc.Parent() == nil {
								set["call:"+p.rawFuncName(sc)] = true
							}
						} else if sc.Pkg != nil {
							set["call:"+sc.Pkg.Pkg.Name()+"."+sc.Name()] = true
						}
					} else if cc.IsInvoke() {
						set["invoke:"+cc.Method.Name()] = true
					} else if b, ok := cc.Value.(*ssa.Builtin); ok {
						set["builtin:"+b.Name()] = true
					}
				case *ssa.FieldAddr:
					if v := fieldOf(x.X.Type(), x.Field); v != nil {
						set["field:"+typeShort(x.X.Type())+"."+v.Name()] = true
					}
				case *ssa.Field:
					if v := fieldOf(x.X.Type(), x.Field); v != nil {
						set["field:"+typeShort(x.X.Type())+"."+v.Name()] = true
					}
				}
			}
		}
		for _, an := range f.AnonFuncs {
			walk(an)
		}
	}
	walk(fn)
	for k := range set {
		fp.Feats = append(fp.Feats, k)
	}
	sort.Strings(fp.Feats)
	return fp
}

// AnchorTable: fingerprints of every declared function of the analysed tree.
func (p *Prog) AnchorTable() map[string]fnPrint {
	out := map[string]fnPrint{}
	for _, fn := range p.Funcs {
		if fn.Parent() != nil || fn.Synthetic != "" || fn.Syntax() == nil {
			continue
		}
		n := p.rawFuncName(fn)
		if _, dup := out[n]; !dup {
			out[n] = p.fingerprint(fn)
		}
	}
	return out
}

func jaccard(a, b []string) float64 {
	if len(a) == 0 && len(b) == 0 {
		return 1
	}
	m := map[string]bool{}
	for _, x := range a {
		m[x] = true
	}
	inter := 0
	for _, x := range b {
		if m[x] {
			inter++
		}
	}
	union := len(a) + len(b) - inter
	return float64(inter) / float64(union)
}

// followRenames fills p.alias / p.byName for reference names that are absent.
func (p *Prog) followRenames() {
	ref := map[string]fnPrint{}
	if err := json.Unmarshal(anchorsRefJSON, &ref); err != nil || len(ref) == 0 {
		return
	}
	cur := p.AnchorTable()
	byRaw := map[string]*ssa.Function{}
	for _, fn := range p.Funcs {
		if fn.Parent() == nil && fn.Synthetic == "" && fn.Syntax() != nil {
			if _, dup := byRaw[p.rawFuncName(fn)]; !dup {
				byRaw[p.rawFuncName(fn)] = fn
			}
		}
	}
	var missing, fresh []string
	for n := range ref {
		if _, ok := cur[n]; !ok {
			missing = append(missing, n)
		}
	}
	for n := range cur {
		if _, ok := ref[n]; !ok {
			fresh = append(fresh, n)
		}
	}
	sort.Strings(missing)
	sort.Strings(fresh)
	// names the missing functions may have been given: substitute in features so that two
	// functions renamed together do not lower each other's similarity
	taken := map[string]bool{}
	for _, n := range missing {
		r := ref[n]
		best, second := -1.0, -1.0
		bestN := ""
		for _, c := range fresh {
			if taken[c] {
				continue
			}
			f := cur[c]
			if f.Recv != r.Recv || f.Sig != r.Sig {
				continue
			}
			s := jaccard(stripUnknownCalls(r.Feats, cur), stripUnknownCalls(f.Feats, ref))
			if s > best {
				best, second, bestN = s, best, c
			} else if s > second {
				second = s
			}
		}
		if bestN == "" || best < 0.6 || best-second < 0.15 {
			continue
		}
		fn := byRaw[bestN]
		taken[bestN] = true
		if p.alias == nil {
			p.alias = map[*ssa.Function]string{}
		}
		p.alias[fn] = n
		p.Renames = append(p.Renames, fmt.Sprintf("%s is taken to be the reviewed %s under a new name (same receiver and signature, fingerprint similarity %.2f)", bestN, n, best))
	}
	// the reference names answer for the renamed functions and their closures
	var addAll func(fn *ssa.Function)
	addAll = func(fn *ssa.Function) {
		p.byName[p.FuncName(fn)] = fn
		for _, an := range fn.AnonFuncs {
			addAll(an)
		}
	}
	for fn := range p.alias {
		addAll(fn)
	}
}

// stripUnknownCalls drops call features that name in-package functions the other
// table does not know (they are themselves renamed or new), so that a rename of a
// callee does not count against its callers.
func stripUnknownCalls(feats []string, other map[string]fnPrint) []string {
	var out []string
	for _, f := range feats {
		if strings.HasPrefix(f, "call:") && !strings.Contains(f[5:], ".") || strings.HasPrefix(f, "call:") && isInPkgName(f[5:]) {
			if _, ok := other[f[5:]]; !ok {
				continue
			}
		}
		out = append(out, f)
	}
	return out
}

func isInPkgName(n string) bool {
	// in-package names are "func" or "Type.method" with an in-package Type: external ones are "pkg.Func"
	i := strings.Index(n, ".")
	if i < 0 {
		return true
	}
	first := n[:i]
	return first != "" && (first[0] >= 'A' && first[0] <= 'Z' || curProg != nil && curProg.Types.Scope().Lookup(first) != nil) || lowerTypeLikely(first)
}

func lowerTypeLikely(s string) bool {
	switch s {
	case "fmt", "errors", "time", "sync", "atomic", "binary", "math", "bytes", "sort", "strings", "context", "rand", "crc32", "io", "net", "os", "hash", "bits", "slices", "maps", "unsafe", "logging", "randutil", "deadline", "vnet", "transport":
		return false
	}
	return true
}

//go:embed fields_ref.json
var fieldsRefJSON []byte

type fieldPrint struct {
	Name string `json:"name"`
	Type string `json:"type"`
}

// FieldTable: the fields (name, type) of every struct type declared in the package.
func (p *Prog) FieldTable() map[string][]fieldPrint {
	out := map[string][]fieldPrint{}
	q := func(pk *types.Package) string {
		if pk == p.Types {
			return ""
		}
		return pk.Name()
	}
	sc := p.Types.Scope()
	for _, n := range sc.Names() {
		tn, ok := sc.Lookup(n).(*types.TypeName)
		if !ok {
			continue
		}
		st, ok := tn.Type().Underlying().(*types.Struct)
		if !ok {
			continue
		}
		for i := 0; i < st.NumFields(); i++ {
			out[n] = append(out[n], fieldPrint{st.Field(i).Name(), types.TypeString(st.Field(i).Type(), q)})
		}
	}
	return out
}

// renamedField: the reviewed struct had a field of this name which the analysed struct
// lacks; if exactly one field of the analysed struct has a name unknown to the reviewed
// struct and the same type (and, when several qualify, the same position), it is taken
// to be that field under a new name.
func (p *Prog) renamedField(structName string, st *types.Struct, field string) *types.Var {
	ref := map[string][]fieldPrint{}
	if err := json.Unmarshal(fieldsRefJSON, &ref); err != nil {
		return nil
	}
	rf, ok := ref[structName]
	if !ok {
		return nil
	}
	known := map[string]bool{}
	want, wantIdx := "", -1
	for i, f := range rf {
		known[f.Name] = true
		if f.Name == field {
			want, wantIdx = f.Type, i
		}
	}
	if wantIdx < 0 {
		return nil
	}
	q := func(pk *types.Package) string {
		if pk == p.Types {
			return ""
		}
		return pk.Name()
	}
	var cands []*types.Var
	var atIdx *types.Var
	for i := 0; i < st.NumFields(); i++ {
		f := st.Field(i)
		if known[f.Name()] || types.TypeString(f.Type(), q) != want {
			continue
		}
		cands = append(cands, f)
		if i == wantIdx {
			atIdx = f
		}
	}
	var got *types.Var
	switch {
	case len(cands) == 1:
		got = cands[0]
	case atIdx != nil:
		got = atIdx
	}
	if got != nil {
		note := fmt.Sprintf("field %s.%s is taken to be the reviewed %s.%s under a new name (same type%s)", structName, got.Name(), structName, field, map[bool]string{true: ", only candidate", false: ", same position"}[len(cands) == 1])
		dup := false
		for _, r := range p.Renames {
			if r == note {
				dup = true
			}
		}
		if !dup {
			p.Renames = append(p.Renames, note)
		}
	}
	return got
}
