package sctp

import (
	"context"
	"testing"
	"time"

	"github.com/pion/transport/v4/test"
	"github.com/stretchr/testify/require"
)

// Crossed shutdown (both applications call Shutdown at the same time, no data
// queued) with two lost packets: a0's first SHUTDOWN and the single SHUTDOWN
// COMPLETE of the sequence (sent by a1). a1 is closed afterwards; a0 stays in
// SHUTDOWN-ACK-SENT, retransmits SHUTDOWN ACK without any limit and its
// Shutdown call never completes.
func TestHunt8CrossedShutdownLostShutdownCompleteNeverCompletes(t *testing.T) {
	br := test.NewBridge()
	a0, a1, err := createNewAssociationPair(br, ackModeNoDelay, 0)
	require.NoError(t, err)
	defer closeAssociationPair(br, a0, a1)
	_, _, err = establishSessionPair(br, a0, a1, 1)
	require.NoError(t, err)
	for _, a := range []*Association{a0, a1} {
		a.rtoMgr.setRTO(50, true) // fast T2 so that many retransmissions fit in the test
	}

	dropped := 0
	dropComplete := func(raw []byte) bool {
		if len(raw) > int(commonHeaderSize) && chunkType(raw[commonHeaderSize]) == ctShutdownComplete {
			dropped++

			return false
		}

		return true
	}
	droppedShutdown := false
	br.Filter(0, func(raw []byte) bool {
		if !droppedShutdown && len(raw) > int(commonHeaderSize) && chunkType(raw[commonHeaderSize]) == ctShutdown {
			droppedShutdown = true

			return false
		}

		return dropComplete(raw)
	})
	br.Filter(1, dropComplete)

	ctx, cancel := context.WithTimeout(context.Background(), 4*time.Second)
	defer cancel()
	r0, r1 := make(chan error, 1), make(chan error, 1)
	go func() { r0 <- a0.Shutdown(ctx) }()
	go func() { r1 <- a1.Shutdown(ctx) }()
	// make sure both calls were made before any packet is exchanged (crossed)
	require.Eventually(t, func() bool {
		return a0.getState() == shutdownSent && a1.getState() == shutdownSent
	}, time.Second, time.Millisecond)

	var e0, e1 error
	got := 0
	for got < 2 {
		select {
		case e0 = <-r0:
			got++
		case e1 = <-r1:
			got++
		default:
			br.Tick()
			time.Sleep(200 * time.Microsecond)
		}
	}
	t.Logf("SHUTDOWN COMPLETE packets dropped: %d; a0: err=%v state=%s, a1: err=%v state=%s; T2 retransmissions keep going",
		dropped, e0, getAssociationStateString(a0.getState()), e1, getAssociationStateString(a1.getState()))
	require.NoError(t, e0, "a0.Shutdown")
	require.NoError(t, e1, "a1.Shutdown")
}
