package main

import (
	"fmt"

	"golang.org/x/tools/go/ssa"
)

// derivesFrom: v is computed from root through conversions, comparisons, φ.
func derivesFrom(v, root ssa.Value, d int) bool {
	if v == root {
		return true
	}
	if d > 6 {
		return false
	}
	switch x := v.(type) {
	case *ssa.BinOp:
		return derivesFrom(x.X, root, d+1) || derivesFrom(x.Y, root, d+1)
	case *ssa.UnOp:
		return derivesFrom(x.X, root, d+1)
	case *ssa.Convert:
		return derivesFrom(x.X, root, d+1)
	case *ssa.ChangeType:
		return derivesFrom(x.X, root, d+1)
	case *ssa.Phi:
		for _, e := range x.Edges {
			if derivesFrom(e, root, d+1) {
				return true
			}
		}
	}
	return false
}

func init() {
	register(&Rule{ID: "C20.R7", Props: []string{"C20", "C08"}, Engine: "E4+E3",
		Title:   "no check-then-act on the association state: a getState() result read without Association.lock never decides whether a region that takes Association.lock afterwards is entered (the state could change between the check and the acquisition: e.g. a stream registered on an association that has just been torn down)",
		MinInst: 1,
		Run: func(c *RuleCtx) {
			e, err := c.P.States()
			if err != nil {
				panic(unresolved{err.Error()})
			}
			le := c.P.Locks()
			ks := keyer{}
			nChecked := 0
			for _, fn := range c.P.Funcs {
				var locks []ssa.Instruction
				forEachInstr(fn, func(in ssa.Instruction) {
					if ci, ok := in.(*ssa.Call); ok {
						if cl, op, isMu := le.mutexOp(&ci.Call); isMu && cl == "Association.lock" && (op == "Lock" || op == "RLock") {
							locks = append(locks, in)
						}
					}
				})
				for _, g := range callsIn(fn, e.getState) {
					held := le.HeldAt(g)
					unlocked := false
					for _, ls := range held {
						if !le.Holds(ls, "Association.lock", false) {
							unlocked = true
						}
					}
					if !unlocked || len(held) == 0 {
						continue
					}
					gv, ok := g.(ssa.Value)
					if !ok {
						continue
					}
					nChecked++
					bad := ""
					for _, l := range locks {
						if !instrMayFollow(g, l) {
							continue
						}
						for _, f := range DomFacts(l.Block()) {
							if derivesFrom(f.Cond, gv, 0) {
								bad = fmt.Sprintf("state read without the lock at %s decides whether the locked region at %s is entered", c.Pos(g), c.Pos(l))
							}
						}
					}
					c.Check(bad == "", ks.key("unlocked-state-read@"+c.P.FuncName(fn)), c.Pos(g), "an unlocked state read does not gate a later acquisition of Association.lock in this function", bad)
				}
			}
			c.Check(true, "unlocked-state-reads", "", fmt.Sprintf("%d unlocked getState() read(s) examined", nChecked), "")
		}})
}
