package main

import (
	"fmt"
	"go/constant"
	"go/token"
	"go/types"
	"sort"

	"golang.org/x/tools/go/ssa"
)

func init() {
	register(&Rule{ID: "C13.R1", Props: []string{"C13", "C09"}, Engine: "E5b",
		Title:   "receive checksum decision table (exhaustive over every chunk-type constant as first chunk, ≥100 scenarios): a packet is accepted iff (checksum≠0 ⇒ it matches) ∧ (checksum=0 ⇒ zero checksum acceptable here and the packet does not start with INIT/COOKIE-ECHO, or it matches)",
		MinInst: 100,
		Run: func(c *RuleCtx) {
			pu := c.Fn("packet.unmarshal")
			gen := c.Fn("generatePacketChecksum")
			srcPort := c.field("packet", "sourcePort")
			ctInit, ctCE, ctSack := c.P.Const("ctInit"), c.P.Const("ctCookieEcho"), c.P.Const("ctSack")
			if ctInit == nil || ctCE == nil || ctSack == nil {
				panic(unresolved{"chunk type constants"})
			}
			raw := pu.Params[2]
			// the packet bytes: unmarshal's parameter, or the parameter of a private helper it is handed to
			isRaw := func(v ssa.Value) bool {
				for d := 0; d < 3 && v != nil; d++ {
					if v == ssa.Value(raw) {
						return true
					}
					p, ok := v.(*ssa.Parameter)
					if !ok {
						return false
					}
					v = through(p)
				}
				return false
			}
			isLenRaw := func(v ssa.Value) bool {
				call, ok := unconv(v).(*ssa.Call)
				if !ok {
					return false
				}
				b, ok := call.Call.Value.(*ssa.Builtin)
				return ok && b.Name() == "len" && isRaw(call.Call.Args[0])
			}
			type first struct {
				name    string
				present bool
				typ     constant.Value
			}
			firsts := []first{{"INIT", true, ctInit.Val()}, {"COOKIE-ECHO", true, ctCE.Val()}, {"SACK", true, ctSack.Val()}, {"none", false, nil}}
			// every other chunk type this package knows can start a packet too (ABORT, SHUTDOWN-COMPLETE, ... are
			// emitted with a zero checksum once the peer accepts it, so the receiver must not insist on a CRC for them)
			{
				scope := c.P.Types.Scope()
				names := scope.Names()
				sort.Strings(names)
				for _, n := range names {
					k, ok := scope.Lookup(n).(*types.Const)
					if !ok || typeShort(k.Type()) != "chunkType" || k == ctInit || k == ctCE || k == ctSack {
						continue
					}
					firsts = append(firsts, first{n, true, k.Val()})
				}
			}
			for _, doCk := range []bool{true, false} {
				for _, fc := range firsts {
					for _, field := range []int64{0, 5} {
						for _, match := range []bool{true, false} {
							ours := field
							if !match {
								ours = field + 2
							}
							fcc := fc
							outs, und := c.P.PEval(pu, PEConfig{
								Params: map[int]constant.Value{1: constant.MakeBool(doCk)},
								BindVal: func(v ssa.Value) (constant.Value, bool) {
									switch x := v.(type) {
									case *ssa.BinOp:
										// a comparison of len(raw) with a constant: the packet has its common header (12 bytes);
										// whether it also has room for a first chunk header (16 bytes) is a table input
										var k int64
										var lenLeft, isCmp bool
										if isLenRaw(x.X) {
											if kk, ok := constFold(x.Y, 0); ok {
												k, lenLeft, isCmp = kk, true, true
											}
										} else if isLenRaw(x.Y) {
											if kk, ok := constFold(x.X, 0); ok {
												k, lenLeft, isCmp = kk, false, true
											}
										}
										if isCmp {
											lenGEk := true // len(raw) >= k ?
											if k > 12 {
												lenGEk = fcc.present
											}
											op := x.Op
											if !lenLeft {
												op = swapOp(op)
											}
											// now: len op k, with k a threshold (len == k treated as len >= k)
											switch op {
											case token.LSS:
												return constant.MakeBool(!lenGEk), true
											case token.GEQ:
												return constant.MakeBool(lenGEk), true
											case token.LEQ: // len <= k-style tests do not occur for thresholds; be conservative
											case token.GTR:
											}
										}
									case *ssa.UnOp:
										if x.Op == token.MUL {
											if ia, ok := x.X.(*ssa.IndexAddr); ok && isRaw(ia.X) && fcc.present {
												return fcc.typ, true
											}
										}
									case *ssa.Call:
										if name, endian, ok := binaryCall(&x.Call); ok && name == "Uint32" && endian == "LE" && offsetOf(x.Call.Args[1]) == "8" {
											return constant.MakeInt64(field), true
										}
										if x.Call.StaticCallee() == gen {
											return constant.MakeInt64(ours), true
										}
									}
									return nil, false
								},
								StopAt: func(in ssa.Instruction) string {
									if st, ok := in.(*ssa.Store); ok && fieldOfAddr(st.Addr) == srcPort {
										return "accept"
									}
									return ""
								},
							})
							key := fmt.Sprintf("rx:doChecksum=%v,first=%s,field=%d,match=%v", doCk, fc.name, field, match)
							if und != "" || len(outs) != 1 {
								c.Fail(key, c.P.Pos(pu.Pos()), fmt.Sprintf("UNDECIDED: %s (%d paths)", und, len(outs)))
								continue
							}
							accepted := outs[0].Label == "accept"
							mandatory := doCk || fc.name == "INIT" || fc.name == "COOKIE-ECHO"
							want := (field == 0 || match) && (field != 0 || !mandatory || match)
							c.Check(accepted == want, key, c.P.Pos(pu.Pos()), fmt.Sprintf("accepted=%v", accepted), fmt.Sprintf("accepted=%v but the checksum rules require %v", accepted, want))
						}
					}
				}
			}
			// the decision is made with !recvZeroChecksum
			up := c.Fn("Association.unmarshalPacket")
			rz := c.field("Association", "recvZeroChecksum")
			for _, pc := range callsIn(up, pu) {
				a := callArg(pc, 1)
				u, ok := a.(*ssa.UnOp)
				c.Check(ok && u.Op == token.NOT && IsLoadOf(rz)(u.X), "rx-uses-local-acceptance", c.Pos(pc), "unmarshal(!a.recvZeroChecksum, raw)", "verification not driven by the local zero-checksum acceptance flag")
			}
		}})

	register(&Rule{ID: "C13.R2", Props: []string{"C13"}, Engine: "E5b+E3",
		Title:   "emit checksum decision table (2²): a CRC is written unless the peer accepts zero checksums, and always for INIT / COOKIE-ECHO packets; the CRC is computed over the finished packet",
		MinInst: 8,
		Run: func(c *RuleCtx) {
			mp := c.Fn("Association.marshalPacket")
			pm := c.Fn("packet.marshal")
			cm := c.Fn("chunkMandatoryChecksum")
			sz := c.field("Association", "sendZeroChecksum")
			for _, send := range []bool{true, false} {
				for _, mand := range []bool{true, false} {
					outs, und := c.P.PEval(mp, PEConfig{Fields: map[*types.Var]constant.Value{sz: constant.MakeBool(send)}, Opaque: map[*ssa.Function]bool{pm: true},
						BindVal: func(v ssa.Value) (constant.Value, bool) {
							if IsCallOf(cm)(v) {
								return constant.MakeBool(mand), true
							}
							return nil, false
						}})
					key := fmt.Sprintf("tx:peerAcceptsZero=%v,mandatory=%v", send, mand)
					if und != "" || len(outs) == 0 {
						c.Fail(key, c.P.Pos(mp.Pos()), "UNDECIDED: "+und)
						continue
					}
					want := !send || mand
					ok := true
					for _, o := range outs {
						calls := o.Called("packet.marshal")
						if len(calls) != 1 || calls[0].Args[1] != fmt.Sprint(want) {
							ok = false
						}
					}
					c.Check(ok, key, c.P.Pos(mp.Pos()), fmt.Sprintf("packet.marshal(doChecksum=%v)", want), fmt.Sprintf("doChecksum is not %v for this combination", want))
				}
			}
			// mandatory set
			got := map[string]bool{}
			forEachInstr(cm, func(in ssa.Instruction) {
				if ta, ok := in.(*ssa.TypeAssert); ok {
					got[typeShort(ta.AssertedType)] = true
				}
			})
			c.Check(got["*chunkInit"] && got["*chunkCookieEcho"], "tx-mandatory-set", c.P.Pos(cm.Pos()), "INIT and COOKIE-ECHO always carry a CRC", fmt.Sprintf("mandatory-checksum chunk set is %v", got))
			// and it looks at every chunk of the packet
			okLoop := false
			forEachInstr(cm, func(in ssa.Instruction) {
				if ta, ok := in.(*ssa.TypeAssert); ok && len(loopBlocks(ta.Block())) > 0 {
					okLoop = true
				}
			})
			c.Check(okLoop, "tx-mandatory-all-chunks", c.P.Pos(cm.Pos()), "every chunk of the packet is inspected", "only some chunks are inspected for mandatory CRC")
			// packet.marshal: the checksum store
			gen := c.Fn("generatePacketChecksum")
			n := 0
			forEachInstr(pm, func(in ssa.Instruction) {
				call, ok := in.(*ssa.Call)
				if !ok {
					return
				}
				name, endian, ok := binaryCall(&call.Call)
				if !ok || offsetOf(call.Call.Args[1]) != "8" || name != "PutUint32" {
					return
				}
				n++
				c.Check(endian == "LE" && IsCallOf(gen)(call.Call.Args[2]), "tx-crc-value", c.Pos(in), "bytes 8..11 <- LittleEndian(generatePacketChecksum(raw))", "checksum field is not the little-endian CRC32c of the packet")
				c.Dom("tx-crc-only-if-requested", in, BoolCond(IsParam(pm, 1), true), "doChecksum == true")
				// computed after the last append
				late := true
				forEachInstr(pm, func(x ssa.Instruction) {
					if ac, ok := x.(*ssa.Call); ok {
						if b, ok := ac.Call.Value.(*ssa.Builtin); ok && b.Name() == "append" && CanReach(in, x) {
							late = false
						}
					}
				})
				c.Check(late, "tx-crc-over-final-bytes", c.Pos(in), "no bytes are appended after the CRC is computed", "bytes are appended after the CRC was computed")
				// the argument of generatePacketChecksum is the same buffer that is returned
				if gc, ok := call.Call.Args[2].(*ssa.Call); ok {
					for _, r := range allReturns(pm) {
						res := retResults(r)
						if !isNilConst(res[1]) {
							continue
						}
						if !isNilConst(res[0]) {
							c.Check(sameVal(res[0], gc.Call.Args[0]), "tx-crc-same-buffer", c.Pos(r), "the CRC covers the returned buffer", "CRC computed over a different buffer than the one returned")
						}
					}
				}
			})
			c.Check(n >= 1, "tx-crc-site", c.P.Pos(pm.Pos()), "one checksum store", fmt.Sprintf("%d checksum stores", n))
			// no other store to bytes 8..11
			forEachInstr(pm, func(in ssa.Instruction) {
				if st, ok := in.(*ssa.Store); ok {
					if ia, ok := st.Addr.(*ssa.IndexAddr); ok {
						if k, ok := constInt(ia.Index); ok && k >= 8 && k < 12 {
							c.Fail("tx-crc-bytes-untouched", c.Pos(in), "direct store into the checksum bytes")
						}
					}
				}
			})
		}})

	register(&Rule{ID: "C13.R3", Props: []string{"C13", "C04"}, Engine: "E2",
		Title:   "direction of negotiation: sendZeroChecksum is learnt only from the peer's Zero-Checksum-Acceptable parameter (DTLS method), recvZeroChecksum only from local configuration; the send path reads only the former, the receive path only the latter",
		MinInst: 8,
		Run: func(c *RuleCtx) {
			sz := c.field("Association", "sendZeroChecksum")
			rz := c.field("Association", "recvZeroChecksum")
			edmid := c.field("paramZeroChecksumAcceptable", "edmid")
			dtls := c.P.Const("dtlsErrorDetectionMethod")
			var dv int64
			fmt.Sscan(dtls.Val().String(), &dv)
			{
				allowed := []string{"Association.handleInit", "Association.handleInitAck", "Association.initWithOutOfBandTokens"}
				if c.P.Fn("Association.setSendZeroChecksum") != nil { // a helper of the out-of-band path; may be inlined
					allowed = append(allowed, "Association.setSendZeroChecksum")
				}
				c.WritersWithin("send-flag", sz, allowed...)
			}
			ks := keyer{}
			nReset := 0
			for _, a := range c.P.Writes(sz) {
				if IsConstBool(false)(a.Val) {
					// forgetting the acceptance before a new INIT / INIT-ACK is examined (never a constant true)
					nReset++
					continue
				}
				b, ok := a.Val.(*ssa.BinOp)
				okV := ok && b.Op == token.EQL && ((IsLoadOf(edmid)(b.X) && IsConstInt(dv)(b.Y)) || (IsLoadOf(edmid)(b.Y) && IsConstInt(dv)(b.X)))
				c.Check(okV, ks.key("send-flag-value@"+c.P.FuncName(a.Fn)), c.Pos(a.Instr), "sendZeroChecksum <- peerParam.edmid == DTLS", "sendZeroChecksum set from something other than the peer's parameter")
				// the parameter comes from the inbound chunk (function parameter), not from local state
				if okV {
					ev := b.X
					if _, isK := unconv(ev).(*ssa.Const); isK {
						ev = b.Y // the comparison may be written either way round
					}
					ld, isLd := unconv(ev).(*ssa.UnOp)
					if !isLd {
						continue
					}
					root := addrRoot(ld.X)
					fromInbound := false
					switch r := root.(type) {
					case *ssa.Extract:
						if ta, ok := r.Tuple.(*ssa.TypeAssert); ok {
							fromInbound = Derives(func(v ssa.Value) bool { _, isP := v.(*ssa.Parameter); return isP })(ta.X) || derivesFromParam(ta.X)
						}
					case *ssa.TypeAssert:
						fromInbound = derivesFromParam(r.X)
					}
					c.Check(fromInbound, ks.key("send-flag-from-inbound@"+c.P.FuncName(a.Fn)), c.Pos(a.Instr), "the parameter examined belongs to the inbound INIT/INIT-ACK", "the parameter examined does not come from the inbound chunk")
				}
			}
			// each handler that learns the flag from a parameter list first forgets the previous answer (a restarted peer,
			// or a rejected INIT-ACK, must not leave a stale "acceptable" behind)
			for _, hn := range []string{"Association.handleInit", "Association.handleInitAck"} {
				h := c.Fn(hn)
				var resets, learns []ssa.Instruction
				for _, g := range c.P.Region(h) {
					for _, a := range c.storesIn(g, sz) {
						if IsConstBool(false)(a.Val) {
							resets = append(resets, a.Instr)
						} else {
							learns = append(learns, a.Instr)
						}
					}
				}
				for _, l := range learns {
					ok := false
					for _, r := range resets {
						if crossDominates(r, l, 0) || InstrDominates(r, l) {
							ok = true
						}
					}
					c.Check(ok, ks.key("send-flag-forgotten-first@"+hn), c.Pos(l), "sendZeroChecksum = false dominates the parameter loop", "the flag learnt from a previous INIT / INIT-ACK is never cleared: a peer that no longer declares zero checksums acceptable is still sent them")
				}
			}
			// recvZeroChecksum: from the local option at construction, or — with out-of-band tokens — from the LOCAL token
			// (first chunk argument of initWithOutOfBandTokens), before the read loop is started
			c.WritersWithin("recv-flag", rz, "createAssociationFromConfigWithTsn", "Association.initWithOutOfBandTokens")
			oob := c.Fn("Association.initWithOutOfBandTokens")
			nOob := 0
			for _, a := range c.P.Writes(rz) {
				if (enclosingNamed(a.Fn) == oob || c.P.OwnedBy(a.Fn, map[*ssa.Function]bool{oob: true})) && !IsConstBool(false)(a.Val) {
					nOob++
				}
			}
			c.Check(nOob >= 1, "recv-flag-from-local-token", c.P.Pos(oob.Pos()), "with out-of-band tokens the acceptance flag is derived from the local token", "initWithOutOfBandTokens does not derive recvZeroChecksum from the local token: what this side accepts can differ from what its token told the peer")
			for _, a := range c.P.Writes(rz) {
				if enclosingNamed(a.Fn) == oob || c.P.OwnedBy(a.Fn, map[*ssa.Function]bool{oob: true}) {
					okT := IsConstBool(false)(a.Val)
					if b, isB := a.Val.(*ssa.BinOp); isB && b.Op == token.EQL {
						ev := b.X
						if _, isK := unconv(ev).(*ssa.Const); isK {
							ev = b.Y
						}
						if ld, isLd := unconv(ev).(*ssa.UnOp); isLd && IsLoadOf(edmid)(ld) {
							// the parameter examined must come from the local token: derive the root of the type assertion
							root := addrRoot(ld.X)
							var src ssa.Value
							switch r := root.(type) {
							case *ssa.Extract:
								if ta, ok := r.Tuple.(*ssa.TypeAssert); ok {
									src = ta.X
								}
							case *ssa.TypeAssert:
								src = r.X
							}
							okT = src != nil && derives(src, func(v ssa.Value) bool {
								p, isP := resolveParam(v).(*ssa.Parameter)
								return isP && p.Parent() == oob && len(oob.Params) > 1 && p == oob.Params[1]
							}, map[ssa.Value]bool{}) || derivesFromLocalToken(src, oob)
						}
					}
					c.Check(okT, ks.key("recv-flag-value@oob"), c.Pos(a.Instr), "recvZeroChecksum <- the LOCAL token's Zero-Checksum-Acceptable parameter (or false)", "recvZeroChecksum not taken from the local token")
					// set before the loops start (the read loop reads it without the lock)
					before := true
					forEachInstr(oob, func(in ssa.Instruction) {
						if g, isGo := in.(*ssa.Go); isGo && enclosingNamed(a.Fn) == oob && a.Fn == oob {
							if CanReach(g, a.Instr) {
								before = false
							}
						}
					})
					c.Check(before, ks.key("recv-flag-before-loops@oob"), c.Pos(a.Instr), "written before the read/write loops are started", "recvZeroChecksum is written after the read loop was started (it is read there without the lock)")
					continue
				}
				f, _ := loadedField(a.Val)
				c.Check(f != nil && f.Name() == "EnableZeroChecksum", "recv-flag-value", c.Pos(a.Instr), "recvZeroChecksum <- cfg.EnableZeroChecksum", "recvZeroChecksum not taken from the local option")
			}
			// cross-use
			mpRegion := c.P.TransitiveCallees(c.Fn("Association.marshalPacket"))
			upRegion := c.P.TransitiveCallees(c.Fn("Association.unmarshalPacket"))
			for _, a := range c.P.Reads(rz) {
				c.Check(!mpRegion[a.Fn], ks.key("send-path-ignores-recv-flag@"+c.P.FuncName(a.Fn)), c.Pos(a.Instr), "not on the send path", "the send path reads recvZeroChecksum (the retracted v1.8.12 bug)")
			}
			for _, a := range c.P.Reads(sz) {
				c.Check(!upRegion[a.Fn], ks.key("recv-path-ignores-send-flag@"+c.P.FuncName(a.Fn)), c.Pos(a.Instr), "not on the receive path", "the receive path reads sendZeroChecksum")
			}
			mp := c.Fn("Association.marshalPacket")
			nr := 0
			for _, a := range c.P.Reads(sz) {
				if a.Fn == mp {
					nr++
				}
			}
			c.Check(nr >= 1, "send-path-reads-send-flag", c.P.Pos(mp.Pos()), "marshalPacket consults sendZeroChecksum", "marshalPacket no longer consults sendZeroChecksum")
		}})

	register(&Rule{ID: "C13.R4", Props: []string{"C13", "C04"}, Engine: "E3",
		Title:   "zero-checksum acceptance is advertised iff locally enabled, with the DTLS method",
		MinInst: 6,
		Run: func(c *RuleCtx) {
			rz := c.field("Association", "recvZeroChecksum")
			edmid := c.field("paramZeroChecksumAcceptable", "edmid")
			dtls := c.P.Const("dtlsErrorDetectionMethod")
			var dv int64
			fmt.Sscan(dtls.Val().String(), &dv)
			n := 0
			for fn, sites := range c.allocSites("paramZeroChecksumAcceptable") {
				if fn == "buildParam" {
					continue
				}
				for _, s := range sites {
					n++
					okG := DominatedByExt(s, BoolCond(IsLoadOf(rz), true)) || DominatedByExt(s, BoolCond(func(v ssa.Value) bool {
						f, _ := loadedField(v)
						return f != nil && f.Name() == "EnableZeroChecksum"
					}, true))
					c.Check(okG, "advertise-iff-enabled@"+fn, c.Pos(s), "advertised only under the local zero-checksum option", "Zero-Checksum-Acceptable advertised without the local option")
					okM := false
					for _, a := range c.storesIn(s.Parent(), edmid) {
						if addrRoot(a.FA) == ssa.Value(s.(*ssa.Alloc)) && IsConstInt(dv)(a.Val) {
							okM = true
						}
					}
					c.Check(okM, "advertise-dtls-method@"+fn, c.Pos(s), "edmid = dtlsErrorDetectionMethod", "advertised with a different error detection method")
				}
			}
			c.Check(n >= 2, "advertise-sites", "", "three advertising sites (INIT, INIT-ACK, out-of-band token)", fmt.Sprintf("%d sites", n))
			// the advertisement is not skipped when enabled: in initClient / handleInit the true edge of recvZeroChecksum must append
			for _, fname := range []string{"Association.initClient", "Association.handleInit"} {
				fn := c.Fn(fname)
				found := false
				forEachInstr(fn, func(in ssa.Instruction) {
					ifi, ok := in.(*ssa.If)
					if !ok || !IsLoadOf(rz)(ifi.Cond) {
						return
					}
					found = true
					okA, _ := MustPassFromBlock(ifi.Block().Succs[0], func(x ssa.Instruction) bool {
						al, ok := x.(*ssa.Alloc)
						return ok && typeShort(al.Type()) == "*paramZeroChecksumAcceptable"
					}, PathOpts{})
					c.Check(okA, "advertise-when-enabled@"+fname, c.Pos(ifi), "enabled ⇒ the parameter is added", "enabled but the parameter is not always added")
				})
				c.Check(found, "advertise-branch@"+fname, c.P.Pos(fn.Pos()), "branches on recvZeroChecksum", "no longer branches on recvZeroChecksum")
			}
		}})

	register(&Rule{ID: "C13.R5", Props: []string{"C13", "C03"}, Engine: "E3",
		Title:   "a rejected packet has no effect: chunk handling is dominated by successful decoding (incl. checksum) and packet validation",
		MinInst: 4,
		Run: func(c *RuleCtx) {
			hi := c.Fn("Association.handleInbound")
			up := c.Fn("Association.unmarshalPacket")
			cp := c.Fn("checkPacket")
			var upErr, cpErr ssa.Value
			for _, pc := range callsIn(hi, up) {
				for _, r := range *pc.(ssa.Value).Referrers() {
					if ex, ok := r.(*ssa.Extract); ok && ex.Index == 1 {
						upErr = ex
					}
				}
			}
			for _, pc := range callsIn(hi, cp) {
				cpErr = pc.(ssa.Value)
			}
			if upErr == nil || cpErr == nil {
				c.Fail("decode-and-validate", c.P.Pos(hi.Pos()), "unmarshalPacket/checkPacket results not found")
				return
			}
			for _, name := range []string{"Association.handleChunksStart", "Association.handleChunk", "Association.handleChunksEnd"} {
				for _, hc := range callsIn(hi, c.Fn(name)) {
					c.Dom("after-decode:"+name, hc, CmpCond(token.EQL, IsValue(upErr), isNilConst), "unmarshalPacket err == nil")
					c.Dom("after-validate:"+name, hc, CmpCond(token.EQL, IsValue(cpErr), isNilConst), "checkPacket err == nil")
				}
			}
			// checksum failure returns an error from packet.unmarshal before any field of p is set
			pu := c.Fn("packet.unmarshal")
			mism := false
			for _, g := range c.P.Region(pu) {
				forEachInstr(g, func(in ssa.Instruction) {
					if u, ok := in.(*ssa.UnOp); ok && u.Op == token.MUL {
						if gl, ok := u.X.(*ssa.Global); ok && gl.Name() == "ErrChecksumMismatch" {
							mism = true
						}
					}
				})
			}
			c.Check(mism, "mismatch-is-error", c.P.Pos(pu.Pos()), "checksum mismatch returns ErrChecksumMismatch", "checksum mismatch is no longer an error")
		}})

	register(&Rule{ID: "C13.R6", Props: []string{"C13"}, Engine: "E1-pattern",
		Title:   "the checksum covers bytes 0..7, four zero bytes in place of the checksum field, and bytes 12.. with the Castagnoli table",
		MinInst: 4,
		Run: func(c *RuleCtx) {
			gen := c.Fn("generatePacketChecksum")
			var ups []*ssa.Call
			forEachInstr(gen, func(in ssa.Instruction) {
				if call, ok := in.(*ssa.Call); ok {
					if sc := call.Call.StaticCallee(); sc != nil && sc.Pkg != nil && sc.Pkg.Pkg.Path() == "hash/crc32" && sc.Name() == "Update" {
						ups = append(ups, call)
					}
				}
			})
			if len(ups) != 3 {
				c.Fail("crc-three-updates", c.P.Pos(gen.Pos()), fmt.Sprintf("%d crc32.Update calls, want 3", len(ups)))
				return
			}
			c.Ok("crc-three-updates", c.P.Pos(gen.Pos()), "three chained crc32.Update calls")
			seg := func(v ssa.Value) string {
				sl, ok := v.(*ssa.Slice)
				if !ok {
					return "?"
				}
				base := "?"
				if sl.X == ssa.Value(gen.Params[0]) {
					base = "raw"
				} else if g, ok := sl.X.(*ssa.Global); ok {
					base = g.Name()
				}
				lo, hi := "", ""
				if sl.Low != nil {
					if k, ok := constInt(sl.Low); ok {
						lo = fmt.Sprint(k)
					}
				}
				if sl.High != nil {
					if k, ok := constInt(sl.High); ok {
						hi = fmt.Sprint(k)
					}
				}
				return fmt.Sprintf("%s[%s:%s]", base, lo, hi)
			}
			want := []string{"raw[0:8]", "fourZeroes[:]", "raw[12:]"}
			alt := []string{"raw[:8]", "fourZeroes[:]", "raw[12:]"}
			for i, u := range ups {
				got := seg(u.Call.Args[2])
				c.Check(got == want[i] || got == alt[i], fmt.Sprintf("crc-segment-%d", i), c.Pos(u), "covers "+got, "covers "+got+", want "+want[i])
				tbl := false
				if ld, ok := u.Call.Args[1].(*ssa.UnOp); ok {
					if g, ok := ld.X.(*ssa.Global); ok && g.Name() == "castagnoliTable" {
						tbl = true
					}
				}
				c.Check(tbl, fmt.Sprintf("crc-table-%d", i), c.Pos(u), "Castagnoli table", "not the Castagnoli table")
				if i > 0 {
					c.Check(u.Call.Args[0] == ssa.Value(ups[i-1]), fmt.Sprintf("crc-chained-%d", i), c.Pos(u), "continues the previous sum", "sum is not chained")
				}
			}
			// table built from crc32.Castagnoli
			okT := false
			for _, fn := range c.P.Funcs {
				if fn.Name() != "init" {
					continue
				}
				forEachInstr(fn, func(in ssa.Instruction) {
					if call, ok := in.(*ssa.Call); ok {
						if sc := call.Call.StaticCallee(); sc != nil && sc.Name() == "MakeTable" {
							if k, ok := constInt(call.Call.Args[0]); ok && uint32(k) == 0x82f63b78 {
								okT = true
							}
						}
					}
				})
			}
			c.Check(okT, "crc-polynomial", "", "table = crc32.MakeTable(crc32.Castagnoli)", "checksum table is not built from the Castagnoli polynomial")
			// fourZeroes is never written
			nW := 0
			for _, fn := range c.P.Funcs {
				forEachInstr(fn, func(in ssa.Instruction) {
					if st, ok := in.(*ssa.Store); ok {
						if g, ok := addrRoot(st.Addr).(*ssa.Global); ok && g.Name() == "fourZeroes" {
							nW++
						}
					}
				})
			}
			c.Check(nW == 0, "crc-zero-block-constant", "", "fourZeroes is never written", "fourZeroes is modified somewhere")
		}})
}

func derivesFromParam(v ssa.Value) bool {
	seen := map[ssa.Value]bool{}
	var walk func(v ssa.Value, d int) bool
	walk = func(v ssa.Value, d int) bool {
		if v == nil || seen[v] || d > 12 {
			return false
		}
		seen[v] = true
		switch x := v.(type) {
		case *ssa.Parameter:
			return true
		case *ssa.UnOp:
			return walk(x.X, d+1)
		case *ssa.FieldAddr:
			return walk(x.X, d+1)
		case *ssa.IndexAddr:
			return walk(x.X, d+1)
		case *ssa.Field:
			return walk(x.X, d+1)
		case *ssa.Extract:
			return walk(x.Tuple, d+1)
		case *ssa.TypeAssert:
			return walk(x.X, d+1)
		case *ssa.Phi:
			for _, e := range x.Edges {
				if walk(e, d+1) {
					return true
				}
			}
		case *ssa.Next:
			return walk(x.Iter, d+1)
		case *ssa.Range:
			return walk(x.X, d+1)
		case *ssa.Convert:
			return walk(x.X, d+1)
		case *ssa.ChangeType:
			return walk(x.X, d+1)
		}
		return false
	}
	return walk(v, 0)
}

// constFold: value of an integer expression built from constants only.
func constFold(v ssa.Value, d int) (int64, bool) {
	if k, ok := constInt(v); ok {
		return k, true
	}
	if d > 6 {
		return 0, false
	}
	switch x := unconv(v).(type) {
	case *ssa.BinOp:
		a, okA := constFold(x.X, d+1)
		b, okB := constFold(x.Y, d+1)
		if !okA || !okB {
			return 0, false
		}
		switch x.Op {
		case token.ADD:
			return a + b, true
		case token.SUB:
			return a - b, true
		case token.MUL:
			return a * b, true
		}
	}
	return 0, false
}

// derivesFromLocalToken: v is (an element of) the params list of the first chunk argument of fn.
func derivesFromLocalToken(v ssa.Value, fn *ssa.Function) bool { return derivesFromLocalTokenIdx(v, fn, 1) }

// derivesFromLocalTokenIdx: v is (an element of) the params list of parameter #idx of fn (1 = local token, 2 = remote).
func derivesFromLocalTokenIdx(v ssa.Value, fn *ssa.Function, idx int) bool {
	if len(fn.Params) <= idx {
		return false
	}
	seen := map[ssa.Value]bool{}
	var walk func(v ssa.Value, d int) bool
	walk = func(v ssa.Value, d int) bool {
		if v == nil || d > 8 || seen[v] {
			return false
		}
		seen[v] = true
		switch x := unconv(v).(type) {
		case *ssa.Parameter:
			if x == fn.Params[idx] {
				return true
			}
			if a := through(x); a != nil {
				return walk(a, d+1)
			}
			return false
		case *ssa.UnOp:
			return walk(x.X, d+1)
		case *ssa.FieldAddr:
			return walk(x.X, d+1)
		case *ssa.Field:
			return walk(x.X, d+1)
		case *ssa.IndexAddr:
			return walk(x.X, d+1)
		case *ssa.Index:
			return walk(x.X, d+1)
		case *ssa.Extract:
			return walk(x.Tuple, d+1)
		case *ssa.Next:
			return walk(x.Iter, d+1)
		case *ssa.Range:
			return walk(x.X, d+1)
		case *ssa.Phi:
			for _, e := range x.Edges {
				if walk(e, d+1) {
					return true
				}
			}
		case *ssa.Slice:
			return walk(x.X, d+1)
		case *ssa.TypeAssert:
			return walk(x.X, d+1)
		}
		return false
	}
	return walk(v, 0)
}
