package main

import (
	"fmt"
	"go/types"
	"sort"
	"strings"

	"golang.org/x/tools/go/ssa"
)

// E4 — class-level lockset analysis.
//
// A lock class is (struct type, mutex field). The analysis is a forward
// must-analysis over SSA blocks, context-sensitive in the entry lockset, with
// callee exit locksets computed recursively (memoised on (function, entry)).

type LockSet uint64

type lockEngine struct {
	p       *Prog
	classes []string       // index/2 -> class name; bit 2i = W, bit 2i+1 = R
	classIx map[string]int // class -> i
	// results[fn][entry] -> per-instruction lockset *before* the instruction
	results map[*ssa.Function]map[LockSet]*lockCtx
	order   []lockEdge // lock-order edges
	unbal   []lockUnbal
	rootsOf map[*ssa.Function]bool
}

type lockCtx struct {
	entry  LockSet
	before map[ssa.Instruction]LockSet
	exit   LockSet
	done   bool
	live   bool
	// callHeld: lockset just before each call / deferred call at the fixpoint
	callHeld map[ssa.Instruction]LockSet
	// why: one caller context that led here, for witness paths
	fromFn   *ssa.Function
	fromSite ssa.Instruction
	fromCtx  LockSet
}

type lockUnbal struct {
	Fn    *ssa.Function
	Entry LockSet
	Msg   string
}

// OrderEdges returns held->acquired edges observed in live contexts.
func (e *lockEngine) OrderEdges() []lockEdge {
	var out []lockEdge
	for _, ed := range e.order {
		if c := e.results[ed.Fn][ed.Ctx]; c != nil && c.live {
			out = append(out, ed)
		}
	}
	return out
}

// Unbalanced lists live contexts whose return paths disagree on the lockset,
// plus those whose exit lockset differs from the entry lockset.
func (e *lockEngine) Unbalanced() []lockUnbal {
	var out []lockUnbal
	for _, u := range e.unbal {
		if c := e.results[u.Fn][u.Entry]; c != nil && c.live {
			out = append(out, u)
		}
	}
	for fn, m := range e.results {
		for entry, c := range m {
			if c.live && c.done && c.exit != entry {
				out = append(out, lockUnbal{fn, entry, fmt.Sprintf("exits holding %s but was entered with %s", e.String(c.exit), e.String(entry))})
			}
		}
	}
	return out
}

type lockEdge struct {
	Held, Acquired string // class names with mode
	Fn             *ssa.Function
	Site           ssa.Instruction
	Ctx            LockSet
}

func (e *lockEngine) classBit(class string, mode byte) LockSet {
	i, ok := e.classIx[class]
	if !ok {
		i = len(e.classes)
		e.classIx[class] = i
		e.classes = append(e.classes, class)
	}
	if mode == 'W' {
		return 1 << (2 * uint(i))
	}
	return 1 << (2*uint(i) + 1)
}

func (e *lockEngine) String(ls LockSet) string {
	if ls == 0 {
		return "{}"
	}
	var parts []string
	for i, c := range e.classes {
		if ls&(1<<(2*uint(i))) != 0 {
			parts = append(parts, c+":W")
		}
		if ls&(1<<(2*uint(i)+1)) != 0 {
			parts = append(parts, c+":R")
		}
	}
	sort.Strings(parts)
	return "{" + strings.Join(parts, ",") + "}"
}

// Holds reports whether class is held in ls (write mode if w, else any mode).
func (e *lockEngine) Holds(ls LockSet, class string, w bool) bool {
	i, ok := e.classIx[class]
	if !ok {
		return false
	}
	if ls&(1<<(2*uint(i))) != 0 {
		return true
	}
	if !w && ls&(1<<(2*uint(i)+1)) != 0 {
		return true
	}
	return false
}

// mutexOp classifies a call as a mutex operation on a lock class.
func (e *lockEngine) mutexOp(cc *ssa.CallCommon) (class string, op string, ok bool) {
	sc := cc.StaticCallee()
	if sc == nil || sc.Pkg == nil || sc.Pkg.Pkg.Path() != "sync" || sc.Signature.Recv() == nil {
		return "", "", false
	}
	rt := sc.Signature.Recv().Type().String()
	if rt != "*sync.Mutex" && rt != "*sync.RWMutex" {
		return "", "", false
	}
	switch sc.Name() {
	case "Lock", "Unlock", "RLock", "RUnlock":
	default:
		return "", "", false
	}
	if len(cc.Args) == 0 {
		return "", "", false
	}
	class = lockClassOf(cc.Args[0])
	if class == "" {
		return "", "", false
	}
	return class, sc.Name(), true
}

func lockClassOf(v ssa.Value) string {
	fa, ok := v.(*ssa.FieldAddr)
	if !ok {
		return ""
	}
	t := fa.X.Type()
	if pt, ok := t.Underlying().(*types.Pointer); ok {
		t = pt.Elem()
	}
	f := fieldOf(fa.X.Type(), fa.Field)
	if f == nil {
		return ""
	}
	name := types.TypeString(t, func(*types.Package) string { return "" })
	return name + "." + f.Name()
}

func (p *Prog) Locks() *lockEngine {
	if p.lockEng != nil {
		return p.lockEng
	}
	e := &lockEngine{p: p, classIx: map[string]int{}, results: map[*ssa.Function]map[LockSet]*lockCtx{}, rootsOf: map[*ssa.Function]bool{}}
	p.lockEng = e
	// roots: exported API, go targets, timer callbacks (AfterFunc args)
	var roots []*ssa.Function
	for _, r := range p.Roots() {
		roots = append(roots, r)
	}
	for _, fn := range p.Funcs {
		forEachInstr(fn, func(in ssa.Instruction) {
			switch x := in.(type) {
			case *ssa.Go:
				for _, t := range e.calleesOf(x) {
					roots = append(roots, t)
				}
			case ssa.CallInstruction:
				if sc := x.Common().StaticCallee(); sc != nil && sc.Pkg != nil && sc.Pkg.Pkg.Path() == "time" && sc.Name() == "AfterFunc" {
					for _, a := range x.Common().Args {
						for _, f := range funcValues(a) {
							roots = append(roots, f)
						}
					}
				}
			}
		})
	}
	for _, r := range roots {
		e.rootsOf[r] = true
		e.analyze(r, 0, nil, nil, 0)
	}
	for _, r := range roots {
		e.markLive(r, 0)
	}
	return e
}

func (e *lockEngine) markLive(fn *ssa.Function, entry LockSet) {
	c := e.results[fn][entry]
	if c == nil || c.live {
		return
	}
	c.live = true
	for site, held := range c.callHeld {
		ci, ok := site.(ssa.CallInstruction)
		if !ok {
			continue
		}
		cc := ci.Common()
		if _, _, isMu := e.mutexOp(cc); isMu {
			continue
		}
		var callees []*ssa.Function
		if cc.IsInvoke() {
			callees = e.p.calleesOfInstr(site)
		} else if sc := cc.StaticCallee(); sc != nil {
			if e.p.inPkg(sc) && sc.Blocks != nil {
				callees = []*ssa.Function{sc}
			} else {
				callees = syncFuncArgs(cc)
			}
		} else {
			callees = funcValues(cc.Value)
		}
		for _, cal := range callees {
			e.markLive(cal, held)
		}
	}
}

// funcValues resolves a func-typed value to the package functions it may be.
func funcValues(v ssa.Value) []*ssa.Function {
	switch x := v.(type) {
	case *ssa.Function:
		return []*ssa.Function{x}
	case *ssa.MakeClosure:
		if f, ok := x.Fn.(*ssa.Function); ok {
			return []*ssa.Function{f}
		}
	case *ssa.ChangeType:
		return funcValues(x.X)
	case *ssa.MakeInterface:
		return funcValues(x.X)
	}
	return nil
}

func (e *lockEngine) calleesOf(ci ssa.CallInstruction) []*ssa.Function {
	cc := ci.Common()
	if cc.IsInvoke() {
		return e.p.calleesOfInstr(ci)
	}
	if sc := cc.StaticCallee(); sc != nil {
		if e.p.inPkg(sc) && sc.Blocks != nil {
			return []*ssa.Function{sc}
		}
		return nil
	}
	return funcValues(cc.Value)
}

// funcArgsCalledSync: for calls to external functions, func-typed arguments
// that the callee invokes synchronously (sort.Slice, sort.Search, Once.Do).
func syncFuncArgs(cc *ssa.CallCommon) []*ssa.Function {
	sc := cc.StaticCallee()
	if sc == nil || sc.Pkg == nil {
		return nil
	}
	path := sc.Pkg.Pkg.Path()
	if path == "time" && sc.Name() == "AfterFunc" {
		return nil
	}
	var out []*ssa.Function
	for _, a := range cc.Args {
		if _, ok := a.Type().Underlying().(*types.Signature); ok {
			out = append(out, funcValues(a)...)
		}
	}
	return out
}

type lsState struct {
	held  LockSet
	defs  uint64 // bitset of Defer instrs registered (index in fn's defer list)
	valid bool
}

func (e *lockEngine) analyze(fn *ssa.Function, entry LockSet, fromFn *ssa.Function, fromSite ssa.Instruction, fromCtx LockSet) LockSet {
	if fn == nil || fn.Blocks == nil {
		return entry
	}
	m := e.results[fn]
	if m == nil {
		m = map[LockSet]*lockCtx{}
		e.results[fn] = m
	}
	if c, ok := m[entry]; ok {
		if !c.done {
			return entry // recursion: assume balanced
		}
		return c.exit
	}
	ctx := &lockCtx{entry: entry, before: map[ssa.Instruction]LockSet{}, callHeld: map[ssa.Instruction]LockSet{},
		fromFn: fromFn, fromSite: fromSite, fromCtx: fromCtx}
	m[entry] = ctx

	var defers []*ssa.Defer
	forEachInstr(fn, func(in ssa.Instruction) {
		if d, ok := in.(*ssa.Defer); ok {
			defers = append(defers, d)
		}
	})
	deferIx := func(d *ssa.Defer) uint {
		for i, x := range defers {
			if x == d {
				return uint(i)
			}
		}
		return 63
	}

	in := make([]lsState, len(fn.Blocks))
	out := make([]lsState, len(fn.Blocks))
	in[0] = lsState{held: entry, valid: true}
	work := []int{0}
	inWork := map[int]bool{0: true}
	exitSet := false
	var exit LockSet

	apply := func(cc *ssa.CallCommon, site ssa.Instruction, held LockSet, record bool) LockSet {
		if class, op, ok := e.mutexOp(cc); ok {
			switch op {
			case "Lock":
				if record {
					e.noteOrder(held, class+":W", fn, site, entry)
				}
				return held | e.classBit(class, 'W')
			case "RLock":
				if record {
					e.noteOrder(held, class+":R", fn, site, entry)
				}
				return held | e.classBit(class, 'R')
			case "Unlock":
				return held &^ e.classBit(class, 'W')
			case "RUnlock":
				return held &^ e.classBit(class, 'R')
			}
		}
		var callees []*ssa.Function
		if cc.IsInvoke() {
			callees = e.p.calleesOfInstr(site)
		} else if sc := cc.StaticCallee(); sc != nil {
			if e.p.inPkg(sc) && sc.Blocks != nil {
				callees = []*ssa.Function{sc}
			} else {
				// external: func args invoked synchronously keep the lockset
				for _, f := range syncFuncArgs(cc) {
					e.analyze(f, held, fn, site, entry)
				}
				return held
			}
		} else {
			callees = funcValues(cc.Value)
		}
		if len(callees) == 0 {
			return held
		}
		res := ^LockSet(0)
		for _, c := range callees {
			res &= e.analyze(c, held, fn, site, entry)
		}
		return res
	}

	final := false
	step := func(bi int) lsState {
		b := fn.Blocks[bi]
		st := in[bi]
		for _, ins := range b.Instrs {
			if final {
				ctx.before[ins] = st.held
			}
			switch x := ins.(type) {
			case *ssa.Defer:
				st.defs |= 1 << deferIx(x)
			case *ssa.Go:
				// new goroutine: analysed as a root elsewhere
			case *ssa.Call:
				if final {
					ctx.callHeld[x] = st.held
				}
				st.held = apply(&x.Call, x, st.held, final)
			case *ssa.RunDefers:
				for i := len(defers) - 1; i >= 0; i-- {
					if st.defs&(1<<uint(i)) != 0 {
						if final {
							ctx.callHeld[defers[i]] = st.held
						}
						st.held = apply(&defers[i].Call, defers[i], st.held, false)
					}
				}
			case *ssa.Return:
				if final {
					if !exitSet {
						exit = st.held
						exitSet = true
					} else {
						if exit != st.held {
							e.unbal = append(e.unbal, lockUnbal{fn, entry, fmt.Sprintf("returns with different locksets %s vs %s (entry %s)",
								e.String(exit), e.String(st.held), e.String(entry))})
						}
						exit &= st.held
					}
				}
			}
		}
		return st
	}
	for iter := 0; len(work) > 0 && iter < 100000; iter++ {
		bi := work[0]
		work = work[1:]
		delete(inWork, bi)
		if !in[bi].valid {
			continue
		}
		st := step(bi)
		out[bi] = st
		for _, s := range fn.Blocks[bi].Succs {
			ns := in[s.Index]
			var merged lsState
			if !ns.valid {
				merged = lsState{held: st.held, defs: st.defs, valid: true}
			} else {
				merged = lsState{held: ns.held & st.held, defs: ns.defs & st.defs, valid: true}
			}
			if merged != ns {
				in[s.Index] = merged
				if !inWork[s.Index] {
					inWork[s.Index] = true
					work = append(work, s.Index)
				}
			}
		}
	}
	final = true
	for bi := range fn.Blocks {
		if in[bi].valid {
			step(bi)
		}
	}
	if !exitSet {
		exit = entry
	}
	ctx.exit = exit
	ctx.done = true
	return exit
}

func (e *lockEngine) noteOrder(held LockSet, acq string, fn *ssa.Function, site ssa.Instruction, ctx LockSet) {
	if held == 0 {
		return
	}
	for i, c := range e.classes {
		if held&(1<<(2*uint(i))) != 0 {
			e.order = append(e.order, lockEdge{c + ":W", acq, fn, site, ctx})
		}
		if held&(1<<(2*uint(i)+1)) != 0 {
			e.order = append(e.order, lockEdge{c + ":R", acq, fn, site, ctx})
		}
	}
}

// Contexts returns the entry locksets fn was analysed with.
func (e *lockEngine) Contexts(fn *ssa.Function) []LockSet {
	var out []LockSet
	for k, c := range e.results[fn] {
		if c.live {
			out = append(out, k)
		}
	}
	sort.Slice(out, func(i, j int) bool { return out[i] < out[j] })
	return out
}

// HeldAt returns, per calling context, the lockset held just before in.
func (e *lockEngine) HeldAt(in ssa.Instruction) map[LockSet]LockSet {
	out := map[LockSet]LockSet{}
	for entry, c := range e.results[in.Parent()] {
		if ls, ok := c.before[in]; ok && c.live {
			out[entry] = ls
		}
	}
	return out
}

// Witness renders one call chain leading to (fn, ctx).
func (e *lockEngine) Witness(fn *ssa.Function, ctx LockSet) string {
	var parts []string
	for i := 0; i < 30 && fn != nil; i++ {
		c := e.results[fn][ctx]
		parts = append([]string{fmt.Sprintf("%s%s", e.p.FuncName(fn), e.String(ctx))}, parts...)
		if c == nil || c.fromFn == nil {
			break
		}
		fn, ctx = c.fromFn, c.fromCtx
	}
	return strings.Join(parts, " -> ")
}

// ChainHas reports whether the call chain that led to (fn, ctx) passes through
// a function satisfying pred (fn itself included).
func (e *lockEngine) ChainHas(fn *ssa.Function, ctx LockSet, pred func(*ssa.Function) bool) bool {
	for i := 0; i < 60 && fn != nil; i++ {
		if pred(fn) {
			return true
		}
		c := e.results[fn][ctx]
		if c == nil || c.fromFn == nil {
			return false
		}
		fn, ctx = c.fromFn, c.fromCtx
	}
	return false
}
