#!/bin/bash
# usage: saveref.sh <batch e.g. S06> — copy /tmp/wt/<batch>/REFACTORS/r*/ into variants/preserving/agents/<batch>-r<n>/ and analyse them
B=$1
for n in 1 2 3 4 5 6; do
  if [ -f /tmp/wt/$B/REFACTORS/r$n/patch.diff ]; then
    mkdir -p /verif/variants/preserving/agents/$B-r$n
    cp /tmp/wt/$B/REFACTORS/r$n/patch.diff /tmp/wt/$B/REFACTORS/r$n/notes.md /verif/variants/preserving/agents/$B-r$n/ 2>/dev/null
  fi
done
python3 /verif/tools/refmatrix.py $B- | grep -v "^[0-9]* of"
