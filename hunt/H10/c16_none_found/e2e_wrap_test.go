package sctp

import (
	"context"
	"fmt"
	"io"
	"strings"
	"sync"
	"testing"
	"time"

	"github.com/pion/logging"
	"github.com/pion/transport/v4/test"
)

func zzE2E(t *testing.T, tsn0, tsn1 uint32, interleave bool, ssnStart uint16) string {
	t.Helper()
	br := test.NewBridge()
	lf := logging.NewDefaultLoggerFactory()
	cfg0, err := buildClientConfig(Config{Name: "a0", NetConn: br.GetConn0(), LoggerFactory: lf}, WithEnableInterleaving(interleave))
	if err != nil {
		t.Fatal(err)
	}
	cfg1, err := buildServerConfig(Config{Name: "a1", NetConn: br.GetConn1(), LoggerFactory: lf}, WithEnableInterleaving(interleave))
	if err != nil {
		t.Fatal(err)
	}
	a0 := createAssociationFromConfigWithTsn(cfg0, tsn0)
	a1 := createAssociationFromConfigWithTsn(cfg1, tsn1)
	a1.initServer()
	a0.initClient()

	stop := make(chan struct{})
	var tickWG sync.WaitGroup
	tickWG.Add(1)
	go func() {
		defer tickWG.Done()
		for {
			select {
			case <-stop:
				return
			default:
			}
			br.Tick()
			time.Sleep(200 * time.Microsecond)
		}
	}()
	defer func() { close(stop); tickWG.Wait() }()

	for _, a := range []*Association{a1, a0} {
		select {
		case err := <-a.handshakeCompletedCh:
			if err != nil {
				t.Fatal(err)
			}
		case <-time.After(5 * time.Second):
			t.Fatal("handshake timeout")
		}
	}

	var out strings.Builder
	s0, _ := a0.OpenStream(1, PayloadTypeWebRTCBinary)
	s0.lock.Lock()
	s0.sequenceNumber = ssnStart
	s0.lock.Unlock()
	// peer's expectation must match the start value: create inbound stream up front
	a1.lock.Lock()
	p := a1.createStream(1, true)
	p.reassemblyQueue.nextSSN = ssnStart
	a1.lock.Unlock()
	s1, _ := a1.AcceptStream()

	// phase 1: 30 messages with some loss
	const n = 30
	done := make(chan struct{})
	go func() {
		defer close(done)
		buf := make([]byte, 70000)
		for i := 0; i < n; i++ {
			_ = s1.SetReadDeadline(time.Now().Add(8 * time.Second))
			k, err := s1.Read(buf)
			if err != nil {
				fmt.Fprintf(&out, "read err %v\n", err)

				return
			}
			fmt.Fprintf(&out, "rx %d:%d ", k, buf[0])
		}
	}()
	for i := 0; i < n; i++ {
		if i%7 == 3 {
			br.DropNextNWrites(0, 1)
		}
		msg := make([]byte, 1+(i*577)%4000)
		msg[0] = byte(i)
		if _, err := s0.Write(msg); err != nil {
			t.Fatal(err)
		}
		time.Sleep(2 * time.Millisecond)
	}
	select {
	case <-done:
	case <-time.After(10 * time.Second):
		t.Fatal("phase1 timeout")
	}
	out.WriteString("\n")
	// wait for acks
	for i := 0; i < 500 && a0.BufferedAmount() > 0; i++ {
		time.Sleep(5 * time.Millisecond)
	}
	a0.lock.RLock()
	a1.lock.RLock()
	fmt.Fprintf(&out, "a0: cum=%d next=%d infl=%d | a1: peerLast=%d qsize=%d\n",
		a0.cumulativeTSNAckPoint-tsn0, a0.myNextTSN-tsn0, a0.inflightQueue.size(), a1.peerLastTSN()-tsn0, a1.payloadQueue.size())
	a1.lock.RUnlock()
	a0.lock.RUnlock()

	// phase 2: reset
	_ = s0.Close()
	_ = s1.SetReadDeadline(time.Now().Add(5 * time.Second))
	_, err = s1.Read(make([]byte, 10))
	fmt.Fprintf(&out, "after reset read: %v\n", err)
	if err == io.EOF {
		_ = s1.Close()
	}
	time.Sleep(100 * time.Millisecond)
	a0.lock.RLock()
	fmt.Fprintf(&out, "a0 reconfigs=%d streams=%d rsn=%d\n", len(a0.reconfigs), len(a0.streams), a0.myNextRSN-tsn0)
	a0.lock.RUnlock()
	a1.lock.RLock()
	fmt.Fprintf(&out, "a1 reconfigs=%d reqs=%d streams=%d rsn=%d\n", len(a1.reconfigs), len(a1.reconfigRequests), len(a1.streams), a1.myNextRSN-tsn1)
	a1.lock.RUnlock()

	// phase 3: reopen & send one more, then graceful shutdown
	s0b, _ := a0.OpenStream(1, PayloadTypeWebRTCBinary)
	_, err = s0b.Write([]byte("again"))
	fmt.Fprintf(&out, "rewrite: %v\n", err)
	s1b, err := a1.AcceptStream()
	if err == nil {
		buf := make([]byte, 100)
		_ = s1b.SetReadDeadline(time.Now().Add(5 * time.Second))
		k, err := s1b.Read(buf)
		fmt.Fprintf(&out, "reread: %q %v\n", buf[:k], err)
	}
	ctx, cancel := context.WithTimeout(context.Background(), 5*time.Second)
	defer cancel()
	fmt.Fprintf(&out, "shutdown: %v\n", a0.Shutdown(ctx))
	select {
	case <-a1.readLoopCloseCh:
		out.WriteString("a1 closed\n")
	case <-time.After(5 * time.Second):
		out.WriteString("a1 NOT closed\n")
		_ = a1.Close()
	}
	_ = a0.Close()

	return out.String()
}

func TestZZE2EWrap(t *testing.T) {
	for _, il := range []bool{false, true} {
		ref := zzE2E(t, 1000, 2000, il, 0)
		t.Logf("ref (interleave=%v):\n%s", il, ref)
		for _, c := range [][2]uint32{{0xfffffff0, 0xfffffffa}, {0, 0}, {0xffffffff, 1}, {0xffffffd8, 0x7ffffff0}} {
			for _, ss := range []uint16{0, 0xfff0} {
				got := zzE2E(t, c[0], c[1], il, ss)
				if got != ref {
					t.Errorf("interleave=%v tsn=%#x/%#x ssn=%#x differs:\n%s", il, c[0], c[1], ss, got)
				}
			}
		}
	}
}
